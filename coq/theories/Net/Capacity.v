(* C07: a node never holds more qubits than its configured maximum, for every history of operations;
   configured capacities never change. *)
From Coq Require Import List Bool Arith Lia.
From SQ Require Import Base.ListUtil Stab.Tableau Net.Model.
Import ListNotations.

Definition cap_ok (nd : node) : Prop := length (virt nd) <= maxQ nd.
Definition cap_inv (s : net) : Prop := Forall cap_ok (nodes s).
Definition caps_of (s : net) : list (nat * nat) := map (fun nd => (maxQ nd, maxR nd)) (nodes s).

Lemma Forall_upd {A} (P : A -> Prop) l i x : Forall P l -> P x -> Forall P (upd l i x).
Proof.
  intros H Hx. revert i. induction H as [|a l Ha Hl IH]; intros [|i]; simpl; auto.
Qed.

Lemma map_upd_same {A B} (f : A -> B) l i x d : f x = f (nth i l d) -> map f (upd l i x) = map f l.
Proof.
  revert i. induction l as [|a l IH]; intros [|i] H; simpl in *; auto; f_equal; auto.
Qed.

Lemma cap_nth s i : cap_inv s -> cap_ok (nth_node s i).
Proof.
  intros H. unfold nth_node. destruct (Nat.ltb_spec i (length (nodes s))).
  - unfold cap_inv in H. rewrite Forall_forall in H. apply H. apply nth_In; auto.
  - rewrite nth_overflow by auto. unfold cap_ok; simpl; lia.
Qed.

Lemma cap_set s i nd : cap_inv s -> cap_ok nd -> cap_inv (set_node s i nd).
Proof. intros; unfold cap_inv, set_node; simpl. apply Forall_upd; auto. Qed.

Lemma caps_set s i nd :
  maxQ nd = maxQ (nth_node s i) -> maxR nd = maxR (nth_node s i) -> caps_of (set_node s i nd) = caps_of s.
Proof.
  intros H1 H2. unfold caps_of, set_node; simpl.
  apply map_upd_same with (d := empty_node 0 0). fold (nth_node s i). congruence.
Qed.

(* a step function on nets that keeps both facts *)
Definition keeps (f : net -> net) : Prop :=
  forall s, (cap_inv s -> cap_inv (f s)) /\ caps_of (f s) = caps_of s.

Lemma update_reg_at_keeps ni r : keeps (fun s => update_reg_at s ni r).
Proof.
  intros s; unfold update_reg_at; split.
  - intros H. apply cap_set; auto. pose proof (cap_nth s ni H) as Hn. unfold cap_ok in *; simpl; auto.
  - apply caps_set; reflexivity.
Qed.

Lemma filter_length_le {A} (f : A -> bool) l : length (filter f l) <= length l.
Proof. induction l; simpl; auto. destruct (f a); simpl; lia. Qed.

Lemma remove_sim_keeps ni x r c : keeps (fun s => remove_sim s ni x r c).
Proof.
  intros s; unfold remove_sim.
  destruct (measure _ _ _ _ _) as [[o n'] t'].
  split.
  - intros H. apply cap_set; auto. pose proof (cap_nth s ni H) as Hn.
    destruct (Nat.eqb n' 0); unfold cap_ok in *; simpl; auto.
  - apply caps_set; destruct (Nat.eqb n' 0); reflexivity.
Qed.

Lemma local_merge_keeps ni k1 k2 : keeps (fun s => local_merge s ni k1 k2).
Proof.
  intros s; unfold local_merge.
  destruct (find_reg k1 _) as [r1|]; [|split; auto].
  destruct (find_reg k2 _) as [r2|]; [|split; auto].
  split.
  - intros H. apply cap_set; auto. pose proof (cap_nth s ni H) as Hn. unfold cap_ok in *; simpl; auto.
  - apply caps_set; reflexivity.
Qed.

Lemma merge_from_keeps li oi simNum lk : keeps (fun s => fst (merge_from s li oi simNum lk)).
Proof.
  intros s; unfold merge_from.
  destruct (find_sq simNum _) as [x|]; [|split; auto].
  destruct (find_reg (s_reg x) _) as [orr|]; [|split; auto].
  set (on1 := mkNode _ _ _ _ _ _ _).
  set (s1 := set_node s oi on1).
  destruct (find_reg lk (regs (nth_node s1 li))) as [lr|]; [|split; auto].
  destruct (alloc_sims _ _ _ _) as [sims' ids]. simpl.
  assert (K1 : (cap_inv s -> cap_inv s1) /\ caps_of s1 = caps_of s).
  { split.
    - intros H. apply cap_set; auto. pose proof (cap_nth s oi H) as Hn. unfold cap_ok in *; simpl; auto.
    - apply caps_set; reflexivity. }
  destruct K1 as [K1 K1'].
  set (ln1 := mkNode _ _ _ _ _ _ _).
  assert (K2 : (cap_inv s1 -> cap_inv (set_node s1 li ln1)) /\ caps_of (set_node s1 li ln1) = caps_of s1).
  { split.
    - intros H. apply cap_set; auto. pose proof (cap_nth s1 li H) as Hn. unfold cap_ok in *; simpl; auto.
    - apply caps_set; reflexivity. }
  destruct K2 as [K2 K2'].
  split.
  - intros H. specialize (K2 (K1 H)). unfold cap_inv in *; simpl in *.
    rewrite Forall_map. eapply Forall_impl; [|exact K2].
    intros nd Hnd. unfold cap_ok in *; simpl. rewrite map_length; auto.
  - rewrite <- K1', <- K2'. unfold caps_of; simpl. rewrite map_map. apply map_ext. intros; reflexivity.
Qed.

Lemma apply_gate2_at_keeps ni k g c t : keeps (fun s => apply_gate2_at s ni k g c t).
Proof.
  intros s; unfold apply_gate2_at. destruct (find_reg k _) as [r|]; [|split; auto].
  apply update_reg_at_keeps.
Qed.

Lemma keeps_compose f g : keeps f -> keeps g -> keeps (fun s => g (f s)).
Proof.
  intros Hf Hg s. destruct (Hf s) as [A B]. destruct (Hg (f s)) as [C D]. split; auto. congruence.
Qed.

Lemma remove_vq_keeps vi h : keeps (fun s => set_node s vi (with_virt (nth_node s vi) (remove_vq h (virt (nth_node s vi))))).
Proof.
  intros s; split.
  - intros H. apply cap_set; auto. pose proof (cap_nth s vi H) as Hn. unfold cap_ok in *; simpl.
    unfold remove_vq. pose proof (filter_length_le (fun q => negb (Nat.eqb (v_hid q) h)) (virt (nth_node s vi))). lia.
  - apply caps_set; reflexivity.
Qed.

Lemma step_keeps o s : (cap_inv s -> cap_inv (fst (step s o))) /\ caps_of (fst (step s o)) = caps_of s.
Proof.
  destruct o; simpl.
  - (* new *)
    destruct (Nat.ltb_spec n (length (nodes s))); [|simpl; auto].
    unfold op_new. destruct (Nat.leb_spec (maxQ (nth_node s n)) (length (virt (nth_node s n)))); [simpl; auto|].
    unfold add_register. destruct (Nat.leb _ _); [simpl; auto|]. simpl. split.
    + intros Hc. unfold cap_inv; simpl. apply Forall_upd; auto. unfold cap_ok; simpl. rewrite app_length; simpl; lia.
    + unfold caps_of; simpl. apply map_upd_same with (d := empty_node 0 0). reflexivity.
  - (* gate1 *)
    unfold op_gate1. destruct (find_handle s h) as [[vi q]|]; [|simpl; auto].
    destruct (locate s q) as [[x r]|]; [|simpl; auto].
    destruct (gate1_of g); simpl; auto. apply (update_reg_at_keeps _ _ s).
  - (* gate2 *)
    unfold op_gate2.
    destruct (find_handle s h1) as [[vi q1]|]; [|simpl; auto].
    destruct (find_handle s h2) as [[vi2 q2]|]; [|simpl; auto].
    destruct (negb _); [simpl; auto|].
    destruct (Nat.eqb (v_simNode q1) (v_simNode q2)).
    + destruct (pos_of s _ (v_simNum q1)) as [k1 p1]. destruct (pos_of s _ (v_simNum q2)) as [k2 p2].
      destruct (Nat.eqb k1 k2).
      * destruct (Nat.eqb p1 p2); simpl; auto. apply (apply_gate2_at_keeps _ _ _ _ _ s).
      * destruct (pos_of _ _ _) as [a b]. destruct (pos_of _ _ _) as [a' b']. simpl.
        apply (keeps_compose _ _ (local_merge_keeps (v_simNode q1) k1 k2) (apply_gate2_at_keeps (v_simNode q1) k1 g b b') s).
    + destruct (Nat.eqb (v_simNode q1) vi).
      * destruct (pos_of _ _ _) as [k1 x].
        pose proof (merge_from_keeps vi (v_simNode q2) (v_simNum q2) k1 s) as HM; cbv beta in HM.
        destruct (merge_from _ _ _ _ _) as [s1 newT]. simpl in HM.
        destruct (pos_of _ _ _) as [a b]. destruct (pos_of _ _ _) as [a' b']. simpl.
        destruct (apply_gate2_at_keeps vi k1 g b b' s1) as [A B]. destruct HM as [C D]. split; auto. congruence.
      * destruct (Nat.eqb (v_simNode q2) vi).
        -- destruct (pos_of _ _ _) as [k2 x].
           pose proof (merge_from_keeps vi (v_simNode q1) (v_simNum q1) k2 s) as HM; cbv beta in HM.
           destruct (merge_from _ _ _ _ _) as [s1 newC]. simpl in HM.
           destruct (pos_of _ _ _) as [a b]. destruct (pos_of _ _ _) as [a' b']. simpl.
           destruct (apply_gate2_at_keeps vi k2 g b b' s1) as [A B]. destruct HM as [C D]. split; auto. congruence.
        -- unfold add_register_force.
           set (nd1 := mkNode _ _ _ _ _ _ _). set (r := mkReg _ _ _ _ _).
           assert (K0 : (cap_inv s -> cap_inv (set_node s vi nd1)) /\ caps_of (set_node s vi nd1) = caps_of s).
           { split.
             - intros H. apply cap_set; auto. pose proof (cap_nth s vi H) as Hn. unfold cap_ok in *; simpl; auto.
             - apply caps_set; reflexivity. }
           pose proof (merge_from_keeps vi (v_simNode q1) (v_simNum q1) (r_num r) (set_node s vi nd1)) as HM1; cbv beta in HM1.
           destruct (merge_from (set_node s vi nd1) _ _ _ _) as [s1 newC]. cbn [fst] in HM1.
           pose proof (merge_from_keeps vi (v_simNode q2) (v_simNum q2) (r_num r) s1) as HM2; cbv beta in HM2.
           destruct (merge_from s1 _ _ _ _) as [s2 newT]. cbn [fst] in HM2.
           destruct (pos_of _ _ _) as [a b]. destruct (pos_of _ _ _) as [a' b']. cbn [fst].
           destruct (apply_gate2_at_keeps vi (r_num r) g b b' s2) as [A B].
           destruct K0 as [K0 K0']. destruct HM1 as [C D]. destruct HM2 as [E F]. split; auto. congruence.
  - (* send *)
    unfold op_send. destruct (find_handle s h) as [[vi q]|]; [|simpl; auto].
    destruct (Nat.leb _ _); [simpl; auto|].
    destruct (Nat.leb_spec (maxQ (nth_node s target)) (length (virt (nth_node s target)))); [simpl; auto|].
    simpl.
    set (tn1 := with_virt _ _). set (s1 := mkNet _ _).
    assert (K1 : (cap_inv s -> cap_inv s1) /\ caps_of s1 = caps_of s).
    { split.
      - intros Hc. unfold cap_inv, s1; simpl. apply Forall_upd; auto. unfold cap_ok, tn1; simpl.
        rewrite app_length; simpl; lia.
      - unfold caps_of, s1; simpl. apply map_upd_same with (d := empty_node 0 0). reflexivity. }
    destruct (remove_vq_keeps vi h s1) as [A B]. destruct K1 as [C D]. split; auto. congruence.
  - (* meas *)
    unfold op_meas. destruct (find_handle s h) as [[vi q]|]; [|simpl; auto].
    destruct (locate s q) as [[x r]|]; [|simpl; auto].
    destruct (measure _ _ _ _ _) as [[o n1] t1].
    set (r1 := reg_with_tab r n1 t1).
    destruct (update_reg_at_keeps (v_simNode q) r1 s) as [A B].
    destruct inplace; simpl; auto.
    destruct (remove_sim_keeps (v_simNode q) x r1 coin (update_reg_at s (v_simNode q) r1)) as [C D].
    destruct (remove_vq_keeps vi h (remove_sim (update_reg_at s (v_simNode q) r1) (v_simNode q) x r1 coin)) as [E F].
    split; auto. congruence.
  - (* newreg *)
    destruct (Nat.ltb_spec n (length (nodes s))); [|simpl; auto].
    unfold op_newreg. destruct (Nat.leb _ _); [simpl; auto|]. simpl. split.
    + intros Hc. unfold cap_inv; simpl. apply Forall_upd; auto.
      pose proof (cap_nth s n Hc) as Hn. unfold cap_ok in *; simpl; auto.
    + unfold caps_of; simpl. apply map_upd_same with (d := empty_node 0 0). reflexivity.
  - (* newinreg *)
    destruct (Nat.ltb_spec n (length (nodes s))); [|simpl; auto].
    unfold op_new_inreg. destruct (negb _); [simpl; auto|].
    destruct (Nat.leb_spec (maxQ (nth_node s n)) (length (virt (nth_node s n)))); [simpl; auto|].
    destruct (find_reg _ _) as [r|]; [|simpl; auto].
    destruct (Nat.leb _ _); [simpl; auto|]. simpl. split.
    + intros Hc. unfold cap_inv; simpl. apply Forall_upd; auto. unfold cap_ok; simpl. rewrite app_length; simpl; lia.
    + unfold caps_of; simpl. apply map_upd_same with (d := empty_node 0 0). reflexivity.
Qed.

Lemma run_keeps ops : forall s, (cap_inv s -> cap_inv (run s ops)) /\ caps_of (run s ops) = caps_of s.
Proof.
  induction ops as [|o ops IH]; intros s; simpl; auto.
  destruct (step_keeps o s) as [A B]. destruct (IH (fst (step s o))) as [C D]. split; auto. congruence.
Qed.

Lemma init_cap caps : cap_inv (init_net caps) /\ caps_of (init_net caps) = caps.
Proof.
  split.
  - unfold cap_inv, init_net; simpl. rewrite Forall_map. apply Forall_forall. intros; unfold cap_ok; simpl; lia.
  - unfold caps_of, init_net; simpl. rewrite map_map. simpl. rewrite <- (map_id caps) at 2. apply map_ext. intros [a b]; auto.
Qed.

(* every node of every reachable state holds at most its configured maximum *)
Theorem held_le_configured_max caps ops i :
  i < length caps ->
  length (virt (nth_node (run (init_net caps) ops) i)) <= fst (nth i caps (0, 0)).
Proof.
  intros Hi. destruct (init_cap caps) as [A B]. destruct (run_keeps ops (init_net caps)) as [C D].
  pose proof (cap_nth _ i (C A)) as Hc. unfold cap_ok in Hc.
  assert (E : maxQ (nth_node (run (init_net caps) ops) i) = fst (nth i caps (0, 0))).
  { rewrite B in D. clear - D. revert D. generalize (run (init_net caps) ops) as s. intros s D.
    subst caps. unfold caps_of.
    change (0, 0) with ((fun nd => (maxQ nd, maxR nd)) (empty_node 0 0)). rewrite map_nth. reflexivity. }
  lia.
Qed.
