(* C02 — qubit conservation and bookkeeping integrity at every quiescent point (Model V).
   `reachable s` = s is the state after ANY list of operations (failed ones included) on ANY network. *)
From Coq Require Import List Bool Arith Permutation.
From SQ Require Import Base.ListUtil Net.Model Net.Refusal Net.Handles Net.Inv Net.InvStep Net.Bookkeeping Net.Population.
Import ListNotations.

(* the full inductive invariant (Net/Inv.v: node_ok for every node, backing bijection, ghost identities) *)
Theorem C02_invariant_every_reachable_state : forall caps ops, ginv (run (init_net caps) ops).
Proof. exact reachable_inv. Qed.
Print Assumptions C02_invariant_every_reachable_state.

Theorem C02_invariant_inductive : forall s o, ginv s -> ginv (fst (step s o)).
Proof. exact step_ginv. Qed.
Print Assumptions C02_invariant_inductive.

(* each held qubit is backed by exactly one simulated qubit that really exists at the node it names as simulator *)
Theorem C02_held_is_backed : forall s i q, reachable s -> In q (virt (nth_node s i)) ->
  v_simNode q < length (nodes s) /\
  exists x, In x (sims (nth_node s (v_simNode q))) /\ s_simNum x = v_simNum q /\
            (forall x', In x' (sims (nth_node s (v_simNode q))) -> s_simNum x' = v_simNum q -> x' = x).
Proof. exact held_is_backed. Qed.
Print Assumptions C02_held_is_backed.

(* no simulated qubit backs two held qubits ... *)
Theorem C02_backing_injective : forall s i j q q', reachable s ->
  In q (virt (nth_node s i)) -> In q' (virt (nth_node s j)) ->
  v_simNode q = v_simNode q' -> v_simNum q = v_simNum q' -> i = j /\ q = q'.
Proof. exact backing_injective. Qed.
Print Assumptions C02_backing_injective.

(* ... or none *)
Theorem C02_backing_onto : forall s j x, reachable s -> In x (sims (nth_node s j)) ->
  exists i q, In q (virt (nth_node s i)) /\ v_simNode q = j /\ v_simNum q = s_simNum x.
Proof. exact backing_onto. Qed.
Print Assumptions C02_backing_onto.

(* the positions of the simulated qubits of each register are exactly 0..k-1 for a register of size k *)
Theorem C02_positions_exact : forall s i r, reachable s -> In r (regs (nth_node s i)) ->
  Permutation (positions (nth_node s i) (r_num r)) (seq 0 (r_n r)).
Proof. exact positions_exact. Qed.
Print Assumptions C02_positions_exact.

(* qubit identifiers are unique per node *)
Theorem C02_ids_unique_per_node : forall s i, reachable s ->
  NoDup (map v_num (virt (nth_node s i))) /\ NoDup (map s_simNum (sims (nth_node s i))) /\
  NoDup (map r_num (regs (nth_node s i))).
Proof. exact ids_unique_per_node. Qed.
Print Assumptions C02_ids_unique_per_node.

(* population: creating adds exactly one ... *)
Theorem C02_create_adds_one : forall s n v j, snd (step s (ONew n)) = Ok v ->
  held (fst (step s (ONew n))) j = if Nat.eqb j n then S (held s j) else held s j.
Proof. exact held_new. Qed.
Print Assumptions C02_create_adds_one.

(* ... also when the qubit is created inside an existing register (remote_new_qubit_inreg); creating a register creates no qubit ... *)
Theorem C02_create_in_register_adds_one : forall s n ow k v j, snd (step s (ONewInReg n ow k)) = Ok v ->
  held (fst (step s (ONewInReg n ow k))) j = if Nat.eqb j n then S (held s j) else held s j.
Proof. exact held_new_inreg. Qed.
Print Assumptions C02_create_in_register_adds_one.
Theorem C02_create_register_keeps_population : forall s n mq j, held (fst (step s (ONewReg n mq))) j = held s j.
Proof. exact held_newreg. Qed.
Print Assumptions C02_create_register_keeps_population.

(* ... destructive measurement removes exactly one ... *)
Theorem C02_destructive_measure_removes_one : forall s h c v vi q j,
  hid_inv s -> find_handle s h = Some (vi, q) -> snd (step s (OMeas h false c)) = Ok v ->
  held (fst (step s (OMeas h false c))) j = if Nat.eqb j vi then held s j - 1 else held s j.
Proof. exact held_meas_destructive. Qed.
Print Assumptions C02_destructive_measure_removes_one.

(* ... sending moves exactly one from sender to receiver ... *)
Theorem C02_send_moves_one : forall s h t v vi q j,
  hid_inv s -> find_handle s h = Some (vi, q) -> vi <> t -> snd (step s (OSend h t)) = Ok v ->
  held (fst (step s (OSend h t))) j =
  if Nat.eqb j vi then held s j - 1 else if Nat.eqb j t then S (held s j) else held s j.
Proof. exact held_send. Qed.
Print Assumptions C02_send_moves_one.

(* ... and nothing else changes the population of any node: gates, in-place measurements, and every operation
   that does not return a value (refused, ignored) *)
Theorem C02_gate2_keeps_population : forall s h1 h2 g j, held (fst (step s (OGate2 h1 h2 g))) j = held s j.
Proof. exact held_gate2. Qed.
Print Assumptions C02_gate2_keeps_population.
Theorem C02_gate1_keeps_population : forall s h g j, held (fst (step s (OGate1 h g))) j = held s j.
Proof. exact held_gate1. Qed.
Print Assumptions C02_gate1_keeps_population.
Theorem C02_inplace_measure_keeps_population : forall s h c j, held (fst (step s (OMeas h true c))) j = held s j.
Proof. exact held_meas_inplace. Qed.
Print Assumptions C02_inplace_measure_keeps_population.
Theorem C02_unsuccessful_keeps_population : forall s o j,
  (forall v, snd (step s o) <> Ok v) -> held (fst (step s o)) j = held s j.
Proof. exact held_unchanged_unless_ok. Qed.
Print Assumptions C02_unsuccessful_keeps_population.

(* registers are never empty at a quiescent point, and a node keeps at most as many registers as it simulates qubits -- for every
   history WITHOUT the client operation remote_add_register (`reachable_core`: any list of the other six operations, failed ones
   included): that operation creates an empty register on purpose *)
From SQ Require Import Net.NonEmpty.
Theorem C02_registers_nonempty : forall s i r, reachable_core s -> In r (regs (nth_node s i)) -> 0 < r_n r.
Proof. exact registers_nonempty. Qed.
Print Assumptions C02_registers_nonempty.
Theorem C02_registers_le_sims : forall s i, reachable_core s -> length (regs (nth_node s i)) <= length (sims (nth_node s i)).
Proof. exact registers_le_sims. Qed.
Print Assumptions C02_registers_le_sims.
(* the extra hypothesis is needed: one remote_add_register leaves an empty register on a node that holds nothing *)
Theorem C02_registers_nonempty_needs_core_refuted :
  exists s, reachable s /\ (forall i, virt (nth_node s i) = []) /\
            exists r, In r (regs (nth_node s 0)) /\ r_n r = 0 /\ numRegs (nth_node s 0) = 1.
Proof. exact nonempty_needs_core_refuted. Qed.
Print Assumptions C02_registers_nonempty_needs_core_refuted.
(* what holds for ALL histories: when no node holds a qubit, no simulated qubit is left and every remaining register is empty *)
Theorem C02_nothing_held_only_empty_registers : forall s, reachable s -> (forall i, virt (nth_node s i) = []) ->
  forall i, sims (nth_node s i) = [] /\ (forall r, In r (regs (nth_node s i)) -> r_n r = 0).
Proof. exact nothing_held_only_empty_registers. Qed.
Print Assumptions C02_nothing_held_only_empty_registers.
