"""Pair creations that fail (and, for contrast, succeed) between in-process NetQASM hosts, message by message.

Used by props/c11.py (oracle `failed_pair_leak` + the correspondence of EprGate.cmd_epr_keep / TeardownNet.nstep_r with the real
handler, Qasm/EprCases.v).  A scenario = capacities of 2-3 nodes + what the creator's application does:
    init; `pre` local allocations (the creator holds other qubits before and after); ONE request of one pair (create-and-keep or
    measure-directly) towards node 1; [the receiver claims the half]; [a gate + measurement on a qubit allocated before]; stop.
Kinds of request:
    receiver-full          the receiving node holds as many qubits as it may: the hand-over is refused (noQubitError) AFTER both
                           temporaries exist
    room-for-one           the creator's node has room for one more qubit: the second cmd_new is refused (noQubitError)
    register-for-one       the same through the register limit (quantumError)
    room-for-none / register-for-none   the first cmd_new is refused: nothing was created
    md-rotation            measure-directly with a rotation: AssertionError after both temporaries exist (oracle only)
    not-adjacent           refused by the topology check before anything is created (C12); here for the host's bookkeeping: the
                           physical id reserved for the pair is released again
    ok                     the request succeeds (the model must agree there too)
Measure-directly requests (type M) carry the two bases the creator is to sample (`md`: basis sets NONE / XZ / XYZ per side, 8-bit
weights written into the request array as props/c08.py does, and the seed that makes executioner.py's `random.choices` -- replaced
by a seeded `random.Random` -- return exactly these bases; rotations stay 0) and the coins of the two destructive measurements.
A request that succeeds may be followed by a second one of the other type on the same sockets (`then`), claimed in order by
the receiver either at once or after both were made (`late_claim`: the half and the outcome record then wait in ONE deque).
Every message is handled to completion before the next one is sent, so a scenario is a deterministic list of records:
what the host replied, every native call (tap), the dump of all nodes, the handling host's bookkeeping, the receive deques.
"""
import random

import common
import net_run as R
import net_sync as N
import qasm_epr as EP
import qasm_run as QR
import qasm_sync as Q

FAILING = ("receiver-full", "room-for-one", "register-for-one", "room-for-none", "register-for-none", "md-rotation", "not-adjacent")


def node_counts(net):
    return [(len(n.virtQubits), len(n.simQubits), len(n.registers), n.numRegs) for n in net.nodes]


def pend_dump(net):
    """receive deques: (node, socket, entries); an entry is the virtual number of a delivered half, or the raw entanglement
    information of a measure-directly pair (tuple) when the entry carries no qubit"""
    out = []
    for i, n in enumerate(net.nodes):
        for sock, dq in sorted(n.qubit_recv_epr.items()):
            if len(dq):
                out.append((i, sock, [x.virt_num if x.virt_num is not None else tuple(x.rawEntInfo) for x in dq]))
    return out


BASIS_SETS = {"Z": ("NONE", "XZ", "XYZ"), "X": ("XZ", "XYZ"), "Y": ("XYZ",)}
WEIGHTS = {"NONE": (0, 0), "XZ": (128, 0), "XYZ": (85, 85)}


def sample_bases(rb, probs, rng):
    """the bases executioner.py's _sample_basis_choice draws for (local, remote) from `rng`: NONE -> Z without a draw,
    XZ -> choices([X, Z], [p1, 256 - p1]), XYZ -> choices([X, Y, Z], [p1, p2, 256 - p1 - p2])"""
    out = ""
    for side, (p1, p2) in zip(rb, (probs[:2], probs[2:])):
        if side == "NONE":
            out += "Z"
        elif side == "XZ":
            out += rng.choices("XZ", [p1, 256 - p1])[0]
        else:
            out += rng.choices("XYZ", [p1, p2, 256 - p1 - p2])[0]
    return out


def make_md(bases="ZZ", rb=None, mcoins=(0, 0)):
    """a measure-directly request whose creator samples `bases` (local, remote): basis sets, weights and the generator seed"""
    rb = list(rb) if rb else [BASIS_SETS[b][-1] for b in bases]
    assert all(r in BASIS_SETS[b] for r, b in zip(rb, bases)), (bases, rb)
    probs = list(WEIGHTS[rb[0]]) + list(WEIGHTS[rb[1]])
    seed = next(sd for sd in range(5000) if sample_bases(rb, probs, random.Random(sd)) == bases)
    return {"bases": bases, "rb": rb, "probs": probs, "seed": seed, "mcoins": [int(c) for c in mcoins]}


def make(kind, typ="K", pre=0, recv_local=0, coins=(1, 0), n_nodes=2, pb=False, after=True, slack=2, md=None, socks=(0, 0), then=None,
         late_claim=False):
    """capacities are derived from the kind: (qubits, registers) per node"""
    big = 10
    cq, cr = pre + 2 + slack, big
    rq, rr = recv_local + 1 + slack, big
    if kind == "receiver-full":
        rq = recv_local
    elif kind == "room-for-one":
        cq = pre + 1
    elif kind == "room-for-none":
        cq = pre
    elif kind == "register-for-one":
        cr = pre + 1
    elif kind == "register-for-none":
        cr = pre
    caps = [(cq, cr), (rq, rr)] + [(3, big)] * (n_nodes - 2)
    if kind != "ok" or then == typ:
        then = None
    if then == "M":
        caps[0] = (caps[0][0] + 1, caps[0][1])          # the kept half stays while the two temporaries of the second request exist
    return {"kind": kind, "type": typ, "pre": pre, "recv_local": recv_local, "coins": [int(c) for c in coins], "caps": caps,
            "pb": pb, "after": bool(after and pre), "topology": {"N0": [], "N1": ["N0"]} if kind == "not-adjacent" else None,
            "md": (md or make_md()) if "M" in (typ, then) else None, "socks": [int(socks[0]), int(socks[1])], "then": then,
            "late_claim": bool(late_claim and then)}


def fixed_scenarios():
    """the replay of the former finding first, then the variants the property text asks for"""
    out = [make("receiver-full", pre=0, slack=2, after=False)]
    out[0]["caps"] = [(4, 10), (0, 10)]                         # exactly the witness of known_findings.json
    out += [make("room-for-one", pre=0), make("room-for-one", typ="M", pre=0), make("room-for-one", pre=1),
            make("receiver-full", pre=2, coins=(0, 1)), make("receiver-full", pre=1, recv_local=1, coins=(1, 1)),
            make("md-rotation", typ="M", pre=1), make("register-for-one", pre=1), make("room-for-none", pre=1),
            make("register-for-none", pre=0), make("receiver-full", pre=1, pb=True), make("room-for-one", pre=1, pb=True),
            make("not-adjacent", pre=1), make("ok", pre=1), make("ok", typ="M", pre=1), make("ok", pre=0, n_nodes=3), make("ok", pre=2, pb=True)]
    # measure-directly: all nine pairs of sampled bases, both coins, all three basis sets for Z; a second request of the other type
    # behind / in front of it in the same deque; distinct socket ids; over the real PB; the failing variants with the cleanup
    k = 0
    for bl in "ZXY":
        for br in "ZXY":
            rb = [BASIS_SETS[bl][k % len(BASIS_SETS[bl])], BASIS_SETS[br][(k // 2) % len(BASIS_SETS[br])]]
            out.append(make("ok", typ="M", pre=k % 2, md=make_md(bl + br, rb=rb, mcoins=(k % 2, (k // 3) % 2)), socks=[(0, 0), (1, 2), (2, 1)][k % 3],
                            then=[None, "K", None, "K"][k % 4], late_claim=k % 8 == 3, pb=k == 4, recv_local=1 if k == 7 else 0, slack=k % 3))
            k += 1
    out += [make("ok", typ="K", pre=1, then="M", md=make_md("XY", mcoins=(1, 1)), late_claim=True, socks=(1, 0)),
            make("ok", typ="K", pre=0, then="M", md=make_md("YY", mcoins=(0, 1))),
            make("room-for-one", typ="M", pre=1, md=make_md("XX"), coins=(1,)), make("register-for-one", typ="M", pre=0, md=make_md("YZ")),
            make("room-for-none", typ="M", pre=1, md=make_md("ZX")), make("not-adjacent", typ="M", pre=0, md=make_md("XZ")),
            make("md-rotation", typ="M", pre=0, md=make_md("ZZ", rb=["XYZ", "XZ"]))]
    return out


def random_scenario(rng):
    kind = rng.choice(["receiver-full", "receiver-full", "room-for-one", "room-for-one", "register-for-one", "room-for-none",
                       "register-for-none", "md-rotation", "not-adjacent", "ok", "ok"])
    typ = "M" if kind == "md-rotation" else rng.choice(["K", "M"])
    if kind == "receiver-full":
        typ = "K"                        # a measure-directly request hands no qubit over
    bases = rng.choice("ZXY") + rng.choice("ZXY")
    md = make_md(bases, rb=[rng.choice(BASIS_SETS[b]) for b in bases], mcoins=(rng.randrange(2), rng.randrange(2)))
    return make(kind, typ=typ, pre=rng.randrange(0, 3), recv_local=rng.randrange(0, 2), coins=(rng.randrange(2), rng.randrange(2)),
                n_nodes=rng.choice([2, 2, 3]), pb=rng.random() < 0.2, after=rng.random() < 0.7, slack=rng.randrange(0, 3), md=md,
                socks=rng.choice([(0, 0), (0, 0), (1, 2), (2, 0)]), then=rng.choice([None, None, "K", "M"]), late_claim=rng.random() < 0.5)


def run(env, sc):
    """runs the scenario on the real hosts; returns {"sc", "records", "base", "net"}"""
    from netqasm.sdk.shared_memory import SharedMemoryManager
    SharedMemoryManager.reset_memories()
    env.clock.stopped = False
    caps = sc["caps"]
    names = ["N%d" % i for i in range(len(caps))]
    if sc["pb"]:
        import net_pb
        net = net_pb.make_pb_network(env, names, [c[0] for c in caps], [c[1] for c in caps])
    else:
        net = N.make_network(env, names, [c[0] for c in caps], [c[1] for c in caps])
    Q.make_hosts(env, net, pb_local=sc["pb"])
    for h in net.hosts:
        h.factory.topology = sc.get("topology")
    pre, typ, kind = sc["pre"], sc["type"], sc["kind"]
    recv_app = sc["recv_local"] > 0 or kind == "ok"
    md = sc.get("md")
    ls, rs = sc.get("socks", [0, 0])
    types = [typ] + ([sc["then"]] if sc.get("then") else [])

    def creator(conn, eprs):
        from netqasm.sdk.qubit import Qubit
        from netqasm.qlink_compat import RandomBasis
        qs = [Qubit(conn) for _ in range(pre)]
        if qs:
            conn.flush()
        for tp in types:
            if tp == "K":
                eprs[0].create_keep(1)
            else:
                EP.NEXT_PROBS[0] = list(md["probs"])
                kw = {"rotations_local": (1, 0, 0)} if kind == "md-rotation" else {}
                eprs[0].create_measure(1, random_basis_local=RandomBasis[md["rb"][0]], random_basis_remote=RandomBasis[md["rb"][1]], **kw)
            conn.flush()
        if sc["after"]:
            qs[0].H()
            qs[0].measure()
            conn.flush()

    def receiver(conn, eprs):
        from netqasm.sdk.qubit import Qubit
        qs = [Qubit(conn) for _ in range(sc["recv_local"])]
        if qs:
            conn.flush()
        if kind == "ok":
            for tp in types:
                if tp == "K":
                    eprs[0].recv_keep(1)
                else:
                    eprs[0].recv_measure(1)
                conn.flush()
    maxq = pre + 2
    cm = EP.sdk_messages(names, "N0", 0, [("N1", ls, rs)], creator, max_qubits=maxq)
    rm = EP.sdk_messages(names, "N1", 0, [("N0", rs, ls)], receiver, max_qubits=sc["recv_local"] + 1) if recv_app else []

    def split(ms):
        subs = [m for m in ms if type(m).__name__ == "SubroutineMessage"]
        return ([m for m in ms if type(m).__name__ in ("InitNewAppMessage", "OpenEPRSocketMessage")], subs,
                [m for m in ms if type(m).__name__ == "StopAppMessage"])
    c_head, c_subs, c_stop = split(cm)
    r_head, r_subs, r_stop = split(rm)
    plan = []                                              # (host, message, role)
    plan += [(1, m, "head") for m in r_head]
    if sc["recv_local"]:
        plan.append((1, r_subs[0], "recv-pre"))
    plan += [(0, m, "head") for m in c_head]
    k = 0
    if pre:
        plan.append((0, c_subs[0], "pre"))
        k = 1
    creates = [(0, c_subs[k + j], "create" if j == 0 else "create2") for j in range(len(types))]
    claims = [(1, r_subs[len(r_subs) - len(types) + j], "claim" if j == 0 else "claim2") for j in range(len(types))] if kind == "ok" else []
    if sc.get("late_claim"):
        plan += creates + claims
    else:
        for j in range(len(types)):
            plan += creates[j:j + 1] + claims[j:j + 1]
    if sc["after"]:
        plan.append((0, c_subs[k + len(types)], "after"))
    plan += [(0, m, "stop") for m in c_stop] + [(1, m, "stop") for m in r_stop]
    base = node_counts(net)
    records = []
    coins_all = sc["coins"]
    for (h, m, role) in plan:
        tap0 = len(env.tap)
        tp = types[1 if role.endswith("2") else 0] if role.startswith("c") else None
        coins = [0] * 8
        if role == "create":
            coins = list(coins_all)
        if role in ("create", "create2") and tp == "M":
            if kind == "ok":
                coins = list(md["mcoins"])           # the two destructive measurements of the pair
            # executioner.py's `random` (basis choice): a seeded generator whose first draws are the bases of this request
            env.E.random = random.Random(md["seed"])
        Q.script_coins(env, coins, tap0)
        before = {"counts": node_counts(net), "host": Q.host_dump(net, net.hosts[h])}
        out = EP.run_concurrently(env, net, {h: [m]}, random.Random(1))
        Q.script_coins(env, None, 0)
        (mm, rep, esc) = out[h][0]
        records.append({"host": h, "role": role, "msg": type(m).__name__, "wire": m, "replies": rep, "escaped": [str(e)[:200] for e in esc],
                        "calls": Q.tap_summary(net, env, tap0), "counts": node_counts(net), "dump": N.dump(net),
                        "hostdump": Q.host_dump(net, net.hosts[h]), "pend": pend_dump(net), "before": before, "coins": coins, "type": tp})
    return {"sc": sc, "records": records, "base": base, "net": net}


# ------------------------------------------------------------------------------------------------------------------------------
# oracle: the property on the implementation's behaviour alone
# ------------------------------------------------------------------------------------------------------------------------------
def describe(sc):
    md = sc.get("md")

    def req(tp):
        if tp == "K":
            return "create_keep(1)"
        return ("create_measure(1%s, basis sets %s/%s with weights %r, generator seed %d -> sampled bases %s, coins %r)"
                % (", rotations_local=(1,0,0)" if sc["kind"] == "md-rotation" else "", md["rb"][0], md["rb"][1], md["probs"], md["seed"], md["bases"], md["mcoins"]))
    reqs = req(sc["type"]) + (" then " + req(sc["then"]) if sc.get("then") else "")
    return ("nodes (qubits, registers) %r%s%s; N0: init, %d local qubit(s), %s with N1 on sockets %r%s%s, StopApp%s"
            % (sc["caps"], " over real PB" if sc["pb"] else "", ", topology %r" % sc["topology"] if sc.get("topology") else "", sc["pre"], reqs,
               tuple(sc.get("socks", (0, 0))), " (N1 claims after both requests)" if sc.get("late_claim") else "",
               ", H + measure on the first local qubit" if sc["after"] else "",
               "; N1 holds %d local qubit(s)" % sc["recv_local"] if sc["recv_local"] else ""))


def judge(run_):
    """list of problems {kind, what}.  For a request that must fail: it answers an error and a completion reply; AFTER THE FAILED
    REQUEST every node's (held, simulated, registers, register counter) are what they were BEFORE the request; later messages
    complete; after the creator's StopApp its node is back at what it held
    before the application started.  For a request that must succeed: no error anywhere, and the same final condition once
    both applications have stopped."""
    sc, recs = run_["sc"], run_["records"]
    P = []
    failing = sc["kind"] in FAILING
    for r in recs:
        done = bool(r["replies"]) and r["replies"][-1][0] == "done"
        err = ("err", 0) in r["replies"]
        if r["escaped"] or not done:
            P.append({"kind": "message-not-completed", "what": "%s (%s) at node %d: replies %r, escaped %r" % (r["msg"], r["role"], r["host"], r["replies"], r["escaped"])})
            break
        if r["role"] == "create":
            if failing and not err:
                P.append({"kind": "no-error", "what": "the request cannot be served but answered %r" % (r["replies"],)})
                break
            if failing:
                b, a = r["before"], r
                # the property speaks about qubits and registers; the host's own bookkeeping (qubitList ids, used physical ids) is
                # shown for diagnosis and compared by the correspondence with the model
                if a["counts"] != b["counts"]:
                    P.append({"kind": "epr-temporaries",
                              "what": "the failed request left something behind: node counts (held, sims, regs, numRegs) %r -> %r, creator's qubitList ids %r -> %r, "
                                      "used physical ids %r -> %r" % (b["counts"], a["counts"], sorted(b["host"]["qlist"]), sorted(a["hostdump"]["qlist"]),
                                                                    b["host"]["used"], a["hostdump"]["used"])})
                    break
            elif err:
                P.append({"kind": "spurious-error", "what": "a request that can be served answered %r" % (r["replies"],)})
                break
        elif err:
            P.append({"kind": "later-message-failed", "what": "%s (%s) at node %d answered %r" % (r["msg"], r["role"], r["host"], r["replies"])})
            break
        # a successful pair may still be simulated at the creator's node while the peer holds its half: only the held count then
        if r["role"] == "stop" and (r["counts"][r["host"]] != run_["base"][r["host"]] if failing else r["counts"][r["host"]][0] != 0):
            P.append({"kind": "epr-temporaries" if failing else "population",
                      "what": "after StopApp node %d holds (held, sims, regs, numRegs) = %r instead of %r; qubitList ids %r"
                              % (r["host"], r["counts"][r["host"]], run_["base"][r["host"]], sorted(run_["net"].hosts[r["host"]].factory.qubitList))})
            break
    if not P and recs and recs[-1]["counts"] != run_["base"]:
        P.append({"kind": "epr-temporaries" if failing else "population",
                  "what": "every application has stopped but the nodes hold %r instead of %r" % (recs[-1]["counts"], run_["base"])})
    return P


def replay_obj(run_):
    sc = run_["sc"]
    return {"scenario": {k: sc.get(k) for k in ("kind", "type", "pre", "recv_local", "coins", "caps", "pb", "after", "topology", "md", "socks", "then", "late_claim")},
            "program": describe(sc),
            "messages": [{"node": r["host"], "role": r["role"], "message": r["msg"], "replies": r["replies"],
                          "native_calls": [(c["method"], c["hid"], c["status"], str(c["value"])) for c in r["calls"]],
                          "counts_after": r["counts"], "qubitList_ids": sorted(r["hostdump"]["qlist"]), "used_ids": r["hostdump"]["used"],
                          "receive_deques": [(n, k, [list(x) if isinstance(x, tuple) else x for x in es]) for n, k, es in r["pend"]]}
                         for r in run_["records"]]}


# ------------------------------------------------------------------------------------------------------------------------------
# correspondence with Qasm/EprCases.v
# ------------------------------------------------------------------------------------------------------------------------------
def modelled(sc):
    """everything but a measure-directly request with a rotation (refused by an assertion the model has no input for)"""
    return sc["kind"] != "md-rotation"


BCOQ = {"Z": "BZ", "X": "BX", "Y": "BY"}


def cmrec(raw):
    """raw LinkLayerOKTypeM tuple (type, create_id, outcome, basis, directionality, sequence number, purpose id, remote node id,
    goodness, bell state) -> Coq mrec; anything that is not a well-formed OK_M record becomes a record the model never produces"""
    raw = list(raw)
    if len(raw) != 10 or raw[0] != 1 or raw[8] != 1 or raw[9] != 0 or raw[3] not in (0, 1, 2) or any((not isinstance(v, int)) or v < 0 for v in raw):
        return "(mkMrec 99 BZ 99 99 99 99)"
    return "(mkMrec %d %s %d %d %d %d)" % (raw[2], ("BZ", "BX", "BY")[raw[3]], raw[5], raw[4], raw[7], raw[6])


def mrecs_of(replies):
    """the measure-directly records among the arrays a message returned (OK_FIELDS values, none undefined, type OK_M = 1)"""
    out = []
    for r in replies:
        if r[0] == "arr" and len(r[2]) == EP.OK_FIELDS and None not in r[2] and r[2][0] == 1:
            out.append(tuple(r[2]))
    return out


def acts_of(run_, r):
    """host-level actions (Coq syntax) a message amounts to"""
    sc = run_["sc"]
    h, role = r["host"], r["role"]
    known = "[" + ";".join(str(i) for i in range(len(sc["caps"]))) + "]"
    ls, rs = sc.get("socks", [0, 0])
    md = sc.get("md")
    if r["msg"] == "InitNewAppMessage":
        return ["EA (AInstr %d (QInitApp 0 %d))" % (h, r["wire"].max_qubits)]
    if r["msg"] == "OpenEPRSocketMessage":
        return []
    if role in ("pre", "recv-pre"):
        n = sc["pre"] if role == "pre" else sc["recv_local"]
        out = []
        for a in range(n):
            out += ["EA (AInstr %d (QAlloc 0 %d))" % (h, a), "EA (AInstr %d (QInit 0 %d f))" % (h, a)]
        return out
    if role in ("create", "create2"):
        adj = "f" if sc["kind"] == "not-adjacent" else "t"
        cleanup = common.cblist(sc["coins"] if role == "create" else [])
        if r["type"] == "K":
            return ["EK %d (ACreate 0 0 %d %s 1 %s %d %s)" % (ls, sc["pre"], known, adj, rs, cleanup)]
        return ["EM 0 %s 1 %s %d %d %s %s %s %s %s" % (known, adj, ls, rs, BCOQ[md["bases"][0]], BCOQ[md["bases"][1]],
                                                      common.cbool(md["mcoins"][0]), common.cbool(md["mcoins"][1]), cleanup)]
    if role in ("claim", "claim2"):          # the receiver's local socket is the creator's remote socket
        return ["EA (ARecv 1 0 %d %d)" % (sc["recv_local"], rs)]
    if role == "after":          # the SDK's measure() frees the qubit afterwards
        return ["EA (AInstr 0 (QG1 0 0 VH))", "EA (AInstr 0 (QMeas 0 0 f))", "EA (AInstr 0 (QFree 0 0 f))"]
    if role == "stop":
        n = sum(1 for c in r["calls"] if c["method"] == "measure")
        return ["EA (AInstr %d (QStopApp 0 %s))" % (h, common.cblist([0] * n))]
    raise ValueError(role)


def ccall_epr(calls, n_names):
    """tap records -> (op, out) list in Model V vocabulary.  get_virt_num / netqasm_get_epr_recv are lookups, not operations of
    Model V: the first names the handle the following hand-over is about; anything else unknown stays a call the model never makes"""
    out = []
    last_hid = None
    for c in calls:
        m = c["method"]
        if m == "get_virt_num":
            last_hid = c["hid"]
            continue
        if m == "netqasm_get_epr_recv":
            continue
        if m == "netqasm_send_epr_half" and c["args"] and c["args"][0] is None and c["status"] == "ok":
            continue             # the outcome record of a measure-directly pair: no qubit; compared through the deque dump
        if m == "netqasm_send_epr_half" and c["args"] and c["args"][0] is not None and last_hid is not None:
            tgt = c["args"][1]
            ti = int(tgt[1:]) if isinstance(tgt, str) and tgt[1:].isdigit() else 9999
            if c["status"] == "ok":
                res = "OkNone"
            elif c["status"] == "err":
                res = "Err " + R.KIND.get(c["value"], "KCrash")
            else:
                res = "Err KCrash"
            out.append("(OSend %d %d, %s)" % (last_hid, ti, res))
            last_hid = None
            continue
        out.append(QR.ccall(c))
    return out


def cpend(p):
    return "[" + ";".join("(%d,%d,[%s])" % (n, s, ";".join("QM " + cmrec(x) if isinstance(x, tuple) else "QK %d" % x for x in es)) for n, s, es in p) + "]"


def csession(run_):
    sc = run_["sc"]
    caps = "[" + ";".join("(%d,%d)" % tuple(c) for c in sc["caps"]) + "]"
    msgs = []
    for r in run_["records"]:
        acts = acts_of(run_, r)
        err = ("err", 0) in r["replies"]
        done = bool(r["replies"]) and r["replies"][-1][0] == "done"
        fin = 2 if not done else (1 if err else 0)
        msgs.append("(%d, [%s], %d, [%s], %s, %s, %s, [%s])" % (r["host"], "; ".join(acts), fin, "; ".join(ccall_epr(r["calls"], len(sc["caps"]))),
                                                                R.cdump(r["dump"]), QR.chost(r["hostdump"]), cpend(r["pend"]),
                                                                "; ".join(cmrec(x) for x in mrecs_of(r["replies"]))))
    return "(%s,\n [%s])" % (caps, ";\n  ".join(msgs))


def cases_text(runs):
    return (common.CASE_HEADER + "From SQ Require Import Base.ListUtil Stab.Tableau Net.Model Net.Cases Qasm.Exec Qasm.Cases Qasm.Epr Qasm.EprGate "
            "Qasm.TeardownNet Qasm.EprCases.\n"
            "Definition cases : list (list (nat * nat) * list demsg) := [\n" + ";\n".join(csession(r) for r in runs) + "\n].\n"
            "Eval vm_compute in (map check_esession cases).\n")


def correspond(ctx, runs, shard=12):
    """Coq decides model = implementation for every message of every modelled scenario; returns [(run, message index)]"""
    runs = [r for r in runs if modelled(r["sc"])]
    shards = [runs[i:i + shard] for i in range(0, len(runs), shard)]
    res = common.coq_eval_many([cases_text(sh) for sh in shards])
    bad, okall = [], True
    for sh, (ok, out) in zip(shards, res):
        lists = common.parse_nat_lists(out) if ok else []
        if not ok or len(lists) != 1 or len(lists[0]) != len(sh):
            ctx.obligation("correspondence (pair creation, Qasm/EprCases.v) evaluates in Coq", False, out[-1500:])
            okall = False
            continue
        for r, v in zip(sh, lists[0]):
            if v != 0:
                bad.append((r, v - 1))
    nfail = sum(1 for r in runs if r["sc"]["kind"] in FAILING)
    nmsg = sum(len(r["records"]) for r in runs)
    detail = ""
    if bad:
        r, i = bad[0]
        rec = r["records"][i]
        detail = "first disagreement: scenario %s, message %d (%s at node %d): replies %r, native calls %r" % (
            describe(r["sc"]), i, rec["role"], rec["host"], rec["replies"], [(c["method"], c["hid"], c["status"], str(c["value"])) for c in rec["calls"]])
    nmd = sum(1 for r in runs for m in r["records"] if m.get("type") == "M" and m["role"].startswith("create") and r["sc"]["kind"] == "ok")
    ctx.obligation("correspondence EprGate.cmd_epr_keep / cmd_epr_measure / TeardownNet.nstep_r vs the real cmd_epr / cmd_epr_recv: model = implementation "
                   "(ending, every native call and result incl. basis rotations, the destructive measurements of measure-directly pairs with their coins "
                   "and the removal of the temporaries, dump of all nodes, host bookkeeping, receive deques incl. queued outcome records, the "
                   "measure-directly records returned to both hosts) after every one of %d messages in %d scenarios (%d with a request that fails, "
                   "%d successful measure-directly pairs)" % (nmsg, len(runs), nfail, nmd), okall and not bad, detail)
    return bad
