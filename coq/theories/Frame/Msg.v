(* Model F, part 2: wire layouts of the netqasm 2.3.0 message classes (netqasm/backend/messages.py) as the
   ctypes structures really lay them out on this platform.  NB the classes say `_pack = 1`, which ctypes ignores
   (the attribute is `_pack_`), so the structures have natural alignment: 3 padding bytes after the type byte and
   after a trailing u8.  Signed c_int32 fields are kept as their raw unsigned 32-bit value.

   host -> node   (deserialize_host_msg, messages.py:198-208)
     INIT_NEW_APP    00 p p p | app_id:u32 | max_qubits:u8 p p p                                    12 bytes
     OPEN_EPR_SOCKET 01 p p p | app_id:u32 | epr_socket_id:i32 | remote_node_id:i32 |
                                remote_epr_socket_id:i32 | min_fidelity:u8 p p p                    24 bytes
     SUBROUTINE      02 | subroutine bytes ... (everything that follows)                            1 + n bytes
     STOP_APP        03 p p p | app_id:u32                                                          8 bytes
     SIGNAL          04 | signal:u8                                                                 2 bytes
   node -> host   (deserialize_return_msg, messages.py:347-357)
     DONE            00 p p p | msg_id:u32                                                          8 bytes
     ERR             01 | err_code:u8                                                               2 bytes
     RET_ARR         02 | address:i32 | length:i32 | length x (type:u8 p p p | value:i32)           9 + 8n bytes
     RET_REG         03 | register:u8 p p | value:i32                                               8 bytes
   `from_buffer_copy` accepts a longer buffer (uses a prefix) and raises ValueError on a shorter one; an unknown
   type byte raises ValueError (Enum lookup); the empty buffer raises ValueError.  `None` below = ValueError. *)
From Coq Require Import List NArith Arith Lia Bool.
From SQ Require Import Frame.Bytes.
Import ListNotations.
Open Scope N_scope.

Definition at_ (i : nat) (l : bytes) : N := nth i l 0.
Definition rd32_at (i : nat) (l : bytes) : N :=
  rd32 (at_ i l) (at_ (i + 1) l) (at_ (i + 2) l) (at_ (i + 3) l).

Lemma at_app_l i (b d : bytes) : (i < length b)%nat -> at_ i (b ++ d) = at_ i b.
Proof. intro H. unfold at_. apply app_nth1; assumption. Qed.

Lemma rd32_at_app_l i (b d : bytes) : (i + 3 < length b)%nat -> rd32_at i (b ++ d) = rd32_at i b.
Proof. intro H. unfold rd32_at. rewrite !at_app_l by lia. reflexivity. Qed.

(* ---------------------------------------------------------------------------------------------- host messages *)
Inductive hostmsg :=
| HInit (app mq : N)
| HEpr (app eid node reid fid : N)
| HSub (body : bytes)
| HStop (app : N)
| HSignal (s : N).

Definition ser (m : hostmsg) : bytes :=
  match m with
  | HInit a q => [0; 0; 0; 0] ++ le32 a ++ [q; 0; 0; 0]
  | HEpr a e n r f => [1; 0; 0; 0] ++ le32 a ++ le32 e ++ le32 n ++ le32 r ++ [f; 0; 0; 0]
  | HSub b => 2 :: b
  | HStop a => [3; 0; 0; 0] ++ le32 a
  | HSignal s => [4; s]
  end.

Definition deser (raw : bytes) : option hostmsg :=
  match raw with
  | [] => None
  | t :: rest =>
      if t =? 0 then
        if (12 <=? length raw)%nat then Some (HInit (rd32_at 4 raw) (at_ 8 raw)) else None
      else if t =? 1 then
        if (24 <=? length raw)%nat
        then Some (HEpr (rd32_at 4 raw) (rd32_at 8 raw) (rd32_at 12 raw) (rd32_at 16 raw) (at_ 20 raw))
        else None
      else if t =? 2 then Some (HSub rest)
      else if t =? 3 then
        if (8 <=? length raw)%nat then Some (HStop (rd32_at 4 raw)) else None
      else if t =? 4 then
        if (2 <=? length raw)%nat then Some (HSignal (at_ 1 raw)) else None
      else None
  end.

Definition wf_host (m : hostmsg) : Prop :=
  match m with
  | HInit a q => u32_ok a /\ byte_ok q
  | HEpr a e n r f => u32_ok a /\ u32_ok e /\ u32_ok n /\ u32_ok r /\ byte_ok f
  | HSub b => True
  | HStop a => u32_ok a
  | HSignal s => byte_ok s
  end.

Definition is_sub (m : hostmsg) : bool := match m with HSub _ => true | _ => false end.

Definition hostmsg_eqb (a b : hostmsg) : bool :=
  match a, b with
  | HInit a1 q1, HInit a2 q2 => (a1 =? a2) && (q1 =? q2)
  | HEpr a1 e1 n1 r1 f1, HEpr a2 e2 n2 r2 f2 =>
      (a1 =? a2) && (e1 =? e2) && (n1 =? n2) && (r1 =? r2) && (f1 =? f2)
  | HSub b1, HSub b2 => bytes_eqb b1 b2
  | HStop a1, HStop a2 => a1 =? a2
  | HSignal s1, HSignal s2 => s1 =? s2
  | _, _ => false
  end.

Lemma rd32_at_le32 (pre : bytes) v (post : bytes) i :
  u32_ok v -> length pre = i -> rd32_at i (pre ++ le32 v ++ post) = v.
Proof.
  intros Hv <-. unfold rd32_at, at_.
  rewrite (@app_nth2 N pre (le32 v ++ post) 0 (length pre)) by lia.
  rewrite (@app_nth2 N pre (le32 v ++ post) 0 (length pre + 1)) by lia.
  rewrite (@app_nth2 N pre (le32 v ++ post) 0 (length pre + 2)) by lia.
  rewrite (@app_nth2 N pre (le32 v ++ post) 0 (length pre + 3)) by lia.
  replace (length pre - length pre)%nat with 0%nat by lia.
  replace (length pre + 1 - length pre)%nat with 1%nat by lia.
  replace (length pre + 2 - length pre)%nat with 2%nat by lia.
  replace (length pre + 3 - length pre)%nat with 3%nat by lia.
  simpl. apply rd32_le32; assumption.
Qed.

(* deserialising a serialised message followed by anything: fixed-size messages ignore the tail,
   SUBROUTINE swallows it (this is what makes the unsliced `buf[8:]` of the current parser wrong) *)
Definition absorb (m : hostmsg) (tail : bytes) : hostmsg :=
  match m with HSub b => HSub (b ++ tail) | _ => m end.

Lemma deser_ser_app m tail : wf_host m -> deser (ser m ++ tail) = Some (absorb m tail).
Proof.
  destruct m as [a q|a e n r f|b|a|s]; simpl; intro H.
  - destruct H as [Ha Hq].
    f_equal. f_equal.
    apply (rd32_at_le32 [0;0;0;0] a (q :: 0 :: 0 :: 0 :: tail) 4 Ha eq_refl).
  - destruct H as (Ha & He & Hn & Hr & Hf).
    f_equal. f_equal.
    + apply (rd32_at_le32 [0;0;0;0] a (le32 e ++ le32 n ++ le32 r ++ f :: 0 :: 0 :: 0 :: tail) 4 Ha eq_refl).
    + apply (rd32_at_le32 ([0;0;0;0] ++ le32 a) e (le32 n ++ le32 r ++ f :: 0 :: 0 :: 0 :: tail) 8 He eq_refl).
    + apply (rd32_at_le32 ([0;0;0;0] ++ le32 a ++ le32 e) n (le32 r ++ f :: 0 :: 0 :: 0 :: tail) 12 Hn eq_refl).
    + apply (rd32_at_le32 ([0;0;0;0] ++ le32 a ++ le32 e ++ le32 n) r (f :: 0 :: 0 :: 0 :: tail) 16 Hr eq_refl).
  - reflexivity.
  - f_equal. f_equal. apply (rd32_at_le32 [0;0;0;0] a tail 4 H eq_refl).
  - reflexivity.
Qed.

Lemma deser_ser m : wf_host m -> deser (ser m) = Some m.
Proof.
  intro H. rewrite <- (app_nil_r (ser m)). rewrite deser_ser_app by assumption.
  destruct m; simpl; try reflexivity. rewrite app_nil_r. reflexivity.
Qed.

Lemma deser_some_nonempty raw m : deser raw = Some m -> raw <> [].
Proof. destruct raw; simpl; intros H; congruence. Qed.

(* -------------------------------------------------------------------------------------------- return messages *)
Inductive retmsg :=
| RDone (id : N)
| RErr (c : N)
| RReg (reg v : N)
| RArr (addr : N) (vals : list N).

(* one OptionalInt entry as ReturnArrayMessage.__bytes__ writes it for an integer value *)
Definition enc_val (v : N) : bytes := [1; 0; 0; 0] ++ le32 v.

Definition enc_ret (m : retmsg) : bytes :=
  match m with
  | RDone id => [0; 0; 0; 0] ++ le32 id
  | RErr c => [1; c]
  | RReg r v => [3; r; 0; 0] ++ le32 v
  | RArr a vs => [2] ++ le32 a ++ le32 (N.of_nat (length vs)) ++ flat_map enc_val vs
  end.

(* the `values` of a deserialised array: the type byte and the padding of every entry are ignored *)
Fixpoint rd_vals (n : nat) (body : bytes) : list N :=
  match n with
  | O => []
  | S k => rd32_at 4 body :: rd_vals k (skipn 8 body)
  end.

(* ReturnArrayMessage.deserialize_from on raw[1:] *)
Definition parse_arr (rest : bytes) : option retmsg :=
  if (8 <=? length rest)%nat then
    let n := rd32_at 4 rest in
    if 2147483648 <=? n then None                          (* negative c_int32: "Array length must be >= 0" *)
    else if blen (skipn 8 rest) <? 8 * n then None          (* "Buffer size too small" *)
    else Some (RArr (rd32_at 0 rest) (rd_vals (N.to_nat n) (skipn 8 rest)))
  else None.

(* deserialize_return_msg; None = ValueError (which _handle_reply takes for "incomplete") *)
Definition parse_ret (raw : bytes) : option retmsg :=
  match raw with
  | [] => None
  | t :: rest =>
      if t =? 0 then
        if (8 <=? length raw)%nat then Some (RDone (rd32_at 4 raw)) else None
      else if t =? 1 then
        if (2 <=? length raw)%nat then Some (RErr (at_ 1 raw)) else None
      else if t =? 2 then parse_arr rest
      else if t =? 3 then
        if (8 <=? length raw)%nat then Some (RReg (at_ 1 raw) (rd32_at 4 raw)) else None
      else None
  end.

(* len(ret_msg) = len(bytes(ret_msg)) of the re-serialised object: what _handle_reply cuts off the buffer *)
Definition ret_len (m : retmsg) : nat :=
  match m with
  | RDone _ => 8 | RErr _ => 2 | RReg _ _ => 8 | RArr _ vs => 9 + 8 * length vs
  end%nat.

Definition wf_ret (m : retmsg) : Prop :=
  match m with
  | RDone id => u32_ok id
  | RErr c => byte_ok c
  | RReg r v => byte_ok r /\ u32_ok v
  | RArr a vs => u32_ok a /\ Forall u32_ok vs /\ N.of_nat (length vs) < 2147483648
  end.

Fixpoint nlist_eqb (a b : list N) : bool :=
  match a, b with
  | [], [] => true
  | x :: a', y :: b' => (x =? y) && nlist_eqb a' b'
  | _, _ => false
  end.

Definition retmsg_eqb (a b : retmsg) : bool :=
  match a, b with
  | RDone x, RDone y => x =? y
  | RErr x, RErr y => x =? y
  | RReg r1 v1, RReg r2 v2 => (r1 =? r2) && (v1 =? v2)
  | RArr a1 v1, RArr a2 v2 => (a1 =? a2) && nlist_eqb v1 v2
  | _, _ => false
  end.

Lemma ret_len_enc m : length (enc_ret m) = ret_len m.
Proof.
  destruct m as [id|c|r v|a vs]; simpl; try reflexivity.
  f_equal. f_equal. f_equal. f_equal. f_equal. f_equal. f_equal. f_equal. f_equal.
  induction vs as [|x vs IH]; simpl; [reflexivity|]. rewrite IH. lia.
Qed.

Lemma flat_enc_val_length vs : length (flat_map enc_val vs) = (8 * length vs)%nat.
Proof. induction vs as [|x vs IH]; simpl; [reflexivity|]. rewrite IH. lia. Qed.

Lemma rd_vals_enc vs tail : Forall u32_ok vs -> rd_vals (length vs) (flat_map enc_val vs ++ tail) = vs.
Proof.
  induction 1 as [|x vs Hx Hvs IH]; [reflexivity|].
  cbn [length rd_vals flat_map]. f_equal.
  - unfold enc_val. rewrite <- !app_assoc.
    apply (rd32_at_le32 [1;0;0;0] x (flat_map enc_val vs ++ tail) 4 Hx eq_refl).
  - simpl. exact IH.
Qed.

Lemma parse_arr_enc a vs tail : u32_ok a /\ Forall u32_ok vs /\ N.of_nat (length vs) < 2147483648 ->
  parse_arr ((le32 a ++ le32 (N.of_nat (length vs)) ++ flat_map enc_val vs) ++ tail) = Some (RArr a vs).
Proof.
  intros (Ha & Hvs & Hn).
  assert (Hn' : u32_ok (N.of_nat (length vs))) by (unfold u32_ok; lia).
  rewrite <- !app_assoc.
  set (body := flat_map enc_val vs ++ tail).
  unfold parse_arr.
  assert (EL : (8 <=? length (le32 a ++ le32 (N.of_nat (length vs)) ++ body))%nat = true).
  { apply Nat.leb_le. rewrite !app_length, !le32_length. lia. }
  rewrite EL.
  rewrite (rd32_at_le32 (le32 a) (N.of_nat (length vs)) body 4 Hn' eq_refl).
  pose proof (rd32_at_le32 [] a (le32 (N.of_nat (length vs)) ++ body) 0 Ha eq_refl) as E0.
  change ([] ++ le32 a ++ le32 (N.of_nat (length vs)) ++ body)
    with (le32 a ++ le32 (N.of_nat (length vs)) ++ body) in E0.
  rewrite E0.
  assert (Es : skipn 8 (le32 a ++ le32 (N.of_nat (length vs)) ++ body) = body) by reflexivity.
  rewrite Es.
  destruct (N.leb_spec 2147483648 (N.of_nat (length vs))) as [Hc|Hc]; [lia|].
  destruct (N.ltb_spec (blen body) (8 * N.of_nat (length vs))) as [Hc2|Hc2].
  { unfold body in Hc2. rewrite blen_app in Hc2. unfold blen in Hc2. rewrite flat_enc_val_length in Hc2. lia. }
  rewrite Nat2N.id. unfold body. rewrite (rd_vals_enc vs tail Hvs). reflexivity.
Qed.

Lemma parse_enc_ret m tail : wf_ret m -> parse_ret (enc_ret m ++ tail) = Some m.
Proof.
  destruct m as [id|c|r v|a vs]; simpl; intro H.
  - f_equal. f_equal. apply (rd32_at_le32 [0;0;0;0] id tail 4 H eq_refl).
  - reflexivity.
  - destruct H as [Hr Hv]. f_equal. f_equal.
    apply (rd32_at_le32 [3;r;0;0] v tail 4 Hv eq_refl).
  - apply parse_arr_enc; assumption.
Qed.
