(* Proofs about Model Z (Noise/Decide.v). No axioms: Q, Z, lia/lra on Q only. *)
From Coq Require Import QArith ZArith Bool List Lia Lqa.
From SQ Require Import Base.ListUtil Stab.Pauli Stab.Kernels Stab.Tableau Stab.Gates Noise.Decide.
Import ListNotations.
Local Open Scope Q_scope.

Lemma Qltb_lt a b : Qltb a b = true <-> a < b.
Proof. unfold Qltb, Qlt. apply Z.ltb_lt. Qed.
Lemma Qltb_ge a b : Qltb a b = false <-> b <= a.
Proof. unfold Qltb, Qle. rewrite Z.ltb_ge. reflexivity. Qed.
Lemma Qleb_le a b : Qleb a b = true <-> a <= b.
Proof. unfold Qleb, Qle. apply Z.leb_le. Qed.

Lemma Qltb_reflect a b : reflect (a < b) (Qltb a b).
Proof.
  destruct (Qltb a b) eqn:E; constructor.
  - apply Qltb_lt; auto.
  - apply Qltb_ge in E. lra.
Qed.

Ltac qcases :=
  repeat match goal with
  | |- context [Qltb ?a ?b] => destruct (Qltb_reflect a b)
  | H : context [Qltb ?a ?b] |- _ => destruct (Qltb_reflect a b)
  end.

(* ---------- noise off ---------------------------------------------------------------------------- *)
Lemma no_noise_identity_lemma : forall p x,
  decide false p x = None /\
  (forall n num t, noise_step false p x n num t = t) /\
  (forall last now1 now2, idle_update false last now1 now2 = (None, last)).
Proof. intros; repeat split. Qed.

Lemma no_noise_thr : forall t1 t2 t3 x, decide_thr false t1 t2 t3 x = None.
Proof. reflexivity. Qed.

(* ---------- the three branches --------------------------------------------------------------------- *)
Lemma decide_X p x : decide true p x = Some PX <-> x < p.
Proof. unfold decide, decide_thr; simpl negb; cbv iota. qcases; split; intro H; try discriminate; try lra; auto. Qed.

Lemma decide_Y p x : decide true p x = Some PY <-> p <= x /\ x < 2 * p.
Proof. unfold decide, decide_thr; simpl negb; cbv iota. qcases; split; intro H; try discriminate; try lra; auto. Qed.

Lemma decide_Z p x : decide true p x = Some PZ <-> 2 * p <= x /\ x < 3 * p.
Proof. unfold decide, decide_thr; simpl negb; cbv iota. qcases; split; intro H; try discriminate; try lra; auto. Qed.

Lemma decide_None p x : 0 <= p -> (decide true p x = None <-> 3 * p <= x).
Proof. intro Hp. unfold decide, decide_thr; simpl negb; cbv iota. qcases; split; intro H; try discriminate; try lra; auto. Qed.

Lemma decide_never_I noisy p x : decide noisy p x <> Some PI.
Proof. unfold decide, decide_thr. destruct noisy; simpl; qcases; discriminate. Qed.

(* full statement: intervals [0,p) [p,2p) [2p,3p), pairwise disjoint, inside [0,1), each of length p *)
Lemma branches_lemma : forall p x, 0 <= p -> p <= 1 # 4 -> 0 <= x ->
  (decide true p x = Some PX <-> 0 <= x /\ x < p) /\
  (decide true p x = Some PY <-> p <= x /\ x < 2 * p) /\
  (decide true p x = Some PZ <-> 2 * p <= x /\ x < 3 * p) /\
  (decide true p x = None <-> 3 * p <= x) /\
  (* inside [0,1) *)
  (decide true p x <> None -> 0 <= x /\ x < 1) /\
  (* the three intervals have length p *)
  (p - 0 == p /\ 2 * p - p == p /\ 3 * p - 2 * p == p) /\
  (* and are pairwise disjoint *)
  (~ (x < p /\ p <= x) /\ ~ (x < 2 * p /\ 2 * p <= x) /\ ~ (x < p /\ 2 * p <= x)).
Proof.
  intros p x Hp Hq Hx.
  split; [rewrite decide_X; intuition|].
  split; [apply decide_Y|].
  split; [apply decide_Z|].
  split; [apply decide_None; auto|].
  split.
  - intro Hn. split; auto.
    destruct (Qlt_le_dec x (3 * p)) as [L|L]; [lra|].
    exfalso. apply Hn. apply decide_None; auto.
  - repeat split; try lra.
Qed.

(* the hypothesis 0 <= p matters: with a negative p a draw x >= 3p still selects a Pauli *)
Example branches_needs_nonneg : 3 * (-1 # 1) <= (-2 # 1) /\ decide true (-1 # 1) (-2 # 1) = Some PX.
Proof. split; [discriminate | reflexivity]. Qed.
Example branches_nontrivial :
  decide true (1 # 5) (1 # 10) = Some PX /\ decide true (1 # 5) (3 # 10) = Some PY /\
  decide true (1 # 5) (1 # 2) = Some PZ /\ decide true (1 # 5) (7 # 10) = None /\
  decide true (1 # 5) (1 # 5) = Some PY /\ decide true (1 # 5) (3 # 5) = None.
Proof. repeat split. Qed.

(* the float code on thresholds (p, fl(2p), fl(3p)) and the real reading differ at most on x between 3p and fl(3p) *)
Lemma decide_thr_vs_decide : forall p p3 x,
  decide_thr true p (2 * p) p3 x <> decide true p x ->
  (p3 <= x /\ x < 3 * p) \/ (3 * p <= x /\ x < p3).
Proof.
  intros p p3 x. unfold decide, decide_thr; simpl negb; cbv iota.
  qcases; intro H; try (exfalso; apply H; reflexivity); lra.
Qed.

(* ---------- uniform draws: each Pauli gets exactly the share p ------------------------------------------ *)
(* N equally spaced draws k/N; with p = m/N and 3m <= N exactly m of them select X, m select Y, m select Z *)
Definition draw (N k : nat) : Q := Z.of_nat k # Pos.of_nat N.
Definition count_sel (o : option pauli) (p : Q) (N : nat) : nat :=
  length (filter (fun k => opt_pauli_eqb (decide true p (draw N k)) o) (seq 0 N)).

Lemma count_range (a b N : nat) : (a <= b)%nat -> (b <= N)%nat ->
  length (filter (fun k => Nat.leb a k && Nat.ltb k b) (seq 0 N)) = (b - a)%nat.
Proof.
  intros Hab HbN.
  assert (G : forall len s, length (filter (fun k => Nat.leb a k && Nat.ltb k b) (seq s len)) =
                            (Nat.min b (s + len) - Nat.max a s)%nat).
  { induction len as [|len IH]; intros s; simpl.
    - lia.
    - destruct (Nat.leb_spec a s); destruct (Nat.ltb_spec s b); simpl; rewrite IH; lia. }
  rewrite G. lia.
Qed.

Lemma draw_lt (N k m : nat) : (0 < N)%nat -> (draw N k < draw N m <-> (k < m)%nat).
Proof.
  intros HN. unfold draw, Qlt; simpl.
  rewrite <- Z.mul_lt_mono_pos_r by lia. lia.
Qed.
Lemma draw_le (N k m : nat) : (0 < N)%nat -> (draw N k <= draw N m <-> (k <= m)%nat).
Proof.
  intros HN. unfold draw, Qle; simpl.
  rewrite <- Z.mul_le_mono_pos_r by lia. lia.
Qed.
Lemma draw_scale (N m c : nat) : inject_Z (Z.of_nat c) * draw N m == draw N (c * m).
Proof.
  unfold draw, Qeq, Qmult, inject_Z; simpl. rewrite Nat2Z.inj_mul. lia.
Qed.

Lemma opt_pauli_eqb_spec a b : opt_pauli_eqb a b = true <-> a = b.
Proof.
  destruct a as [x|], b as [y|]; simpl; try (split; intro H; (discriminate || reflexivity)).
  rewrite pauli_eqb_spec. split; intro H; [subst|injection H]; auto.
Qed.

Lemma count_sel_range (o : option pauli) (N m a b : nat) :
  (a <= b)%nat -> (b <= N)%nat ->
  (forall k, (k < N)%nat -> decide true (draw N m) (draw N k) = o <-> (a <= k < b)%nat) ->
  count_sel o (draw N m) N = (b - a)%nat.
Proof.
  intros Hab HbN H. unfold count_sel.
  rewrite (filter_ext_in _ (fun k => Nat.leb a k && Nat.ltb k b)).
  - apply count_range; auto.
  - intros k Hk. apply in_seq in Hk. apply Bool.eq_iff_eq_true.
    rewrite opt_pauli_eqb_spec, H by lia.
    rewrite andb_true_iff, Nat.leb_le, Nat.ltb_lt. reflexivity.
Qed.

Lemma uniform_share_lemma : forall N m : nat, (0 < N)%nat -> (3 * m <= N)%nat ->
  count_sel (Some PX) (draw N m) N = m /\
  count_sel (Some PY) (draw N m) N = m /\
  count_sel (Some PZ) (draw N m) N = m /\
  count_sel None (draw N m) N = (N - 3 * m)%nat.
Proof.
  intros N m HN Hm.
  assert (E2 : 2 * draw N m == draw N (2 * m)) by (apply (draw_scale N m 2)).
  assert (E3 : 3 * draw N m == draw N (3 * m)) by (apply (draw_scale N m 3)).
  assert (P0 : 0 <= draw N m) by (unfold draw, Qle; simpl; lia).
  repeat split.
  - rewrite (count_sel_range (Some PX) N m 0 m); try lia.
    intros k Hk. rewrite decide_X, draw_lt by auto. lia.
  - rewrite (count_sel_range (Some PY) N m m (2 * m)); try lia.
    intros k Hk. rewrite decide_Y, E2, draw_lt, draw_le by auto. lia.
  - rewrite (count_sel_range (Some PZ) N m (2 * m) (3 * m)); try lia.
    intros k Hk. rewrite decide_Z, E2, E3, draw_lt, draw_le by auto. lia.
  - rewrite (count_sel_range None N m (3 * m) N); try lia.
    intros k Hk. rewrite decide_None, E3, draw_le by auto. lia.
Qed.

Example uniform_share_example :
  count_sel (Some PX) (draw 20 3) 20 = 3%nat /\ count_sel None (draw 20 3) 20 = 11%nat.
Proof. split; reflexivity. Qed.

(* ---------- that qubit only ------------------------------------------------------------------------- *)
(* A Pauli kernel at position num leaves every X/Z bit of every generator unchanged; the sign of a
   generator flips exactly when its Pauli at num anticommutes with the applied Pauli.  In particular the
   result depends on, and differs from the input only through, position num. *)
Definition noise_row (P : pauli) (n num : nat) (r : row) : row :=
  match P with
  | PX => apply_X_row n num r | PY => apply_Y_row n num r | PZ => apply_Z_row n num r | PI => r
  end.

Lemma apply_noise_map o n num t :
  apply_noise o n num t = match o with None => t | Some P => map (noise_row P n num) t end.
Proof.
  destruct o as [[| | |]|]; simpl; auto. rewrite map_id; auto.
Qed.

Lemma noise_row_spec : forall P n num r, wf_row n r -> (num < n)%nat ->
  length (noise_row P n num r) = length r /\
  (forall j, (j < 2 * n)%nat -> get (noise_row P n num r) j = get r j) /\
  get (noise_row P n num r) (2 * n) = xorb (get r (2 * n)) (anticomm1 P (pauli_at n r num)).
Proof.
  intros P n num r Hwf Hn. unfold wf_row in Hwf.
  assert (HL : (2 * n <? length r)%nat = true) by (apply Nat.ltb_lt; lia).
  destruct P; unfold noise_row, apply_X_row, apply_Y_row, apply_Z_row, pauli_at, anticomm1;
    (split; [rewrite ?flip_if_length; auto|split;
      [intros j Hj; rewrite ?get_flip_if; destruct (Nat.eqb_spec (2 * n) j); try lia; auto
      | rewrite ?get_flip_if, ?HL, ?Nat.eqb_refl;
        generalize (get r (2 * n)); intro s;
        destruct (get r num), (get r (num + n)), s; reflexivity ]]).
Qed.

Lemma only_that_qubit_lemma : forall o n num t, (num < n)%nat -> Forall (wf_row n) t ->
  length (apply_noise o n num t) = length t /\
  forall i, (i < length t)%nat ->
    let r := nth i t [] in let r' := nth i (apply_noise o n num t) [] in
    snd (decode n r') = snd (decode n r) /\
    fst (decode n r') = xorb (fst (decode n r))
                             (match o with Some P => anticomm1 P (nth num (snd (decode n r)) PI) | None => false end).
Proof.
  intros o n num t Hn Hwf. rewrite apply_noise_map.
  destruct o as [P|].
  - split; [apply map_length|]. intros i Hi r r'.
    assert (Er : r' = noise_row P n num r).
    { unfold r', r. rewrite (nth_indep _ [] (noise_row P n num [])) by (rewrite map_length; auto).
      apply map_nth. }
    assert (Hr : wf_row n r) by (rewrite Forall_forall in Hwf; apply Hwf, nth_In; auto).
    destruct (noise_row_spec P n num r Hr Hn) as (HL & Hbits & Hs).
    rewrite Er. unfold decode; cbn [fst snd]. split.
    + apply map_ext_in. intros j Hj. apply in_seq in Hj. unfold pauli_at.
      rewrite !Hbits by lia. reflexivity.
    + rewrite Hs. rewrite nth_map_seq by auto. reflexivity.
  - split; auto. intros i Hi; simpl. split; auto. rewrite xorb_false_r; auto.
Qed.

Example only_that_qubit_example :
  (* Bell pair XX, ZZ; a Z on qubit 0 flips the sign of XX only *)
  apply_noise (Some PZ) 2 0 [[true;true;false;false;false];[false;false;true;true;false]]
  = [[true;true;false;false;true];[false;false;true;true;false]].
Proof. reflexivity. Qed.
