(* C05 / C06 / C07 decision theorems that hold for every network state (no invariant needed). *)
From Coq Require Import List Bool Arith Lia.
From SQ Require Import Base.ListUtil Stab.Tableau Net.Model.
Import ListNotations.

(* ---- C05: a refused operation leaves the whole network state unchanged ------------------------------ *)
Lemma op_new_atomic s i s' k : op_new s i = (s', Err k) -> s' = s.
Proof.
  unfold op_new. destruct (Nat.leb _ _); [intro H; inversion H; auto|].
  destruct (add_register _) as [[nd1 r]|]; intro H; inversion H; auto.
Qed.

Lemma op_gate1_atomic s h g s' k : op_gate1 s h g = (s', Err k) -> s' = s.
Proof.
  unfold op_gate1. destruct (find_handle s h) as [[vi q]|]; [|intro H; inversion H].
  destruct (locate s q) as [[x r]|]; [|intro H; inversion H].
  destruct (gate1_of g); intro H; inversion H; auto.
Qed.

Lemma op_meas_atomic s h ip c s' k : op_meas s h ip c = (s', Err k) -> s' = s.
Proof.
  unfold op_meas. destruct (find_handle s h) as [[vi q]|]; [|intro H; inversion H].
  destruct (locate s q) as [[x r]|]; [|intro H; inversion H].
  destruct (measure _ _ _ _ _) as [[o n1] t1]. destruct ip; intro H; inversion H.
Qed.

Lemma op_send_atomic s h t s' k : op_send s h t = (s', Err k) -> s' = s.
Proof.
  unfold op_send. destruct (find_handle s h) as [[vi q]|]; [|intro H; inversion H].
  destruct (Nat.leb _ _); [intro H; inversion H; auto|].
  destruct (Nat.leb _ _); intro H; inversion H; auto.
Qed.

Lemma op_gate2_atomic s h1 h2 g s' k : op_gate2 s h1 h2 g = (s', Err k) -> s' = s.
Proof.
  unfold op_gate2.
  destruct (find_handle s h1) as [[vi q1]|]; [|intro H; inversion H].
  destruct (find_handle s h2) as [[vi2 q2]|]; [|intro H; inversion H].
  destruct (negb _); [intro H; inversion H|].
  destruct (Nat.eqb (v_simNode q1) (v_simNode q2)).
  - destruct (pos_of s _ (v_simNum q1)) as [k1 p1]. destruct (pos_of s _ (v_simNum q2)) as [k2 p2].
    destruct (Nat.eqb k1 k2).
    + destruct (Nat.eqb p1 p2); intro H; inversion H; auto.
    + destruct (pos_of _ _ _) as [a b]. destruct (pos_of _ _ _) as [a' b']. intro H; inversion H.
  - destruct (Nat.eqb (v_simNode q1) vi).
    + destruct (pos_of _ _ _) as [k1 x]. destruct (merge_from _ _ _ _ _) as [s1 newT].
      destruct (pos_of _ _ _) as [a b]. destruct (pos_of _ _ _) as [a' b']. intro H; inversion H.
    + destruct (Nat.eqb (v_simNode q2) vi).
      * destruct (pos_of _ _ _) as [k2 x]. destruct (merge_from _ _ _ _ _) as [s1 newC].
        destruct (pos_of _ _ _) as [a b]. destruct (pos_of _ _ _) as [a' b']. intro H; inversion H.
      * unfold add_register_force.
        destruct (merge_from _ _ _ _ _) as [s1 newC]. destruct (merge_from _ _ _ _ _) as [s2 newT].
        destruct (pos_of _ _ _) as [a b]. destruct (pos_of _ _ _) as [a' b']. intro H; inversion H.
Qed.

Lemma op_newreg_atomic s i mq s' k : op_newreg s i mq = (s', Err k) -> s' = s.
Proof.
  unfold op_newreg. destruct (Nat.leb _ _); intro H; inversion H; auto.
Qed.

Lemma op_new_inreg_atomic s i ow kk s' k : op_new_inreg s i ow kk = (s', Err k) -> s' = s.
Proof.
  unfold op_new_inreg. destruct (negb _); [intro H; inversion H; auto|].
  destruct (Nat.leb _ _); [intro H; inversion H; auto|].
  destruct (find_reg _ _) as [r|]; [|intro H; inversion H].
  destruct (Nat.leb _ _); intro H; inversion H; auto.
Qed.

Theorem refusal_atomic s o s' k : step s o = (s', Err k) -> s' = s.
Proof.
  destruct o; simpl.
  - destruct (Nat.ltb _ _); [apply op_new_atomic | intro H; inversion H].
  - apply op_gate1_atomic.
  - apply op_gate2_atomic.
  - apply op_send_atomic.
  - apply op_meas_atomic.
  - destruct (Nat.ltb _ _); [apply op_newreg_atomic | intro H; inversion H].
  - destruct (Nat.ltb _ _); [apply op_new_inreg_atomic | intro H; inversion H].
Qed.

(* the model never crashes *)
Theorem no_crash s o : snd (step s o) <> Err KCrash.
Proof.
  destruct o; simpl.
  - destruct (Nat.ltb _ _); [|discriminate]. unfold op_new.
    destruct (Nat.leb _ _); [discriminate|]. destruct (add_register _) as [[? ?]|]; discriminate.
  - unfold op_gate1. destruct (find_handle _ _) as [[? q]|]; [|discriminate].
    destruct (locate _ _) as [[? ?]|]; [|discriminate]. destruct (gate1_of _); discriminate.
  - unfold op_gate2.
    destruct (find_handle s h1) as [[vi q1]|]; [|discriminate].
    destruct (find_handle s h2) as [[vi2 q2]|]; [|discriminate].
    destruct (negb _); [discriminate|].
    destruct (Nat.eqb (v_simNode q1) (v_simNode q2)).
    + destruct (pos_of s _ (v_simNum q1)) as [k1 p1]. destruct (pos_of s _ (v_simNum q2)) as [k2 p2].
      destruct (Nat.eqb k1 k2).
      * destruct (Nat.eqb p1 p2); discriminate.
      * destruct (pos_of _ _ _) as [a b]. destruct (pos_of _ _ _) as [a' b']. discriminate.
    + destruct (Nat.eqb (v_simNode q1) vi).
      * destruct (pos_of _ _ _) as [k1 x]. destruct (merge_from _ _ _ _ _) as [s1 newT].
        destruct (pos_of _ _ _) as [a b]. destruct (pos_of _ _ _) as [a' b']. discriminate.
      * destruct (Nat.eqb (v_simNode q2) vi).
        -- destruct (pos_of _ _ _) as [k2 x]. destruct (merge_from _ _ _ _ _) as [s1 newC].
           destruct (pos_of _ _ _) as [a b]. destruct (pos_of _ _ _) as [a' b']. discriminate.
        -- unfold add_register_force.
           destruct (merge_from _ _ _ _ _) as [s1 newC]. destruct (merge_from _ _ _ _ _) as [s2 newT].
           destruct (pos_of _ _ _) as [a b]. destruct (pos_of _ _ _) as [a' b']. discriminate.
  - unfold op_send. destruct (find_handle _ _) as [[? ?]|]; [|discriminate].
    destruct (Nat.leb _ _); [discriminate|]. destruct (Nat.leb _ _); discriminate.
  - unfold op_meas. destruct (find_handle _ _) as [[? q]|]; [|discriminate].
    destruct (locate _ _) as [[? ?]|]; [|discriminate].
    destruct (measure _ _ _ _ _) as [[? ?] ?]. destruct inplace; discriminate.
  - destruct (Nat.ltb _ _); [|discriminate]. unfold op_newreg. destruct (Nat.leb _ _); discriminate.
  - destruct (Nat.ltb _ _); [|discriminate]. unfold op_new_inreg.
    destruct (negb _); [discriminate|]. destruct (Nat.leb _ _); [discriminate|].
    destruct (find_reg _ _) as [r|]; [|discriminate]. destruct (Nat.leb _ _); discriminate.
Qed.

Ltac dec_solve :=
  repeat split; intros; try lia; try discriminate; auto;
  try (match goal with H : exists _, _ |- _ => destruct H; discriminate end);
  try (match goal with H : _ /\ _ |- _ => destruct H; lia end); eauto.

(* ---- error kind table ----------------------------------------------------------------------------------- *)
Theorem new_decision s i : i < length (nodes s) ->
  let nd := nth_node s i in
  (snd (step s (ONew i)) = Err KNoQubit <-> maxQ nd <= length (virt nd)) /\
  (snd (step s (ONew i)) = Err KQuantum <-> length (virt nd) < maxQ nd /\ maxR nd <= numRegs nd) /\
  ((exists v, snd (step s (ONew i)) = Ok v) <-> length (virt nd) < maxQ nd /\ numRegs nd < maxR nd).
Proof.
  intros Hi nd. simpl. destruct (Nat.ltb_spec i (length (nodes s))); [|lia].
  unfold op_new. fold nd.
  destruct (Nat.leb_spec (maxQ nd) (length (virt nd))); simpl; [dec_solve|].
  unfold add_register. destruct (Nat.leb_spec (maxR nd) (numRegs nd)); simpl; dec_solve.
Qed.

(* remote_add_register: refused exactly at the register limit (C07: `creating more registers than the configured maximum is refused`) *)
Theorem newreg_decision s i mq : i < length (nodes s) ->
  let nd := nth_node s i in
  (snd (step s (ONewReg i mq)) = Err KQuantum <-> maxR nd <= numRegs nd) /\
  ((exists v, snd (step s (ONewReg i mq)) = Ok v) <-> numRegs nd < maxR nd) /\
  (snd (step s (ONewReg i mq)) = Ok (nextReg nd) <-> numRegs nd < maxR nd).
Proof.
  intros Hi nd. simpl. destruct (Nat.ltb_spec i (length (nodes s))); [|lia].
  unfold op_newreg. fold nd.
  destruct (Nat.leb_spec (maxR nd) (numRegs nd)); simpl; dec_solve.
Qed.

(* remote_new_qubit_inreg on a register the node lists: the complete refusal table.  Asked of a node that does not simulate the
   register: quantumError; node at its qubit capacity: noQubitError; register full: noQubitError; otherwise it succeeds. *)
Theorem newinreg_decision s i ow k r : i < length (nodes s) ->
  find_reg k (regs (nth_node s ow)) = Some r ->
  let nd := nth_node s i in
  (snd (step s (ONewInReg i ow k)) = Err KQuantum <-> ow <> i) /\
  (snd (step s (ONewInReg i ow k)) = Err KNoQubit <-> ow = i /\ (maxQ nd <= length (virt nd) \/ r_max r <= r_n r)) /\
  ((exists v, snd (step s (ONewInReg i ow k)) = Ok v) <-> ow = i /\ length (virt nd) < maxQ nd /\ r_n r < r_max r).
Proof.
  intros Hi Hf nd. simpl. destruct (Nat.ltb_spec i (length (nodes s))); [|lia].
  unfold op_new_inreg. destruct (Nat.eqb_spec ow i) as [->|Hne]; simpl.
  2:{ repeat split; intros; try discriminate; try tauto;
      try (match goal with H : exists _, _ |- _ => destruct H; discriminate end);
      try (match goal with H : _ /\ _ |- _ => destruct H; contradiction end). }
  fold nd. fold nd in Hf.
  destruct (Nat.leb_spec (maxQ nd) (length (virt nd))); simpl.
  { repeat split; intros; try discriminate; try tauto; auto;
      try (match goal with H : exists _, _ |- _ => destruct H; discriminate end);
      try (match goal with H : _ /\ _ |- _ => destruct H as (_ & ? & _); lia end). }
  rewrite Hf.
  destruct (Nat.leb_spec (r_max r) (r_n r)); simpl.
  { repeat split; intros; try discriminate; try tauto; auto;
      try (match goal with H : exists _, _ |- _ => destruct H; discriminate end);
      try (match goal with H : _ /\ _ |- _ => destruct H as (_ & _ & ?); lia end). }
  repeat split; intros; try discriminate; try tauto; auto; eauto;
    try (match goal with H : _ /\ (_ \/ _) |- _ => destruct H as (_ & [?|?]); lia end).
Qed.

Theorem send_decision s h t vi q : find_handle s h = Some (vi, q) ->
  (snd (step s (OSend h t)) = Err KVirtNet <-> length (nodes s) <= t) /\
  (snd (step s (OSend h t)) = Err KNoQubit <-> t < length (nodes s) /\ maxQ (nth_node s t) <= length (virt (nth_node s t))) /\
  ((exists v, snd (step s (OSend h t)) = Ok v) <-> t < length (nodes s) /\ length (virt (nth_node s t)) < maxQ (nth_node s t)).
Proof.
  intros Hf. simpl. unfold op_send. rewrite Hf.
  destruct (Nat.leb_spec (length (nodes s)) t); simpl; [dec_solve|].
  destruct (Nat.leb_spec (maxQ (nth_node s t)) (length (virt (nth_node s t)))); simpl; dec_solve.
Qed.

Theorem gate1_unsupported s h g vi q x r :
  find_handle s h = Some (vi, q) -> locate s q = Some (x, r) ->
  (snd (step s (OGate1 h g)) = Err KUnsupported <-> g = NT \/ g = NRot).
Proof.
  intros Hf Hl. simpl. unfold op_gate1. rewrite Hf, Hl.
  destruct g; simpl; split; intros H; try discriminate; auto; destruct H; discriminate.
Qed.

(* ---- C07: register merges never fail for capacity; the only refusal of a two-qubit gate is control = target *)
Theorem gate2_refusals s h1 h2 g k :
  snd (step s (OGate2 h1 h2 g)) = Err k -> k = KValue.
Proof.
  simpl. unfold op_gate2.
  destruct (find_handle s h1) as [[vi q1]|]; [|discriminate].
  destruct (find_handle s h2) as [[vi2 q2]|]; [|discriminate].
  destruct (negb _); [discriminate|].
  destruct (Nat.eqb (v_simNode q1) (v_simNode q2)).
  - destruct (pos_of s _ (v_simNum q1)) as [k1 p1]. destruct (pos_of s _ (v_simNum q2)) as [k2 p2].
    destruct (Nat.eqb k1 k2).
    + destruct (Nat.eqb p1 p2); simpl; intro H; inversion H; auto.
    + destruct (pos_of _ _ _) as [a b]. destruct (pos_of _ _ _) as [a' b']. discriminate.
  - destruct (Nat.eqb (v_simNode q1) vi).
    + destruct (pos_of _ _ _) as [k1 x]. destruct (merge_from _ _ _ _ _) as [s1 newT].
      destruct (pos_of _ _ _) as [a b]. destruct (pos_of _ _ _) as [a' b']. discriminate.
    + destruct (Nat.eqb (v_simNode q2) vi).
      * destruct (pos_of _ _ _) as [k2 x]. destruct (merge_from _ _ _ _ _) as [s1 newC].
        destruct (pos_of _ _ _) as [a b]. destruct (pos_of _ _ _) as [a' b']. discriminate.
      * unfold add_register_force.
        destruct (merge_from _ _ _ _ _) as [s1 newC]. destruct (merge_from _ _ _ _ _) as [s2 newT].
        destruct (pos_of _ _ _) as [a b]. destruct (pos_of _ _ _) as [a' b']. discriminate.
Qed.

(* ---- C06: an operation through a stale handle is the identity on the whole network ------------------------ *)
Definition stale (s : net) (h : nat) : Prop := find_handle s h = None.

Theorem stale_gate1 s h g : stale s h -> step s (OGate1 h g) = (s, Ignored).
Proof. unfold stale; intro H; simpl; unfold op_gate1; rewrite H; auto. Qed.
Theorem stale_meas s h ip c : stale s h -> step s (OMeas h ip c) = (s, Ignored).
Proof. unfold stale; intro H; simpl; unfold op_meas; rewrite H; auto. Qed.
Theorem stale_send s h t : stale s h -> step s (OSend h t) = (s, Ignored).
Proof. unfold stale; intro H; simpl; unfold op_send; rewrite H; auto. Qed.
Theorem stale_gate2_control s h h2 g : stale s h -> step s (OGate2 h h2 g) = (s, Ignored).
Proof. unfold stale; intro H; simpl; unfold op_gate2; rewrite H; auto. Qed.
Theorem stale_gate2_target s h1 h g : stale s h -> step s (OGate2 h1 h g) = (s, Ignored).
Proof.
  unfold stale; intro H; simpl; unfold op_gate2; rewrite H.
  destruct (find_handle s h1) as [[? ?]|]; auto.
Qed.

(* ---------- refused operations can be erased from any history ---------------------------------------------------- *)
(* the sub-history of the operations that were NOT refused (computed along the run) *)
Fixpoint keep_unrefused (s : net) (ops : list op) : list op :=
  match ops with
  | [] => []
  | o :: t => match step s o with
              | (s', Err _) => keep_unrefused s' t
              | (s', _) => o :: keep_unrefused s' t
              end
  end.

Theorem refused_ops_erasable ops : forall s, run s ops = run s (keep_unrefused s ops).
Proof.
  induction ops as [|o ops IH]; intro s; [reflexivity|].
  cbn [keep_unrefused]. destruct (step s o) as [s' r] eqn:E.
  assert (R : run s (o :: ops) = run s' ops).
  { unfold run. cbn [fold_left]. rewrite E. reflexivity. }
  rewrite R.
  assert (K : forall l, run s (o :: l) = run s' l).
  { intro l. unfold run. cbn [fold_left]. rewrite E. reflexivity. }
  destruct r as [v| | |k].
  - rewrite K. apply IH.
  - rewrite K. apply IH.
  - rewrite K. apply IH.
  - pose proof (refusal_atomic s o s' k E) as ->. apply IH.
Qed.

(* and the replies of the kept operations are the replies they got in the full history *)
Theorem refused_ops_erasable_outs ops : forall s,
  run_outs s (keep_unrefused s ops) = filter (fun r => match r with Err _ => false | _ => true end) (run_outs s ops).
Proof.
  induction ops as [|o ops IH]; intro s; [reflexivity|].
  cbn [keep_unrefused run_outs]. destruct (step s o) as [s' r] eqn:E.
  destruct r as [v| | |k]; cbn [filter run_outs]; try (rewrite E; rewrite IH; reflexivity).
  pose proof (refusal_atomic s o s' k E) as ->. apply IH.
Qed.
