(* C05 — failed operations are atomic and typed (Model V, every network state, every operation). *)
From Coq Require Import List Bool Arith.
From SQ Require Import Base.ListUtil Net.Model Net.Refusal.
Import ListNotations.

(* a refused operation leaves the WHOLE network state (bookkeeping, registers, generator matrices) unchanged *)
Theorem C05_refusal_atomic : forall s o s' k, step s o = (s', Err k) -> s' = s.
Proof. exact refusal_atomic. Qed.
Print Assumptions C05_refusal_atomic.

(* ... and the model never produces an undocumented failure *)
Theorem C05_no_undocumented_failure : forall s o, snd (step s o) <> Err KCrash.
Proof. exact no_crash. Qed.
Print Assumptions C05_no_undocumented_failure.

(* refusal causes, as iff-tables *)
Theorem C05_create_refusals : forall s i, i < length (nodes s) ->
  let nd := nth_node s i in
  (snd (step s (ONew i)) = Err KNoQubit <-> maxQ nd <= length (virt nd)) /\
  (snd (step s (ONew i)) = Err KQuantum <-> length (virt nd) < maxQ nd /\ maxR nd <= numRegs nd) /\
  ((exists v, snd (step s (ONew i)) = Ok v) <-> length (virt nd) < maxQ nd /\ numRegs nd < maxR nd).
Proof. exact new_decision. Qed.
Print Assumptions C05_create_refusals.

(* remote_add_register: refused (quantumError) exactly at the register limit *)
Theorem C05_create_register_refusals : forall s i mq, i < length (nodes s) ->
  let nd := nth_node s i in
  (snd (step s (ONewReg i mq)) = Err KQuantum <-> maxR nd <= numRegs nd) /\
  ((exists v, snd (step s (ONewReg i mq)) = Ok v) <-> numRegs nd < maxR nd) /\
  (snd (step s (ONewReg i mq)) = Ok (nextReg nd) <-> numRegs nd < maxR nd).
Proof. exact newreg_decision. Qed.
Print Assumptions C05_create_register_refusals.

(* remote_new_qubit_inreg on a register its node lists: asked of a node that does not simulate the register (quantumError), node at
   its qubit capacity or register full (noQubitError) *)
Theorem C05_create_in_register_refusals : forall s i ow k r, i < length (nodes s) ->
  find_reg k (regs (nth_node s ow)) = Some r ->
  let nd := nth_node s i in
  (snd (step s (ONewInReg i ow k)) = Err KQuantum <-> ow <> i) /\
  (snd (step s (ONewInReg i ow k)) = Err KNoQubit <-> ow = i /\ (maxQ nd <= length (virt nd) \/ r_max r <= r_n r)) /\
  ((exists v, snd (step s (ONewInReg i ow k)) = Ok v) <-> ow = i /\ length (virt nd) < maxQ nd /\ r_n r < r_max r).
Proof. exact newinreg_decision. Qed.
Print Assumptions C05_create_in_register_refusals.

Theorem C05_send_refusals : forall s h t vi q, find_handle s h = Some (vi, q) ->
  (snd (step s (OSend h t)) = Err KVirtNet <-> length (nodes s) <= t) /\
  (snd (step s (OSend h t)) = Err KNoQubit <-> t < length (nodes s) /\ maxQ (nth_node s t) <= length (virt (nth_node s t))) /\
  ((exists v, snd (step s (OSend h t)) = Ok v) <-> t < length (nodes s) /\ length (virt (nth_node s t)) < maxQ (nth_node s t)).
Proof. exact send_decision. Qed.
Print Assumptions C05_send_refusals.

Theorem C05_unsupported_gate : forall s h g vi q x r,
  find_handle s h = Some (vi, q) -> locate s q = Some (x, r) ->
  (snd (step s (OGate1 h g)) = Err KUnsupported <-> g = NT \/ g = NRot).
Proof. exact gate1_unsupported. Qed.
Print Assumptions C05_unsupported_gate.

Theorem C05_two_qubit_gate_refused_only_for_identical_operands : forall s h1 h2 g k,
  snd (step s (OGate2 h1 h2 g)) = Err k -> k = KValue.
Proof. exact gate2_refusals. Qed.
Print Assumptions C05_two_qubit_gate_refused_only_for_identical_operands.

(* whole histories: the refused operations of ANY history can be erased — the final network state is the one reached by the
   operations that were not refused, and those get the same replies *)
Theorem C05_refused_operations_erasable : forall ops s, run s ops = run s (keep_unrefused s ops).
Proof. exact refused_ops_erasable. Qed.
Print Assumptions C05_refused_operations_erasable.

Theorem C05_refused_operations_erasable_replies : forall ops s,
  run_outs s (keep_unrefused s ops) = filter (fun r => match r with Err _ => false | _ => true end) (run_outs s ops).
Proof. exact refused_ops_erasable_outs. Qed.
Print Assumptions C05_refused_operations_erasable_replies.
