(* Ground truth for the conjugation tables: 2x2 / 4x4 matrices over the Gaussian integers.
   U' is the un-normalised gate matrix (U = U'/sqrt c); the statement checked is
       U' . P . U'^dagger = c . (+-1) . P'
   which is the matrix identity  U P U^dagger = +- P'.  The domain is finite, so these are proofs. *)
From Coq Require Import List Bool ZArith.
From SQ Require Import Stab.Pauli.
Import ListNotations.
Open Scope Z_scope.

Definition gi := (Z * Z)%type.                    (* a + b i *)
Definition gadd (a b : gi) : gi := (fst a + fst b, snd a + snd b).
Definition gmul (a b : gi) : gi := (fst a * fst b - snd a * snd b, fst a * snd b + snd a * fst b).
Definition gconj (a : gi) : gi := (fst a, - snd a).
Definition g0 : gi := (0, 0).  Definition g1 : gi := (1, 0).
Definition gI : gi := (0, 1).  Definition gm1 : gi := (-1, 0). Definition gmI : gi := (0, -1).

Definition mat := list (list gi).
Definition dot (r c : list gi) : gi := fold_right gadd g0 (map (fun p => gmul (fst p) (snd p)) (combine r c)).
Fixpoint transpose_aux (n : nat) (m : mat) : mat :=
  match n with
  | O => []
  | S k => map (fun r => hd g0 r) m :: transpose_aux k (map (@tl gi) m)
  end.
Definition transpose (m : mat) : mat := transpose_aux (length (hd [] m)) m.
Definition mmul (a b : mat) : mat := map (fun r => map (fun c => dot r c) (transpose b)) a.
Definition dag (a : mat) : mat := map (map gconj) (transpose a).
Definition mscale (k : gi) (a : mat) : mat := map (map (gmul k)) a.
Definition kron (a b : mat) : mat :=
  flat_map (fun ra => map (fun rb => flat_map (fun x => map (gmul x) rb) ra) b) a.

Definition mat_pauli (p : pauli) : mat :=
  match p with
  | PI => [[g1; g0]; [g0; g1]]
  | PX => [[g0; g1]; [g1; g0]]
  | PY => [[g0; gmI]; [gI; g0]]
  | PZ => [[g1; g0]; [g0; gm1]]
  end.

Definition mat_gate1 (g : gate1) : mat :=
  match g with
  | GX => mat_pauli PX | GY => mat_pauli PY | GZ => mat_pauli PZ
  | GH => [[g1; g1]; [g1; gm1]]
  | GK => [[g1; gmI]; [gI; gm1]]
  | GS => [[g1; g0]; [g0; gI]]
  end.
Definition norm_gate1 (g : gate1) : gi := match g with GH | GK => (2, 0) | _ => g1 end.

Definition mat_gate2 (g : gate2) : mat :=
  match g with
  | GCNOT => [[g1;g0;g0;g0]; [g0;g1;g0;g0]; [g0;g0;g0;g1]; [g0;g0;g1;g0]]
  | GCZ   => [[g1;g0;g0;g0]; [g0;g1;g0;g0]; [g0;g0;g1;g0]; [g0;g0;g0;gm1]]
  end.

Definition sgn (f : bool) : gi := if f then gm1 else g1.

Theorem conj1_tbl_matrix g p :
  mmul (mmul (mat_gate1 g) (mat_pauli p)) (dag (mat_gate1 g)) =
  mscale (gmul (norm_gate1 g) (sgn (fst (conj1_tbl g p)))) (mat_pauli (snd (conj1_tbl g p))).
Proof. destruct g, p; vm_compute; reflexivity. Qed.

Theorem conj2_tbl_matrix g pc pt :
  mmul (mmul (mat_gate2 g) (kron (mat_pauli pc) (mat_pauli pt))) (dag (mat_gate2 g)) =
  mscale (sgn (fst (conj2_tbl g pc pt)))
         (kron (mat_pauli (fst (snd (conj2_tbl g pc pt)))) (mat_pauli (snd (snd (conj2_tbl g pc pt))))).
Proof. destruct g, pc, pt; vm_compute; reflexivity. Qed.

(* the product table, too *)
Definition gi_of_ph (k : ph) : gi := match k with P0 => g1 | P1 => gI | P2 => gm1 | P3 => gmI end.
Theorem pmul1_matrix a b :
  mmul (mat_pauli a) (mat_pauli b) = mscale (gi_of_ph (fst (pmul1 a b))) (mat_pauli (snd (pmul1 a b))).
Proof. destruct a, b; vm_compute; reflexivity. Qed.
