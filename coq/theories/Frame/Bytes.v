(* Model F (framing), part 1: bytes, little-endian u32, list slicing as Python does it.
   A byte is a binary natural number (N) below 256; a byte string is `list N`.  N (not nat) because message ids
   and length fields range up to 2^32 and the models are executed by vm_compute. *)
From Coq Require Import List NArith Arith Lia Bool.
Import ListNotations.
Open Scope N_scope.

Definition bytes := list N.

Definition byte_ok (b : N) : Prop := b < 256.
Definition bytes_ok (l : bytes) : Prop := Forall byte_ok l.

Definition u32_ok (v : N) : Prop := v < 4294967296.

(* ctypes c_uint32 on this (little-endian) platform *)
Definition le32 (v : N) : bytes :=
  [v mod 256; (v / 256) mod 256; (v / 65536) mod 256; (v / 16777216) mod 256].

Definition rd32 (b0 b1 b2 b3 : N) : N := b0 + 256 * b1 + 65536 * b2 + 16777216 * b3.

(* Python slices: buf[n:] and buf[a:b] *)
Definition drop (n : N) (l : bytes) : bytes := skipn (N.to_nat n) l.
Definition slice (a b : N) (l : bytes) : bytes := firstn (N.to_nat b - N.to_nat a) (skipn (N.to_nat a) l).
Definition blen (l : bytes) : N := N.of_nat (length l).

Fixpoint bytes_eqb (a b : bytes) : bool :=
  match a, b with
  | [], [] => true
  | x :: a', y :: b' => N.eqb x y && bytes_eqb a' b'
  | _, _ => false
  end.

Lemma bytes_eqb_eq a b : bytes_eqb a b = true <-> a = b.
Proof.
  revert b; induction a as [|x a IH]; intros [|y b]; simpl; split; intro H; try discriminate; auto.
  - apply andb_true_iff in H as [H1 H2]. apply N.eqb_eq in H1. apply IH in H2. congruence.
  - inversion H; subst. rewrite N.eqb_refl. simpl. apply IH. reflexivity.
Qed.

Lemma rd32_le32 v : u32_ok v ->
  rd32 (v mod 256) ((v / 256) mod 256) ((v / 65536) mod 256) ((v / 16777216) mod 256) = v.
Proof.
  unfold u32_ok, rd32. intro H.
  replace (v / 65536) with (v / 256 / 256) by (rewrite N.div_div by lia; reflexivity).
  replace (v / 16777216) with (v / 256 / 256 / 256) by (rewrite !N.div_div by lia; reflexivity).
  set (q1 := v / 256). set (q2 := q1 / 256). set (q3 := q2 / 256).
  assert (E1 : v = 256 * q1 + v mod 256) by (apply N.div_mod; lia).
  assert (E2 : q1 = 256 * q2 + q1 mod 256) by (apply N.div_mod; lia).
  assert (E3 : q2 = 256 * q3 + q2 mod 256) by (apply N.div_mod; lia).
  assert (M1 : v mod 256 < 256) by (apply N.mod_lt; lia).
  assert (M2 : q1 mod 256 < 256) by (apply N.mod_lt; lia).
  assert (M3 : q2 mod 256 < 256) by (apply N.mod_lt; lia).
  set (r0 := v mod 256) in *. set (r1 := q1 mod 256) in *. set (r2 := q2 mod 256) in *.
  clearbody r0 r1 r2. clearbody q3. clearbody q2. clearbody q1.
  assert (H4 : q3 < 256) by lia.
  rewrite (N.mod_small q3 256) by lia.
  lia.
Qed.

Lemma le32_length v : length (le32 v) = 4%nat.
Proof. reflexivity. Qed.

Lemma le32_bytes_ok v : bytes_ok (le32 v).
Proof.
  unfold le32, bytes_ok, byte_ok. repeat constructor; apply N.mod_lt; lia.
Qed.

Lemma drop_app_exact (a b : bytes) : drop (blen a) (a ++ b) = b.
Proof.
  unfold drop, blen. rewrite Nat2N.id. rewrite skipn_app, Nat.sub_diag, skipn_all. reflexivity.
Qed.

Lemma drop_app_le n (a b : bytes) : n <= blen a -> drop n (a ++ b) = drop n a ++ b.
Proof.
  unfold drop, blen. intro H. rewrite skipn_app.
  replace (N.to_nat n - length a)%nat with 0%nat by lia. reflexivity.
Qed.

Lemma drop_length n (l : bytes) : length (drop n l) = (length l - N.to_nat n)%nat.
Proof. unfold drop. apply skipn_length. Qed.

Lemma slice_app_le a b (l r : bytes) : b <= blen l -> slice a b (l ++ r) = slice a b l.
Proof.
  unfold slice, blen. intro H. rewrite skipn_app, firstn_app.
  rewrite skipn_length.
  replace (N.to_nat b - N.to_nat a - (length l - N.to_nat a))%nat with 0%nat by lia.
  simpl. rewrite app_nil_r. reflexivity.
Qed.

Lemma blen_app (a b : bytes) : blen (a ++ b) = blen a + blen b.
Proof. unfold blen. rewrite app_length. lia. Qed.
