"""Driver of one H-real scenario (C20).  Runs in its OWN interpreter (`/venv/bin/python deploy_child.py spec.json out.json`)
with PYTHONPATH = scratch copy of the repository and HOME = a scratch home whose ~/.simulaqron.json points the network
configuration file into the scratch area; it is started in its own session so that the parent can kill the whole process
group (node processes included) on a timeout or crash.

It only OBSERVES and records; every judgement is made by the parent (harness/props/c20.py) and by Coq.

spec = {"kind": "network" | "stagger", "name": network name, "nodes": [...], "ports": [free ports chosen by the parent],
        "steps": [...], "limits": {...}}
out  = {"events": [...], "config": {node: {"vnode": port, "qnodeos": port, "app": port}}, "error": None | text}
"""
import json
import os
import signal
import socket
import subprocess
import sys
import threading
import time
import traceback

T0 = time.time()
EVENTS = []
CHILDREN = []            # Popen objects of manually launched node processes and SDK applications


def now():
    return round(time.time() - T0, 3)


OUT = {"events": EVENTS, "config": None, "error": None, "complete": False}


def dump():
    """the result file is rewritten after every observation, so that a driver that has to be killed still leaves its record"""
    if len(sys.argv) > 2:
        tmp = sys.argv[2] + ".tmp"
        json.dump(OUT, open(tmp, "w"), indent=1, default=str)
        os.replace(tmp, sys.argv[2])


def ev(_name, **kw):
    kw["ev"] = _name
    kw["t"] = now()
    EVENTS.append(kw)
    dump()
    return kw


# ---------------------------------------------------------------------------------------------------------------------
# sockets / processes as the operating system sees them
# ---------------------------------------------------------------------------------------------------------------------
def connectable(port, timeout=1.0):
    s = socket.socket(socket.AF_INET, socket.SOCK_STREAM)
    s.settimeout(timeout)
    try:
        s.connect(("127.0.0.1", port))
        return True
    except OSError:
        return False
    finally:
        s.close()


def bindable(port, reuse):
    """can a server listen on the port again?  reuse=True binds the way Twisted's listenTCP does (SO_REUSEADDR: sockets in
    TIME_WAIT do not count, a live listener does); reuse=False is the strict probe NetworksConfigConstructor uses."""
    s = socket.socket(socket.AF_INET, socket.SOCK_STREAM)
    try:
        if reuse:
            s.setsockopt(socket.SOL_SOCKET, socket.SO_REUSEADDR, 1)
        s.bind(("127.0.0.1", port))
        s.listen(1)
        return True
    except OSError:
        return False
    finally:
        s.close()


def pid_alive(pid):
    """is the process still there (a zombie that has not been reaped counts as dead: it runs no code and holds no port)"""
    try:
        with open("/proc/%d/stat" % pid) as f:
            st = f.read().rsplit(")", 1)[1].split()[0]
        return st not in ("Z", "X")
    except OSError:
        return False


# ---------------------------------------------------------------------------------------------------------------------
# a Twisted reactor in a background thread, used as a Perspective-Broker client
# ---------------------------------------------------------------------------------------------------------------------
_reactor_thread = None


def reactor_up():
    global _reactor_thread
    from twisted.internet import reactor
    if _reactor_thread is None:
        _reactor_thread = threading.Thread(target=reactor.run, kwargs={"installSignalHandlers": False}, daemon=True)
        _reactor_thread.start()
        while not reactor.running:
            time.sleep(0.01)
    return reactor


def pb_call(port, fn, timeout=5.0):
    """connect a PB client to a virtual node, run fn(root) (an inlineCallbacks generator function), disconnect"""
    from twisted.internet import defer, threads
    from twisted.spread import pb
    reactor = reactor_up()

    def go():
        factory = pb.PBClientFactory()
        connector = reactor.connectTCP("127.0.0.1", port, factory)
        d = factory.getRootObject()
        d.addCallback(defer.inlineCallbacks(fn))
        d.addTimeout(timeout, reactor)

        def fin(x):
            try:
                connector.disconnect()
            except Exception:
                pass
            return x
        d.addBoth(fin)
        return d
    return threads.blockingCallFromThread(reactor, go)


def pb_check_connections(port, timeout=3.0):
    """the virtual node's own answer to check_connections, or None when it cannot be asked (not listening yet / gone)"""
    def fn(root):
        r = yield root.callRemote("check_connections")
        return r
    try:
        return bool(pb_call(port, fn, timeout))
    except Exception:
        return None


def pb_program(port, timeout=20.0):
    """a short native program on one virtual node: X then measure; H,H then measure; H then two in-place measurements"""
    def fn(root):
        q = yield root.callRemote("new_qubit")
        yield q.callRemote("apply_X")
        m1 = yield q.callRemote("measure", False)
        q = yield root.callRemote("new_qubit")
        yield q.callRemote("apply_H")
        yield q.callRemote("apply_H")
        m2 = yield q.callRemote("measure", False)
        q = yield root.callRemote("new_qubit")
        yield q.callRemote("apply_H")
        m3 = yield q.callRemote("measure", True)
        m4 = yield q.callRemote("measure", True)
        m5 = yield q.callRemote("measure", False)
        return [int(m1), int(m2), int(m3), int(m4), int(m5)]
    try:
        return {"ok": True, "outcomes": pb_call(port, fn, timeout)}
    except Exception as e:
        return {"ok": False, "error": "%s: %s" % (type(e).__name__, e)}


def pb_early_send(port_from, target, timeout=40.0):
    """issued while `target`'s virtual node is NOT up yet: create a qubit at the node behind port_from, flip it, send it to `target`.
    The request must wait for the connection (get_connection retries) and complete once the peer is there; returns the virtual number
    the qubit got at the target"""
    def fn(root):
        q = yield root.callRemote("new_qubit")
        yield q.callRemote("apply_X")
        num = yield root.callRemote("send_qubit", q, target)
        return int(num)
    t0 = time.time()
    try:
        return {"ok": True, "num": pb_call(port_from, fn, timeout), "took": round(time.time() - t0, 2)}
    except Exception as e:
        return {"ok": False, "error": "%s: %s" % (type(e).__name__, e), "took": round(time.time() - t0, 2)}


def pb_measure_received(port, num, timeout=10.0):
    def fn(root):
        q = yield root.callRemote("get_virtual_ref", num)
        m = yield q.callRemote("measure", False)
        return int(m)
    try:
        return {"ok": True, "outcome": pb_call(port, fn, timeout)}
    except Exception as e:
        return {"ok": False, "error": "%s: %s" % (type(e).__name__, e)}


EPR_APP = r"""
import sys
from netqasm.sdk import EPRSocket
from simulaqron.sdk.connection import SimulaQronConnection
me, peer, net, role, k = sys.argv[1], sys.argv[2], sys.argv[3], sys.argv[4], int(sys.argv[5])
epr = EPRSocket(peer)
out = []
with SimulaQronConnection(me, network_name=net, epr_sockets=[epr]) as conn:
    qs = epr.create_keep(number=k) if role == "create" else epr.recv_keep(number=k)
    ms = [q.measure() for q in qs]
    conn.flush()
    out = [int(m) for m in ms]
print("OUTCOMES", *out)
"""


def run_epr(net, a, b, k, timeout):
    """create_keep at a / recv_keep at b through the SimulaQron SDK (two application processes over the real sockets)"""
    procs = []
    for me, peer, role in ((a, b, "create"), (b, a, "recv")):
        p = subprocess.Popen([sys.executable, "-c", EPR_APP, me, peer, net, role, str(k)],
                             stdout=subprocess.PIPE, stderr=subprocess.PIPE, text=True)
        CHILDREN.append(p)
        procs.append(p)
    res = []
    deadline = time.time() + timeout
    for p in procs:
        try:
            so, se = p.communicate(timeout=max(0.1, deadline - time.time()))
            m = [l for l in so.splitlines() if l.startswith("OUTCOMES")]
            res.append({"rc": p.returncode, "outcomes": [int(x) for x in m[0].split()[1:]] if m else None,
                        "stderr": se[-600:] if p.returncode else ""})
        except subprocess.TimeoutExpired:
            p.kill()
            p.communicate()
            res.append({"rc": None, "outcomes": None, "stderr": "timeout"})
    return res


# ---------------------------------------------------------------------------------------------------------------------
# configuration: ports come from the pool chosen by the parent, everything else is the implementation's own code
# ---------------------------------------------------------------------------------------------------------------------
def patch_port_choice(pool):
    """NetworksConfigConstructor picks the first free port in 8000..9000; other checks run in parallel on this machine, so the
    candidates are replaced by the parent's private pool (same availability test, same bookkeeping of used sockets)."""
    from simulaqron.toolbox.manage_nodes import NetworksConfigConstructor

    def _get_unused_port(self, hostname):
        for port in pool:
            if self._check_port_available(hostname, port):
                return port
        raise RuntimeError("port pool exhausted")
    NetworksConfigConstructor._get_unused_port = _get_unused_port


def read_config(net):
    from simulaqron.settings import simulaqron_settings
    from simulaqron.toolbox.manage_nodes import NetworksConfigConstructor
    cfg = NetworksConfigConstructor(file_path=simulaqron_settings.network_config_file)
    out = {}
    for name, nd in cfg.networks[net].nodes.items():
        out[name] = {"vnode": nd.vnode_port, "qnodeos": nd.qnodeos_port, "app": nd.app_port}
    return out


def wait_ready(cfg, nodes, budget, want_qnodeos=True):
    """poll until every vnode and qnodeos port accepts connections and every virtual node answers True; records the sequence"""
    t_end = time.time() + budget
    seq = []
    while True:
        ports_ok = all(connectable(cfg[n]["vnode"]) and (not want_qnodeos or connectable(cfg[n]["qnodeos"])) for n in nodes)
        answers = [pb_check_connections(cfg[n]["vnode"]) for n in nodes]
        seq.append({"t": now(), "ports": ports_ok, "answers": answers})
        if ports_ok and all(a is True for a in answers):
            return True, seq
        if time.time() > t_end:
            return False, seq
        time.sleep(0.2)


def wait_dead(pids, budget):
    t_end = time.time() + budget
    while time.time() < t_end:
        if not any(pid_alive(p) for p in pids):
            return True
        time.sleep(0.1)
    return not any(pid_alive(p) for p in pids)


def ports_report(cfg, nodes):
    rep = {}
    for n in nodes:
        for kind in ("vnode", "qnodeos"):
            port = cfg[n][kind]
            rep["%s/%s" % (n, kind)] = {"port": port, "connectable": connectable(port, 0.5),
                                        "listen_again": bindable(port, True), "strict_bind": bindable(port, False)}
    return rep


# ---------------------------------------------------------------------------------------------------------------------
# scenario 1: the Network class
# ---------------------------------------------------------------------------------------------------------------------
def scenario_network(spec):
    lim = spec["limits"]
    patch_port_choice(spec["ports"])
    from simulaqron.network import Network
    from simulaqron.settings import simulaqron_settings
    ev("settings", network_config_file=simulaqron_settings.network_config_file,
       conn_retry_time=simulaqron_settings.conn_retry_time)
    name, nodes = spec["name"], spec["nodes"]
    nw = Network(name, list(nodes), spec.get("topology"), force=True, new=True)
    cfg = read_config(name)
    ev("configured", config=cfg, processes=len(nw.processes))
    all_pids = []
    occupied = []
    try:
        start_failed = False
        for step in spec["steps"]:
            op = step["op"]
            if start_failed and op in ("ready", "program", "epr"):
                ev("skipped", op=op, why="the preceding start() raised or the network did not come up")
                continue
            if op == "start":
                t = time.time()
                try:
                    nw.start(wait_until_running=step["wait"])
                    err = None
                except BaseException as e:       # AssertionError of multiprocessing included
                    err = "%s: %s" % (type(e).__name__, e)
                start_failed = err is not None
                pids = [p.pid for p in nw.processes]
                all_pids += [p for p in pids if p is not None and p not in all_pids]
                ev("start", wait=step["wait"], error=err, took=round(time.time() - t, 3), running_flag=bool(nw._running),
                   pids=pids, alive=[bool(p.is_alive()) for p in nw.processes])
            elif op == "ready":
                ok, seq = wait_ready(cfg, nodes, lim["ready"])
                ev("ready", ok=ok, polls=len(seq), first=seq[0], last=seq[-1],
                   alive=[bool(p.is_alive()) for p in nw.processes], running_property=bool(nw.running) if ok else None)
                if not ok:
                    ev("aborted", why="the network did not come up; remaining steps dropped, stopping")
                    break
            elif op == "program":
                for n in nodes:
                    ev("program", node=n, **pb_program(cfg[n]["vnode"], lim["program"]))
            elif op == "epr":
                a, b = step["pair"]
                ev("epr", pair=[a, b], number=step["number"], results=run_epr(name, a, b, step["number"], lim["epr"]))
            elif op == "stop":
                pids = [p.pid for p in nw.processes if p.pid is not None]
                t = time.time()
                try:
                    nw.stop()
                    err = None
                except BaseException as e:
                    err = "%s: %s" % (type(e).__name__, e)
                took = round(time.time() - t, 3)
                alive_flags = [bool(p.is_alive()) for p in nw.processes]
                dead = wait_dead(pids, lim["dead"])
                ev("stop", error=err, took=took, alive=alive_flags, pids=pids, all_dead=dead,
                   os_alive=[pid_alive(p) for p in pids], ports=ports_report(cfg, nodes), running_flag=bool(nw._running),
                   running_property=bool(nw.running))
            elif op == "reopen":
                # a second Network object on the configuration written by the first one (new=False), as the CLI does
                nw = Network(name, None, None, force=True, new=False)
                ev("reopen", nodes=list(nw.nodes), processes=len(nw.processes), same_config=(read_config(name) == cfg))
            elif op == "sleep":
                time.sleep(step["s"])
            elif op == "occupy":
                # something else listens on one node's qnodeos port: that process sits in its listen-retry loop and is slow to go down
                import socket as _socket
                sk = _socket.socket(_socket.AF_INET, _socket.SOCK_STREAM)
                sk.setsockopt(_socket.SOL_SOCKET, _socket.SO_REUSEADDR, 1)
                sk.bind(("127.0.0.1", cfg[step["node"]][step["kind"]]))
                sk.listen(1)
                occupied.append(sk)
                ev("occupy", node=step["node"], kind=step["kind"], port=cfg[step["node"]][step["kind"]])
            elif op == "release":
                for sk in occupied:
                    sk.close()
                del occupied[:]
                ev("release")
            else:
                raise ValueError(op)
    finally:
        pids = [p.pid for p in nw.processes if p.pid is not None]
        try:
            nw.stop()
        except BaseException:
            pass
        ev("cleanup", leftover=[p for p in set(all_pids + pids) if pid_alive(p)])
    return cfg


# ---------------------------------------------------------------------------------------------------------------------
# scenario 2: node processes launched by hand, one by one (peers are NOT listening when a node first tries them)
# ---------------------------------------------------------------------------------------------------------------------
LAUNCH = ("import sys; from simulaqron.start import start_vnode, start_qnodeos; "
          "(start_vnode if sys.argv[1] == 'vnode' else start_qnodeos)(sys.argv[2], sys.argv[3], 'WARNING')")


def scenario_stagger(spec):
    lim = spec["limits"]
    patch_port_choice(spec["ports"])
    from simulaqron.settings import simulaqron_settings
    from simulaqron.toolbox.manage_nodes import NetworksConfigConstructor
    name, nodes = spec["name"], spec["nodes"]
    path = simulaqron_settings.network_config_file
    cfgc = NetworksConfigConstructor(file_path=path)
    cfgc.add_network(node_names=list(nodes), network_name=name, topology=None)
    cfgc.write_to_file(path)
    cfg = read_config(name)
    retry = float(simulaqron_settings.conn_retry_time)
    ev("configured", config=cfg, conn_retry_time=retry, network_config_file=path)
    launched = {}            # (kind, node) -> Popen
    settled_ok = False
    early = None

    def poll_checks(tag):
        for n in nodes:
            if ("vnode", n) in launched:
                a = pb_check_connections(cfg[n]["vnode"])
                if a is not None:
                    ev("check", node=n, answer=a, tag=tag)

    try:
        for step in spec["steps"]:
            op = step["op"]
            if op == "launch":
                kind, n = step["kind"], step["node"]
                ev("launch", kind=kind, node=n)
                p = subprocess.Popen([sys.executable, "-c", LAUNCH, kind, n, name],
                                     stdout=subprocess.DEVNULL, stderr=subprocess.PIPE)
                CHILDREN.append(p)
                launched[(kind, n)] = p
                t_end = time.time() + step["gap"]
                port = cfg[n][kind]
                seen = False
                while time.time() < t_end:
                    if not seen and kind == "vnode" and connectable(port, 0.3):
                        seen = True
                        ev("listening", kind=kind, node=n)
                    poll_checks("gap")
                    time.sleep(0.25)
            elif op == "early_send":
                # a native program that does not wait for readiness: its remote operation needs a peer that is not even launched yet
                import threading
                box = {}
                src, dst = step["from"], step["to"]
                ev("early_send_issued", src=src, dst=dst, dst_launched=("vnode", dst) in launched)

                def work(box=box, src=src, dst=dst):
                    box["res"] = pb_early_send(cfg[src]["vnode"], dst, lim.get("early", 40.0))
                th = threading.Thread(target=work, daemon=True)
                th.start()
                early = (th, box, src, dst)
            elif op == "settle":
                ok_ports = False
                t_end = time.time() + lim["ready"]
                while time.time() < t_end:
                    poll_checks("settling")
                    ok_ports = all(connectable(cfg[n][k]) for (k, n) in launched)
                    if ok_ports and all(pb_check_connections(cfg[n]["vnode"]) for n in nodes if ("vnode", n) in launched):
                        break
                    time.sleep(0.25)
                time.sleep(4 * retry)
                e = ev("settled", ports=ok_ports, alive={"%s/%s" % k: (p.poll() is None) for k, p in launched.items()})
                poll_checks("final")
                poll_checks("final")
                settled_ok = ok_ports and all(e["alive"].values()) and all(
                    x["answer"] for x in EVENTS if x["ev"] == "check" and x["tag"] == "final")
                if early is not None:
                    th, box, src, dst = early
                    th.join(lim.get("early", 40.0) + 5)
                    res = box.get("res", {"ok": False, "error": "no answer"})
                    got = pb_measure_received(cfg[dst]["vnode"], res["num"]) if res.get("ok") else None
                    ev("early_send", src=src, dst=dst, result=res, received=got)
                    early = None
            elif op in ("program", "epr") and not settled_ok:
                ev("skipped", op=op, why="the network did not come up")
            elif op == "program":
                for n in nodes:
                    ev("program", node=n, **pb_program(cfg[n]["vnode"], lim["program"]))
            elif op == "epr":
                a, b = step["pair"]
                ev("epr", pair=[a, b], number=step["number"], results=run_epr(name, a, b, step["number"], lim["epr"]))
            elif op == "terminate":
                for k, p in launched.items():
                    if p.poll() is None:
                        p.send_signal(signal.SIGTERM)
                t_end = time.time() + lim["dead"]
                while time.time() < t_end and any(p.poll() is None for p in launched.values()):
                    time.sleep(0.1)
                ev("terminated", exit={"%s/%s" % k: p.poll() for k, p in launched.items()},
                   stderr={"%s/%s" % k: (p.stderr.read().decode(errors="replace")[-400:] if p.poll() is not None else "")
                           for k, p in launched.items()},
                   ports=ports_report(cfg, [n for n in nodes if ("vnode", n) in launched and ("qnodeos", n) in launched]))
            else:
                raise ValueError(op)
    finally:
        for p in launched.values():
            if p.poll() is None:
                p.kill()
    return cfg


# ---------------------------------------------------------------------------------------------------------------------
# scenario 3: the real Network.start()/stop() code over stand-in process objects (processes that are slow to go down or ignore the
# first signals cannot be produced on demand with real interpreters; the loop that waits for them is what is exercised here)
# ---------------------------------------------------------------------------------------------------------------------
def scenario_fakestop(spec):
    patch_port_choice(spec["ports"])
    import simulaqron.network as netmod
    from simulaqron.network import Network
    name, nodes = spec["name"], spec["nodes"]
    nw = Network(name, list(nodes), None, force=True, new=True)
    clock = [0.0]

    class FakeTime:
        @staticmethod
        def sleep(s):
            clock[0] += s

        @staticmethod
        def time():
            return clock[0]

    class FakeProc:
        """needs `signals` terminate() calls and then `lag` seconds before it is gone"""
        def __init__(self, name, signals, lag):
            self.name, self.need, self.lag = name, signals, lag
            self.pid = 4000 + len(procs)
            self.got, self.dying_since, self.started = 0, None, False

        def start(self):
            self.started = True

        def is_alive(self):
            if not self.started:
                return False
            return self.dying_since is None or clock[0] - self.dying_since < self.lag

        def terminate(self):
            self.got += 1
            if self.got >= self.need and self.dying_since is None:
                self.dying_since = clock[0]

        def join(self, timeout=None):
            t_end = clock[0] + (timeout if timeout is not None else 1e9)
            while self.is_alive() and clock[0] < t_end:
                clock[0] += 0.05

        def kill(self):
            self.dying_since = clock[0] - self.lag
    procs = []
    for p_real, (sig, lag) in zip(nw.processes, spec["behaviour"]):
        procs.append(FakeProc(p_real.name, sig, lag))
    nw.processes = procs
    saved_time, saved_timer = netmod.time, getattr(netmod, "timer", None)
    netmod.time = FakeTime
    if saved_timer is not None:
        netmod.timer = FakeTime.time
    try:
        for p in procs:
            p.start()
        nw._running = True
        nw.stop()
        ev("fakestop", behaviour=spec["behaviour"], alive_after_stop=[p.name for p in procs if p.is_alive()],
           signals=[p.got for p in procs], fake_seconds=round(clock[0], 2))
    finally:
        netmod.time = saved_time
        if saved_timer is not None:
            netmod.timer = saved_timer
        for p in procs:
            p.kill()
    return read_config(name)


def main():
    spec = json.load(open(sys.argv[1]))
    out = OUT
    try:
        out["config"] = {"network": scenario_network, "stagger": scenario_stagger, "fakestop": scenario_fakestop}[spec["kind"]](spec)
    except BaseException:
        out["error"] = traceback.format_exc()[-3000:]
    finally:
        out["complete"] = True
        for p in CHILDREN:
            try:
                if p.poll() is None:
                    p.kill()
            except Exception:
                pass
        dump()
    # the node processes are not daemonic (network.py sets the misspelt attribute `deamon`), so a normal interpreter exit would
    # join them; everything worth knowing has been written, leave at once (the parent kills the process group anyway)
    sys.stdout.flush()
    os._exit(0)


if __name__ == "__main__":
    main()
