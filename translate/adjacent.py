#!/usr/bin/env python3
"""Fail-closed translator for the topology decision of C12.

Usage: adjacent.py <repo>/simulaqron/netqasm_backend/factory.py      (executioner.py is read from the same directory)

Writes Gen/AdjacentGen.v:
  * `gen_is_adjacent topo self r : option bool`  — NetQASMFactory.is_adjacent statement by statement, in an error
    monad (None = Python would raise: `x in None`, `None[k]`, missing key), with the obligation
        gen_is_adjacent_eq : forall topo self r, gen_is_adjacent topo self r = Some (is_adjacent topo self r)
    proved for all topologies by case analysis (Qasm/TopoFacts.solve_gen_adjacent);
  * `gen_epr_order` — the order in which `cmd_epr` performs its refusals and its first qubit creation, read off the
    statement list of the method (for/else raise = unknown id, `self.name == remote_node_name` raise = self,
    `not self.factory.is_adjacent(remote_node_name)` raise = adjacency, first statement mentioning `cmd_new` = create;
    a top-level `try` whose handlers all end in a bare `raise` is read through: its body counts as top-level statements),
    with the obligation gen_epr_order_ok (= the order Topo.epr_check uses).
  * `gen_topology_source` — that __init__ assigns self.topology from `networks[network_name].topology` or None only.

Recognised in is_adjacent: if / elif / else, return of a boolean expression, logger calls; expressions:
True, False, `self.topology is None`, `is not None`, `a in self.topology`, `a in self.topology[b]`, `not`, `and`, `or`,
with a, b in {self.name, remote_host_name}.  Everything else aborts.
"""
import ast
import os
import sys


class TranslateError(Exception):
    pass


def fail(node, msg):
    raise TranslateError("line %s: %s" % (getattr(node, "lineno", "?"), msg))


def is_self_attr(node, attr):
    return (isinstance(node, ast.Attribute) and node.attr == attr
            and isinstance(node.value, ast.Name) and node.value.id == "self")


def is_logger_call(st):
    return (isinstance(st, ast.Expr) and isinstance(st.value, ast.Call) and isinstance(st.value.func, ast.Attribute)
            and is_self_attr(st.value.func.value, "_logger"))


def is_docstring(st):
    return isinstance(st, ast.Expr) and isinstance(st.value, ast.Constant) and isinstance(st.value.value, str)


class Adj:
    def __init__(self, fn):
        self.fn = fn
        args = [a.arg for a in fn.args.args]
        if len(args) != 2 or args[0] != "self" or fn.decorator_list:
            fail(fn, "unexpected signature %s" % args)
        self.param = args[1]
        self.alias = {}          # local name -> "topo" | "self" | "r"   (plain aliases: x = self.topology, me = self.name)

    def nm(self, node):
        if is_self_attr(node, "name"):
            return "self"
        if isinstance(node, ast.Name) and node.id == self.param and node.id not in self.alias:
            return "r"
        if isinstance(node, ast.Name) and self.alias.get(node.id) in ("self", "r"):
            return self.alias[node.id]
        fail(node, "unsupported name expression: " + ast.unparse(node))

    def is_topo(self, node):
        return is_self_attr(node, "topology") or (isinstance(node, ast.Name) and self.alias.get(node.id) == "topo")

    def container(self, node, x):
        """x in <node>"""
        if self.is_topo(node):
            return "(py_in_dict %s topo)" % x
        if isinstance(node, ast.Subscript) and self.is_topo(node.value):
            return "(py_in_list %s (py_getitem topo %s))" % (x, self.nm(node.slice))
        fail(node, "unsupported container: " + ast.unparse(node))

    def bexpr(self, node):
        if isinstance(node, ast.Constant) and isinstance(node.value, bool):
            return "(Some %s)" % ("true" if node.value else "false")
        if isinstance(node, ast.UnaryOp) and isinstance(node.op, ast.Not):
            return "(py_not %s)" % self.bexpr(node.operand)
        if isinstance(node, ast.BoolOp):
            f = "py_and" if isinstance(node.op, ast.And) else "py_or"
            vals = [self.bexpr(v) for v in node.values]
            out = vals[-1]
            for v in reversed(vals[:-1]):
                out = "(%s %s %s)" % (f, v, out)
            return out
        if isinstance(node, ast.Compare) and len(node.ops) == 1:
            op, l, r = node.ops[0], node.left, node.comparators[0]
            if isinstance(op, (ast.Is, ast.IsNot)) and self.is_topo(l) and isinstance(r, ast.Constant) and r.value is None:
                e = "(py_is_none topo)"
                return e if isinstance(op, ast.Is) else "(py_not %s)" % e
            if isinstance(op, (ast.In, ast.NotIn)):
                e = self.container(r, self.nm(l))
                return e if isinstance(op, ast.In) else "(py_not %s)" % e
            if isinstance(op, (ast.Eq, ast.NotEq)):
                e = "(py_str_eq %s %s)" % (self.nm(l), self.nm(r))
                return e if isinstance(op, ast.Eq) else "(py_not %s)" % e
        fail(node, "unsupported boolean expression: " + ast.unparse(node))

    def block(self, stmts, cont):
        """translate a statement list; cont = translation of what follows the list (None: falls off the function)"""
        if not stmts:
            if cont is None:
                raise TranslateError("is_adjacent may fall off its end (implicit return None)")
            return cont
        st, rest = stmts[0], stmts[1:]
        if is_docstring(st) or is_logger_call(st) or isinstance(st, ast.Pass):
            return self.block(rest, cont)
        if isinstance(st, ast.Assign) and len(st.targets) == 1 and isinstance(st.targets[0], ast.Name):
            # a plain alias; self.topology / self.name are not assigned anywhere in this function (checked: any other
            # assignment form aborts), so the alias denotes the same value at every later use
            tgt = st.targets[0].id
            if self.is_topo(st.value):
                self.alias[tgt] = "topo"
            else:
                self.alias[tgt] = self.nm(st.value)
            return self.block(rest, cont)
        if isinstance(st, ast.Return):
            if st.value is None:
                fail(st, "bare return")
            return self.bexpr(st.value)
        if isinstance(st, ast.If):
            after = self.block(rest, cont) if (rest or cont is not None) else None
            return "(py_if %s %s %s)" % (self.bexpr(st.test), self.block(st.body, after), self.block(st.orelse, after))
        fail(st, "unsupported statement: " + ast.unparse(st)[:80])


def find_method(tree, cls_name, fn_name):
    cls = [n for n in tree.body if isinstance(n, ast.ClassDef) and n.name == cls_name]
    if len(cls) != 1:
        raise TranslateError("class %s not found" % cls_name)
    fns = [n for n in cls[0].body if isinstance(n, ast.FunctionDef) and n.name == fn_name]
    if len(fns) != 1:
        raise TranslateError("%s.%s not found" % (cls_name, fn_name))
    return fns[0]


def mentions(node, pred):
    return any(pred(n) for n in ast.walk(node))


def epr_order(fn):
    """order of the refusals and of the first creation in cmd_epr (top-level statements only)"""
    order = []
    body = []
    for st in fn.body:
        # since the D16(ii) repair the whole body is wrapped in `try: ... except Exception: <cleanup>; raise`: a refusal
        # raised inside still leaves cmd_epr (every handler ends in a bare `raise`), so the statements of the try body are
        # read as if they stood at top level.  Any other shape of try (else / finally / a handler that swallows) aborts.
        if isinstance(st, ast.Try):
            if st.orelse or st.finalbody or not st.handlers or not all(
                    h.body and isinstance(h.body[-1], ast.Raise) and h.body[-1].exc is None for h in st.handlers):
                fail(st, "try statement in cmd_epr whose handlers do not all re-raise (or with else/finally)")
            body.extend(st.body)
        else:
            body.append(st)
    for st in body:
        if is_docstring(st) or is_logger_call(st):
            continue
        tag = None
        if isinstance(st, ast.For) and st.orelse and any(isinstance(s, ast.Raise) for s in st.orelse) \
                and mentions(st, lambda n: isinstance(n, ast.Name) and n.id == "remote_node_id"):
            tag = "unknown"
        elif isinstance(st, ast.If) and len(st.body) == 1 and isinstance(st.body[0], ast.Raise) and not st.orelse:
            t = st.test
            if (isinstance(t, ast.Compare) and len(t.ops) == 1 and isinstance(t.ops[0], ast.Eq)
                    and {ast.unparse(t.left), ast.unparse(t.comparators[0])} == {"self.name", "remote_node_name"}):
                tag = "self"
            elif (isinstance(t, ast.UnaryOp) and isinstance(t.op, ast.Not) and isinstance(t.operand, ast.Call)
                  and ast.unparse(t.operand.func) == "self.factory.is_adjacent"
                  and [ast.unparse(a) for a in t.operand.args] == ["remote_node_name"] and not t.operand.keywords):
                tag = "adjacent"
            else:
                fail(st, "unrecognised refusal in cmd_epr: " + ast.unparse(t))
        elif mentions(st, lambda n: isinstance(n, ast.Attribute) and n.attr in ("cmd_new", "virtRoot", "qubitList")):
            tag = "create"
        elif mentions(st, lambda n: isinstance(n, (ast.Raise, ast.Return))) and "create" not in order:
            fail(st, "statement that can leave cmd_epr before the first creation is not one of the three refusals: "
                 + ast.unparse(st)[:80])
        if tag and tag not in order:
            order.append(tag)
        if tag == "create":
            break
    return order


def topology_source(fn):
    """every assignment to self.topology in NetQASMFactory.__init__"""
    out = []
    for n in ast.walk(fn):
        if isinstance(n, ast.Assign) and any(is_self_attr(t, "topology") for t in n.targets):
            out.append(ast.unparse(n.value))
    return out


def translate(factory_path):
    ftree = ast.parse(open(factory_path).read())
    etree = ast.parse(open(os.path.join(os.path.dirname(factory_path), "executioner.py")).read())
    fn = find_method(ftree, "NetQASMFactory", "is_adjacent")
    a = Adj(fn)
    body = a.block(fn.body, None)
    order = epr_order(find_method(etree, "VanillaSimulaQronExecutioner", "cmd_epr"))
    src = topology_source(find_method(ftree, "NetQASMFactory", "__init__"))
    out = ["(* GENERATED by translate/adjacent.py from %s (+ executioner.py) -- do not edit *)" % factory_path,
           "From Coq Require Import List String Bool.",
           "From SQ Require Import Base.ListUtil Qasm.Topo Qasm.TopoFacts.",
           "Import ListNotations.", "Local Open Scope string_scope.", "",
           "Definition gen_is_adjacent (topo : option topology) (self r : name) : option bool :=",
           "  %s." % body, "",
           "Lemma gen_is_adjacent_eq : forall topo self r, gen_is_adjacent topo self r = Some (is_adjacent topo self r).",
           "Proof. solve_gen_adjacent gen_is_adjacent. Qed.", "",
           "Definition gen_epr_order : list string := [%s]." % "; ".join('"%s"' % o for o in order), "",
           'Lemma gen_epr_order_ok : gen_epr_order = ["unknown"; "self"; "adjacent"; "create"].',
           "Proof. reflexivity. Qed.", "",
           "Definition gen_topology_source : list string := [%s]." % "; ".join('"%s"' % s.replace('"', "'") for s in src), "",
           'Lemma gen_topology_source_ok : gen_topology_source = ["None"; "networks_config.networks[network_name].topology"].',
           "Proof. reflexivity. Qed.", ""]
    return "\n".join(out)


if __name__ == "__main__":
    try:
        sys.stdout.write(translate(sys.argv[1]))
    except TranslateError as e:
        sys.stderr.write("TRANSLATE-ERROR %s\n" % e)
        sys.exit(2)
