"""C07 — per-node qubit capacity is enforced exactly."""
from props import netprop, scen


def run(ctx):
    t = ctx.tier == "thorough"
    ctx.rule = ("random create/send/measure/gate histories against capacities 1..5 qubits and 1..8 registers per node; oracle: a node never holds more "
                "than its maximum, create/receive succeed iff held < max (and a register is available for create), freed capacity is reusable, "
                "two-qubit gates are never refused for capacity; distinct = distinct (capacities, operation, dump)")
    netprop.run_property(ctx, "C07", ["capacity", "capacity", "merge", "registers"], 1500 if t else 150, 30 if t else 24,
                         scenarios=scen.capacity() + scen.register_limit() + scen.big_merge() + scen.register_api(), own_props=["C07"],
                         extra=concurrent_arrivals)


def concurrent_arrivals(ctx, env0, runners):
    """`with concurrent arrivals`: creations / arrivals racing for the last free slot of a node under seeded schedules over the real PB
    (scheduler harness of C03/C04): whatever the interleaving, the node never ends up holding more than its maximum, and exactly as many
    requests succeed as there were free slots"""
    import logging
    import conc
    import net_sync as N
    from props import concprop
    logging.disable(logging.CRITICAL)
    env = N.setup()
    conc.install(env)
    scns = [s for s in concprop.fixed_scenarios() if "free slot" in s["name"]]
    per = 40 if ctx.tier == "thorough" else 10
    bad = None
    for scn in scns:
        for _ in range(per):
            seed = ctx.rng.randrange(1 << 30)
            res = conc.run_concurrent(env, scn, seed=seed, p_tick=ctx.rng.choice([0.0, 0.1, 0.3]), p_idle=ctx.rng.choice([0.0, 0.2]))
            ctx.count("concurrent_arrival_schedules")
            ctx.case(("conc", scn["name"], seed), nontrivial=True)
            net = res.world.net
            over = [(i, len(nd.virtQubits), nd.maxQubits) for i, nd in enumerate(net.nodes) if len(nd.virtQubits) > nd.maxQubits]
            if over and (bad is None or len(res.schedule) < len(bad[2])):
                bad = (scn, seed, list(res.schedule), over)
            conc.dispose(res)
    logging.disable(logging.NOTSET)
    ctx.obligation("concurrent arrivals/creations for the last free slot never overfill a node (%d schedules over real PB)"
                   % ctx.coverage.get("concurrent_arrival_schedules", 0), bad is None,
                   "" if bad is None else "scenario %r seed %d: (node, held, max) = %r" % (bad[0]["name"], bad[1], bad[3]))
    if bad is not None:
        ctx.report("C07:concurrent-overfill", "node holds more qubits than its maximum after concurrent arrivals: (node, held, max) = %r" % (bad[3],),
                   {"scenario": bad[0]["name"], "prefix": bad[0]["prefix"], "ops": bad[0]["ops"], "caps": bad[0]["caps"], "seed": bad[1],
                    "schedule": bad[2]}, found_input=True)
