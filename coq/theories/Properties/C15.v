(* C15 — one register contract; proved for the model of the stabilizer backend only (qutip / projectq cannot be
   imported in this environment, so no model of them could be tied to code).  Only statements, closed by `exact`. *)
From Coq Require Import List Bool Arith.
From SQ Require Import Base.ListUtil Stab.Pauli Stab.Kernels Stab.Gates Stab.Tableau Stab.Engine Stab.EngineProof.
Import ListNotations.

Theorem C15_add_fresh_refused_exactly_at_limit : forall e,
  (e_max e <= e_n e -> step e KAddFresh = (e, RErr ENoQubit)) /\
  (e_n e < e_max e -> step e KAddFresh = (mkE (e_max e) (S (e_n e)) (add_qubit (e_n e) (e_tab e)), RNat (e_n e))).
Proof. exact add_fresh_refusal. Qed.
Print Assumptions C15_add_fresh_refused_exactly_at_limit.

Theorem C15_absorb_refused_exactly_at_limit : forall a b,
  (e_max a < e_n a + e_n b -> step a (KAbsorb b) = (a, RErr EQuantum)) /\
  (e_n a + e_n b <= e_max a ->
   step a (KAbsorb b) = (mkE (e_max a) (e_n a + e_n b) (tensor (e_n a) (e_tab a) (e_n b) (e_tab b)), RUnit)).
Proof. exact absorb_refusal. Qed.
Print Assumptions C15_absorb_refused_exactly_at_limit.

Theorem C15_refusal_atomic : forall e c err, snd (step e c) = RErr err -> fst (step e c) = e.
Proof. exact refusal_atomic. Qed.
Print Assumptions C15_refusal_atomic.

Theorem C15_absorb_parts_export : forall a b, valid_engine b ->
  step a (KAbsorbParts (fst (export b)) (snd (export b))) = step a (KAbsorb b).
Proof. exact absorb_parts_export. Qed.
Print Assumptions C15_absorb_parts_export.
