(* C08: entanglement generation.
   (1) pairing: sequence numbers and FIFO delivery for one (creating process, socket key) and the receiving socket, over
       every interleaving of creator steps and receiver polls  (executioner.py new_ent_id 605-614, send_epr_half 623-666,
       virtual.py netqasm_add_epr_list / netqasm_get_epr_recv 631-669, cmd_epr_recv 733-782);
   (2) the keyed version (several processes, sockets, directions) as an executable model for the correspondence and for the
       refutation of "distinct from every other pair on that socket pair" across directions (D15);
   (3) the Bell pair the creator's four native operations produce, and the measure-directly outcome table (finite, vm_compute). *)
From Coq Require Import List Bool Arith Lia.
From SQ Require Import Base.ListUtil Stab.Pauli Stab.Kernels Stab.Tableau.
Import ListNotations.

(* ---- (1) one direction, one socket pair ------------------------------------------------------------------------------ *)
Inductive ev := Create | Poll.
Record st := mkSt { nxt : nat; queue : list nat; made : list nat; got : list nat }.
Definition init_st (start : nat) : st := mkSt start [] [] [].
Definition estep (s : st) (e : ev) : st :=
  match e with
  | Create => mkSt (S (nxt s)) (queue s ++ [nxt s]) (made s ++ [nxt s]) (got s)      (* new_ent_id; send half; add_epr_list *)
  | Poll => match queue s with
            | [] => s                                                                (* nothing yet: wait and poll again *)
            | x :: t => mkSt (nxt s) t (made s) (got s ++ [x])                       (* popleft *)
            end
  end.
Definition erun (s : st) (evs : list ev) : st := fold_left estep evs s.
Definition creates (evs : list ev) : nat := length (filter (fun e => match e with Create => true | Poll => false end) evs).

Lemma erun_inv evs : forall s start k,
  made s = got s ++ queue s -> made s = seq start k -> nxt s = start + k ->
  let s' := erun s evs in
  made s' = got s' ++ queue s' /\ made s' = seq start (k + creates evs) /\ nxt s' = start + (k + creates evs).
Proof.
  induction evs as [|e t IH]; intros s start k H1 H2 H3; simpl.
  - unfold creates; simpl. rewrite Nat.add_0_r. auto.
  - destruct e; simpl.
    + replace (k + creates (Create :: t)) with (S k + creates t) by (unfold creates; simpl; lia).
      apply IH; simpl.
      * rewrite H1. rewrite <- app_assoc. reflexivity.
      * change (made s ++ [nxt s] = seq start (S k)). rewrite H2, H3. symmetry. apply seq_S.
      * lia.
    + replace (creates (Poll :: t)) with (creates t) by reflexivity.
      destruct (queue s) as [|x q] eqn:Q.
      * apply IH; auto. rewrite Q. exact H1.
      * apply IH; simpl; auto. rewrite H1, <- app_assoc. reflexivity.
Qed.

(* epr_pairing: for every interleaving of n creator steps with any number of receiver polls, what the receiver obtained
   is a prefix of what the creator made, in the same order (FIFO); the creator's sequence numbers are start, start+1, ...
   (pairwise distinct); once the receiver has n results they are exactly the creator's, index by index *)
Theorem epr_pairing start evs :
  let s := erun (init_st start) evs in
  made s = got s ++ queue s /\ made s = seq start (creates evs) /\ NoDup (made s) /\
  (length (got s) = creates evs -> got s = made s /\ queue s = []).
Proof.
  destruct (erun_inv evs (init_st start) start 0) as (A & B & C); simpl; auto.
  simpl in B. split; [exact A|]. split; [exact B|]. split.
  - rewrite B. apply seq_NoDup.
  - intro L. assert (Q : queue (erun (init_st start) evs) = []).
    { assert (LL : length (made (erun (init_st start) evs)) = creates evs) by (rewrite B; apply seq_length).
      rewrite A, app_length in LL. destruct (queue (erun (init_st start) evs)); auto. simpl in LL. lia. }
    rewrite A, Q, app_nil_r. auto.
Qed.

Theorem seq_unique_one_direction start evs i j :
  let s := erun (init_st start) evs in
  i < length (made s) -> j < length (made s) -> nth i (made s) 0 = nth j (made s) 0 -> i = j.
Proof.
  intros s Hi Hj E. destruct (epr_pairing start evs) as (_ & _ & N & _). fold s in N.
  apply (proj1 (NoDup_nth (made s) 0) N i j Hi Hj E).
Qed.

(* ---- (2) keyed model: processes, sockets, directions -------------------------------------------------------------------------- *)
Definition ckey := (nat * nat * nat * nat)%type.     (* creating node, local socket, remote node, remote socket *)
Record item := mkItem { i_seq : nat; i_from : nat; i_from_sock : nat; i_to_sock : nat }.
Inductive kev := KCreate (c ls r rs : nat) | KPoll (node sock : nat).
Record kst := mkK { k_ctr : list (ckey * nat); k_q : list ((nat * nat) * list item) }.
Definition ckey_eqb (a b : ckey) : bool :=
  let '(a1, a2, a3, a4) := a in let '(b1, b2, b3, b4) := b in
  Nat.eqb a1 b1 && Nat.eqb a2 b2 && Nat.eqb a3 b3 && Nat.eqb a4 b4.
Fixpoint ctr_get (k : ckey) (l : list (ckey * nat)) : nat :=
  match l with [] => 0 | (k', v) :: t => if ckey_eqb k' k then v else ctr_get k t end.
Fixpoint ctr_set (k : ckey) (v : nat) (l : list (ckey * nat)) : list (ckey * nat) :=
  match l with [] => [(k, v)] | (k', v') :: t => if ckey_eqb k' k then (k', v) :: t else (k', v') :: ctr_set k v t end.
Definition nn_eqb (a b : nat * nat) : bool := Nat.eqb (fst a) (fst b) && Nat.eqb (snd a) (snd b).
Fixpoint q_get (k : nat * nat) (l : list ((nat * nat) * list item)) : list item :=
  match l with [] => [] | (k', v) :: t => if nn_eqb k' k then v else q_get k t end.
Fixpoint q_set (k : nat * nat) (v : list item) (l : list ((nat * nat) * list item)) : list ((nat * nat) * list item) :=
  match l with [] => [(k, v)] | (k', v') :: t => if nn_eqb k' k then (k', v) :: t else (k', v') :: q_set k v t end.

(* the sequence counter is per creating process and keyed by that process's view (local socket, remote node, remote socket);
   the half is queued at the remote node under the remote socket id *)
Definition kstep (s : kst) (e : kev) : kst * option item :=
  match e with
  | KCreate c ls r rs =>
      let k := (c, ls, r, rs) in
      let n := ctr_get k (k_ctr s) in
      let it := mkItem n c ls rs in
      (mkK (ctr_set k (S n) (k_ctr s)) (q_set (r, rs) (q_get (r, rs) (k_q s) ++ [it]) (k_q s)), Some it)
  | KPoll node sock =>
      match q_get (node, sock) (k_q s) with
      | [] => (s, None)
      | it :: t => (mkK (k_ctr s) (q_set (node, sock) t (k_q s)), Some it)
      end
  end.
Fixpoint krun (s : kst) (evs : list kev) : list (option item) :=
  match evs with [] => [] | e :: t => let '(s', o) := kstep s e in o :: krun s' t end.
Definition kinit : kst := mkK [] [].

(* D15, by the letter of "the i-th results carry the same sequence number (distinct from every other pair on that socket
   pair)": node 0 and node 1 both create one pair on the socket pair (0:socket 0 <-> 1:socket 0); the two DISTINCT pairs
   have the same sequence number 0 (they differ only in who created them) *)
Theorem seq_unique_refuted :
  exists evs a b, krun kinit evs = [Some a; Some b; Some a; Some b] /\
                  i_from a <> i_from b /\ i_seq a = i_seq b /\ i_from_sock a = i_to_sock b /\ i_to_sock a = i_from_sock b.
Proof.
  exists [KCreate 0 0 1 0; KCreate 1 0 0 0; KPoll 1 0; KPoll 0 0], (mkItem 0 0 0 0), (mkItem 0 1 0 0).
  vm_compute. repeat split; try reflexivity. intro H; discriminate H.
Qed.

(* ---- (3) the pair and the measure-directly table -------------------------------------------------------------------------------- *)
(* two fresh qubits (each |0>, own register), merged by the CNOT (control register absorbs the target's), H on the first, CNOT *)
Definition bell_tab : tab :=
  tab_gate2 GCNOT 2 0 1 (tab_gate1 GH 2 0 (tensor 1 (add_qubit 0 []) 1 (add_qubit 0 []))).

Theorem bell_state : bell_tab = [[true; true; false; false; false]; [false; false; true; true; false]].    (* XX, ZZ *)
Proof. vm_compute. reflexivity. Qed.

(* measure-directly: basis change (Z: none, X: H, Y: K) then destructive measurement, local qubit first *)
Inductive mbasis := BZ | BX | BY.
Definition basis_gate (b : mbasis) (n p : nat) (t : tab) : tab :=
  match b with BZ => t | BX => tab_gate1 GH n p t | BY => tab_gate1 GK n p t end.
Definition md_outcomes (bl br : mbasis) (c1 c2 : bool) : bool * bool :=
  let '(o1, n1, t1) := measure 2 0 false c1 (basis_gate bl 2 0 bell_tab) in
  let '(o2, _, _) := measure n1 0 false c2 (basis_gate br n1 0 t1) in
  (o1, o2).
(* outcomes possible for |Phi+>: equal in ZZ and XX, opposite in YY, anything for different bases *)
Definition phi_plus_possible (bl br : mbasis) (o1 o2 : bool) : bool :=
  match bl, br with
  | BZ, BZ | BX, BX => Bool.eqb o1 o2
  | BY, BY => negb (Bool.eqb o1 o2)
  | _, _ => true
  end.
Definition all_bases := [BZ; BX; BY].
Theorem md_outcomes_possible :
  forallb (fun bl => forallb (fun br => forallb (fun c1 => forallb (fun c2 =>
    let '(o1, o2) := md_outcomes bl br c1 c2 in phi_plus_possible bl br o1 o2) [true; false]) [true; false]) all_bases) all_bases = true.
Proof. vm_compute. reflexivity. Qed.
(* ... and both outcomes of the first measurement occur (the coin decides), the second is then forced when the bases agree *)
Theorem md_first_outcome_is_the_coin : forall bl br c1 c2, fst (md_outcomes bl br c1 c2) = c1.
Proof. intros [] [] [] []; vm_compute; reflexivity. Qed.
