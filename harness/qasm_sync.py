"""H-qasm: in-process NetQASM hosts on top of the in-process virtual-node network (net_sync / net_pb).

For every simulated node one `NetQASMFactory(host, name, qnodeos_net, Handler)` object exactly as
simulaqron/start/start_qnodeos.py builds it, wired to the in-process virtualNode (`set_virtual_node`), plus one
`NetQASMProtocol` whose transport is a list.  Messages are handed to the real `SubroutineHandler.handle_netqasm_message`
(the same call `NetQASMProtocol.dataReceived` makes) or, byte for byte, to `dataReceived`.

Replaced from outside (no source hooks):
  * module-global `reactor` of executioner.py / factory.py -> the harness clock (as net_sync.setup does for virtual.py),
  * module-global `call_method` of executioner.py -> the same function wrapped by a *tap* that records every native
    call crossing the executioner -> virtual-node boundary (object, method, arguments, result / exception),
  * one executioner subclass per node, so that the class-level counters `_next_ent_id` / `_next_create_id` are per
    "process" as in production (each QNodeOS is its own process there),
  * `simulaqron_settings.network_config_file = None` during factory construction (no file access); the topology is
    set on the factory object afterwards,
  * `time.time` is left alone (goodness_time is ignored by the comparisons).
"""
from collections import defaultdict

import net_sync as N


class FakeQHost:
    def __init__(self, name, idx):
        self.name = name
        self.hostname = "localhost"
        self.port = 8900 + idx
        self.ip = 2130706433
        self.root = None
        self.factory = None


class FakeQNet:
    """stands for SocketsConfig(..., config_type="qnodeos")"""
    def __init__(self, names):
        self.hostDict = {n: FakeQHost(n, i) for i, n in enumerate(names)}


class ListTransport:
    def __init__(self):
        self.out = []

    def write(self, data):
        self.out.append(bytes(data))


def setup_qasm(env):
    """import the NetQASM backend from the scratch copy and redirect its reactor / call_method globals"""
    import simulaqron.netqasm_backend.executioner as E
    import simulaqron.netqasm_backend.factory as F
    import simulaqron.netqasm_backend.qnodeos as QN
    from twisted.internet.defer import Deferred
    env.E, env.F, env.QN = E, F, QN
    # "Unhandled error in Deferred" reports of refused native calls (garbage-collected Deferreds inside virtual.py) are noise here
    try:
        from twisted.logger import globalLogBeginner
        globalLogBeginner.beginLoggingTo([lambda event: None], redirectStandardIO=False, discardBuffer=True)
    except Exception:
        pass
    E.reactor = env.clock
    F.reactor = env.clock
    env.clock_modules += [E, F]          # every new network gets a fresh clock (net_sync.new_clock)
    env.tap = []                     # native calls: dicts
    if not hasattr(env, "orig_call_method"):
        env.orig_call_method = E.call_method

    def tapped(obj, method_name, *args, **kwargs):
        rec = {"obj": obj, "method": method_name, "args": args, "kwargs": kwargs, "status": "pending", "value": None}
        net = getattr(env, "current_net", None)
        if net is not None:
            robj = N.resolve(net, obj)
            rec["live"] = any(q is robj for node in net.nodes for q in node.virtQubits)
        if method_name == "measure" and getattr(env, "coin_script", None) is not None:
            k = sum(1 for r in env.tap[env.coin_tap0:] if r["method"] == "measure")
            rec["coin"] = env.coin_script[k] if k < len(env.coin_script) else 0
            env.current_measure = rec
        env.tap.append(rec)
        d = env.orig_call_method(obj, method_name, *args, **kwargs)

        def ok(r):
            rec["status"], rec["value"] = "ok", r
            net = getattr(env, "current_net", None)
            if net is not None:
                N.tag_new_handles(net)          # handle ids are allocated at the creating native call, as in Model V
            return r

        def err(f):
            rec["status"], rec["value"] = "err", f.value
            return f
        if isinstance(d, Deferred):
            d.addCallbacks(ok, err)
        else:
            ok(d)
        return d
    E.call_method = tapped
    env.coin_script = None
    env.coin_tap0 = 0
    old_randint = env.SS.randint

    def randint(a, b):
        if env.coin_script is not None:
            return int(env.current_measure["coin"])      # the coin scripted for the measure call being executed
        return old_randint(a, b)
    if not getattr(env, "qasm_randint", False):
        env.SS.randint = randint
        env.qasm_randint = True
    return env


def script_coins(env, coins, tap0):
    """k-th native measure call after tap index tap0 uses coins[k] if its outcome is random (None: back to env.coins)"""
    env.coin_script = None if coins is None else [int(c) for c in coins]
    env.coin_tap0 = tap0
    env.current_measure = None


def node_ids(names):
    """get_node_id_from_net_config: index in the sorted list of names"""
    s = sorted(names)
    return {n: s.index(n) for n in names}


def make_hosts(env, net, topology=None, pb_local=False):
    """one NetQASM host per virtual node of `net` (net_sync.make_network / net_pb.make_pb_network)"""
    from simulaqron.settings import simulaqron_settings
    E, F, QN = env.E, env.F, env.QN
    hosts = []
    for i, name in enumerate(net.names):
        exe_cls = type("Executioner_%s" % name, (E.VanillaSimulaQronExecutioner,),
                       {"_next_ent_id": defaultdict(int), "_next_create_id": defaultdict(int)})
        handler_cls = type("Handler_%s" % name, (QN.SubroutineHandler,),
                           {"_get_executor_class": classmethod(lambda cls, flavour=None, _c=exe_cls: _c)})
        qnet = FakeQNet(net.names)
        saved = simulaqron_settings.network_config_file
        try:
            # the settings object refuses None through its setter in some versions: bypass, restore afterwards
            simulaqron_settings._config["network_config_file"] = None
            factory = F.NetQASMFactory(qnet.hostDict[name], name, qnet, handler_cls)
        finally:
            simulaqron_settings._config["network_config_file"] = saved
        factory.topology = topology
        virt_root = net.nodes[i]
        if pb_local:
            # production path: the QNodeOS process is a Perspective-Broker client of its own virtual node
            from twisted.spread import pb
            from twisted.test import iosim
            sf, cf = pb.PBServerFactory(net.nodes[i]), pb.PBClientFactory()
            sp, cp = sf.buildProtocol(None), cf.buildProtocol(None)
            pump = iosim.connect(sp, iosim.FakeTransport(sp, isServer=True), cp, iosim.FakeTransport(cp, isServer=False),
                                 greet=True, clock=None)
            net.pumps[(-(i + 1), i)] = pump
            got = []
            cf.getRootObject().addCallback(got.append)
            import net_pb
            net_pb.flush(net)
            virt_root = got[0]
        factory.set_virtual_node(virt_root)
        proto = factory.buildProtocol(None)
        proto.transport = ListTransport()
        h = N.Env()
        h.name, h.index, h.factory, h.proto, h.handler = name, i, factory, proto, factory.backend
        h.executor = factory.backend._executor
        h.exe_cls = exe_cls
        h.node = net.nodes[i]
        h.next_msg_id = 0
        h.failures = []              # failures that escaped handle_netqasm_message (production: log_error + reactor.stop)
        hosts.append(h)
    net.hosts = hosts
    env.current_net = net
    return hosts


def send(env, host, msg, advance=None, max_advance=2000):
    """hand one message to the real handler (what dataReceived does after parsing); returns (msg_id, replies, escaped)
    replies: list of deserialised return messages written on the connection during the handling of this message"""
    msg_id = host.next_msg_id
    host.next_msg_id += 1
    start = len(host.proto.transport.out)
    if not hasattr(host, "msg_start"):
        host.msg_start = {}
    host.msg_start[msg_id] = start
    box = []
    d = host.handler.handle_netqasm_message(msg_id=msg_id, msg=msg)
    d.addCallback(host.proto.log_handled_message)
    d.addErrback(lambda f: (box.append(f), host.proto.log_error(f))[1])
    d.addBoth(lambda r: box.append("done") or r)
    host.pending = d
    if advance:
        advance(lambda: "done" in box)
    raw = host.proto.transport.out[start:]
    replies = [decode_reply(b) for b in raw]
    escaped = [b for b in box if b != "done"]
    return msg_id, replies, escaped, ("done" in box)


def decode_reply(b):
    """deserialize_return_msg, except that undefined array entries stay None (the library's client-side decoder reads
    them as 0 because OptionalInt.value is shadowed by the ctypes field)"""
    from netqasm.backend.messages import (MESSAGE_TYPE_BYTES, ReturnArrayMessage, ReturnArrayMessageHeader,
                                          deserialize_return_msg)
    from netqasm.lang.encoding import OptionalInt
    m = deserialize_return_msg(b)
    if isinstance(m, ReturnArrayMessage):
        raw = b[MESSAGE_TYPE_BYTES:]
        hdr = ReturnArrayMessageHeader.from_buffer_copy(raw)
        arr = (OptionalInt * hdr.length).from_buffer_copy(raw[ReturnArrayMessageHeader.len():])
        m.values = [None if v.type == OptionalInt._NULL_TYPE else int(getattr(v, "value")) for v in arr]
    return m


def replies_since(host, msg_id):
    return [decode_reply(b) for b in host.proto.transport.out[host.msg_start[msg_id]:]]


def reply_summary(replies):
    """canonical, comparable form of return messages"""
    out = []
    for r in replies:
        n = type(r).__name__
        if n == "MsgDoneMessage":
            out.append(("done", r.msg_id))
        elif n == "ErrorMessage":
            out.append(("err", r.err_code))
        elif n == "ReturnRegMessage":
            out.append(("reg", "RCQM"[r.register.register_name] + str(r.register.register_index), r.value))
        elif n == "ReturnArrayMessage":
            out.append(("arr", r.address, list(r.values)))
        else:
            out.append(("?", n))
    return out


def host_dump(net, host):
    """bookkeeping of one NetQASM host: unit modules, used physical ids, qubitList (physical id -> handle id)"""
    ex = host.executor
    units = {app: list(um) for app, um in ex._qubit_unit_modules.items()}
    used = sorted(ex._used_physical_qubit_addresses)
    ql = {}
    for p, ref in host.factory.qubitList.items():
        ql[p] = net.hid.get(id(N.resolve(net, ref.virt)), -1)
    return {"units": units, "used": used, "qlist": ql,
            "regs_apps": sorted(ex._registers), "arrays_apps": sorted(ex._app_arrays),
            "active_apps": sorted(host.handler._active_app_ids)}


def tap_summary(net, env, start=0):
    """native calls since `start` in model vocabulary: (method, handle ids / args, status, value)"""
    out = []
    for rec in env.tap[start:]:
        obj = N.resolve(net, rec["obj"])
        hid = net.hid.get(id(obj))
        args = []
        for a in rec["args"]:
            ra = N.resolve(net, a) if not isinstance(a, (int, float, str, tuple, type(None), bool)) else a
            args.append(("h", net.hid[id(ra)]) if id(ra) in net.hid and not isinstance(a, (int, float, str, tuple, type(None), bool)) else a)
        val = rec["value"]
        if rec["status"] == "err":
            val = type(val).__name__
        newnum = None
        if rec["method"] == "new_qubit" and rec["status"] == "ok":
            newnum = N.resolve(net, val).num
            val = ("h", net.hid.get(id(N.resolve(net, val)), -1))
        out.append({"node": next((i for i, n in enumerate(net.nodes) if n is obj), None),
                    "hid": hid, "method": rec["method"], "args": args, "kwargs": dict(rec["kwargs"]),
                    "status": rec["status"], "value": val, "live": rec.get("live", False), "coin": rec.get("coin", 0),
                    "newnum": newnum})
    return out
