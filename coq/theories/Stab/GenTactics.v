(* Tactics used by the *generated* obligations gen_apply_G_eq (Gen/StabGatesGen.v).
   First try conversion (the generated text has the same shape as the hand model); otherwise prove
   extensional equality column by column and bit by bit, which survives harmless rewrites of the
   Python kernel (reordered independent statements, renamed variables, different but equivalent masks). *)
From Coq Require Import List Bool Arith Lia.
From SQ Require Import Base.ListUtil Stab.Kernels Stab.Gates.
Import ListNotations.

Ltac nat_tests_s :=
  repeat match goal with
  | |- context [Nat.eqb ?a ?b] => destruct (Nat.eqb_spec a b); try lia; try subst
  | |- context [Nat.ltb ?a ?b] => destruct (Nat.ltb_spec a b); try lia
  end.

Ltac ext_rows Hwf :=
  unfold wf_row in Hwf; apply nth_ext_bool;
  [ unfold swap_cols; repeat (rewrite ?flip_if_length, ?upd_length); reflexivity
  | let i := fresh "i" in let Hi := fresh "Hi" in
    intros i Hi; clear Hi; norm_get; rewrite ?Hwf; nat_tests_s; bits ].

Ltac solve_gen_eq1 gen hand :=
  let n := fresh "n" in let p := fresh "p" in let r := fresh "r" in
  let Hwf := fresh "Hwf" in let Hp := fresh "Hp" in
  intros n p r Hwf Hp;
  first [ reflexivity | unfold gen, hand; cbv zeta; ext_rows Hwf ].

Ltac solve_gen_eq2 gen hand :=
  let n := fresh "n" in let c := fresh "c" in let t := fresh "t" in let r := fresh "r" in
  let Hwf := fresh "Hwf" in let Hc := fresh "Hc" in let Ht := fresh "Ht" in let Hct := fresh "Hct" in
  intros n c t r Hwf Hc Ht Hct;
  first [ reflexivity | unfold gen, hand; cbv zeta; ext_rows Hwf ].
