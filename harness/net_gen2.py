"""Second family of random programs for Model V: several multi-qubit registers living side by side on one node.

The generator of net_run.random_program merges whatever two qubits a node holds, so after a few two-qubit gates a node has
one big register and singletons; code that confuses positions ACROSS registers of one simulating node (renumbering after a
removal, register lookup by number) is then hardly exercised.  Here qubits are grouped into clusters first (pairs / triples /
quadruples entangled only within the cluster, two to four clusters, most of them simulated at one node, some of their qubits
handed to other nodes), and the second phase removes qubits from arbitrary positions (destructive measurement, sends and
re-sends), acts inside clusters, creates replacements and only now and then merges two clusters."""
import net_run as R


def clustered_program(env, rng, n_ops, pb=False):
    n_nodes = rng.choice([1, 2, 3, 3])
    caps = [(rng.choice([8, 9, 10]), rng.choice([6, 8, 10])) for _ in range(n_nodes)]
    r = R.Runner(env, rng, n_nodes, caps, max_live=9, pb=pb)
    home = rng.randrange(n_nodes)
    clusters = []
    budget = 8
    for _ in range(rng.randrange(2, 5)):
        size = rng.choice([2, 2, 3, 3, 4])
        if budget < size:
            break
        budget -= size
        node = home if rng.random() < 0.8 else rng.randrange(n_nodes)
        before = set(r.live())
        for _k in range(size):
            r.do(("new", node))
        mine = [h for h in r.live() if h not in before]
        if len(mine) < 2:
            continue
        r.do(("g1", mine[0], "H"))
        for h in mine[1:]:
            a, b = (mine[0], h) if rng.random() < 0.7 else (h, mine[0])
            r.do(("g2", a, b, rng.choice(R.G2)))
        clusters.append(mine)
    # hand some qubits to other nodes (their registers stay where they are)
    if n_nodes > 1:
        for cl in clusters:
            for h in list(cl):
                if rng.random() < 0.25 and h in r.live():
                    others = [x for x in range(n_nodes) if x != r.holder(h)]
                    n_before = set(r.live())
                    r.do(("send", h, rng.choice(others)))
                    new = [x for x in r.live() if x not in n_before]
                    if new:
                        cl[cl.index(h)] = new[0]

    def cluster_of(h):
        for cl in clusters:
            if h in cl:
                return cl
        return None
    for _ in range(n_ops):
        live = r.live()
        if not live:
            r.do(("new", home))
            continue
        k = rng.choice(["meas", "meas", "meas", "g1", "g1", "g2in", "g2in", "g2x", "send", "send", "new", "measip"])
        h = rng.choice(live)
        if k == "meas":
            r.do(("meas", h, False, rng.random() < 0.5))
        elif k == "measip":
            r.do(("meas", h, True, rng.random() < 0.5))
        elif k == "g1":
            r.do(("g1", h, rng.choice(["X", "Y", "Z", "H", "K"])))
        elif k in ("g2in", "g2x"):
            cl = cluster_of(h)
            same_node = [x for x in live if x != h and r.holder(x) == r.holder(h)]
            if k == "g2in" and cl:
                cands = [x for x in same_node if x in cl]
            else:
                cands = [x for x in same_node if not cl or x not in cl]
            if not cands:
                continue
            p = rng.choice(cands)
            r.do(("g2", h, p, rng.choice(R.G2)))
            if k == "g2x":
                c2 = cluster_of(p)
                if cl and c2 and c2 is not cl:
                    cl.extend(c2)
                    clusters.remove(c2)
        elif k == "send":
            if n_nodes == 1:
                continue
            others = [x for x in range(n_nodes) if x != r.holder(h)]
            n_before = set(live)
            r.do(("send", h, rng.choice(others)))
            new = [x for x in r.live() if x not in n_before]
            cl = cluster_of(h)
            if new and cl:
                cl[cl.index(h)] = new[0]
        else:
            if len(live) < 9:
                node = home if rng.random() < 0.7 else rng.randrange(n_nodes)
                n_before = set(live)
                r.do(("new", node))
                new = [x for x in r.live() if x not in n_before]
                if new and clusters and rng.random() < 0.6:
                    # the replacement joins a cluster that has a member at the same node
                    cands = [cl for cl in clusters if any(x in r.live() and r.holder(x) == node for x in cl)]
                    if cands:
                        cl = rng.choice(cands)
                        partner = rng.choice([x for x in cl if x in r.live() and r.holder(x) == node])
                        r.do(("g2", partner, new[0], rng.choice(R.G2)))
                        cl.append(new[0])
    r.stat("clustered_programs")
    return r
