"""C04 — every operation completes and no lock outlives it."""
from props import concprop


def run(ctx):
    ctx.rule = ("same exploration as C03; judged: every Deferred returned to a client fires within 300 s of virtual time (back-off draws 1..4 s, polls 1 s) "
                "and no node-level or qubit-level lock is held when the run ends; distinct = distinct (prefix, operations, first 60 scheduler choices)")
    concprop.run_property(ctx, "C04")
