(* Correspondence cases for Model N: a session = messages sent to one NetQASM host; per message the quantum
   instructions it executed (as the reference interpreter resolved the classical control flow), and what the
   implementation showed: how the message ended, every native call that crossed the executioner -> virtual node
   boundary with its result, the complete dump of the virtual nodes and of the host's own bookkeeping. *)
From Coq Require Import List Bool Arith.
From SQ Require Import Base.ListUtil Stab.Tableau Net.Model Net.Cases Qasm.Exec.
Import ListNotations.

Definition g1_eqb (a b : g1) : bool :=
  match a, b with
  | NX, NX | NY, NY | NZ, NZ | NH, NH | NK, NK | NT, NT | NRot, NRot | NS, NS => true
  | _, _ => false
  end.
Definition g2_eqb (a b : g2) : bool :=
  match a, b with NCnot, NCnot | NCphase, NCphase => true | _, _ => false end.
Definition op_eqb (a b : op) : bool :=
  match a, b with
  | ONew x, ONew y => Nat.eqb x y
  | OGate1 h g, OGate1 h' g' => Nat.eqb h h' && g1_eqb g g'
  | OGate2 h1 h2 g, OGate2 h1' h2' g' => Nat.eqb h1 h1' && Nat.eqb h2 h2' && g2_eqb g g'
  | OSend h t, OSend h' t' => Nat.eqb h h' && Nat.eqb t t'
  | OMeas h i c, OMeas h' i' c' => Nat.eqb h h' && Bool.eqb i i' && Bool.eqb c c'
  | _, _ => false
  end.
Definition call_eqb (a b : op * out) : bool := op_eqb (fst a) (fst b) && out_eqb (snd a) (snd b).

(* host dump: active apps (sorted), unit modules, used physical ids (sorted), qubitList *)
Definition dhost := (list nat * list (nat * list (option nat)) * list nat * list (pid * nat))%type.

Definition onat_eqb (a b : option nat) : bool :=
  match a, b with Some x, Some y => Nat.eqb x y | None, None => true | _, _ => false end.
Definition units_sub (a b : list (nat * list (option nat))) : bool :=
  forallb (fun kv => match alookup (fst kv) b with Some um => list_eqb onat_eqb (snd kv) um | None => false end) a.
Definition qlist_sub (a b : list (pid * nat)) : bool :=
  forallb (fun kv => match plookup (fst kv) b with Some v => Nat.eqb v (snd kv) | None => false end) a.
Definition host_matches (h : host) (d : dhost) : bool :=
  let '(act, units, used, ql) := d in
  list_eqb Nat.eqb (h_active h) act
  && Nat.eqb (length (h_units h)) (length units) && units_sub units (h_units h)
  && list_eqb Nat.eqb (h_used h) used
  && Nat.eqb (length (h_qlist h)) (length ql) && qlist_sub ql (h_qlist h).

(* how a message ended: 0 = completion reply only, 1 = error reply + completion reply, 2 = error reply, no completion *)
Definition ending (rs : list qres) (classical_error : bool) : nat :=
  match last rs (RDone None) with
  | RDone _ => if classical_error then 1 else 0
  | RErr => 1
  | REscaped => 2
  end.

Definition dmsg := (list qinstr * bool * nat * list (op * out) * list dnode * dhost)%type.

(* 0 = agreement on every message, otherwise 1 + index of the first disagreeing message *)
Fixpoint check_msgs (k i : nat) (s : qst) (ms : list dmsg) : nat :=
  match ms with
  | [] => 0
  | (qs, cerr, fin, calls, dn, dh) :: t =>
      let '(s', rs, tr) := exec_list i s qs in
      if Nat.eqb (length rs) (length qs) && Nat.eqb (ending rs cerr) fin
         && list_eqb call_eqb tr calls
         && list_eqb dnode_eqb (dump (q_net s')) dn && host_matches (q_host s') dh
      then check_msgs (S k) i s' t else S k
  end.

Definition check_session (c : list (nat * nat) * nat * list dmsg) : nat :=
  let '(caps, i, ms) := c in check_msgs 0 i (mkQ (init_net caps) empty_host) ms.
