"""C11 — freeing qubits and stopping an application releases everything it held."""
import logging

import common
import net_sync as N
import qasm_gen as G
import qasm_run as QR
import qasm_sync as Q
from props import c09

PRE = [("set", "Q0", 0), ("set", "Q1", 1), ("set", "Q2", 2), ("set", "C2", 1)]


def scenarios():
    out = []
    # D16: node with room for one qubit; the second qalloc is refused; then stop
    out.append(("refused-qalloc-then-stop", [(1, 10)], [
        (("init", 0, 2), []),
        (("sub", 0, PRE + [("qalloc", "Q1"), ("init", "Q1"), ("qalloc", "Q0")]), [0, 0]),
        (("stop", 0), [0, 0]),
        (("init", 1, 2), []),
        (("sub", 1, PRE + [("qalloc", "Q0"), ("init", "Q0"), ("g1", "x", "Q0"), ("meas", "Q0", "M0"), ("ret_reg", "M0")]), [0, 0]),
        (("stop", 1), [1, 1])]))
    # register limit instead of qubit limit
    out.append(("refused-qalloc-register-limit", [(3, 1)], [
        (("init", 0, 3), []),
        (("sub", 0, PRE + [("qalloc", "Q0"), ("qalloc", "Q1"), ("g1", "h", "Q0")]), [0]),
        (("stop", 0), [1, 1]),
        (("init", 1, 1), []),
        (("sub", 1, PRE + [("qalloc", "Q0"), ("g1", "h", "Q0")]), [0]),
        (("stop", 1), [1, 1])]))
    # three generations at full capacity, entangled qubits left to the stop, failed subroutines in between
    gens = []
    for g in range(3):
        gens += [(("init", g, 3), []),
                 (("sub", g, PRE + [("qalloc", "Q0"), ("init", "Q0"), ("qalloc", "Q1"), ("init", "Q1"), ("qalloc", "Q2"), ("init", "Q2"),
                                    ("g1", "h", "Q0"), ("g2", "cnot", "Q0", "Q1"), ("g2", "cnot", "Q1", "Q2")]), [0] * 4),
                 (("sub", g, PRE + [("g1", "t", "Q0"), ("g1", "x", "Q1")]), [0]),
                 (("sub", g, PRE + [("qfree", "Q1"), ("g1", "x", "Q1")]), [g % 2]),
                 (("stop", g), [1, 0, 1])]
    out.append(("three-full-generations", [(3, 3)], gens))
    return out


def appid_reuse():
    return ("appid-reuse", [(2, 10)], [
        (("init", 0, 2), []),
        (("sub", 0, PRE + [("qalloc", "Q0"), ("init", "Q0")]), [0]),
        (("stop", 0), [0, 0]),
        (("init", 0, 2), []),
        (("sub", 0, PRE + [("qalloc", "Q0"), ("init", "Q0"), ("qalloc", "Q1"), ("init", "Q1")]), [0, 0]),
        (("stop", 0), [0, 0, 0])])


def failed_pair_leak(env):
    """two hosts; the receiver's node has no room, so the creator's pair creation fails after its two temporary qubits
    were made; then the creator's application stops.  Returns (what, replay) when qubits stay behind, else None"""
    import random
    import net_sync
    import qasm_epr as EP
    from netqasm.sdk.shared_memory import SharedMemoryManager
    SharedMemoryManager.reset_memories()
    env.clock.stopped = False
    names = ["N0", "N1"]
    net = net_sync.make_network(env, names, [4, 0], [10, 10])
    Q.make_hosts(env, net)

    def creator(conn, eprs):
        eprs[0].create_keep(1)
        conn.flush()
    msgs = EP.sdk_messages(names, "N0", 0, [("N1", 0, 0)], creator)
    Q.script_coins(env, [0] * 16, len(env.tap))
    out = EP.run_concurrently(env, net, {0: msgs}, random.Random(1))
    Q.script_coins(env, None, 0)
    replies = [(type(m).__name__, rep) for (m, rep, esc) in out[0]]
    counts = [(len(n.virtQubits), len(n.simQubits), len(n.registers)) for n in net.nodes]
    stop_ok = replies and replies[-1][0] == "StopAppMessage" and replies[-1][1] and replies[-1][1][-1][0] == "done"
    if counts[0] != (0, 0, 0):
        return ("create_keep(1) towards a full node fails after its two temporary qubits were created; StopApp %s but the creator's node keeps "
                "(held, sims, regs) = %r, qubitList ids %r" % ("completes" if stop_ok else "fails", counts[0], sorted(net.hosts[0].factory.qubitList)),
                {"caps": [[4, 10], [0, 10]], "program": "N0: create_keep(1) with N1 on sockets (0,0); then the application ends (StopApp)",
                 "replies": replies, "counts_after": counts})
    return None


def judge_c11(s):
    """the property, evaluated on the implementation alone (no model, no reference interpreter):
    every stop completes with exactly one completion reply and no error; whenever no application is active the
    per-node counts (held, simulated, registers) are those of the start of the session; an application can be started
    whenever the node is idle"""
    probs = []
    base = s.records[0]["counts_before"] if s.records else None
    active = set()
    for k, r in enumerate(s.records):
        m = r["msg"]
        if m[0] == "init":
            if r["impl_replies"] != [("done", k)]:
                probs.append({"step": k, "kind": "init-refused" + ("-reused-id" if m[1] in s_stopped(s, k) else ""),
                              "what": "InitNewApp(app %d) on an idle node answered %r%s" % (m[1], r["impl_replies"], ", host stopped its reactor" if r["stopped"] else "")})
                break
            active.add(m[1])
        elif m[0] == "stop":
            if m[1] not in active:
                continue               # stopping something that is not running: not an application in the property's sense
            if r["impl_replies"] != [("done", k)]:
                probs.append({"step": k, "kind": "stop-failed",
                              "what": "StopApp(app %d) answered %r (no completion reply%s); node counts (held, sims, regs) %r, at session start %r"
                              % (m[1], r["impl_replies"], ", host stopped its reactor" if r["stopped"] else "", r["counts_after"], base)})
                break
            active.discard(m[1])
            if not active and r["counts_after"] != base:
                probs.append({"step": k, "kind": "population",
                              "what": "no application left, but node counts (held, sims, regs) are %r instead of %r" % (r["counts_after"], base)})
                break
        if r["stopped"] and not probs:
            probs.append({"step": k, "kind": "host-stopped", "what": "the NetQASM host stopped its reactor while handling %r" % (m[:2],)})
            break
    return probs


def s_stopped(s, k):
    return set(r["msg"][1] for r in s.records[:k] if r["msg"][0] == "stop")


def run(ctx):
    t = ctx.tier == "thorough"
    ctx.trusted += c09.TRUST
    ctx.rule = ("sessions of 3-5 application generations (fresh application ids, sometimes two at once) on nodes with capacity 1..3 qubits / 1..3 or 10 "
                "registers: allocations up to and beyond capacity, frees, entangling gates, failed subroutines (T, rotations, bad addresses), stop with "
                "qubits still mapped; oracle on the implementation alone: every StopApp answers exactly MsgDone, and whenever no application is active the "
                "per-node counts (held, simulated, registers) equal those before the first message; Coq decides model = implementation per message "
                "(Qasm/Cases.v); distinct = distinct (capacities, message, coins)")
    common.check_properties_file(ctx)
    logging.disable(logging.CRITICAL)
    env = N.setup()
    Q.setup_qasm(env)
    rng = ctx.rng
    sessions = []
    with c09.quiet():
        for name, caps, script in scenarios():
            for pb in (False, True):
                s = QR.replay(env, caps, script, pb=pb)
                s.scenario = name
                sessions.append(s)
        for i in range(900 if t else 110):
            sessions.append(G.random_session(QR, env, rng, pb=(i % 4 == 3), bad=0.15, tight=True, generations=rng.randrange(3, 6),
                                             overlap=0.15 if i % 2 else 0.0))
        name, caps, script = appid_reuse()
        reuse = QR.replay(env, caps, script)
        reuse.scenario = name
        leak = failed_pair_leak(env)
    logging.disable(logging.NOTSET)
    gens = 0
    for s in sessions:
        ctx.count("sessions")
        for r in s.records:
            ctx.case((str(s.caps), str(r["msg"]), str(r["coins"][:6])), nontrivial=True)
            ctx.count("msg_" + r["msg"][0])
            ctx.count("ending_%d" % r["fin"])
            if r["msg"][0] == "stop":
                gens += 1
                ctx.count("qubits_cleared_by_stop", sum(1 for c in r["calls"] if c["method"] == "measure"))
            for c in r["calls"]:
                if c["status"] == "err":
                    ctx.count("native_refused_" + str(c["value"]))
        ctx.count("generations_max", 0)
        ctx.coverage["generations_max"] = max(ctx.coverage["generations_max"], sum(1 for r in s.records if r["msg"][0] == "stop"))
    ctx.count("generations", gens)
    ctx.sample({"caps": sessions[0].caps, "script": QR.script_of(sessions[0])})
    need = ["native_refused_noQubitError", "native_refused_quantumError", "qubits_cleared_by_stop"]
    missing = [k for k in need if not ctx.coverage.get(k)]
    ctx.obligation("refused allocations (qubit and register limit) and stops that still clear qubits exercised; >= 3 generations per session",
                   not missing and ctx.coverage["generations_max"] >= 3, "never hit: %r" % missing)
    bad = QR.correspond(ctx, sessions, "Model N (teardown) vs SubroutineHandler")
    # ---- oracle ----------------------------------------------------------------------------------------------------------------------
    seen = set()
    found = False
    logging.disable(logging.CRITICAL)
    for s in sessions + [reuse]:
        probs = judge_c11(s)
        if not probs and s.problems and s is not reuse:
            # the reference interpreter disagrees inside a generation: that is C09's verdict (./check C09 reports it);
            # here the session simply ended early
            ctx.count("sessions_cut_short_by_a_C09_deviation")
        if not probs:
            continue
        p = probs[0]
        key = "C11:" + p["kind"]
        if s is reuse:
            key = "C11:appid-reuse"
        if key in seen:
            continue
        seen.add(key)
        kind = p["kind"]

        def pred(ss, kind=kind):
            return any(q["kind"] == kind for q in judge_c11(ss))
        with c09.quiet():
            small = QR.shrink(env, s.caps, QR.script_of(s, p["step"]), pred, pb=s.pb, budget=150 if t else 80)
            ss = QR.replay(env, s.caps, small, pb=s.pb)
        pp = [q for q in judge_c11(ss) if q["kind"] == kind]
        what = pp[0]["what"] if pp else p["what"]
        ctx.obligation("oracle %s" % key, False, what)
        if ctx.report(key, what, {"caps": s.caps, "host_over_real_PB": s.pb,
                                  "script": [[list(m[:2]) + ([[list(i) for i in m[2]]] if m[0] == "sub" else list(m[2:])), c] for m, c in small],
                                  "impl_replies": [r["impl_replies"] for r in ss.records],
                                  "counts_after_each_message": [r["counts_after"] for r in ss.records]}, found_input=True):
            found = True
        else:
            ctx.broken_explained_by_known = True
    logging.disable(logging.NOTSET)
    if leak is not None:
        ctx.obligation("oracle C11:epr-temporaries", False, leak[0])
        if ctx.report("C11:epr-temporaries", leak[0], leak[1], found_input=True):
            found = True
        else:
            ctx.broken_explained_by_known = True
    ctx.count("failed_pair_creation_scenarios")
    if not seen - {"C11:appid-reuse"}:
        ctx.obligation("oracle: every stop completes and idle nodes are back at their initial counts (fresh application ids)", True)
    if bad and not found and not (seen - {"C11:appid-reuse"}):
        s, i = bad[0]
        ctx.report("correspondence:C11", "Model N and the implementation disagree (the count oracle is satisfied on the explored sessions)",
                   {"caps": s.caps, "script": QR.script_of(s, i), "broken": ctx.broken()}, found_input=False)
