(* Model F: proofs about the node with several connections (Conn.v). *)
From Coq Require Import List NArith Arith Lia Bool.
From SQ Require Import Base.ListUtil Frame.Bytes Frame.Msg Frame.Stream Frame.StreamProofs Frame.Conn.
Import ListNotations.
Local Open Scope nat_scope.

Definition no_done (exec : hostmsg -> list retmsg) : Prop :=
  forall m, forallb (fun r => negb (is_done r)) (exec m) = true.

Lemma dones_app a b : dones (a ++ b) = dones a ++ dones b.
Proof.
  induction a as [|[c m] a IH]; simpl; [reflexivity|].
  destruct m; simpl; rewrite IH; reflexivity.
Qed.

Lemma dones_no_done t l : forallb (fun r => negb (is_done r)) l = true ->
  dones (map (fun m => (t, m)) l) = [].
Proof.
  induction l as [|m l IH]; simpl; [reflexivity|].
  intro H. apply andb_true_iff in H as [H1 H2]. destruct m; simpl in *; try discriminate; auto.
Qed.

Lemma dones_replies exec t hs : no_done exec ->
  dones (flat_map (fun f => map (fun m => (t, m)) (replies exec f)) hs) = map (fun f => (t, fst f)) hs.
Proof.
  intro Hn. induction hs as [|f hs IH]; simpl; [reflexivity|].
  rewrite dones_app, IH. unfold replies. rewrite map_app, dones_app.
  rewrite (dones_no_done t _ (Hn (snd f))). reflexivity.
Qed.

Lemma arrivals_app a b : arrivals (a ++ b) = arrivals a ++ arrivals b.
Proof. unfold arrivals. apply map_app. Qed.

Lemma arrivals_map c hs : arrivals (map (fun f => (c, f)) hs) = map (fun f : frame => (c, fst f)) hs.
Proof. unfold arrivals. rewrite map_map. reflexivity. Qed.

(* the handler always points at the connection opened last *)
Definition hp_inv (st : node) : Prop :=
  match hp st with
  | None => bufs st = []
  | Some t => length (bufs st) = S t
  end.

Lemma nstep_hp_inv exec st op : hp_inv st -> hp_inv (nstep exec st op).
Proof.
  unfold hp_inv. destruct op as [|c d|c]; simpl.
  - intros _. rewrite app_length. simpl. lia.
  - destruct (Nat.ltb_spec c (length (bufs st))) as [Hc|Hc]; [|auto].
    destruct (feed_fix (nth c (bufs st) []) d) as [[hs r] s].
    destruct (hp st) as [t|] eqn:Eh; simpl; rewrite ?Eh.
    + rewrite upd_length. auto.
    + intro H. rewrite H in Hc. simpl in Hc. lia.
  - auto.
Qed.

(* ---- exactly one Done per handled message, ids in the order of handling ---------------------------------- *)
Definition ids_inv (st : node) : Prop := map snd (dones (outs st)) = map snd (arrivals (log st)).

Lemma nstep_ids_inv exec st op : no_done exec -> hp_inv st -> ids_inv st -> ids_inv (nstep exec st op).
Proof.
  intros Hn Hh Hi. unfold ids_inv in *. destruct op as [|c d|c]; simpl; [exact Hi| |exact Hi].
  destruct (Nat.ltb_spec c (length (bufs st))) as [Hc|Hc]; [|exact Hi].
  destruct (feed_fix (nth c (bufs st) []) d) as [[hs r] s].
  destruct (hp st) as [t|] eqn:Eh; simpl.
  - rewrite dones_app, arrivals_app, !map_app, Hi. f_equal.
    rewrite (dones_replies exec t hs Hn), arrivals_map, !map_map. reflexivity.
  - unfold hp_inv in Hh. rewrite Eh in Hh. rewrite Hh in Hc. simpl in Hc. lia.
Qed.

Lemma nrun_inv exec ops : no_done exec ->
  forall st, hp_inv st -> ids_inv st ->
  hp_inv (fold_left (nstep exec) ops st) /\ ids_inv (fold_left (nstep exec) ops st).
Proof.
  intro Hn. induction ops as [|op ops IH]; intros st Hh Hi; simpl; [auto|].
  apply IH; [apply nstep_hp_inv; assumption | apply nstep_ids_inv; assumption].
Qed.

Lemma one_done_per_message_lem exec ops : no_done exec ->
  map snd (dones (outs (nrun exec ops))) = map snd (arrivals (log (nrun exec ops))).
Proof.
  intro Hn. apply (nrun_inv exec ops Hn node0); reflexivity.
Qed.

(* ---- with one connection every Done goes where its message came from ------------------------------------- *)
Definition single_inv (st : node) : Prop :=
  length (bufs st) = 1 /\ hp st = Some 0 /\ dones (outs st) = arrivals (log st).

Lemma nstep_single exec st d : no_done exec -> single_inv st -> single_inv (nstep exec st (Data 0 d)).
Proof.
  intros Hn (Hl & Hh & Hd). unfold single_inv. simpl.
  rewrite Hl. simpl.
  destruct (feed_fix (nth 0 (bufs st) []) d) as [[hs r] s]. rewrite Hh. simpl.
  rewrite upd_length. split; [assumption|]. split; [reflexivity|].
  rewrite dones_app, arrivals_app, Hd. f_equal.
  rewrite (dones_replies exec 0 hs Hn), arrivals_map. reflexivity.
Qed.

Lemma single_connection_routing_lem exec ds : no_done exec ->
  let st := nrun exec (Open :: map (Data 0) ds) in dones (outs st) = arrivals (log st).
Proof.
  intro Hn. unfold nrun. simpl.
  assert (H : forall st, single_inv st -> single_inv (fold_left (nstep exec) (map (Data 0) ds) st)).
  { induction ds as [|d ds IH]; intros st Hs; simpl; [assumption|].
    apply IH. apply nstep_single; assumption. }
  apply (H (mkNode [[]] (Some 0) [] [])). repeat split.
Qed.

(* ---- with two connections the reply goes to the one opened last ------------------------------------------- *)
Definition w_two_conns : list nop := [Open; Open; Data 0 (enc1 (5%N, HSignal 0%N))].

Lemma reply_connection_refuted_lem :
  let st := nrun (fun _ => []) w_two_conns in
  arrivals (log st) = [(0, 5%N)] /\ dones (outs st) = [(1, 5%N)] /\
  wire 0 (outs st) = [] /\ wire 1 (outs st) = [enc_ret (RDone 5%N)].
Proof. vm_compute. repeat split. Qed.

(* non-vacuity of the two positive statements: two connections, interleaved, one message split over two reads,
   an executor that returns a register before the Done *)
Example conn_example :
  let exec := fun m => match m with HSub _ => [RReg 3%N 1%N] | _ => [] end in
  let s := enc1 (7%N, HSub [1%N; 2%N]) in
  let st := nrun exec [Open; Data 0 (firstn 5 s); Data 0 (skipn 5 s ++ enc1 (8%N, HStop 1%N))] in
  no_done exec /\ length (log st) = 2 /\
  outs st = [(0, RReg 3%N 1%N); (0, RDone 7%N); (0, RDone 8%N)].
Proof.
  split; [intros [ | | | | ]; reflexivity|]. vm_compute. split; reflexivity.
Qed.
