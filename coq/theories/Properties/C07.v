(* C07 — per-node qubit capacity is enforced exactly (Model V). *)
From Coq Require Import List Bool Arith.
From SQ Require Import Base.ListUtil Net.Model Net.Refusal Net.Capacity.
Import ListNotations.

(* after ANY history of operations (failed ones included) on ANY network, every node holds at most its configured maximum *)
Theorem C07_never_more_than_configured_max : forall caps ops i,
  i < length caps ->
  length (virt (nth_node (run (init_net caps) ops) i)) <= fst (nth i caps (0, 0)).
Proof. exact held_le_configured_max. Qed.
Print Assumptions C07_never_more_than_configured_max.

(* creating succeeds iff the node holds fewer than the maximum (and a register can still be created: a fresh qubit needs a fresh register) *)
Theorem C07_create_iff : forall s i, i < length (nodes s) ->
  let nd := nth_node s i in
  (snd (step s (ONew i)) = Err KNoQubit <-> maxQ nd <= length (virt nd)) /\
  (snd (step s (ONew i)) = Err KQuantum <-> length (virt nd) < maxQ nd /\ maxR nd <= numRegs nd) /\
  ((exists v, snd (step s (ONew i)) = Ok v) <-> length (virt nd) < maxQ nd /\ numRegs nd < maxR nd).
Proof. exact new_decision. Qed.
Print Assumptions C07_create_iff.

(* creating a qubit inside a register the node lists succeeds iff the node holds fewer than its maximum and the register has room *)
Theorem C07_create_in_register_iff : forall s i ow k r, i < length (nodes s) ->
  find_reg k (regs (nth_node s ow)) = Some r ->
  let nd := nth_node s i in
  (snd (step s (ONewInReg i ow k)) = Err KQuantum <-> ow <> i) /\
  (snd (step s (ONewInReg i ow k)) = Err KNoQubit <-> ow = i /\ (maxQ nd <= length (virt nd) \/ r_max r <= r_n r)) /\
  ((exists v, snd (step s (ONewInReg i ow k)) = Ok v) <-> ow = i /\ length (virt nd) < maxQ nd /\ r_n r < r_max r).
Proof. exact newinreg_decision. Qed.
Print Assumptions C07_create_in_register_iff.

(* `creating more registers than the configured maximum is refused`: remote_add_register succeeds iff fewer than the maximum exist *)
Theorem C07_create_register_iff : forall s i mq, i < length (nodes s) ->
  let nd := nth_node s i in
  (snd (step s (ONewReg i mq)) = Err KQuantum <-> maxR nd <= numRegs nd) /\
  ((exists v, snd (step s (ONewReg i mq)) = Ok v) <-> numRegs nd < maxR nd) /\
  (snd (step s (ONewReg i mq)) = Ok (nextReg nd) <-> numRegs nd < maxR nd).
Proof. exact newreg_decision. Qed.
Print Assumptions C07_create_register_iff.

(* receiving succeeds iff the receiver holds fewer than its maximum — wherever the qubit is simulated *)
Theorem C07_receive_iff : forall s h t vi q, find_handle s h = Some (vi, q) ->
  (snd (step s (OSend h t)) = Err KVirtNet <-> length (nodes s) <= t) /\
  (snd (step s (OSend h t)) = Err KNoQubit <-> t < length (nodes s) /\ maxQ (nth_node s t) <= length (virt (nth_node s t))) /\
  ((exists v, snd (step s (OSend h t)) = Ok v) <-> t < length (nodes s) /\ length (virt (nth_node s t)) < maxQ (nth_node s t)).
Proof. exact send_decision. Qed.
Print Assumptions C07_receive_iff.

(* register merges never fail for capacity reasons: a two-qubit gate is refused only for identical operands *)
Theorem C07_merges_never_refused_for_capacity : forall s h1 h2 g k,
  snd (step s (OGate2 h1 h2 g)) = Err k -> k = KValue.
Proof. exact gate2_refusals. Qed.
Print Assumptions C07_merges_never_refused_for_capacity.
