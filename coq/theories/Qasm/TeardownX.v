(* C11, several hosts: the per-host teardown invariant of Qasm/Teardown.v generalised to a node that also holds qubits the
   host does not (yet) map: `ex` = handles of pair halves delivered to the node and not yet claimed by a recv.
   tinvx i ex s: node i holds EXACTLY the qubits of qubitList plus ex (as sets, no overlap), qubitList keys are used
   physical ids, every mapped address has its qubit.  With ex = [] this is tinv of Teardown.v.
   Every instruction of host i keeps it AND leaves the handle list of every other node untouched (xexec) -- the frame
   property that lets several hosts share one Model-V network (Qasm/TeardownNet.v). *)
From Coq Require Import List Bool Arith Lia.
From SQ Require Import Base.ListUtil Stab.Tableau Net.Model Net.Refusal Net.Handles Net.Inv Net.InvNew Net.InvStep
  Net.Population Net.PerNode Qasm.Exec Qasm.ExecProps Qasm.Teardown Qasm.PerNodeNum.
Import ListNotations.

Local Arguments step : simpl never.

(* ---- Model V: sending, node count, handles below next_hid ------------------------------------------------------------------ *)
Lemma filter_neq_hn h l : filter (fun x => negb (Nat.eqb x h)) (map v_hid l) = map v_hid (remove_vq h l).
Proof.
  unfold remove_vq. induction l as [|a t IH]; simpl; auto. destruct (Nat.eqb (v_hid a) h); simpl; congruence.
Qed.

(* sending: the handle leaves its holder, the handle next_hid appears at the target, nothing else moves *)
Lemma step_send_hn s h t v vi q j : snd (step s (OSend h t)) = Ok v -> find_handle s h = Some (vi, q) -> vi <> t ->
  hn (nth_node (fst (step s (OSend h t))) j) =
    (if Nat.eqb j vi then filter (fun x => negb (Nat.eqb x h)) (hn (nth_node s vi))
     else if Nat.eqb j t then hn (nth_node s t) ++ [next_hid s] else hn (nth_node s j))
  /\ length (nodes (fst (step s (OSend h t)))) = length (nodes s) /\ t < length (nodes s)
  /\ next_hid (fst (step s (OSend h t))) = S (next_hid s).
Proof.
  unfold step, op_send. intros Hok F Hne. rewrite F in *.
  destruct (Nat.leb_spec (length (nodes s)) t) as [Ht|Ht]; [discriminate|].
  destruct (Nat.leb _ _); [discriminate|]. cbn [fst].
  apply find_handle_some in F as (Lvi & Hq & Ehq).
  set (tn1 := with_virt _ _). set (s1 := mkNet _ _).
  assert (E1 : forall k, nth_node s1 k = if Nat.eqb k t then tn1 else nth_node s k).
  { intro k. unfold s1. rewrite nth_node_mk. destruct (Nat.ltb_spec t (length (nodes s))); try lia. rewrite andb_true_r. auto. }
  assert (L1 : length (nodes s1) = length (nodes s)) by (unfold s1; simpl; apply upd_length).
  split; [|split; [rewrite set_node_length; exact L1|split; [exact Ht|reflexivity]]].
  rewrite nth_node_set. rewrite L1. destruct (Nat.ltb_spec vi (length (nodes s))); try lia. rewrite andb_true_r.
  destruct (Nat.eqb_spec j vi) as [->|Nj].
  - rewrite E1. destruct (Nat.eqb_spec vi t); [contradiction|]. unfold hn. cbn [virt with_virt]. symmetry. apply filter_neq_hn.
  - rewrite E1. destruct (Nat.eqb_spec j t) as [->|]; auto.
    unfold tn1, hn. cbn [virt with_virt]. rewrite map_app. reflexivity.
Qed.

Lemma step_length s o : length (nodes (fst (step s o))) = length (nodes s).
Proof.
  destruct (quiet_op o) eqn:Q; [apply (step_quiet s o 0 Q)|].
  destruct o as [n|h g|h1 h2 g|h t|h ip c|n mq|n ow k]; try discriminate.
  - unfold step. destruct (Nat.ltb _ _); auto. unfold op_new.
    destruct (Nat.leb _ _); auto. destruct (add_register _) as [[nd1 r]|]; auto. cbn [fst nodes]. apply upd_length.
  - unfold step, op_send. destruct (find_handle s h) as [[vi q]|]; auto.
    destruct (Nat.leb _ _); auto. destruct (Nat.leb _ _); auto. cbn [fst]. rewrite set_node_length. cbn [nodes]. apply upd_length.
  - destruct ip; [discriminate|].
    destruct (find_handle s h) as [[vi q]|] eqn:F.
    + destruct (snd (step s (OMeas h false c))) as [v| | |k] eqn:E.
      * apply (step_meas_hn s h c v vi q 0 E F).
      * rewrite step_not_ok_same; auto. intros v. rewrite E. discriminate.
      * rewrite step_not_ok_same; auto. intros v. rewrite E. discriminate.
      * rewrite step_not_ok_same; auto. intros v. rewrite E. discriminate.
    + unfold step, op_meas. rewrite F. reflexivity.
  - apply (step_newreg_hn s n mq 0).
  - destruct (snd (step s (ONewInReg n ow k))) as [v| | |kk] eqn:E.
    + apply (step_new_inreg_hn s n ow k v 0 E).
    + rewrite step_not_ok_same; auto. intros v. rewrite E. discriminate.
    + rewrite step_not_ok_same; auto. intros v. rewrite E. discriminate.
    + rewrite step_not_ok_same; auto. intros v. rewrite E. discriminate.
Qed.

Lemma run_length ops : forall s, length (nodes (run s ops)) = length (nodes s).
Proof. induction ops as [|o t IH]; intros s; simpl; auto. rewrite IH. apply step_length. Qed.

Lemma hn_in_hids s i x : In x (hn (nth_node s i)) -> In x (hids s).
Proof.
  intro Hin. unfold hids. apply in_flat_map.
  destruct (Nat.ltb_spec i (length (nodes s))).
  - exists (nth_node s i). split; auto. apply nth_In; auto.
  - rewrite nth_node_overflow in Hin; auto. simpl in Hin. contradiction.
Qed.
Lemma hn_lt s i x : hid_inv s -> In x (hn (nth_node s i)) -> x < next_hid s.
Proof. intros [_ B] Hin. rewrite Forall_forall in B. apply B. eapply hn_in_hids; eauto. Qed.

(* what the operations of host i may do to the (number, handle) lists: other nodes untouched; at node i the lookup by
   number of every unclaimed half still returns that half *)
Definition vstable (i : nat) (ex : list nat) (n n' : net) : Prop :=
  (forall j, j <> i -> vn (nth_node n' j) = vn (nth_node n j)) /\
  (forall num hd, In hd ex -> hid_of_num (nth_node n i) num = Some hd -> hid_of_num (nth_node n' i) num = Some hd).
Lemma vstable_refl i ex n : vstable i ex n n.
Proof. split; auto. Qed.
Lemma vstable_trans i ex n1 n2 n3 : vstable i ex n1 n2 -> vstable i ex n2 n3 -> vstable i ex n1 n3.
Proof. intros [A1 B1] [A2 B2]. split; [intros j Nj; rewrite A2, A1; auto|auto]. Qed.
Lemma vstable_same i ex n n' : (forall j, vn (nth_node n' j) = vn (nth_node n j)) -> vstable i ex n n'.
Proof. intro H. split; [auto|]. intros num hd _. unfold hid_of_num. rewrite H. auto. Qed.
Lemma vstable_hn i ex n n' : vstable i ex n n' -> forall j, j <> i -> hn (nth_node n' j) = hn (nth_node n j).
Proof. intros [A _] j Nj. rewrite !hn_vn, A; auto. Qed.

(* ---- the generalised invariant --------------------------------------------------------------------------------------------------- *)
Record tinvx (i : nat) (ex : list nat) (s : qst) : Prop := mkTx {
  x_h : hinv s;
  x_inv : inv (q_net s);
  x_keys : forall k hd, plookup k (h_qlist (q_host s)) = Some hd -> exists p, k = PP p /\ In p (h_used (q_host s));
  x_nodup : NoDup (map fst (h_qlist (q_host s)));
  (* node i holds exactly the qubits of qubitList and the unclaimed halves *)
  x_own : forall x, In x (hn (nth_node (q_net s) i)) <-> (exists p, plookup p (h_qlist (q_host s)) = Some x) \/ In x ex;
  x_exnodup : NoDup ex;
  x_exdisj : forall p hd, plookup p (h_qlist (q_host s)) = Some hd -> ~ In hd ex;
  x_complete : forall app um a p, alookup app (h_units (q_host s)) = Some um -> nth_error um a = Some (Some p) ->
               plookup (PP p) (h_qlist (q_host s)) <> None
}.

Lemma tinv_is_tinvx i s : tinv i s -> tinvx i [] s.
Proof.
  intros [H I L K N C M]. constructor; auto; try (constructor; fail); try (intros; simpl; tauto).
  intro x. split.
  - intro Hx.
    (* held = |qubitList|, qubitList handles injective and all held: the inclusion is onto *)
    left.
    assert (INC : incl (map snd (h_qlist (q_host s))) (hn (nth_node (q_net s) i))).
    { intros y Hy. apply in_map_iff in Hy as ([k v] & E & Hin). simpl in E. subst v.
      apply (L k). clear - Hin N. induction (h_qlist (q_host s)) as [|[k' v'] t IH]; simpl in *; [tauto|].
      inversion N; subst. destruct (pid_eqb_spec k' k).
      - destruct Hin as [E|Hin]; [congruence|]. subst. exfalso. apply H1. change k with (fst (k, y)). apply in_map. exact Hin.
      - destruct Hin as [E|Hin]; [congruence|]. apply IH; auto. }
    assert (ND : NoDup (map snd (h_qlist (q_host s)))).
    { clear - N H. pose proof (inv_qinj s H) as QI. induction (h_qlist (q_host s)) as [|[k v] t IH]; simpl; constructor.
      - intro Hin. apply in_map_iff in Hin as ([k' v'] & E & Hin). simpl in E. subst v'.
        inversion N; subst.
        assert (P1 : plookup k ((k, v) :: t) = Some v) by (simpl; destruct (pid_eqb_spec k k); congruence).
        assert (Nk : k' <> k). { intro; subst. apply H2. change k with (fst (k, v)). apply in_map. exact Hin. }
        assert (P2 : plookup k' ((k, v) :: t) = Some v).
        { simpl. destruct (pid_eqb_spec k k'); [congruence|]. clear - Hin H3. induction t as [|[a b] t IH]; simpl in *; [tauto|].
          inversion H3; subst. destruct (pid_eqb_spec a k').
          - destruct Hin as [E|Hin]; [congruence|]. subst. exfalso. apply H1. change k' with (fst (k', v)). apply in_map. exact Hin.
          - destruct Hin as [E|Hin]; [congruence|]. apply IH; auto. }
        apply Nk. symmetry. apply (QI _ _ _ P1 P2).
      - inversion N; subst. apply IH; auto.
        intros p p' hd A B. apply (QI p p' hd); simpl.
        + destruct (pid_eqb_spec k p); auto. subst. exfalso. apply H2. eapply plookup_in_keys; eauto.
        + destruct (pid_eqb_spec k p'); auto. subst. exfalso. apply H2. eapply plookup_in_keys; eauto. }
    assert (LE : length (hn (nth_node (q_net s) i)) <= length (map snd (h_qlist (q_host s)))).
    { rewrite map_length, <- C, held_hn. lia. }
    pose proof (NoDup_length_incl ND LE INC x Hx) as Hy.
    apply in_map_iff in Hy as ([k v] & E & Hin). simpl in E. subst v. exists k.
    clear - Hin N. induction (h_qlist (q_host s)) as [|[k' v'] t IH]; simpl in *; [tauto|].
    inversion N; subst. destruct (pid_eqb_spec k' k).
    + destruct Hin as [E|Hin]; [congruence|]. subst. exfalso. apply H1. change k with (fst (k, x)). apply in_map. exact Hin.
    + destruct Hin as [E|Hin]; [congruence|]. apply IH; auto.
  - intros [(p & Hp)|[]]. eauto.
Qed.

(* the frame: another host's operations changed the network but not this node's handle list *)
Lemma tinvx_frame i ex n' s :
  tinvx i ex s -> ginv n' -> next_hid (q_net s) <= next_hid n' ->
  hn (nth_node n' i) = hn (nth_node (q_net s) i) -> tinvx i ex (mkQ n' (q_host s)).
Proof.
  intros [H I K N O E D M] [G1 G2] Mo Eh. constructor; simpl; auto.
  - destruct H as [Hn U J L Q]. constructor; simpl; auto. intros p hd Hp. apply L in Hp. lia.
  - intro x. rewrite Eh. apply O.
Qed.

(* ... or delivered one more half to this node *)
Lemma tinvx_frame_add i ex n' s x :
  tinvx i ex s -> ginv n' -> next_hid (q_net s) <= x -> x < next_hid n' ->
  hn (nth_node n' i) = hn (nth_node (q_net s) i) ++ [x] -> tinvx i (ex ++ [x]) (mkQ n' (q_host s)).
Proof.
  intros T [G1 G2] Mo Lx Eh.
  assert (FR : forall y, In y (hn (nth_node (q_net s) i)) -> y < x).
  { intros y Hy. pose proof (hn_lt _ _ _ (inv_net s (x_h i ex s T)) Hy). lia. }
  destruct T as [H I K N O E D M]. constructor; simpl; auto.
  - destruct H as [Hn U J L Q]. constructor; simpl; auto. intros p hd Hp. apply L in Hp. lia.
  - intro y. rewrite Eh, !in_app_iff, O. simpl. tauto.
  - apply NoDup_app_one; auto. intro Hx. assert (x < x); [|lia]. apply FR. apply O. auto.
  - intros p hd Hp Hin. apply in_app_iff in Hin as [Hin|[Hin|[]]]; [eapply D; eauto|].
    subst hd. assert (x < x); [|lia]. apply FR. apply O. eauto.
Qed.

(* ---- native calls that neither create nor destroy ----------------------------------------------------------------------------- *)
Lemma xquiet i ex s o : quiet_op o = true -> tinvx i ex s ->
  tinvx i ex (fst (fst (native s o))) /\ forall j, vn (nth_node (q_net (fst (fst (native s o)))) j) = vn (nth_node (q_net s) j).
Proof.
  intros Q [H I K N O E D M].
  pose proof (hinv_native s o H) as H'.
  unfold native in *. destruct (step (q_net s) o) as [n' r] eqn:E0. simpl in *.
  assert (AV : forall j, vn (nth_node n' j) = vn (nth_node (q_net s) j)).
  { intro j. pose proof (step_quiet_vn (q_net s) o j Q) as A. rewrite E0 in A. exact A. }
  assert (A : forall j, hn (nth_node n' j) = hn (nth_node (q_net s) j)) by (intro j; rewrite !hn_vn, AV; reflexivity).
  split; [|exact AV]. constructor; simpl; auto.
  - pose proof (step_ginv (q_net s) o (conj (inv_net s H) I)) as [_ G]. rewrite E0 in G. exact G.
  - intro x. rewrite A. apply O.
Qed.

(* ---- one iteration of the clearing loop ---------------------------------------------------------------------------------------- *)
Lemma xclear_one i ex s p c hd :
  tinvx i ex s -> In p (h_used (q_host s)) -> plookup (PP p) (h_qlist (q_host s)) = Some hd -> not_mapped (q_host s) p ->
  let s0 := mkQ (q_net s) (with_used (q_host s) (remove_nat p (h_used (q_host s)))) in
  exists s1 tr, clear_phys s0 p c = (s1, true, tr) /\ tinvx i ex s1 /\
    h_units (q_host s1) = h_units (q_host s) /\ h_active (q_host s1) = h_active (q_host s) /\
    h_used (q_host s1) = remove_nat p (h_used (q_host s)) /\
    h_qlist (q_host s1) = premove (PP p) (h_qlist (q_host s)) /\
    vstable i ex (q_net s) (q_net s1).
Proof.
  intros T Hu Hp NM s0. destruct T as [H I K N O E D M].
  assert (H0 : hinv s0) by (apply hinv_unuse; auto).
  pose proof (hinv_clear_phys s0 p c H0) as H1.
  unfold clear_phys in *. unfold virt_of in *. unfold s0 in *. clear s0. cbn [q_host with_used h_qlist] in *. rewrite Hp in *.
  assert (Lhd : In hd (hn (nth_node (q_net s) i))) by (apply O; left; eauto).
  destruct (live_find (q_net s) i hd Lhd) as (vi & vq & F).
  assert (vi = i) by (eapply holder_is; eauto; apply (inv_net s H)). subst vi.
  destruct (meas_live_ok (q_net s) hd false c i vq I F) as [v Ok1].
  unfold native in *. cbn [q_net q_host] in *.
  assert (AJ : forall j, hn (nth_node (fst (step (q_net s) (OMeas hd false c))) j) =
                         if Nat.eqb j i then filter (fun x => negb (Nat.eqb x hd)) (hn (nth_node (q_net s) i))
                         else hn (nth_node (q_net s) j)).
  { intro j. apply (step_meas_hn (q_net s) hd c v i vq j Ok1 F). }
  assert (AV : forall j, vn (nth_node (fst (step (q_net s) (OMeas hd false c))) j) =
                         if Nat.eqb j i then filter (fun x => negb (Nat.eqb (snd x) hd)) (vn (nth_node (q_net s) i))
                         else vn (nth_node (q_net s) j)).
  { intro j. apply (step_meas_vn (q_net s) hd c v i vq j Ok1 F). }
  pose proof (step_ginv (q_net s) (OMeas hd false c) (conj (inv_net s H) I)) as [_ G].
  destruct (step (q_net s) (OMeas hd false c)) as [n' r] eqn:E0. cbn [fst snd] in *. subst r.
  pose proof (AJ i) as A. rewrite Nat.eqb_refl in A.
  eexists; eexists. split; [reflexivity|]. cbn [q_net q_host with_qlist with_used h_units h_active h_used h_qlist].
  split; [|split; [auto|split; [auto|split; [auto|split; [auto|]]]]].
  - constructor; cbn [q_net q_host with_qlist with_used h_units h_active h_used h_qlist]; auto.
    + intros k hd0 Hk. apply plookup_premove_some in Hk as [Hk Ne]. destruct (K _ _ Hk) as (p0 & -> & Hin).
      exists p0. split; auto. apply remove_nat_in. split; auto; try (intro; subst; apply Ne; reflexivity).
    + apply premove_nodup; auto.
    + intro x. rewrite A, filter_In. split.
      * intros [Hx Nx]. apply O in Hx as [(p0 & Hp0)|Hx]; [left|right; exact Hx].
        exists p0. rewrite plookup_premove_neq; auto. intro X. subst p0. rewrite Hp in Hp0. inversion Hp0; subst.
        rewrite Nat.eqb_refl in Nx. discriminate.
      * intros [(p0 & Hp0)|Hx].
        -- apply plookup_premove_some in Hp0 as [Hp0 Ne]. split; [apply O; eauto|].
           destruct (Nat.eqb_spec x hd); auto. subst. exfalso. apply Ne. symmetry. eapply (inv_qinj s H); eauto.
        -- split; [apply O; auto|]. destruct (Nat.eqb_spec x hd); auto. subst. exfalso. eapply D; eauto.
    + intros p0 hd0 Hp0. apply plookup_premove_some in Hp0 as [Hp0 _]. eauto.
    + intros app um a p0 E1 E2. rewrite plookup_premove_neq; [eauto|].
      intro X. inversion X; subst. eapply NM; eauto.
  - split.
    + intros j Nj. rewrite AV. destruct (Nat.eqb_spec j i); [contradiction|reflexivity].
    + intros num hd0 Hex L. unfold hid_of_num in *. rewrite AV, Nat.eqb_refl. apply lookup_filter; auto.
      intro X. subst hd0. eapply D; eauto.
Qed.

Lemma xclear_all_ok i ex um : forall s coins,
  tinvx i ex s ->
  (forall a p, nth_error um a = Some (Some p) -> In p (h_used (q_host s)) /\ plookup (PP p) (h_qlist (q_host s)) <> None /\ not_mapped (q_host s) p) ->
  (forall a a' p, nth_error um a = Some (Some p) -> nth_error um a' = Some (Some p) -> a = a') ->
  exists s1 tr, clear_all s um coins = (s1, true, tr) /\ tinvx i ex s1 /\
    h_units (q_host s1) = h_units (q_host s) /\ h_active (q_host s1) = h_active (q_host s) /\
    (forall k, In k (map fst (h_qlist (q_host s1))) ->
               In k (map fst (h_qlist (q_host s))) /\ forall a p, nth_error um a = Some (Some p) -> k <> PP p) /\
    vstable i ex (q_net s) (q_net s1).
Proof.
  induction um as [|[p|] t IH]; intros s coins T F D; simpl.
  - eexists; eexists. split; [reflexivity|]. split; [auto|]. split; [auto|]. split; [auto|]. split; [|apply vstable_refl].
    intros k Hk. split; [auto|]. intros a p E. destruct a; discriminate.
  - destruct (F 0 p eq_refl) as (Hu & Hq & NM).
    assert (M : mem_nat p (h_used (q_host s)) = true) by (apply mem_nat_in; auto). rewrite M. simpl.
    destruct (plookup (PP p) (h_qlist (q_host s))) as [hq|] eqn:Ep; [|contradiction].
    destruct (xclear_one i ex s p (hd false coins) hq T Hu Ep NM) as (s1 & tr & E1 & T1 & U1 & A1 & X1 & Q1 & O1).
    cbv zeta in E1. rewrite E1.
    destruct (IH s1 (tl coins) T1) as (s2 & tr2 & E2 & T2 & U2 & A2 & Q2 & O2).
    + intros a p0 Ea. destruct (F (S a) p0 Ea) as (Hu0 & Hq0 & NM0).
      assert (Np : p0 <> p). { intro; subst. specialize (D (S a) 0 p Ea eq_refl). discriminate. }
      split; [|split].
      * rewrite X1. apply remove_nat_in. auto.
      * rewrite Q1. rewrite plookup_premove_neq; auto. congruence.
      * unfold not_mapped. rewrite U1. exact NM0.
    + intros a a' p0 Ea Ea'. specialize (D (S a) (S a') p0 Ea Ea'). lia.
    + rewrite E2. eexists; eexists. split; [reflexivity|]. split; auto. split; [congruence|]. split; [congruence|]. split.
      * intros k Hk. apply Q2 in Hk as [Hk1 Hk2]. rewrite Q1 in Hk1. apply premove_keys in Hk1 as [Hk1 Nk]. split; auto.
        intros [|a] p0 Ea; [inversion Ea; subst; auto | eauto].
      * eapply vstable_trans; eauto.
  - destruct (IH s coins T) as (s2 & tr2 & E2 & T2 & U2 & A2 & Q2 & O2).
    + intros a p0 Ea. apply (F (S a) p0 Ea).
    + intros a a' p0 Ea Ea'. specialize (D (S a) (S a') p0 Ea Ea'). lia.
    + rewrite E2. eexists; eexists. split; [reflexivity|]. split; [auto|]. split; [auto|]. split; [auto|]. split; [|auto].
      intros k Hk. apply Q2 in Hk as [Hk1 Hk2]. split; [auto|].
      intros [|a] p0 Ea; [discriminate|]. eauto.
Qed.

(* ---- binding a virtual address to a qubit: qalloc, the kept half of a created pair, a received half --------------------- *)
(* _allocate_physical_qubit with the smallest unused physical id + qubitList[id] = handle *)
Definition bind_host (h : host) (app a qid hd : nat) (um : list (option nat)) : host :=
  mkHost (h_active h) (aset app (upd um a (Some qid)) (h_units h)) (insert_sorted qid (h_used h)) (pset (PP qid) hd (h_qlist h)).

Lemma xbind i ex ex' n' s app um a hd :
  tinvx i ex s -> alookup app (h_units (q_host s)) = Some um -> nth_error um a = Some None ->
  ginv n' -> next_hid (q_net s) <= next_hid n' -> hd < next_hid n' ->
  (forall x, In x (hn (nth_node n' i)) <-> (exists p, plookup p (h_qlist (q_host s)) = Some x) \/ x = hd \/ In x ex') ->
  (forall p, plookup p (h_qlist (q_host s)) <> Some hd) -> ~ In hd ex' -> NoDup ex' -> (forall x, In x ex' -> In x ex) ->
  tinvx i ex' (mkQ n' (bind_host (q_host s) app a (fresh_id (h_used (q_host s))) hd um)).
Proof.
  intros T EU EA [G1 G2] Mo Lhd OWN NH NE ND SUB.
  set (p := fresh_id (h_used (q_host s))).
  pose proof (fresh_id_not_in (h_used (q_host s))) as FR. fold p in FR.
  assert (La : a < length um) by (apply nth_error_Some; congruence).
  destruct T as [H I K N O E D M].
  assert (NK : plookup (PP p) (h_qlist (q_host s)) = None).
  { destruct (plookup (PP p) (h_qlist (q_host s))) as [x|] eqn:X; auto. destruct (K _ _ X) as (p1 & E1 & E2).
    inversion E1; subst. contradiction. }
  constructor; unfold bind_host; cbn [q_net q_host h_active h_units h_used h_qlist].
  - (* hinv *)
    destruct H as [Hn U J L Q]. constructor; cbn [q_net q_host h_active h_units h_used h_qlist]; auto.
    + intros app0 um0 a0 p1 H1 H2. apply insert_sorted_in.
      destruct (Nat.eq_dec app app0) as [EQ|Ne]; [subst app0|].
      * rewrite alookup_aset_eq in H1. inversion H1; subst.
        destruct (Nat.eq_dec a a0) as [EQ|Na]; [subst a0|].
        -- rewrite nth_error_upd_eq in H2 by auto. inversion H2; auto.
        -- rewrite nth_error_upd_neq in H2 by auto. right; eauto.
      * rewrite alookup_aset_neq in H1 by auto. right; eauto.
    + intros app0 um0 a0 app' um' a' p1 H1 H2 H3 H4.
      assert (OLD : forall appx umx ax, alookup appx (h_units (q_host s)) = Some umx -> nth_error umx ax = Some (Some p) -> False).
      { intros appx umx ax X1 X2. apply FR. eauto. }
      destruct (Nat.eq_dec app app0) as [EQ|Ne]; [subst app0|]; (destruct (Nat.eq_dec app app') as [EQ|Ne']; [subst app'|]).
      * rewrite alookup_aset_eq in H1, H3. inversion H1; inversion H3; subst. split; auto.
        destruct (Nat.eq_dec a a0) as [EQ|Na]; [subst a0|]; (destruct (Nat.eq_dec a a') as [EQ|Na']; [subst a'|]); auto.
        -- rewrite nth_error_upd_eq in H2 by auto. rewrite nth_error_upd_neq in H4 by auto. inversion H2; subst.
           exfalso. eapply OLD; eauto.
        -- rewrite nth_error_upd_eq in H4 by auto. rewrite nth_error_upd_neq in H2 by auto. inversion H4; subst.
           exfalso. eapply OLD; eauto.
        -- rewrite nth_error_upd_neq in H2, H4 by auto. destruct (J _ _ _ _ _ _ _ EU H2 EU H4); auto.
      * rewrite alookup_aset_eq in H1. rewrite alookup_aset_neq in H3 by auto. inversion H1; subst.
        destruct (Nat.eq_dec a a0) as [EQ|Na]; [subst a0|].
        -- rewrite nth_error_upd_eq in H2 by auto. inversion H2; subst. exfalso. eapply OLD; eauto.
        -- rewrite nth_error_upd_neq in H2 by auto. destruct (J _ _ _ _ _ _ _ EU H2 H3 H4); auto.
      * rewrite alookup_aset_eq in H3. rewrite alookup_aset_neq in H1 by auto. inversion H3; subst.
        destruct (Nat.eq_dec a a') as [EQ|Na]; [subst a'|].
        -- rewrite nth_error_upd_eq in H4 by auto. inversion H4; subst. exfalso. eapply OLD; eauto.
        -- rewrite nth_error_upd_neq in H4 by auto. destruct (J _ _ _ _ _ _ _ H1 H2 EU H4); auto.
      * rewrite alookup_aset_neq in H1, H3 by auto. eauto.
    + intros p0 x Hp0. destruct (pid_eqb_spec (PP p) p0) as [EQ|Ne].
      * subst p0. rewrite plookup_pset_eq in Hp0. inversion Hp0; subst. exact Lhd.
      * rewrite plookup_pset_neq in Hp0 by auto. apply L in Hp0. lia.
    + intros p0 p' x H1 H2.
      destruct (pid_eqb_spec (PP p) p0) as [E1|Ne]; destruct (pid_eqb_spec (PP p) p') as [E2|Ne']; try congruence.
      * subst p0. rewrite plookup_pset_eq in H1. rewrite plookup_pset_neq in H2 by auto. inversion H1; subst. exfalso. eapply NH; eauto.
      * subst p'. rewrite plookup_pset_eq in H2. rewrite plookup_pset_neq in H1 by auto. inversion H2; subst. exfalso. eapply NH; eauto.
      * rewrite plookup_pset_neq in H1, H2 by auto. eauto.
  - exact G2.
  - intros k x Hk. destruct (pid_eqb_spec (PP p) k) as [EQ|Ne].
    + subst k. exists p. split; auto. apply insert_sorted_in; auto.
    + rewrite plookup_pset_neq in Hk by auto. destruct (K _ _ Hk) as (p1 & E1 & E2). exists p1. split; auto.
      apply insert_sorted_in; auto.
  - unfold pset. rewrite premove_absent by auto. rewrite map_app. simpl.
    apply NoDup_app_iff. split; [auto|]. split; [constructor; [simpl; tauto|constructor]|].
    intros x Hx [E0|[]]. subst. apply plookup_none_keys in NK. contradiction.
  - intro x. rewrite OWN. split.
    + intros [(p0 & Hp0)|[Hx|Hx]]; [left|left|right; exact Hx].
      * exists p0. rewrite plookup_pset_neq; auto. intro X. subst p0. congruence.
      * subst x. exists (PP p). apply plookup_pset_eq.
    + intros [(p0 & Hp0)|Hx]; [|auto]. destruct (pid_eqb_spec (PP p) p0) as [EQ|Ne].
      * subst p0. rewrite plookup_pset_eq in Hp0. inversion Hp0. auto.
      * rewrite plookup_pset_neq in Hp0 by auto. eauto.
  - exact ND.
  - intros p0 x Hp0 Hin. destruct (pid_eqb_spec (PP p) p0) as [EQ|Ne].
    + subst p0. rewrite plookup_pset_eq in Hp0. inversion Hp0; subst. contradiction.
    + rewrite plookup_pset_neq in Hp0 by auto. eapply D; eauto.
  - intros app0 um0 a0 p1 H1 H2. destruct (pid_eqb_spec (PP p) (PP p1)) as [EQ|Ne].
    + inversion EQ; subst. rewrite plookup_pset_eq. discriminate.
    + rewrite plookup_pset_neq by auto.
      destruct (Nat.eq_dec app app0) as [EQ|Na]; [subst app0|].
      * rewrite alookup_aset_eq in H1. inversion H1; subst.
        destruct (Nat.eq_dec a a0) as [EQ|Naa]; [subst a0|].
        -- rewrite nth_error_upd_eq in H2 by auto. inversion H2; subst. exfalso; apply Ne; reflexivity.
        -- rewrite nth_error_upd_neq in H2 by auto. eauto.
      * rewrite alookup_aset_neq in H1 by auto. eauto.
Qed.

Lemma leakfree_bind n n' h app um a hd :
  leakfree (mkQ n h) -> alookup app (h_units h) = Some um -> nth_error um a = Some None ->
  leakfree (mkQ n' (bind_host h app a (fresh_id (h_used h)) hd um)).
Proof.
  intros LF EU EA. assert (La : a < length um) by (apply nth_error_Some; congruence).
  intros k x Hk. unfold bind_host in *. cbn [q_host h_qlist h_units] in *.
  destruct (pid_eqb_spec (PP (fresh_id (h_used h))) k) as [EQ|Ne].
  - subst k. exists app, (upd um a (Some (fresh_id (h_used h)))), a, (fresh_id (h_used h)).
    split; auto. split; [apply alookup_aset_eq|apply nth_error_upd_eq; auto].
  - rewrite plookup_pset_neq in Hk by auto. destruct (LF k x Hk) as (app0 & um0 & a0 & p & E1 & E2 & E3).
    cbn [q_host h_units] in E2.
    destruct (Nat.eq_dec app app0) as [EQ|Na].
    + subst app0. rewrite EU in E2. inversion E2; subst um0.
      exists app, (upd um a (Some (fresh_id (h_used h)))), a0, p. split; auto. split; [apply alookup_aset_eq|].
      rewrite nth_error_upd_neq; auto. intro; subst. congruence.
    + exists app0, um0, a0, p. split; auto. split; auto. rewrite alookup_aset_neq; auto.
Qed.

(* ---- every instruction of host i keeps the invariant and leaves every other node's handle list alone ---------------- *)
Theorem xexec_v i ex s q : tinvx i ex s ->
  tinvx i ex (fst (fst (exec i s q))) /\ vstable i ex (q_net s) (q_net (fst (fst (exec i s q)))).
Proof.
  intro T.
  assert (SAME : tinvx i ex s /\ vstable i ex (q_net s) (q_net s)) by (split; [auto|apply vstable_refl]).
  destruct q; simpl.
  - (* init app *)
    split; [|apply vstable_refl]. pose proof (addr_inv i s (QInitApp app maxq) (x_h i ex s T)) as HH. simpl in HH.
    destruct T as [H I K N O E D M]. constructor; simpl; auto.
    intros app0 um a p H1 H2. destruct (Nat.eq_dec app app0) as [EQ|Ne]; [subst app0|].
    + rewrite alookup_aset_eq in H1. inversion H1; subst. exfalso. eapply nth_error_repeat_none; eauto.
    + rewrite alookup_aset_neq in H1 by auto. eauto.
  - (* stop app *)
    destruct (negb (mem_nat app (h_active (q_host s)))); [exact SAME|].
    destruct (alookup app (h_units (q_host s))) as [um|] eqn:EU; simpl.
    + set (s1 := mkQ (q_net s) _).
      assert (T1 : tinvx i ex s1).
      { destruct T as [H I K N O E D M]. constructor; simpl; auto.
        - apply hinv_remove_app; auto.
        - intros app0 um0 a p H1 H2. destruct (Nat.eq_dec app app0) as [EQ|Ne]; [subst app0|].
          + rewrite alookup_aremove_eq in H1. discriminate.
          + rewrite alookup_aremove_neq in H1 by auto. eauto. }
      destruct (xclear_all_ok i ex um s1 coins T1) as (s2 & tr & E & T2 & _ & _ & _ & O2).
      * intros a p Ea. destruct T as [H I K N O E D M]. split; [|split].
        -- simpl. eapply (inv_used s H); eauto.
        -- simpl. eauto.
        -- intros app0 um0 a0 E1 E2. simpl in E1.
           destruct (Nat.eq_dec app app0) as [EQ|Ne]; [subst app0; rewrite alookup_aremove_eq in E1; discriminate|].
           rewrite alookup_aremove_neq in E1 by auto.
           destruct (inv_uinj s H app um a app0 um0 a0 p EU Ea E1 E2). contradiction.
      * intros a a' p Ea Ea'. destruct (inv_uinj s (x_h i ex s T) app um a app um a' p EU Ea EU Ea'); auto.
      * rewrite E. simpl. split; [exact T2|exact O2].
    + split; [|apply vstable_refl]. destruct T as [H I K N O E D M]. constructor; simpl; auto.
      destruct H as [Hn U J L Q]. constructor; simpl; auto.
  - (* qalloc *)
    destruct (alookup app (h_units (q_host s))) as [um|] eqn:EU; [|exact SAME].
    destruct (nth_error um a) as [[p0|]|] eqn:EA; try exact SAME.
    unfold cmd_new. cbn [q_net q_host].
    destruct (step (q_net s) (ONew i)) as [n' o] eqn:ES.
    assert (NOK : (forall v, o <> Ok v) -> n' = q_net s).
    { intro X. pose proof (step_not_ok_same (q_net s) (ONew i)) as Y. rewrite ES in Y. apply Y; auto. }
    destruct o; simpl;
      try (rewrite NOK by (intros; discriminate); destruct s as [sn sh]; exact SAME).
    pose proof (step_new_hn (q_net s) i v) as Y. rewrite ES in Y. simpl in Y.
    pose proof (step_new_vn (q_net s) i v) as YV. rewrite ES in YV. simpl in YV.
    pose proof (step_ginv (q_net s) (ONew i) (conj (inv_net s (x_h i ex s T)) (x_inv i ex s T))) as G. rewrite ES in G. simpl in G.
    pose proof (new_ok_next _ _ _ _ ES) as NX.
    split.
    + change (tinvx i ex (mkQ n' (bind_host (q_host s) app a (fresh_id (h_used (q_host s))) (next_hid (q_net s)) um))).
      apply xbind with (ex := ex); auto; try lia.
      * intro x. destruct (Y i eq_refl) as (A & _ & _). rewrite Nat.eqb_refl in A. rewrite A, in_app_iff. simpl.
        rewrite (x_own i ex s T). split; [intros [[X|X]|[X|[]]]; auto|intros [X|[X|X]]; auto].
      * intros p X. apply (inv_qlt s (x_h i ex s T)) in X. lia.
      * intro X. assert (next_hid (q_net s) < next_hid (q_net s)); [|lia].
        apply (hn_lt (q_net s) i); [apply (inv_net s (x_h i ex s T))|]. apply (x_own i ex s T). auto.
      * apply (x_exnodup i ex s T).
    + split.
      * intros j Nj. destruct (YV j eq_refl) as [A _]. rewrite A. destruct (Nat.eqb_spec j i); [contradiction|reflexivity].
      * intros num hd0 _ L. unfold hid_of_num in *. destruct (YV i eq_refl) as [A _]. rewrite A, Nat.eqb_refl.
        apply lookup_app_l. exact L.
  - (* init *)
    destruct (handle_of (q_host s) app a) as [hd|]; [|exact SAME].
    pose proof (xquiet i ex s (OMeas hd true coin) eq_refl T) as [T1 O1].
    destruct (native s (OMeas hd true coin)) as [[s1 r] tr]. simpl in T1, O1.
    destruct r as [v| | |k]; simpl; try (split; [exact T1|apply vstable_same; exact O1]).
    destruct v as [|[|v]]; simpl; try (split; [exact T1|apply vstable_same; exact O1]).
    pose proof (xquiet i ex s1 (OGate1 hd NX) eq_refl T1) as [T2 O2].
    destruct (native s1 (OGate1 hd NX)) as [[s2 r2] tr2]. simpl in *. split; [exact T2|].
    apply vstable_same. intros j. rewrite O2, O1. reflexivity.
  - destruct (handle_of (q_host s) app a) as [hd|]; [|exact SAME].
    pose proof (xquiet i ex s (OGate1 hd (native1 g)) eq_refl T) as [T1 O1].
    destruct (native s (OGate1 hd (native1 g))) as [[s1 r] tr]. simpl in *. split; [exact T1|apply vstable_same; exact O1].
  - destruct (handle_of (q_host s) app a) as [hd|]; [|exact SAME].
    pose proof (xquiet i ex s (OGate1 hd NRot) eq_refl T) as [T1 O1].
    destruct (native s (OGate1 hd NRot)) as [[s1 r] tr]. simpl in *. split; [exact T1|apply vstable_same; exact O1].
  - destruct (position (q_host s) app a1) as [p1|]; [|exact SAME].
    destruct (position (q_host s) app a2) as [p2|]; [|exact SAME].
    destruct (virt_of (q_host s) (PP p1)) as [h1|]; [|exact SAME].
    destruct (virt_of (q_host s) (PP p2)) as [h2|]; [|exact SAME].
    destruct (Nat.eqb h1 h2); [exact SAME|].
    pose proof (xquiet i ex s (OGate2 h1 h2 (native2 g)) eq_refl T) as [T1 O1].
    destruct (native s (OGate2 h1 h2 (native2 g))) as [[s1 r] tr]. simpl in *. split; [exact T1|apply vstable_same; exact O1].
  - destruct (handle_of (q_host s) app a) as [hd|]; [|exact SAME].
    pose proof (xquiet i ex s (OMeas hd true coin) eq_refl T) as [T1 O1].
    destruct (native s (OMeas hd true coin)) as [[s1 r] tr]. simpl in *. split; [exact T1|apply vstable_same; exact O1].
  - (* qfree *)
    destruct (alookup app (h_units (q_host s))) as [um|] eqn:EU; [|exact SAME].
    destruct (nth_error um a) as [[p|]|] eqn:EA; try exact SAME.
    set (h1 := with_units _ _) in *.
    assert (Hu : In p (h_used (q_host s))) by (eapply (inv_used s (x_h i ex s T)); eauto).
    assert (Mm : mem_nat p (h_used (q_host s)) = true) by (apply mem_nat_in; auto).
    rewrite Mm in *. simpl in *.
    assert (T1 : tinvx i ex (mkQ (q_net s) h1)).
    { destruct T as [H I K N O E D M]. constructor; simpl; auto.
      - apply hinv_unmap; auto.
      - intros app0 um0 a0 p1 H1 H2. destruct (unmap_sub s app um a EU _ _ _ _ H1 H2) as [(y & Y1 & Y2) _]. eauto. }
    destruct (plookup (PP p) (h_qlist (q_host s))) as [hq|] eqn:Ep;
      [|exfalso; eapply (x_complete i ex s T); eauto].
    destruct (xclear_one i ex (mkQ (q_net s) h1) p coin hq T1) as (s1 & tr & E1 & T2 & _ & _ & _ & _ & O2); auto.
    + intros app0 um0 a0 X1 X2. simpl in X1.
      destruct (unmap_sub s app um a EU _ _ _ _ X1 X2) as [(y & Y1 & Y2) Y3].
      destruct (inv_uinj s (x_h i ex s T) app um a app0 y a0 p EU EA Y1 Y2) as [E1 E2]. subst. apply Y3; auto.
    + cbv zeta in E1. simpl in E1. rewrite E1. split; [exact T2|exact O2].
Qed.

Theorem xexec i ex s q : tinvx i ex s ->
  tinvx i ex (fst (fst (exec i s q))) /\
  forall j, j <> i -> hn (nth_node (q_net (fst (fst (exec i s q)))) j) = hn (nth_node (q_net s) j).
Proof. intro T. destruct (xexec_v i ex s q T) as [A B]. split; [exact A|]. apply (vstable_hn i ex _ _ B). Qed.

(* ---- nothing but application qubits is in qubitList (Teardown.leakfree_exec, with the generalised invariant) ------- *)
Theorem xleakfree_exec i ex s q : tinvx i ex s -> leakfree s -> fresh_init s q -> leakfree (fst (fst (exec i s q))).
Proof.
  intros T LF FI. destruct q; simpl.
  - specialize (FI app maxq eq_refl). intros k hd Hk. simpl in Hk. destruct (LF k hd Hk) as (app0 & um & a & p & E1 & E2 & E3).
    exists app0, um, a, p. split; auto. split; auto. simpl. rewrite alookup_aset_neq; auto. congruence.
  - destruct (negb (mem_nat app (h_active (q_host s)))) eqn:A; [exact LF|].
    destruct (alookup app (h_units (q_host s))) as [um|] eqn:EU; simpl.
    + set (s1 := mkQ (q_net s) _).
      assert (T1 : tinvx i ex s1).
      { destruct T as [H I K N O E D M]. constructor; simpl; auto.
        - apply hinv_remove_app; auto.
        - intros app0 um0 a p H1 H2. destruct (Nat.eq_dec app app0) as [EQ|Ne]; [subst app0|].
          + rewrite alookup_aremove_eq in H1. discriminate.
          + rewrite alookup_aremove_neq in H1 by auto. eauto. }
      destruct (xclear_all_ok i ex um s1 coins T1) as (s2 & tr & E & T2 & U2 & A2 & Q2 & _).
      * intros a p Ea. destruct T as [H I K N O E D M]. split; [|split].
        -- simpl. eapply (inv_used s H); eauto.
        -- simpl. eauto.
        -- intros app0 um0 a0 E1 E2. simpl in E1.
           destruct (Nat.eq_dec app app0) as [EQ|Ne]; [subst app0; rewrite alookup_aremove_eq in E1; discriminate|].
           rewrite alookup_aremove_neq in E1 by auto.
           destruct (inv_uinj s H app um a app0 um0 a0 p EU Ea E1 E2). contradiction.
      * intros a a' p Ea Ea'. destruct (inv_uinj s (x_h i ex s T) app um a app um a' p EU Ea EU Ea'); auto.
      * rewrite E. simpl. intros k hd Hk. apply plookup_in_keys in Hk. apply Q2 in Hk as [Hk1 Hk2].
        simpl in Hk1. apply in_keys_plookup in Hk1 as [v Hv]. destruct (LF k v Hv) as (app0 & um0 & a & p & E1 & E2 & E3).
        exists app0, um0, a, p. split; auto. split; auto. rewrite U2. simpl.
        destruct (Nat.eq_dec app app0) as [EQ|Ne].
        -- subst app0. rewrite EU in E2. inversion E2; subst. exfalso. eapply Hk2; eauto.
        -- rewrite alookup_aremove_neq; auto.
    + exact LF.
  - (* qalloc *)
    destruct (alookup app (h_units (q_host s))) as [um|] eqn:EU; [|exact LF].
    destruct (nth_error um a) as [[p0|]|] eqn:EA; try exact LF.
    unfold cmd_new. cbn [q_net q_host]. destruct (step (q_net s) (ONew i)) as [n' o]. destruct o; simpl; try exact LF.
    destruct s as [sn sh]. apply (leakfree_bind sn n' sh app um a (next_hid sn) LF EU EA).
  - destruct (handle_of (q_host s) app a) as [hd|]; [|exact LF].
    pose proof (native_host s (OMeas hd true coin)) as E1.
    destruct (native s (OMeas hd true coin)) as [[s1 r] tr]. simpl in E1.
    destruct r as [v| | |k]; simpl; try (unfold leakfree; rewrite E1; exact LF).
    destruct v as [|[|v]]; simpl; try (unfold leakfree; rewrite E1; exact LF).
    pose proof (native_host s1 (OGate1 hd NX)) as E2.
    destruct (native s1 (OGate1 hd NX)) as [[s2 r2] tr2]. simpl in *. unfold leakfree. rewrite E2, E1. exact LF.
  - destruct (handle_of (q_host s) app a) as [hd|]; [|exact LF].
    pose proof (native_host s (OGate1 hd (native1 g))) as E1.
    destruct (native s (OGate1 hd (native1 g))) as [[s1 r] tr]. simpl in *. unfold leakfree. rewrite E1. exact LF.
  - destruct (handle_of (q_host s) app a) as [hd|]; [|exact LF].
    pose proof (native_host s (OGate1 hd NRot)) as E1.
    destruct (native s (OGate1 hd NRot)) as [[s1 r] tr]. simpl in *. unfold leakfree. rewrite E1. exact LF.
  - destruct (position (q_host s) app a1) as [p1|]; [|exact LF].
    destruct (position (q_host s) app a2) as [p2|]; [|exact LF].
    destruct (virt_of (q_host s) (PP p1)) as [h1|]; [|exact LF].
    destruct (virt_of (q_host s) (PP p2)) as [h2|]; [|exact LF].
    destruct (Nat.eqb h1 h2); [exact LF|].
    pose proof (native_host s (OGate2 h1 h2 (native2 g))) as E1.
    destruct (native s (OGate2 h1 h2 (native2 g))) as [[s1 r] tr]. simpl in *. unfold leakfree. rewrite E1. exact LF.
  - destruct (handle_of (q_host s) app a) as [hd|]; [|exact LF].
    pose proof (native_host s (OMeas hd true coin)) as E1.
    destruct (native s (OMeas hd true coin)) as [[s1 r] tr]. simpl in *. unfold leakfree. rewrite E1. exact LF.
  - (* qfree *)
    destruct (alookup app (h_units (q_host s))) as [um|] eqn:EU; [|exact LF].
    destruct (nth_error um a) as [[p|]|] eqn:EA; try exact LF.
    set (h1 := with_units _ _).
    assert (Hu : In p (h_used (q_host s))) by (eapply (inv_used s (x_h i ex s T)); eauto).
    assert (Mm : mem_nat p (h_used (q_host s)) = true) by (apply mem_nat_in; auto).
    rewrite Mm. simpl.
    assert (T1 : tinvx i ex (mkQ (q_net s) h1)).
    { destruct T as [H I K N O E D M]. constructor; simpl; auto.
      - apply hinv_unmap; auto.
      - intros app0 um0 a0 p1 H1 H2. destruct (unmap_sub s app um a EU _ _ _ _ H1 H2) as [(y & Y1 & Y2) _]. eauto. }
    destruct (plookup (PP p) (h_qlist (q_host s))) as [hq|] eqn:Ep;
      [|exfalso; eapply (x_complete i ex s T); eauto].
    destruct (xclear_one i ex (mkQ (q_net s) h1) p coin hq T1) as (s1 & tr & E1 & T2 & U1 & A1 & X1 & Q1 & _); auto.
    + intros app0 um0 a0 Y1 Y2. simpl in Y1.
      destruct (unmap_sub s app um a EU _ _ _ _ Y1 Y2) as [(y & Z1 & Z2) Z3].
      destruct (inv_uinj s (x_h i ex s T) app um a app0 y a0 p EU EA Z1 Z2) as [E1 E2]. subst. apply Z3; auto.
    + cbv zeta in E1. simpl in E1. rewrite E1. simpl.
      intros k hd Hk. rewrite Q1 in Hk. simpl in Hk. apply plookup_premove_some in Hk as [Hk Ne].
      destruct (LF k hd Hk) as (app0 & um0 & a0 & p0 & F1 & F2 & F3). subst k.
      rewrite U1. simpl.
      destruct (Nat.eq_dec app app0) as [EQ|Na].
      * subst app0. rewrite EU in F2. inversion F2; subst um0.
        exists app, (upd um a None), a0, p0. split; auto. split; [apply alookup_aset_eq|].
        rewrite nth_error_upd_neq; auto. intro; subst. rewrite EA in F3. inversion F3; subst. apply Ne; reflexivity.
      * exists app0, um0, a0, p0. split; auto. split; auto. rewrite alookup_aset_neq; auto.
Qed.

(* an idle host (no unit module): qubitList is empty and the node holds only unclaimed halves *)
Theorem xidle i ex s : tinvx i ex s -> leakfree s -> h_units (q_host s) = [] ->
  h_qlist (q_host s) = [] /\ forall x, In x (hn (nth_node (q_net s) i)) -> In x ex.
Proof.
  intros T LF E. assert (Q : h_qlist (q_host s) = []).
  { destruct (h_qlist (q_host s)) as [|[k v] t] eqn:X; auto. exfalso.
    destruct (LF k v) as (app & um & a & p & _ & E2 & _).
    - rewrite X. simpl. destruct (pid_eqb_spec k k); congruence.
    - rewrite E in E2. discriminate. }
  split; auto. intros x Hx. apply (x_own i ex s T) in Hx as [(p & Hp)|Hx]; auto. rewrite Q in Hp. discriminate.
Qed.
