"""Reference interpreter for the vanilla NetQASM subset (independent of SimulaQron, of netqasm's Executor and of the
Coq model): plain Python over the generator's own instruction tuples, quantum state as a numpy state vector.

Instruction tuples (registers are strings like "R3", "Q0", "M1", "C2"; array addresses are ints):
  ("set", reg, imm)                      ("add"|"sub", rout, ra, rb)
  ("qalloc", qreg) ("init", qreg) ("qfree", qreg) ("meas", qreg, creg)
  ("g1", "x|y|z|h|k|s|t", qreg)          ("rot", "x|y|z", qreg, n, d)       ("g2", "cnot|cphase", qreg1, qreg2)
  ("br", "beq|bne|blt|bge", ra, rb, rel) ("bz", "bez|bnz", ra, rel)         ("jmp", rel)     target = index + rel
  ("array", sizereg, addr) ("store", reg, addr, idxreg) ("load", reg, addr, idxreg) ("undef", addr, idxreg)
  ("ret_reg", reg) ("ret_arr", addr)
Messages: ("init", app, maxq) | ("sub", app, [instr]) | ("stop", app).

What the property says, written down directly:
  * classical instructions: registers / arrays of the application, Python integers, failing instruction => error reply,
    rest of the subroutine skipped, completion reply still sent;
  * qalloc maps the address to the smallest unused physical id and creates a |0> qubit if the node has room
    (held < maxQubits and registers < maxRegisters), else error;
  * gates act on the qubit the address denotes; T and rotations cannot be simulated by the stabilizer backend => error,
    state unchanged; control = target => error;
  * meas: outcome distributed by the state; deterministic outcomes are forced, otherwise the scripted coin decides;
  * qfree: the qubit leaves the node; stop: every qubit the application still maps leaves the node.
"""
import numpy as np

import oracle_np as O

FUEL = 600


class OutOfFuel(Exception):
    pass


class RefError(Exception):
    """an instruction fails: error reply"""


class Ideal:
    """n-qubit state vector over qubit identities (oids), most significant first"""
    def __init__(self):
        self.order = []
        self.psi = np.array([1.0 + 0j])

    def new(self, oid):
        self.order.append(oid)
        self.psi = np.kron(self.psi, np.array([1.0, 0.0], dtype=complex))

    def g1(self, oid, m):
        n, p = len(self.order), self.order.index(oid)
        self.psi = O.op1(n, p, m) @ self.psi

    def g2(self, c, t, name):
        n = len(self.order)
        self.psi = O.op2(n, self.order.index(c), self.order.index(t), name) @ self.psi

    def p1(self, oid):
        n, p = len(self.order), self.order.index(oid)
        proj = O.op1(n, p, np.array([[0, 0], [0, 1]], dtype=complex))
        v = proj @ self.psi
        return float(np.real(np.vdot(v, v)))

    def collapse(self, oid, outcome, remove):
        n, p = len(self.order), self.order.index(oid)
        proj = O.op1(n, p, np.array([[1, 0], [0, 0]] if outcome == 0 else [[0, 0], [0, 1]], dtype=complex))
        v = proj @ self.psi
        self.psi = v / np.sqrt(np.real(np.vdot(v, v)))
        if remove:
            t = self.psi.reshape([2] * n)
            self.psi = np.take(t, outcome, axis=p).reshape(-1)
            self.order.remove(oid)

    def rho(self, order):
        n = len(self.order)
        if n == 0:
            return np.array([[1.0 + 0j]])
        perm = [self.order.index(o) for o in order]
        v = np.transpose(self.psi.reshape([2] * n), perm).reshape(-1)
        return np.outer(v, v.conj())


S_MAT = np.array([[1, 0], [0, 1j]], dtype=complex)
G1M = {"x": "X", "y": "Y", "z": "Z", "h": "H", "k": "K"}


class RefNode:
    """one node with its NetQASM host"""
    def __init__(self, maxQ, maxR):
        self.maxQ, self.maxR = maxQ, maxR
        self.apps = {}              # app -> {"regs": {}, "arrays": {}, "unit": [..]}
        self.used = set()
        self.qubits = {}            # physical id -> oid
        self.group = {}             # oid -> group id (simulation register)
        self.ideal = Ideal()
        self.next_oid = 0
        self.msg_id = 0
        self.dead = False           # a failure outside the command loop stops the host process

    # ---- helpers ---------------------------------------------------------------------------------------------
    def held(self):
        return len(self.ideal.order)

    def num_groups(self):
        return len(set(self.group.values()))

    def _reg(self, app, r):
        return self.apps[app]["regs"].get(r)

    def _need(self, v):
        if v is None:
            raise RefError("undefined value")
        return v

    def _position(self, app, a):
        um = self.apps[app].get("unit")
        if um is None or a is None or a >= len(um) or a < -len(um) or um[a] is None:
            raise RefError("address not allocated")
        return um[a]

    def _oid(self, app, a):
        p = self._position(app, a)
        if p not in self.qubits:
            raise RefError("unknown qubit")
        return self.qubits[p]

    def _measure(self, oid, coin, remove):
        p1 = self.ideal.p1(oid)
        outcome = 0 if p1 < 1e-9 else 1 if p1 > 1 - 1e-9 else int(coin)
        self.ideal.collapse(oid, outcome, remove)
        if remove:
            del self.group[oid]
        return outcome

    def _free_phys(self, p, coin):
        if p not in self.qubits:
            raise RefError("unknown qubit")
        oid = self.qubits[p]
        self._measure(oid, coin, True)
        del self.qubits[p]

    # ---- messages ----------------------------------------------------------------------------------------------
    def handle(self, msg, coins):
        """returns (replies, qinstrs, classical_error)   replies as qasm_sync.reply_summary prints them"""
        mid = self.msg_id
        self.msg_id += 1
        coins = list(coins)
        self.coins_used = 0

        def coin():
            self.coins_used += 1
            return coins.pop(0) if coins else 0
        if msg[0] == "init":
            _, app, maxq = msg
            self.apps[app] = {"regs": {}, "arrays": {}, "unit": [None] * maxq}
            return [("done", mid)], [("QInitApp", app, maxq)], False
        if msg[0] == "stop":
            app = msg[1]
            if app not in self.apps or self.apps[app].get("unit") is None:
                self.dead = True
                return [("err", 0)], [("QStopApp", app, [])], False
            um = self.apps[app]["unit"]
            cs = []
            self.apps[app]["unit"] = None
            try:
                for p in um:
                    if p is None:
                        continue
                    c = coin()
                    cs.append(c)
                    self.used.discard(p)
                    self._free_phys(p, c)
            except RefError:
                # teardown fails half way: outside the property's promise ("releases everything"); the reference
                # reports what an implementation that raises here shows: error, no completion
                self.dead = True
                return [("err", 0)], [("QStopApp", app, cs)], False
            del self.apps[app]
            return [("done", mid)], [("QStopApp", app, cs)], False
        _, app, prog = msg
        replies, q = [], []
        cerr = False
        pc, fuel = 0, FUEL
        try:
            if app not in self.apps and prog:
                raise RefError("unknown application")
            while pc < len(prog):
                fuel -= 1
                if fuel < 0:
                    raise OutOfFuel()
                pc = self._step(app, prog, pc, replies, q, coin)
        except RefError as e:
            replies.append(("err", 0))
            cerr = not getattr(e, "quantum", False)
        replies.append(("done", mid))
        return replies, q, cerr

    def _step(self, app, prog, pc, replies, q, coin):
        ins = prog[pc]
        k = ins[0]
        A = self.apps[app]
        regs, arrays = A["regs"], A["arrays"]

        def qerr(msg):
            e = RefError(msg)
            e.quantum = True
            return e

        def qaddr(r):
            a = regs.get(r)
            if a is None:
                raise RefError("undefined address register")     # classical failure (assert in the library)
            return a
        if k == "set":
            regs[ins[1]] = ins[2]
        elif k in ("add", "sub"):
            a, b = self._need(regs.get(ins[2])), self._need(regs.get(ins[3]))
            regs[ins[1]] = a + b if k == "add" else a - b
        elif k == "br":
            a, b = regs.get(ins[2]), regs.get(ins[3])
            c = ins[1]
            if c in ("blt", "bge") and (a is None or b is None):
                raise RefError("comparison of undefined values")
            cond = {"beq": lambda: a == b, "bne": lambda: a != b, "blt": lambda: a < b, "bge": lambda: a >= b}[c]()
            return pc + ins[4] if cond else pc + 1
        elif k == "bz":
            a = regs.get(ins[2])
            cond = (a == 0) if ins[1] == "bez" else (a != 0)
            return pc + ins[3] if cond else pc + 1
        elif k == "jmp":
            return pc + ins[1]
        elif k == "array":
            n = self._need(regs.get(ins[1]))
            arrays[ins[2]] = [None] * n
        elif k == "store":
            v = self._need(regs.get(ins[1]))
            i = self._need(regs.get(ins[3]))
            arr = arrays.get(ins[2])
            if arr is None or not (-len(arr) <= i < len(arr)):
                raise RefError("no such array entry")
            arr[i] = v
        elif k == "undef":
            i = self._need(regs.get(ins[2]))
            arr = arrays.get(ins[1])
            if arr is None or not (-len(arr) <= i < len(arr)):
                raise RefError("no such array entry")
            arr[i] = None
        elif k == "load":
            i = self._need(regs.get(ins[3]))
            arr = arrays.get(ins[2])
            if arr is None or not (-len(arr) <= i < len(arr)):
                raise RefError("no such array entry")
            regs[ins[1]] = self._need(arr[i])
        elif k == "ret_reg":
            v = self._need(regs.get(ins[1]))
            replies.append(("reg", ins[1], v))
        elif k == "ret_arr":
            arr = arrays.get(ins[1])
            if arr is None:
                raise RefError("no such array")
            replies.append(("arr", ins[1], list(arr)))
        # ---- quantum ----------------------------------------------------------------------------------------------
        elif k == "qalloc":
            a = qaddr(ins[1])
            q.append(("QAlloc", app, a))
            um = A["unit"]
            if a >= len(um) or um[a] is not None:
                raise qerr("cannot allocate")
            if self.held() >= self.maxQ or self.num_groups() >= self.maxR:
                raise qerr("node is full")          # refused: the address stays unallocated
            p = 0
            while p in self.used:
                p += 1
            self.used.add(p)
            um[a] = p
            oid = self.next_oid
            self.next_oid += 1
            self.ideal.new(oid)
            self.group[oid] = oid
            self.qubits[p] = oid
        elif k == "g1":
            a = qaddr(ins[2])
            g = ins[1]
            q.append(("QG1", app, a, g))
            try:
                oid = self._oid(app, a)
            except RefError:
                raise qerr("no qubit")
            if g == "t":
                raise qerr("T cannot be simulated by the stabilizer backend")
            self.ideal.g1(oid, S_MAT if g == "s" else O.G1[G1M[g]])
        elif k == "rot":
            a = qaddr(ins[2])
            q.append(("QRot", app, a, ins[1]))
            raise qerr("rotations cannot be simulated by the stabilizer backend (or no qubit)")
        elif k == "g2":
            a1, a2 = qaddr(ins[2]), qaddr(ins[3])
            q.append(("QG2", app, a1, a2, ins[1]))
            try:
                o1, o2 = self._oid(app, a1), self._oid(app, a2)
            except RefError:
                raise qerr("no qubit")
            if o1 == o2:
                raise qerr("control = target")
            self.ideal.g2(o1, o2, "CNOT" if ins[1] == "cnot" else "CZ")
            g1_, g2_ = self.group[o1], self.group[o2]
            for o in list(self.group):
                if self.group[o] == g2_:
                    self.group[o] = g1_
        elif k == "meas":
            a = qaddr(ins[1])
            c = coin()
            q.append(("QMeas", app, a, c))
            try:
                oid = self._oid(app, a)
            except RefError:
                raise qerr("no qubit")
            regs[ins[2]] = self._measure(oid, c, False)
        elif k == "init":
            a = qaddr(ins[1])
            c = coin()
            q.append(("QInit", app, a, c))
            try:
                oid = self._oid(app, a)
            except RefError:
                raise qerr("no qubit")
            if self._measure(oid, c, False):
                self.ideal.g1(oid, O.G1["X"])
        elif k == "qfree":
            a = qaddr(ins[1])
            c = coin()
            q.append(("QFree", app, a, c))
            um = A["unit"]
            if a >= len(um) or um[a] is None:
                raise qerr("not allocated")
            p = um[a]
            um[a] = None
            self.used.discard(p)
            try:
                self._free_phys(p, c)
            except RefError:
                raise qerr("unknown qubit")
        else:
            raise ValueError(ins)
        return pc + 1


# ------------------------------------------------------------------------------------------------------------------
# text for netqasm's parser
# ------------------------------------------------------------------------------------------------------------------
def to_text(app, prog):
    """NetQASM text of a program; branch targets become labels. A trailing no-op carries a label that points past the end."""
    n = len(prog)
    targets = set()
    for i, ins in enumerate(prog):
        rel = ins[4] if ins[0] == "br" else ins[3] if ins[0] == "bz" else ins[1] if ins[0] == "jmp" else None
        if rel is not None:
            targets.add(min(max(i + rel, 0), n))
    lines = ["# NETQASM 1.0", "# APPID %d" % app]
    for i, ins in enumerate(prog):
        if i in targets:
            lines.append("L%d:" % i)
        k = ins[0]
        tgt = lambda rel: "L%d" % min(max(i + rel, 0), n)   # noqa: E731
        if k == "set":
            lines.append("set %s %d" % (ins[1], ins[2]))
        elif k in ("add", "sub"):
            lines.append("%s %s %s %s" % (k, ins[1], ins[2], ins[3]))
        elif k == "br":
            lines.append("%s %s %s %s" % (ins[1], ins[2], ins[3], tgt(ins[4])))
        elif k == "bz":
            lines.append("%s %s %s" % (ins[1], ins[2], tgt(ins[3])))
        elif k == "jmp":
            lines.append("jmp %s" % tgt(ins[1]))
        elif k == "array":
            lines.append("array %s @%d" % (ins[1], ins[2]))
        elif k == "store":
            lines.append("store %s @%d[%s]" % (ins[1], ins[2], ins[3]))
        elif k == "load":
            lines.append("load %s @%d[%s]" % (ins[1], ins[2], ins[3]))
        elif k == "undef":
            lines.append("undef @%d[%s]" % (ins[1], ins[2]))
        elif k == "ret_reg":
            lines.append("ret_reg %s" % ins[1])
        elif k == "ret_arr":
            lines.append("ret_arr @%d" % ins[1])
        elif k in ("qalloc", "init", "qfree"):
            lines.append("%s %s" % (k, ins[1]))
        elif k == "g1":
            lines.append("%s %s" % (ins[1], ins[2]))
        elif k == "rot":
            lines.append("rot_%s %s %d %d" % (ins[1], ins[2], ins[3], ins[4]))
        elif k == "g2":
            lines.append("%s %s %s" % (ins[1], ins[2], ins[3]))
        elif k == "meas":
            lines.append("meas %s %s" % (ins[1], ins[2]))
        else:
            raise ValueError(ins)
    assert n not in targets, "normalize() first"
    return "\n".join(lines) + "\n"


def normalize(prog):
    """clamp branch targets into [0, len]; a target past the end gets a trailing no-op to carry its label"""
    prog = clamp_prog(prog)
    n = len(prog)
    for i, ins in enumerate(prog):
        pos = {"br": 4, "bz": 3, "jmp": 1}.get(ins[0])
        if pos is not None and i + ins[pos] >= n:
            return prog + [("set", "C15", 0)]
    return prog


def clamp_prog(prog):
    """make every branch target fall inside [0, len] (used after deleting instructions while shrinking)"""
    n = len(prog)
    out = []
    for i, ins in enumerate(prog):
        ins = list(ins)
        pos = {"br": 4, "bz": 3, "jmp": 1}.get(ins[0])
        if pos is not None:
            t = min(max(i + ins[pos], 0), n)
            ins[pos] = t - i
            if ins[pos] == 0:
                ins[pos] = 1
        out.append(tuple(ins))
    return out
