(* C13 — stabilizer gate algebra is exact.  Only statements, each closed by `exact`, each followed by
   Print Assumptions.  Proofs live in Stab/*.v. *)
From Coq Require Import List Bool Arith.
From SQ Require Import Base.ListUtil Stab.Pauli Stab.PauliMat Stab.Kernels Stab.Gates.
Import ListNotations.

(* ground truth of the conjugation tables: U P U^dagger = +- P' as matrices over Z[i] (finite domain) *)
Theorem C13_conj1_table_is_matrix_conjugation : forall g p,
  mmul (mmul (mat_gate1 g) (mat_pauli p)) (dag (mat_gate1 g)) =
  mscale (gmul (norm_gate1 g) (sgn (fst (conj1_tbl g p)))) (mat_pauli (snd (conj1_tbl g p))).
Proof. exact conj1_tbl_matrix. Qed.
Print Assumptions C13_conj1_table_is_matrix_conjugation.

Theorem C13_conj2_table_is_matrix_conjugation : forall g pc pt,
  mmul (mmul (mat_gate2 g) (kron (mat_pauli pc) (mat_pauli pt))) (dag (mat_gate2 g)) =
  mscale (sgn (fst (conj2_tbl g pc pt)))
         (kron (mat_pauli (fst (snd (conj2_tbl g pc pt)))) (mat_pauli (snd (snd (conj2_tbl g pc pt))))).
Proof. exact conj2_tbl_matrix. Qed.
Print Assumptions C13_conj2_table_is_matrix_conjugation.

(* every kernel, on every row of every tableau size, is that conjugation at the addressed position(s) *)
Theorem C13_apply_X : forall n p r, wf_row n r -> p < n ->
  decode n (apply_X_row n p r) = conj1 GX p (decode n r).
Proof. exact apply_X_spec. Qed.
Print Assumptions C13_apply_X.
Theorem C13_apply_Y : forall n p r, wf_row n r -> p < n ->
  decode n (apply_Y_row n p r) = conj1 GY p (decode n r).
Proof. exact apply_Y_spec. Qed.
Print Assumptions C13_apply_Y.
Theorem C13_apply_Z : forall n p r, wf_row n r -> p < n ->
  decode n (apply_Z_row n p r) = conj1 GZ p (decode n r).
Proof. exact apply_Z_spec. Qed.
Print Assumptions C13_apply_Z.
Theorem C13_apply_H : forall n p r, wf_row n r -> p < n ->
  decode n (apply_H_row n p r) = conj1 GH p (decode n r).
Proof. exact apply_H_spec. Qed.
Print Assumptions C13_apply_H.
Theorem C13_apply_K : forall n p r, wf_row n r -> p < n ->
  decode n (apply_K_row n p r) = conj1 GK p (decode n r).
Proof. exact apply_K_spec. Qed.
Print Assumptions C13_apply_K.
Theorem C13_apply_S : forall n p r, wf_row n r -> p < n ->
  decode n (apply_S_row n p r) = conj1 GS p (decode n r).
Proof. exact apply_S_spec. Qed.
Print Assumptions C13_apply_S.
Theorem C13_apply_CNOT : forall n c t r, wf_row n r -> c < n -> t < n -> c <> t ->
  decode n (apply_CNOT_row n c t r) = conj2 GCNOT c t (decode n r).
Proof. exact apply_CNOT_spec. Qed.
Print Assumptions C13_apply_CNOT.
Theorem C13_apply_CZ : forall n c t r, wf_row n r -> c < n -> t < n -> c <> t ->
  decode n (apply_CZ_row n c t r) = conj2 GCZ c t (decode n r).
Proof. exact apply_CZ_spec. Qed.
Print Assumptions C13_apply_CZ.
