"""Sessions of NetQASM messages against one in-process host (H-qasm), recorded for the Coq correspondence
(Qasm/Cases.v) and judged by the independent reference interpreter (qasm_ref)."""
import numpy as np

import common
import net_run as R
import net_sync as N
import oracle_np as O
import qasm_ref as Ref
import qasm_sync as Q

G1N = {"apply_X": "NX", "apply_Y": "NY", "apply_Z": "NZ", "apply_H": "NH", "apply_K": "NK", "apply_T": "NT",
       "apply_S": "NS", "apply_rotation": "NRot"}
G2N = {"cnot_onto": "NCnot", "cphase_onto": "NCphase"}
VG1 = {"x": "VX", "y": "VY", "z": "VZ", "h": "VH", "s": "VS", "k": "VK", "t": "VT"}
VG2 = {"cnot": "VCnot", "cphase": "VCphase"}
AX = {"x": "AxX", "y": "AxY", "z": "AxZ"}


class Session:
    """one network (node 0 carries the NetQASM host under test), a list of messages"""
    def __init__(self, env, caps, pb=False, host_index=0):
        self.env, self.caps, self.pb = env, caps, pb
        # a session = freshly started processes: netqasm's process-global shared-memory registry starts empty
        from netqasm.sdk.shared_memory import SharedMemoryManager
        SharedMemoryManager.reset_memories()
        env.clock.stopped = False
        names = ["N%d" % i for i in range(len(caps))]
        if pb:
            import net_pb
            self.net = net_pb.make_pb_network(env, names, [c[0] for c in caps], [c[1] for c in caps])
        else:
            self.net = N.make_network(env, names, [c[0] for c in caps], [c[1] for c in caps])
        self.hosts = Q.make_hosts(env, self.net, pb_local=pb)
        self.hi = host_index
        self.host = self.hosts[host_index]
        self.ref = Ref.RefNode(*caps[host_index])
        self.records = []        # per message: dict
        self.problems = []       # oracle verdicts
        self.dead = False

    def counts(self):
        """per node: (held qubits, simulated qubits, registers) -- what C11 says must return to baseline"""
        return [(len(n.virtQubits), len(n.simQubits), len(n.registers)) for n in self.net.nodes]

    # ---- driving --------------------------------------------------------------------------------------------------
    def advance(self, done, limit=400):
        n = 0
        while n < limit:
            if self.pb:
                import net_pb
                net_pb.flush(self.net)
            if done():
                return True
            calls = self.env.clock.getDelayedCalls()
            if not calls:
                if self.pb:
                    import net_pb
                    if net_pb.flush(self.net) > 1:
                        continue
                return done()
            nxt = min(c.getTime() for c in calls) - self.env.clock.seconds()
            self.env.clock.advance(max(nxt, 0.0) + 1e-6)
            n += 1
        return done()

    def message(self, msg, coins):
        """msg in reference vocabulary: ("init", app, maxq) | ("sub", app, prog) | ("stop", app)"""
        from netqasm.backend.messages import InitNewAppMessage, StopAppMessage, SubroutineMessage
        from netqasm.lang.parsing.text import parse_text_subroutine
        env, net, host = self.env, self.net, self.host
        if msg[0] == "sub":
            msg = ("sub", msg[1], Ref.normalize(list(msg[2])))
        # ---- reference first (a program that does not terminate is never sent)
        ref_replies, qinstrs, cerr = self.ref.handle(msg, coins)      # raises OutOfFuel: never sent to the implementation
        if msg[0] == "init":
            wire = InitNewAppMessage(app_id=msg[1], max_qubits=msg[2])
        elif msg[0] == "stop":
            wire = StopAppMessage(app_id=msg[1])
        else:
            text = Ref.to_text(msg[1], msg[2])
            sub = parse_text_subroutine(text)
            if len(sub.instructions) != len(msg[2]):
                raise common.Broken("netqasm's parser changed the instruction count: %r" % text)
            wire = SubroutineMessage(bytes(sub))       # bytes: the handler deserialises, as for a real application
        # ---- implementation
        tap0 = len(env.tap)
        Q.script_coins(env, coins, tap0)
        before = N.dump(net)
        counts_before = self.counts()
        mid, replies, escaped, finished = Q.send(env, host, wire, self.advance)
        if escaped:
            # production: log_error -> ErrorMessage, then reactor.stop() 0.1 s later
            self.advance(lambda: False, limit=5)
            replies = Q.replies_since(host, mid)
        Q.script_coins(env, None, 0)
        impl = Q.reply_summary(replies)
        calls = Q.tap_summary(net, env, tap0)
        after = N.dump(net)
        hd = Q.host_dump(net, host)
        fin = 0 if impl == [("done", mid)] or (impl and impl[-1] == ("done", mid) and ("err", 0) not in impl) else \
            1 if impl and impl[-1] == ("done", mid) else 2
        rec = {"msg": msg, "coins": list(coins), "impl_replies": impl, "ref_replies": ref_replies, "qinstrs": qinstrs,
               "cerr": cerr, "fin": fin, "calls": calls, "dump": after, "host": hd, "finished": finished,
               "stopped": bool(getattr(env.clock, "stopped", False)), "before": before,
               "counts_before": counts_before, "counts_after": self.counts()}
        self.records.append(rec)
        self.judge(rec)
        if fin == 2 or self.ref.dead or self.problems:
            self.dead = True          # after a deviation (or a stopped host) the rest of the session says nothing
        return rec

    # ---- oracle: the property, evaluated on the implementation's behaviour --------------------------------------------------
    def judge(self, rec):
        p = self._judge(rec)
        if p is None:
            return
        # stable key: a native call that died with an undocumented exception names the failing input class best
        for c in rec["calls"]:
            if c["status"] == "err" and c["value"] not in R.KIND:
                p["kind"] = "refused:" + c["method"]
                break
        p["step"] = len(self.records) - 1
        self.problems.append(p)

    def _judge(self, rec):
        if rec["impl_replies"] != rec["ref_replies"]:
            return {"what": "replies differ from the reference interpreter: got %r, reference %r"
                    % (rec["impl_replies"], rec["ref_replies"]), "kind": reply_kind(rec)}
        if not rec["finished"]:
            return {"what": "message handling did not finish", "kind": "hang"}
        # node state = reference state: same number of qubits, joint state equal (qubits matched through physical ids)
        node = self.host.node
        ref = self.ref
        oid_of = {}
        for p, hid in rec["host"]["qlist"].items():
            if p in ref.qubits:
                oid_of[hid] = ref.qubits[p]
        held = [self.net.hid.get(id(q), -1) for q in node.virtQubits]
        if len(held) != len(ref.ideal.order) or sorted(oid_of.get(h, -1) for h in held) != sorted(ref.ideal.order):
            return {"what": "node holds %d qubits %r, reference %d (mapped physical ids %r / %r)"
                    % (len(held), held, len(ref.ideal.order), sorted(rec["host"]["qlist"]), sorted(ref.qubits)),
                    "kind": "population"}
        if len(held) <= 6:
            order = list(ref.ideal.order)
            rho = R.impl_joint_rho(self.net, oid_of, order) if order else np.array([[1.0 + 0j]])
            if rho is None or not O.close(rho, ref.ideal.rho(order)):
                return {"what": "quantum state of the node differs from the reference state", "kind": "state"}
        locks = N.locks_held(self.net)
        if locks or self.host.factory._lock.locked:
            return {"what": "locks held after the message: %r" % (locks,), "kind": "locks"}
        return None


def reply_kind(rec):
    """coarse class of a reply mismatch (stable key for findings)"""
    impl, ref = rec["impl_replies"], rec["ref_replies"]
    ie = ("err", 0) in impl
    re_ = ("err", 0) in ref
    idone = any(r[0] == "done" for r in impl)
    rdone = any(r[0] == "done" for r in ref)
    if idone != rdone:
        return "completion-reply"
    if ie and not re_:
        # which instruction did the implementation refuse?
        for c in rec["calls"]:
            if c["status"] == "err":
                return "refused:" + c["method"]
        return "spurious-error"
    if re_ and not ie:
        return "missing-error"
    return "values"


# ------------------------------------------------------------------------------------------------------------------
# Coq printing
# ------------------------------------------------------------------------------------------------------------------
def cq(q):
    k = q[0]
    b = common.cbool
    if k == "QInitApp":
        return "QInitApp %d %d" % (q[1], q[2])
    if k == "QStopApp":
        return "QStopApp %d %s" % (q[1], common.cblist(q[2]))
    if k == "QAlloc":
        return "QAlloc %d %d" % (q[1], q[2])
    if k == "QInit":
        return "QInit %d %d %s" % (q[1], q[2], b(q[3]))
    if k == "QG1":
        return "QG1 %d %d %s" % (q[1], q[2], VG1[q[3]])
    if k == "QRot":
        return "QRot %d %d %s" % (q[1], q[2], AX[q[3]])
    if k == "QG2":
        return "QG2 %d %d %d %s" % (q[1], q[2], q[3], VG2[q[4]])
    if k == "QMeas":
        return "QMeas %d %d %s" % (q[1], q[2], b(q[3]))
    if k == "QFree":
        return "QFree %d %d %s" % (q[1], q[2], b(q[3]))
    raise ValueError(q)


def ccall(c):
    """native call (tap record summary) -> (op, out) in Model V vocabulary"""
    m = c["method"]
    st, val = c["status"], c["value"]
    if st == "err":
        out = "Err " + R.KIND.get(val, "KCrash")
    elif st == "pending":
        out = "Err KCrash"
    else:
        out = None
    if m == "new_qubit":
        op = "ONew %d" % c["node"]
        out = out or "Ok %d" % c["newnum"]
    elif m in G1N:
        op = "OGate1 %d %s" % (c["hid"], G1N[m])
        out = out or ("OkNone" if c["live"] else "Ignored")
    elif m in G2N:
        op = "OGate2 %d %d %s" % (c["hid"], c["args"][0][1], G2N[m])
        out = out or ("OkNone" if c["live"] else "Ignored")
    elif m == "measure":
        inplace = c["kwargs"].get("inplace", c["args"][0] if c["args"] else True)
        op = "OMeas %d %s %s" % (c["hid"], common.cbool(inplace), common.cbool(c.get("coin", 0)))
        out = out or ("Ignored" if val is None else "Ok %d" % val)
    else:
        op = "OSend 9999 9999"        # a native call Model N never issues here
        out = "Err KCrash"
    return "(%s, %s)" % (op, out)


def chost(hd):
    units = "[" + ";".join("(%d,[%s])" % (a, ";".join("None" if x is None else "Some %d" % x for x in um))
                           for a, um in sorted(hd["units"].items())) + "]"
    ql = "[" + ";".join("(%s,%d)" % ("PP %d" % p if p >= 0 else "PM %d" % (-p - 1), h) for p, h in sorted(hd["qlist"].items())) + "]"
    return "([%s],%s,[%s],%s)" % (";".join(map(str, hd["active_apps"])), units, ";".join(map(str, hd["used"])), ql)


def cmsg(rec):
    return "([%s], %s, %d, [%s], %s, %s)" % (
        "; ".join(cq(q) for q in rec["qinstrs"]), common.cbool(rec["cerr"]), rec["fin"],
        "; ".join(ccall(c) for c in rec["calls"]), R.cdump(rec["dump"]), chost(rec["host"]))


def csession(s):
    caps = "[" + ";".join("(%d,%d)" % c for c in s.caps) + "]"
    return "(%s, %d,\n [%s])" % (caps, s.hi, ";\n  ".join(cmsg(r) for r in s.records))


def cases_text(sessions):
    return (common.CASE_HEADER + "From SQ Require Import Base.ListUtil Stab.Tableau Net.Model Net.Cases Qasm.Exec Qasm.Cases.\n"
            "Definition cases : list (list (nat * nat) * nat * list dmsg) := [\n"
            + ";\n".join(csession(s) for s in sessions) + "\n].\n"
            "Eval vm_compute in (map check_session cases).\n")


def correspond(ctx, sessions, name, shard=25):
    """list of (session, index of first disagreeing message); registers the obligation"""
    sessions = [s for s in sessions if s.records]
    shards = [sessions[i:i + shard] for i in range(0, len(sessions), shard)]
    res = common.coq_eval_many([cases_text(sh) for sh in shards])
    bad, okall = [], True
    for sh, (ok, out) in zip(shards, res):
        lists = common.parse_nat_lists(out) if ok else []
        if not ok or len(lists) != 1 or len(lists[0]) != len(sh):
            ctx.obligation("correspondence %s evaluates in Coq" % name, False, out[-1500:])
            okall = False
            continue
        for s, v in zip(sh, lists[0]):
            if v != 0:
                bad.append((s, v - 1))
    nmsg = sum(len(s.records) for s in sessions)
    ninstr = sum(len(r["qinstrs"]) for s in sessions for r in s.records)
    detail = ""
    if bad:
        s, i = bad[0]
        detail = "first disagreement at message %d: %r -> impl replies %r, native calls %r" % (
            i, s.records[i]["msg"], s.records[i]["impl_replies"],
            [(c["method"], c["hid"], c["status"], c["value"]) for c in s.records[i]["calls"]])
    ctx.obligation("correspondence %s: model = implementation (ending, every native call and result, node dump, host bookkeeping) "
                   "after every one of %d messages / %d quantum instructions in %d sessions" % (name, nmsg, ninstr, len(sessions)),
                   okall and not bad, detail)
    return bad


# ------------------------------------------------------------------------------------------------------------------
# replay / shrinking on the (caps, [(msg, coins)]) form
# ------------------------------------------------------------------------------------------------------------------
def script_of(s, upto=None):
    recs = s.records if upto is None else s.records[:upto + 1]
    return [(r["msg"], r["coins"]) for r in recs]


def replay(env, caps, script, pb=False):
    s = Session(env, caps, pb=pb)
    for msg, coins in script:
        if s.dead:
            break
        s.message(tuple(msg) if msg[0] != "sub" else ("sub", msg[1], [tuple(i) for i in msg[2]]), coins)
    return s


def shrink(env, caps, script, pred, budget=120, pb=False):
    """greedy: drop whole messages, then single instructions, while pred(replayed session) holds"""
    cur = [(m, list(c)) for m, c in script]

    def ok(cand):
        try:
            return pred(replay(env, caps, cand, pb=pb))
        except Exception:
            return False
    changed = True
    while changed and budget > 0:
        changed = False
        for i in reversed(range(len(cur))):
            if budget <= 0:
                break
            budget -= 1
            cand = cur[:i] + cur[i + 1:]
            if cand and ok(cand):
                cur, changed = cand, True
        for i in reversed(range(len(cur))):
            m, c = cur[i]
            if m[0] != "sub":
                continue
            prog = list(m[2])
            j = len(prog) - 1
            while j >= 0 and budget > 0:
                budget -= 1
                p2 = Ref.clamp_prog(prog[:j] + prog[j + 1:])
                cand = cur[:i] + [(("sub", m[1], p2), c)] + cur[i + 1:]
                if ok(cand):
                    prog, changed = p2, True
                    cur = cand
                j -= 1
    return cur
