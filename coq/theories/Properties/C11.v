(* C11 — freeing qubits and stopping an application releases everything it held (Model N over Model V, one NetQASM host
   on node i, no entanglement generation: the closed world in which "what the node held before" is well defined).
   Model of the code after the D16 repair (a refused qalloc is rolled back).  Not proved here: the register count
   (numRegs) returning to baseline -- Model V's invariant does not exclude empty registers; the correspondence and the
   count oracle of harness/props/c11.py cover it on every run.  The halves handed to another node: Properties/C08.v. *)
From Coq Require Import List Bool Arith.
From SQ Require Import Base.ListUtil Net.Model Net.Inv Net.Population Qasm.Exec Qasm.ExecProps Qasm.Teardown.
Import ListNotations.

(* the invariant: qubitList handles are exactly the qubits the node holds, every mapped address has its qubit, qubitList
   keys are used physical ids -- preserved by EVERY instruction, failing ones included *)
Theorem C11_teardown_invariant : forall i s q, tinv i s -> tinv i (fst (fst (exec i s q))).
Proof. exact tinv_exec. Qed.
Print Assumptions C11_teardown_invariant.

Theorem C11_teardown_invariant_reachable : forall caps i qs, tinv i (run_q i (init_q caps) qs).
Proof. exact tinv_reachable. Qed.
Print Assumptions C11_teardown_invariant_reachable.

(* StopApp of an active application always completes (never escapes the handler), forgets the unit module and
   removes every qubit it still mapped from qubitList (each by a destructive measurement that succeeded) *)
Theorem C11_stop_done : forall i s app coins um,
  tinv i s -> mem_nat app (h_active (q_host s)) = true -> alookup app (h_units (q_host s)) = Some um ->
  snd (fst (exec i s (QStopApp app coins))) = RDone None /\
  alookup app (h_units (q_host (fst (fst (exec i s (QStopApp app coins)))))) = None /\
  (forall a p, nth_error um a = Some (Some p) -> plookup (PP p) (h_qlist (q_host (fst (fst (exec i s (QStopApp app coins)))))) = None).
Proof. exact stop_done. Qed.
Print Assumptions C11_stop_done.

(* nothing but application qubits is ever in qubitList *)
Theorem C11_leakfree : forall i s q, tinv i s -> leakfree s -> fresh_init s q -> leakfree (fst (fst (exec i s q))).
Proof. exact leakfree_exec. Qed.
Print Assumptions C11_leakfree.

(* stop_restores: for every history (any mix of allocations, frees, gates, measurements, refused and failed instructions,
   several applications at once, any number of generations) in which an application id is initialised only while it has no
   unit module: when every application has been stopped, the node holds as many qubits as before the first one (none) *)
Theorem C11_stop_restores : forall caps i qs, fresh_inits i (init_q caps) qs ->
  h_units (q_host (run_q i (init_q caps) qs)) = [] ->
  held (q_net (run_q i (init_q caps) qs)) i = held (q_net (init_q caps)) i /\ h_qlist (q_host (run_q i (init_q caps) qs)) = [].
Proof. exact stop_restores. Qed.
Print Assumptions C11_stop_restores.

Theorem C11_stop_restores_from : forall i qs s, tinv i s -> leakfree s -> fresh_inits i s qs ->
  h_units (q_host (run_q i s qs)) = [] ->
  held (q_net (run_q i s qs)) i = 0 /\ h_qlist (q_host (run_q i s qs)) = [].
Proof. exact stop_restores_from. Qed.
Print Assumptions C11_stop_restores_from.

(* non-vacuity: two generations on a node with room for 2 qubits, a refused third allocation, a failed gate, a free,
   a stop that still has to clear a qubit *)
Theorem C11_example : fresh_inits 0 (init_q [(2, 3)]) ex_history /\ h_units (q_host (run_q 0 (init_q [(2, 3)]) ex_history)) = []
  /\ held (q_net (run_q 0 (init_q [(2, 3)]) (firstn 8 ex_history))) 0 = 1
  /\ held (q_net (run_q 0 (init_q [(2, 3)]) ex_history)) 0 = held (q_net (init_q [(2, 3)])) 0.
Proof. exact (conj ex_history_fresh (conj ex_history_idle (conj (proj2 ex_history_results) ex_history_restored))). Qed.
Print Assumptions C11_example.

(* the register / simulated-qubit half (closed world of one host): the network the host drives is a reachable state of the
   virtual-node model, and once every application has been stopped NO node holds a qubit, simulates a qubit or keeps a register *)
From SQ Require Import Net.Bookkeeping Qasm.TeardownFull.
Theorem C11_host_network_is_reachable : forall caps i qs, reachable (q_net (run_q i (init_q caps) qs)).
Proof. exact run_q_reachable. Qed.
Print Assumptions C11_host_network_is_reachable.
(* ... reached without the virtual node's client operation remote_add_register, which the NetQASM backend never calls (the one
   operation that leaves an EMPTY register behind; `reachable_core` is the hypothesis of Net/NonEmpty.v) *)
From SQ Require Import Net.NonEmpty.
Theorem C11_host_network_is_core_reachable : forall caps i qs, reachable_core (q_net (run_q i (init_q caps) qs)).
Proof. exact run_q_reachable_core. Qed.
Print Assumptions C11_host_network_is_core_reachable.

Theorem C11_stop_leaves_nothing : forall caps i qs, fresh_inits i (init_q caps) qs ->
  h_units (q_host (run_q i (init_q caps) qs)) = [] ->
  forall j, virt (nth_node (q_net (run_q i (init_q caps) qs)) j) = [] /\
            sims (nth_node (q_net (run_q i (init_q caps) qs)) j) = [] /\
            regs (nth_node (q_net (run_q i (init_q caps) qs)) j) = [] /\
            numRegs (nth_node (q_net (run_q i (init_q caps) qs)) j) = 0.
Proof. exact stop_leaves_nothing. Qed.
Print Assumptions C11_stop_leaves_nothing.

(* ---- several hosts over one network, with pair creation (Qasm/TeardownX.v, Qasm/TeardownNet.v) --------------------------------
   nst = one Model-V network + one NetQASM host per node + the per-socket deques of delivered, unclaimed halves.
   Actions: AInstr i q (any instruction / init / stop of host i), ACreate (create-and-keep of one pair towards another
   node: EprGate.cmd_epr_keep + delivery to the peer's deque + mapping of the kept half; a creation that fails after a
   temporary qubit exists removes its temporaries again -- the repair of the former finding C11:epr-temporaries -- and is an
   ordinary action), ACreateM (ONE pair of a measure-directly request: EprGate.cmd_epr_measure -- both temporaries rotated
   into their sampled bases, measured destructively and removed -- + delivery of the peer's outcome record to the SAME deque
   delivered halves wait in), ARecv (poll: a delivered half is entered into qubitList and mapped; an outcome record is popped
   and nothing is mapped).  `cleans` excludes exactly: binding a half to a virtual address that is not free, and initialising
   an application id that still has a unit module.  The theorems below quantify over ALL action lists, measure-directly
   requests and polls of their records included. *)
From SQ Require Import Net.Handles Qasm.EprGate Qasm.PerNodeNum Qasm.TeardownX Qasm.TeardownNet Qasm.TeardownNetExamples.

(* the one-host invariant is the special case "no unclaimed halves" of the generalised one *)
Theorem C11_tinv_is_tinvx : forall i s, tinv i s -> tinvx i [] s.
Proof. exact tinv_is_tinvx. Qed.
Print Assumptions C11_tinv_is_tinvx.

(* every instruction of host i (failing ones included) keeps host i's invariant -- node i holds exactly qubitList's qubits
   and the unclaimed halves -- and does not touch the handle list of any other node *)
Theorem C11_host_invariant_and_frame : forall i ex s q, tinvx i ex s ->
  tinvx i ex (fst (fst (exec i s q))) /\
  forall j, j <> i -> hn (nth_node (q_net (fst (fst (exec i s q)))) j) = hn (nth_node (q_net s) j).
Proof. exact xexec. Qed.
Print Assumptions C11_host_invariant_and_frame.

(* the global invariant (every host's invariant over the shared network, nothing but application qubits in any qubitList)
   is kept by every clean action of any host, hence holds after every clean history *)
Theorem C11_net_invariant : forall s x, ninv s -> clean s x -> ninv (nstep s x).
Proof. exact nstep_ninv. Qed.
Print Assumptions C11_net_invariant.

Theorem C11_net_invariant_reachable : forall xs s, ninv s -> cleans s xs -> ninv (nrun s xs).
Proof. exact nrun_ninv. Qed.
Print Assumptions C11_net_invariant_reachable.

Theorem C11_net_is_reachable : forall caps xs, reachable (n_net (nrun (ninit caps) xs)).
Proof. exact nrun_reachable. Qed.
Print Assumptions C11_net_is_reachable.
Theorem C11_net_is_core_reachable : forall caps xs, reachable_core (n_net (nrun (ninit caps) xs)).
Proof. exact nrun_reachable_core. Qed.
Print Assumptions C11_net_is_core_reachable.

(* the population clause for N hosts: after ANY clean history of host-level actions over N hosts (instructions incl.
   allocations, frees, gates between halves simulated elsewhere, measurements, failing instructions, pair creations
   towards other hosts, receipts, stops, any number of generations): once every application on every host has been
   stopped and every delivered half was claimed, no node holds a qubit, simulates a qubit or keeps a register.
   `halves` = the delivered halves among the deque entries: outcome records of measure-directly pairs that nobody polled
   for may still be queued -- they hold no qubit and do not block the conclusion (C11_md_record_is_no_qubit) *)
Theorem C11_net_stop_leaves_nothing : forall caps xs,
  let s := nrun (ninit caps) xs in
  cleans (ninit caps) xs ->
  (forall i, i < length caps -> h_units (host_at s i) = []) ->
  halves (n_pend s) = [] ->
  forall j, virt (nth_node (n_net s) j) = [] /\ sims (nth_node (n_net s) j) = [] /\
            regs (nth_node (n_net s) j) = [] /\ numRegs (nth_node (n_net s) j) = 0.
Proof. exact net_stop_leaves_nothing. Qed.
Print Assumptions C11_net_stop_leaves_nothing.

(* halves handed to another node are not destroyed by the creator's teardown: nothing host i executes changes the
   qubits another node holds; in particular a stop of the creator's application *)
Theorem C11_instr_keeps_other_nodes : forall s i q, ninv s -> i < length (n_hosts s) ->
  forall j, j <> i -> hn (nth_node (n_net (nstep s (AInstr i q))) j) = hn (nth_node (n_net s) j).
Proof. exact instr_keeps_other_nodes. Qed.
Print Assumptions C11_instr_keeps_other_nodes.

Theorem C11_stop_keeps_peer_halves : forall caps xs i app coins,
  let s := nrun (ninit caps) xs in
  cleans (ninit caps) xs -> i < length caps ->
  forall j, j <> i -> held (n_net (nstep s (AInstr i (QStopApp app coins)))) j = held (n_net s) j /\
                      hn (nth_node (n_net (nstep s (AInstr i (QStopApp app coins)))) j) = hn (nth_node (n_net s) j).
Proof. exact stop_keeps_peer_halves. Qed.
Print Assumptions C11_stop_keeps_peer_halves.

(* at every moment node j holds exactly |qubitList of host j| + |halves delivered to j and not yet claimed| qubits *)
Theorem C11_node_population : forall caps xs j,
  let s := nrun (ninit caps) xs in
  cleans (ninit caps) xs -> j < length (n_hosts s) ->
  held (n_net s) j = length (h_qlist (host_at s j)) + length (pend_at (n_pend s) j).
Proof. exact node_population. Qed.
Print Assumptions C11_node_population.

(* non-vacuity: the repeater on three hosts, two generations (see Qasm/TeardownNetExamples.v): the history is clean, every
   stop completes, after the creator's stop node 1 still holds both halves, at the end every unit module is gone and no
   half is unclaimed -- so every node is empty *)
Theorem C11_net_example :
  cleans (ninit caps3) repeater /\
  (forall i, i < length caps3 -> h_units (host_at (nrun (ninit caps3) repeater) i) = []) /\
  n_pend (nrun (ninit caps3) repeater) = [] /\
  populations (nrun (ninit caps3) gen1) = [(1, 0, 0, 0); (2, 4, 1, 1); (1, 0, 0, 0)] /\
  populations (nrun (ninit caps3) (gen1 ++ [stop0])) = [(0, 0, 0, 0); (2, 3, 1, 1); (1, 0, 0, 0)] /\
  populations (nrun (ninit caps3) repeater) = [(0, 0, 0, 0); (0, 0, 0, 0); (0, 0, 0, 0)].
Proof.
  exact (conj repeater_clean (conj (proj1 repeater_idle) (conj (proj2 repeater_idle)
        (conj repeater_mid (conj repeater_creator_stops_first repeater_all_empty_computed))))).
Qed.
Print Assumptions C11_net_example.

(* the hypothesis "every delivered half was claimed" cannot be dropped: a half nobody polls for stays on the receiving node
   (and its register on the creator's node) after every application has stopped *)
Theorem C11_unclaimed_half_stays :
  cleans (ninit [(4, 5); (4, 5)]) unclaimed_history /\
  nrun_res (ninit [(4, 5); (4, 5)]) unclaimed_history = [RDone None; RDone None; RDone None; RDone None; RDone None] /\
  map h_units (n_hosts (nrun (ninit [(4, 5); (4, 5)]) unclaimed_history)) = [[]; []] /\
  length (n_pend (nrun (ninit [(4, 5); (4, 5)]) unclaimed_history)) = 1 /\
  populations (nrun (ninit [(4, 5); (4, 5)]) unclaimed_history) = [(0, 1, 1, 1); (1, 0, 0, 0)].
Proof. exact unclaimed_half_stays. Qed.
Print Assumptions C11_unclaimed_half_stays.

(* a pair creation that fails AFTER a temporary qubit exists (second cmd_new refused / receiver full) used to be excluded here
   (the former finding C11:epr-temporaries); since the repair fixes/D16ii-epr-temporaries.diff it is an ordinary clean action:
   the witness of the former finding, and the variant with room for one more qubit only, are clean histories in which the
   request answers an error, every node's (held, simulated, registers, register counter) and the creator's host are exactly
   what they were before the request (the creator holds another qubit before and after), and the stop leaves nothing *)
Theorem C11_failed_creation_is_clean :
  cleans (ninit caps_full) (before_full ++ [create_full] ++ after_full) /\
  fails_after_temporary 0 (mkQ (n_net (nrun (ninit caps_full) before_full)) (host_at (nrun (ninit caps_full) before_full) 0))
    [0; 1] 1 true (fresh_id (h_used (host_at (nrun (ninit caps_full) before_full) 0))) [true; false] /\
  nrun_res (ninit caps_full) (before_full ++ [create_full] ++ after_full) = [RDone None; RDone None; RErr; RDone None] /\
  populations (nrun (ninit caps_full) before_full) = [(1, 1, 1, 1); (0, 0, 0, 0)] /\
  populations (nrun (ninit caps_full) (before_full ++ [create_full])) = [(1, 1, 1, 1); (0, 0, 0, 0)] /\
  n_hosts (nrun (ninit caps_full) (before_full ++ [create_full])) = n_hosts (nrun (ninit caps_full) before_full) /\
  populations (nrun (ninit caps_full) (before_full ++ [create_full] ++ after_full)) = [(0, 0, 0, 0); (0, 0, 0, 0)].
Proof. exact failed_creation_is_clean. Qed.
Print Assumptions C11_failed_creation_is_clean.

Theorem C11_failed_second_creation_is_clean :
  cleans (ninit caps_tight) (before_full ++ [create_tight] ++ after_full) /\
  fails_after_temporary 0 (mkQ (n_net (nrun (ninit caps_tight) before_full)) (host_at (nrun (ninit caps_tight) before_full) 0))
    [0; 1] 1 true (fresh_id (h_used (host_at (nrun (ninit caps_tight) before_full) 0))) [true] /\
  nrun_res (ninit caps_tight) (before_full ++ [create_tight] ++ after_full) = [RDone None; RDone None; RErr; RDone None] /\
  populations (nrun (ninit caps_tight) (before_full ++ [create_tight])) = populations (nrun (ninit caps_tight) before_full) /\
  n_hosts (nrun (ninit caps_tight) (before_full ++ [create_tight])) = n_hosts (nrun (ninit caps_tight) before_full) /\
  populations (nrun (ninit caps_tight) (before_full ++ [create_tight] ++ after_full)) = [(0, 0, 0, 0); (0, 0, 0, 0)].
Proof. exact failed_second_creation_is_clean. Qed.
Print Assumptions C11_failed_second_creation_is_clean.

(* THE POSITIVE STATEMENT the former finding refuted, for every state the invariant describes (hence after every clean history:
   C11_net_invariant_reachable) and every request: a pair creation that does not succeed -- refused by the three checks, by the
   creator's own node at the first or second cmd_new, or by the receiving node at the hand-over -- answers an error and leaves
   every host's bookkeeping (unit modules, used physical ids, qubitList, active applications), the receive deques, and for EVERY
   node the list of qubits it holds (the records themselves, in order), the list of qubits it simulates, its registers and its
   register count exactly as they were (the only things that moved are two counters that are never re-used: the handle counter
   and the creator node's register-number counter; Qasm/EprFailNode.v follows the seven native calls) *)
Theorem C11_failed_creation_restores : forall s i app a known r adj rsock coins,
  ninv s -> i < length (n_hosts s) ->
  snd (nstep_r s (ACreate i app a known r adj rsock coins)) <> RDone None ->
  let s' := nstep s (ACreate i app a known r adj rsock coins) in
  snd (nstep_r s (ACreate i app a known r adj rsock coins)) = RErr /\
  n_hosts s' = n_hosts s /\ n_pend s' = n_pend s /\
  forall j, virt (nth_node (n_net s') j) = virt (nth_node (n_net s) j) /\
            sims (nth_node (n_net s') j) = sims (nth_node (n_net s) j) /\
            regs (nth_node (n_net s') j) = regs (nth_node (n_net s) j) /\
            numRegs (nth_node (n_net s') j) = numRegs (nth_node (n_net s) j) /\
            held (n_net s') j = held (n_net s) j.
Proof. exact failed_creation_restores. Qed.
Print Assumptions C11_failed_creation_restores.

(* the Model-V core of it: a qubit created at node i and measured out again, or two qubits created, entangled (H, CNOT) and
   measured out again, leave the network exactly as it was, except that the handle counter advanced by 1 (2) and node i's
   register-number counter by 1 (2) -- for every network state satisfying the invariant, every node, every coin *)
From SQ Require Import Net.InvStep Qasm.EprFailNode.
Theorem C11_one_temporary_restored : forall i s v c,
  ginv s -> snd (step s (ONew i)) = Ok v ->
  run s [ONew i; OMeas (next_hid s) false c] = mkNet (upd (nodes s) i (bump (nth_node s i) 1)) (S (next_hid s)).
Proof. exact one_temp_restored. Qed.
Print Assumptions C11_one_temporary_restored.

Theorem C11_two_temporaries_restored : forall i s v1 v2 c1 c2,
  ginv s -> snd (step s (ONew i)) = Ok v1 -> snd (step (fst (step s (ONew i))) (ONew i)) = Ok v2 ->
  let a1 := next_hid s in let a2 := S (next_hid s) in
  run s [ONew i; ONew i; OGate1 a1 NH; OGate2 a1 a2 NCnot; OMeas a1 false c1; OMeas a2 false c2] =
  mkNet (upd (nodes s) i (bump (nth_node s i) 2)) (S (S (next_hid s))).
Proof. exact two_temps_restored. Qed.
Print Assumptions C11_two_temporaries_restored.

(* the same for one host at the level of cmd_epr: the creator's host is unchanged, its invariant holds over the new network *)
Theorem C11_failed_creation_leaves_creator : forall i ex s known r adj coins,
  tinvx i ex s ->
  let c := cmd_epr_keep i s known r adj (fresh_id (h_used (q_host s))) coins in
  snd (fst c) <> RDone None ->
  snd (fst c) = RErr /\ q_host (fst (fst c)) = q_host s /\ tinvx i ex (fst (fst c)) /\
  forall j, virt (nth_node (q_net (fst (fst c))) j) = virt (nth_node (q_net s) j) /\
            sims (nth_node (q_net (fst (fst c))) j) = sims (nth_node (q_net s) j) /\
            regs (nth_node (q_net (fst (fst c))) j) = regs (nth_node (q_net s) j) /\
            numRegs (nth_node (q_net (fst (fst c))) j) = numRegs (nth_node (q_net s) j) /\
            held (q_net (fst (fst c))) j = held (q_net s) j.
Proof. exact failed_creation_leaves_creator. Qed.
Print Assumptions C11_failed_creation_leaves_creator.

(* a receive-deque entry stores the virtual NUMBER of the delivered half (as the code does); the lookup by number at poll time
   (remote_get_virtual_ref: first virtual qubit of the node with that number) returns the very qubit that was delivered,
   which the node still holds and no qubitList of its host refers to *)
Theorem C11_pending_lookup_faithful : forall caps xs,
  let s := nrun (ninit caps) xs in
  cleans (ninit caps) xs ->
  forall nd sk num hd, In (DK (nd, sk, num, hd)) (n_pend s) ->
    hid_of_num (nth_node (n_net s) nd) num = Some hd /\ In hd (hn (nth_node (n_net s) nd)) /\
    forall p, plookup p (h_qlist (host_at s nd)) <> Some hd.
Proof. exact pending_lookup_faithful. Qed.
Print Assumptions C11_pending_lookup_faithful.

(* ---- measure-directly requests (Qasm/EprGate.v cmd_epr_measure, Qasm/EprMeasureNode.v, Qasm/EprMeasure.v) --------------------------
   A measure-directly request of one pair, in every state the global invariant describes (hence after every clean history):
   whether it succeeds or fails, EVERY node's held qubits, simulated qubits, registers and register count, every other host,
   and the creator's qubitList, unit modules and active applications are exactly what they were.  A success appends ONE outcome
   record to the peer's deque (no half: `halves` unchanged) and keeps ONE physical id reserved at the creator -- the code never
   releases it (no qubit is bound to it; _get_unused_physical_qubit hands out the next one); a failure changes nothing at all. *)
From SQ Require Import Qasm.Epr Qasm.EprMeasureNode Qasm.EprMeasure.
Theorem C11_md_request_leaves_nothing : forall s i known r adj lsock rsock seq bl br c1 c2 coins,
  ninv s -> i < length (n_hosts s) ->
  let x := ACreateM i known r adj lsock rsock seq bl br c1 c2 coins in
  let s' := nstep s x in
  (forall j, virt (nth_node (n_net s') j) = virt (nth_node (n_net s) j) /\ sims (nth_node (n_net s') j) = sims (nth_node (n_net s) j) /\
             regs (nth_node (n_net s') j) = regs (nth_node (n_net s) j) /\ numRegs (nth_node (n_net s') j) = numRegs (nth_node (n_net s) j) /\
             held (n_net s') j = held (n_net s) j) /\
  (forall j, j <> i -> host_at s' j = host_at s j) /\
  h_qlist (host_at s' i) = h_qlist (host_at s i) /\ h_units (host_at s' i) = h_units (host_at s i) /\
  h_active (host_at s' i) = h_active (host_at s i) /\
  ((snd (nstep_r s x) = RDone None /\
    h_used (host_at s' i) = insert_sorted (fresh_id (h_used (host_at s i))) (h_used (host_at s i)) /\
    exists rec, n_pend s' = n_pend s ++ [DM r rsock rec] /\ halves (n_pend s') = halves (n_pend s))
   \/ (snd (nstep_r s x) = RErr /\ n_hosts s' = n_hosts s /\ n_pend s' = n_pend s)).
Proof. exact md_request_leaves_nothing. Qed.
Print Assumptions C11_md_request_leaves_nothing.

(* an outcome record nobody polls for is no qubit: both applications stop, the record stays queued, and
   C11_net_stop_leaves_nothing applies (its hypothesis speaks about delivered halves) *)
Theorem C11_md_record_is_no_qubit :
  cleans (ninit caps2) md_unpolled /\
  length (n_pend (nrun (ninit caps2) md_unpolled)) = 1 /\
  forall j, virt (nth_node (n_net (nrun (ninit caps2) md_unpolled)) j) = [] /\ sims (nth_node (n_net (nrun (ninit caps2) md_unpolled)) j) = [] /\
            regs (nth_node (n_net (nrun (ninit caps2) md_unpolled)) j) = [] /\ numRegs (nth_node (n_net (nrun (ninit caps2) md_unpolled)) j) = 0.
Proof. exact md_record_is_no_qubit. Qed.
Print Assumptions C11_md_record_is_no_qubit.

(* a failing measure-directly request inside a history (room for one more qubit only: the second cmd_new is refused, the first
   temporary is removed again): error, no record, populations, hosts and deques as before, the stop leaves nothing *)
Theorem C11_md_failed_request_restores :
  cleans (ninit caps_tight) md_tight /\
  nrun_res (ninit caps_tight) md_tight = [RDone None; RDone None; RErr; RDone None] /\
  nrun_records (ninit caps_tight) md_tight = [] /\
  populations (nrun (ninit caps_tight) (firstn 3 md_tight)) = populations (nrun (ninit caps_tight) (firstn 2 md_tight)) /\
  n_hosts (nrun (ninit caps_tight) (firstn 3 md_tight)) = n_hosts (nrun (ninit caps_tight) (firstn 2 md_tight)) /\
  n_pend (nrun (ninit caps_tight) (firstn 3 md_tight)) = [] /\
  populations (nrun (ninit caps_tight) md_tight) = [(0, 0, 0, 0); (0, 0, 0, 0)].
Proof. exact md_failed_request_restores. Qed.
Print Assumptions C11_md_failed_request_restores.

(* as long as nothing was measured the measure-directly code path IS the create-and-keep one (refused by the checks or by a
   cmd_new): the same function value, so C11_failed_creation_restores / _leaves_creator carry over verbatim *)
Theorem C11_md_refused_as_keep : forall i s known r adj qid bl br c1 c2 coins,
  epr_gate known i r adj = false \/ snd (fst (cmd_new i s (PP qid))) = false \/
  snd (fst (cmd_new i (fst (fst (cmd_new i s (PP qid)))) (PM qid))) = false ->
  cmd_epr_measure i s known r adj qid bl br c1 c2 coins = (cmd_epr_keep i s known r adj qid coins, None).
Proof. exact measure_refused_as_keep. Qed.
Print Assumptions C11_md_refused_as_keep.
