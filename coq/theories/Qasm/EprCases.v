(* Correspondence cases for pair creation (EprGate.cmd_epr_keep inside the N-host model TeardownNet.nstep_r): sessions of
   messages sent to several in-process NetQASM hosts over one network.  Per message: the host-level actions it amounts to
   (instructions of the application, ONE create-and-keep request, one receipt), and what the implementation showed: how the
   message ended, every native call that crossed the executioner -> virtual node boundary with its result (the destructive
   measurements of cmd_epr's except-branch included), the complete dump of all virtual nodes, the bookkeeping of the
   handling host (unit modules, used physical ids, qubitList) and the receive deques of all nodes. *)
From Coq Require Import List Bool Arith.
From SQ Require Import Base.ListUtil Stab.Tableau Net.Model Net.Cases Qasm.Exec Qasm.Cases Qasm.EprGate Qasm.PerNodeNum
  Qasm.TeardownX Qasm.TeardownNet.
Import ListNotations.

(* the native calls an action issues (nstep_r drops them) *)
Definition act_trace (s : nst) (x : nact) : ntrace :=
  match x with
  | AInstr i q => if Nat.ltb i (length (n_hosts s)) then snd (exec i (mkQ (n_net s) (host_at s i)) q) else []
  | ACreate i app a known r adj rsock coins =>
      if Nat.ltb i (length (n_hosts s))
      then snd (cmd_epr_keep i (mkQ (n_net s) (host_at s i)) known r adj (fresh_id (h_used (host_at s i))) coins) else []
  | ARecv _ _ _ _ => []
  end.

(* a message = the actions it executed; execution stops at the first exception *)
Fixpoint run_acts (s : nst) (xs : list nact) : nst * list qres * ntrace :=
  match xs with
  | [] => (s, [], [])
  | x :: t =>
      let '(s1, r) := nstep_r s x in
      let tr := act_trace s x in
      match r with
      | RDone _ => let '(s2, rs, tr2) := run_acts s1 t in (s2, r :: rs, tr ++ tr2)
      | _ => (s1, [r], tr)
      end
  end.

(* netqasm_send_epr_half returns nothing to the executioner: an accepted hand-over is recorded as OkNone; the number the
   receiving node gave the half is compared through the node dump and the deque dump *)
Definition call_eqb_epr (m i : op * out) : bool :=
  op_eqb (fst m) (fst i) &&
  match fst m, snd m, snd i with
  | OSend _ _, Ok _, OkNone => true
  | _, a, b => out_eqb a b
  end.

(* receive deques: (node, socket, numbers in arrival order) for every non-empty deque of the implementation; the model must
   hold exactly these entries *)
Definition dpend := list (nat * nat * list nat).
Definition pend_matches (pd : list pentry) (d : dpend) : bool :=
  forallb (fun e => let '(nd, sk, nums) := e in
             list_eqb Nat.eqb (map p_num (filter (fun p => Nat.eqb (p_node p) nd && Nat.eqb (p_sock p) sk) pd)) nums) d
  && Nat.eqb (length pd) (fold_right (fun e acc => length (snd e) + acc) 0 d).

Definition demsg := (nat * list nact * nat * list (op * out) * list dnode * dhost * dpend)%type.

(* 0 = agreement on every message, otherwise 1 + index of the first disagreeing message *)
Fixpoint check_emsgs (k : nat) (s : nst) (ms : list demsg) : nat :=
  match ms with
  | [] => 0
  | (hi, xs, fin, calls, dn, dh, dp) :: t =>
      let '(s', rs, tr) := run_acts s xs in
      if Nat.eqb (length rs) (length xs) && Nat.eqb (ending rs false) fin
         && list_eqb call_eqb_epr tr calls
         && list_eqb dnode_eqb (dump (n_net s')) dn && host_matches (host_at s' hi) dh && pend_matches (n_pend s') dp
      then check_emsgs (S k) s' t else S k
  end.

Definition check_esession (c : list (nat * nat) * list demsg) : nat := check_emsgs 0 (ninit (fst c)) (snd c).
