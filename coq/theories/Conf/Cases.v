(* Correspondence cases for Model C: the harness writes edit sequences together with what the real
   NetworksConfigConstructor showed after every edit (result kind, to_dict(), used_sockets, number of OS probes,
   file content) and the recorded answers of the OS probe; Coq decides agreement by vm_compute. *)
From Coq Require Import List Bool Arith NArith String.
From SQ Require Import Base.ListUtil Conf.Model.
Import ListNotations.
Open Scope string_scope.
Open Scope list_scope.

Fixpoint list_eqb {A} (e : A -> A -> bool) (a b : list A) : bool :=
  match a, b with
  | [], [] => true
  | x :: a', y :: b' => e x y && list_eqb e a' b'
  | _, _ => false
  end.
Definition opt_eqb {A} (e : A -> A -> bool) (a b : option A) : bool :=
  match a, b with
  | None, None => true
  | Some x, Some y => e x y
  | _, _ => false
  end.
Definition pair_eqb {A B} (ea : A -> A -> bool) (eb : B -> B -> bool) (a b : A * B) : bool :=
  ea (fst a) (fst b) && eb (snd a) (snd b).

Definition node_eqb (a b : node3) : bool :=
  ep_eqb (n_app a) (n_app b) && ep_eqb (n_qnos a) (n_qnos b) && ep_eqb (n_vnode a) (n_vnode b).
Definition topo_eqb : topo -> topo -> bool := list_eqb (pair_eqb String.eqb (list_eqb String.eqb)).
Definition net_eqb (a b : network) : bool :=
  list_eqb (pair_eqb String.eqb node_eqb) (nodes a) (nodes b) && opt_eqb topo_eqb (topology a) (topology b).
Definition cfgd_eqb : cfgd -> cfgd -> bool := list_eqb (pair_eqb String.eqb net_eqb).
Definition res_eqb (a b : res) : bool :=
  match a, b with ROk, ROk | RValueError, RValueError | RKeyError, RKeyError => true | _, _ => false end.

Record obs := mkObs { o_res : res; o_cfg : cfgd; o_used : list endpoint; o_calls : nat; o_file : option cfgd }.

Definition obs_ok (s : state) (r : res) (o : obs) : bool :=
  res_eqb r (o_res o) && cfgd_eqb (cfg s) (o_cfg o) && list_eqb ep_eqb (used s) (o_used o)
  && Nat.eqb (calls s) (o_calls o) && opt_eqb cfgd_eqb (file s) (o_file o).

(* the recorded answers of the probe, in call order *)
Definition script_os (script : list bool) : nat -> N -> bool := fun k _ => nth k script true.

Fixpoint run_obs (os : nat -> N -> bool) (s : state) (l : list (op * obs)) : bool :=
  match l with
  | [] => true
  | (o, ob) :: t => let '(s', r) := step os s o in obs_ok s' r ob && run_obs os s' t
  end.

(* id lookups on a file content: observed node ids of all names, observed names of ids 0..len+1 *)
Inductive ccase :=
| CEdits (script : list bool) (steps : list (op * obs))
| CIds (f : cfgd) (nn : name) (ids : list (name * option nat)) (names : list (nat * option name)).

Definition check_case (c : ccase) : bool :=
  match c with
  | CEdits script steps => run_obs (script_os script) init steps
  | CIds f nn ids names =>
      forallb (fun xi => opt_eqb Nat.eqb (node_id f nn (fst xi)) (snd xi)) ids
      && forallb (fun ix => opt_eqb String.eqb (name_of_id f nn (fst ix)) (snd ix)) names
  end.

Definition failing_cases (l : list ccase) : list nat := failing (map check_case l).
