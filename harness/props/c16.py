"""C16 — network configuration stays well-formed, node ids are a consistent bijection.
   obligations   : Properties/C16.v (invariant over all edit sequences, removal, write/read, id bijection)
   correspondence: random edit sequences through the real NetworksConfigConstructor on a scratch file; result kind,
                   to_dict(), used_sockets, number of OS probes and file content after EVERY edit compared with Model C
                   inside Coq; id lookups through SocketsConfig (3 roles) / get_node_id_from_net_config /
                   SimulaQronNetworkInfo compared with node_id / name_of_id of the model
   oracle        : conf_common.Oracle — the four clauses of the property evaluated on what the implementation shows"""
import copy
import json
import os

import common
import conf_common as K

KINDS = {"endpoints": "two endpoints share a (host, port)",
         "removed_gone": "a removed node still occurs in the configuration",
         "write_read": "write_to_file then reading does not reproduce the configuration",
         "id_bijection": "node name <-> node id lookups are not mutually inverse / not reader independent"}


def plan(ctx):
    """(ops, probe parameters) for every case of this run"""
    rng = ctx.rng
    thorough = ctx.tier == "thorough"
    out = []
    for k in range(1500 if thorough else 260):
        mode = rng.random()
        p_free = 1.0 if mode < 0.45 else (0.8 if mode < 0.8 else 0.4)
        out.append((K.gen_ops(rng, 25), {"mode": "script", "seed": rng.randrange(1 << 30), "p_free": p_free}))
    # port exhaustion: the OS refuses every port (e.g. a sandbox that forbids bind) or the range is used up
    for k in range(6 if thorough else 3):
        ops = K.gen_ops(rng, 6)
        ops.insert(rng.randrange(len(ops) + 1), {"op": "add_node", "net": rng.choice(K.NETS), "name": rng.choice(K.NAMES),
                                                 "hosts": [None] * 3, "ports": [None] * 3, "neighbors": None})
        out.append((ops + [{"op": "write"}], {"mode": "script", "seed": rng.randrange(1 << 30), "p_free": 0.0}))
    # the real probe (answers recorded and handed to the model)
    for k in range(10 if thorough else 4):
        out.append((K.gen_ops(rng, 12) + [{"op": "write"}], {"mode": "real"}))
    # hand-written corner sequences (always run): removal inside a restricted topology, ids, overwrite, merge on read
    a = lambda name, net=None, ports=(None, None, None), nb=None, hosts=(None, None, None): {  # noqa: E731
        "op": "add_node", "net": net, "name": name, "hosts": list(hosts), "ports": list(ports), "neighbors": nb}
    out.append(([a("Alice"), a("Bob", nb=["Alice"]), a("Charlie", nb=["Alice", "Bob"]), {"op": "remove_node", "net": None, "name": "Alice"},
                 {"op": "write"}], {"mode": "script", "seed": 1, "p_free": 1.0}))
    out.append(([{"op": "reset"}, {"op": "write"}, {"op": "load"}, a("bob"), a("A10"), a("A2"), {"op": "write"}],
                {"mode": "script", "seed": 2, "p_free": 1.0}))
    out.append(([a("Alice", ports=(8000, 8000, 8001)), a("Alice", ports=(8000, 8001, 8002)), a("Bob", ports=(None, 8001, None)),
                 a("Bob", net="netB", ports=(8001, None, None)), a("Bob", net="netB", hosts=("127.0.0.1", None, None), ports=(8001, None, None)),
                 {"op": "write"}, a("Eve", net="lab2"), {"op": "remove_network", "net": "netB"}, {"op": "read"}, {"op": "write"}],
                {"mode": "script", "seed": 3, "p_free": 1.0}))
    return out


def make_probe(pp):
    if pp["mode"] == "real":
        from simulaqron.toolbox import manage_nodes
        real = make_probe.real
        if real is None:
            real = make_probe.real = manage_nodes.NetworksConfigConstructor.__dict__["_check_socket_is_free"].__func__
        return K.Probe("real", real=real)
    return K.Probe("script", seed=pp["seed"], p_free=pp["p_free"])


make_probe.real = None


def run(ctx):
    ctx.trusted += ["Python json module (file <-> dict), socket.getaddrinfo for numeric host names (Host.__init__)",
                    "the OS port probe _check_socket_is_free: replaced by a scripted oracle (answers recorded, replayed to the model); "
                    "in the theorems it is an arbitrary function of (call index, port)",
                    "Python `sorted` on ASCII strings = Coq String.leb order (insertion sort `isort`), exercised by the id correspondence",
                    "conf_common.py: printing of dictionaries as Coq association lists in insertion order"]
    ctx.rule = ("random edit sequences (1..25 edits; add_node with explicit ports from a 10-port range overlapping the automatic one, "
                "4 host spellings, 3 roles; 3 networks; remove/add network, reset, write, read, load) + port-exhaustion runs + runs with the real "
                "OS probe + 3 hand-written corner sequences; compared after every edit. A case is non-trivial if at least one edit was refused "
                "or a removal/overwrite/merge changed an existing entry; distinct = distinct (edit sequence, probe answers)")
    common.check_properties_file(ctx)
    from simulaqron.toolbox import manage_nodes  # noqa: F401  (imported from the scratch copy only now)
    make_probe.real = None

    path = os.path.join(ctx.home, "c16-network.json")
    cfgdir = os.path.join(ctx.scratch, "simulaqron", "config")

    def snapshot():
        return {f: (open(os.path.join(cfgdir, f), "rb").read() if f != "settings.json" else b"") for f in sorted(os.listdir(cfgdir))}
    before = snapshot()

    if ctx.replay:
        rp = json.load(open(ctx.replay))["replay"]
        steps, orc, _ = K.run_ops(path, rp["ops"], make_probe(rp["probe"]))
        for kind, i, text in orc.failures:
            ctx.report("oracle:" + kind, "%s: %s" % (KINDS[kind], text), rp, True)
        return

    cases, idcases = [], []
    bad = {}                                  # kind -> (len, ops, probe parameters, text)
    for ops, pp in plan(ctx):
        try:
            steps, orc, drv = K.run_ops(path, ops, make_probe(pp))
        except Exception as e:               # noqa: BLE001   an exception class the model does not know
            ctx.obligation("implementation raises only ValueError / KeyError on the generated edits", False, "%r on %s" % (e, json.dumps(ops)))
            bad.setdefault("crash", (len(ops), ops, pp, repr(e)))
            continue
        desc = {"ops": ops, "probe": pp, "answers": len(drv.probe.answers)}
        cases.append((K.cedits(drv.probe.answers, steps), desc))
        refused = sum(1 for _, ob in steps if ob["res"] != 0)
        ctx.case(json.dumps([ops, drv.probe.answers[:50]], sort_keys=True), nontrivial=(refused > 0 or any(
            o["op"] in ("remove_node", "remove_network", "read", "load", "reset") for o in ops)))
        for o, ob in steps:
            ctx.count("op_" + o["op"])
            ctx.count("result_" + ["ok", "ValueError", "KeyError"][ob["res"]])
        ctx.count("os_probe_calls", len(drv.probe.answers))
        ctx.count("os_probe_refusals", sum(1 for x in drv.probe.answers if not x))
        ctx.count("id_lookups", orc.stats["id_lookups"])
        ctx.count("write_read_roundtrips", orc.stats["roundtrips"])
        ctx.count("unresolvable_host_readers_refusing_loudly", orc.stats.get("unresolvable_refused", 0))
        ctx.count("unresolvable_host_readers_answering", orc.stats.get("unresolvable_answered", 0))
        ctx.count("max_nodes_seen", 0)
        ctx.coverage["max_nodes_seen"] = max(ctx.coverage["max_nodes_seen"], max([len(K.all_endpoints(ob["cfg"])) // 3 for _, ob in steps] or [0]))
        for f, net, ids, names in orc.id_cases:
            idcases.append((K.cids(f, net, ids, names), {"file": f, "network": net, "ids": ids, "names": names}))
            ctx.case(json.dumps(["ids", f, net], sort_keys=True), nontrivial=len(ids) > 1)
        for kind, i, text in orc.failures:
            if kind not in bad or len(ops) < bad[kind][0]:
                bad[kind] = (len(ops), ops, pp, text)
        ctx.count("oracle_failures", len(orc.failures))
    # port exhaustion by edits alone (the OS says "free" every time): 67 resets reserve 1005 > 1001 ports.  Judged by the
    # oracle only (the model side of this long run would cost minutes of vm_compute); the short scripted exhaustion runs
    # above are the ones compared with the model.
    long_ops = [{"op": "reset"}] * 67 + [{"op": "write"}]
    long_pp = {"mode": "script", "seed": 4, "p_free": 1.0}
    _, orc, _ = K.run_ops(path, long_ops, make_probe(long_pp), lookups=False)
    ctx.case("67 resets", nontrivial=True)
    ctx.count("long_exhaustion_runs")
    for kind, i, text in orc.failures:
        if kind not in bad:
            bad[kind] = (len(long_ops), long_ops, long_pp, text)
    # the harness must not have touched the package's own config directory beyond what importing settings does
    after = snapshot()
    leaked = [f for f in sorted(set(before) | set(after)) if before.get(f) != after.get(f)]
    ctx.obligation("edits went to the scratch file only (package config directory unchanged)", not leaked, repr(leaked))

    for c in cases[:1] + cases[-1:]:
        ctx.sample({"ops": c[1]["ops"][:6], "probe": c[1]["probe"]})
    K.run_cases(ctx, cases, "edit sequences (state after every edit)", shard=40)
    K.run_cases(ctx, idcases, "node id lookups (both directions, all roles)", shard=200)

    ctx.obligation("oracle: the four clauses of C16 hold on every observed state of the implementation", not bad,
                   "; ".join("%s: %s" % (k, v[3]) for k, v in sorted(bad.items()))[:900])

    # ---- verdict: shrink one witness per failing clause and report it -------------------------------------------------
    for kind, (_, ops, pp, text) in sorted(bad.items()):
        if kind == "crash":
            ctx.report("crash", "unexpected exception: " + text, {"ops": ops, "probe": pp}, True)
            continue

        def fails(cand, kind=kind, pp=pp):
            try:
                _, o2, _ = K.run_ops(path, cand, make_probe(pp))
            except Exception:               # noqa: BLE001
                return False
            return any(f[0] == kind for f in o2.failures)
        small = K.shrink(copy.deepcopy(ops), fails)
        _, o2, _ = K.run_ops(path, small, make_probe(pp))
        msg = [f for f in o2.failures if f[0] == kind][0][2]
        ctx.report("oracle:" + kind, "%s: %s" % (KINDS[kind], msg), {"ops": small, "probe": pp, "how": "apply the edits in order to "
                   "NetworksConfigConstructor(file_path=<scratch file>) with _check_socket_is_free answering as in `probe`"}, True)
