(* C09 — NetQASM subroutines execute with reference semantics on the right qubits (Model N over Model V).
   The classical half of the statement (values returned = reference interpreter) has no theorem: netqasm's classical
   interpreter is library code; it is settled by the differential run (harness/props/c09.py). *)
From Coq Require Import List Bool Arith.
From SQ Require Import Base.ListUtil Net.Model Net.Refusal Net.Handles Qasm.Exec Qasm.ExecProps Qasm.ExecExamples.
Import ListNotations.

(* addr_inv: virtual address -> physical id -> handle is a chain of partial injections, every mapped physical id is
   marked used, every handle in qubitList was really issued; preserved by every instruction (failing ones included),
   hence true in every reachable state *)
Theorem C09_addr_inv : forall i s q, hinv s -> hinv (fst (fst (exec i s q))).
Proof. exact addr_inv. Qed.
Print Assumptions C09_addr_inv.

Theorem C09_addr_inv_reachable : forall caps i qs, hinv (run_q i (init_q caps) qs).
Proof. exact addr_inv_reachable. Qed.
Print Assumptions C09_addr_inv_reachable.

(* re-allocation: a successful qalloc binds the address to a handle no qubit ever had (in particular not the one the
   address denoted before it was freed) *)
Theorem C09_alloc_fresh : forall i s app a s' tr,
  hinv s -> exec i s (QAlloc app a) = (s', RDone None, tr) ->
  handle_of (q_host s') app a = Some (next_hid (q_net s)) /\
  next_hid (q_net s') = S (next_hid (q_net s)) /\
  (forall p hd, plookup p (h_qlist (q_host s)) = Some hd -> hd <> next_hid (q_net s)) /\
  stale (q_net s) (next_hid (q_net s)).
Proof. exact alloc_fresh. Qed.
Print Assumptions C09_alloc_fresh.

(* instr_targets: exactly one native operation, the table entry, on the handle(s) the address(es) denote *)
Theorem C09_instr_targets_single : forall i s app a g hd,
  handle_of (q_host s) app a = Some hd ->
  let o := OGate1 hd (native1 g) in
  exec i s (QG1 app a g) =
    (mkQ (fst (step (q_net s) o)) (q_host s), if is_err (snd (step (q_net s) o)) then RErr else RDone None,
     [(o, snd (step (q_net s) o))]).
Proof. exact g1_targets. Qed.
Print Assumptions C09_instr_targets_single.

Theorem C09_instr_targets_two : forall i s app a1 a2 g h1 h2,
  handle_of (q_host s) app a1 = Some h1 -> handle_of (q_host s) app a2 = Some h2 -> h1 <> h2 ->
  let o := OGate2 h1 h2 (native2 g) in
  exec i s (QG2 app a1 a2 g) =
    (mkQ (fst (step (q_net s) o)) (q_host s), if is_err (snd (step (q_net s) o)) then RErr else RDone None,
     [(o, snd (step (q_net s) o))]).
Proof. exact g2_targets. Qed.
Print Assumptions C09_instr_targets_two.

Theorem C09_instr_targets_meas : forall i s app a c hd,
  handle_of (q_host s) app a = Some hd ->
  let o := OMeas hd true c in
  exec i s (QMeas app a c) =
    (mkQ (fst (step (q_net s) o)) (q_host s),
     match snd (step (q_net s) o) with Ok v => RDone (Some v) | _ => RErr end, [(o, snd (step (q_net s) o))]).
Proof. exact meas_targets. Qed.
Print Assumptions C09_instr_targets_meas.

(* an address that denotes no qubit: error reply, no native call, nothing changes *)
Theorem C09_no_qubit_refused : forall i s q app a,
  addr_instr q = Some (app, a) -> handle_of (q_host s) app a = None -> exec i s q = (s, RErr, []).
Proof. exact no_qubit_refused. Qed.
Print Assumptions C09_no_qubit_refused.

Theorem C09_same_qubit_refused : forall i s app a1 a2 g hd,
  handle_of (q_host s) app a1 = Some hd -> handle_of (q_host s) app a2 = Some hd -> exec i s (QG2 app a1 a2 g) = (s, RErr, []).
Proof. exact g2_same_refused. Qed.
Print Assumptions C09_same_qubit_refused.

(* unsupported_refused: a gate whose native operation the backend rejects yields an error and leaves the whole state
   (network and host bookkeeping) unchanged — from C05's refusal_atomic *)
Theorem C09_unsupported_refused : forall i s q s' r tr o k,
  gate_instr q = true -> exec i s q = (s', r, tr) -> In (o, Err k) tr -> s' = s /\ r = RErr.
Proof. exact unsupported_refused. Qed.
Print Assumptions C09_unsupported_refused.

Theorem C09_t_and_rotations_refused : forall i s app a hd vi vq x rg,
  handle_of (q_host s) app a = Some hd -> find_handle (q_net s) hd = Some (vi, vq) -> locate (q_net s) vq = Some (x, rg) ->
  (exec i s (QG1 app a VT) = (s, RErr, [(OGate1 hd NT, Err KUnsupported)])) /\
  (forall ax, exec i s (QRot app a ax) = (s, RErr, [(OGate1 hd NRot, Err KUnsupported)])).
Proof. exact t_and_rotations_refused. Qed.
Print Assumptions C09_t_and_rotations_refused.

(* non-vacuity: a reachable state with two entangled qubits satisfies the hypotheses above *)
Theorem C09_example_state : hinv ex_state /\ handle_of (q_host ex_state) 7 2 = Some 0 /\ handle_of (q_host ex_state) 7 0 = Some 1
  /\ exec 0 ex_state (QG1 7 2 VT) = (ex_state, RErr, [(OGate1 0 NT, Err KUnsupported)]).
Proof. exact (conj ex_hinv (conj (proj1 ex_handles) (conj (proj1 (proj2 ex_handles)) ex_t_refused))). Qed.
Print Assumptions C09_example_state.
