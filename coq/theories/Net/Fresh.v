(* get_virtual_id / get_sim_id: the smallest-unused-id search really returns an unused id. *)
From Coq Require Import List Bool Arith Lia.
From SQ Require Import Base.ListUtil Net.Model.
Import ListNotations.

Lemma mem_nat_In x l : mem_nat x l = true <-> In x l.
Proof.
  unfold mem_nat. rewrite existsb_exists. split.
  - intros [y [Hy E]]. apply Nat.eqb_eq in E. subst; auto.
  - intros H. exists x. split; auto. apply Nat.eqb_refl.
Qed.

Local Arguments Nat.leb : simpl never.

Definition count_ge (j : nat) (l : list nat) : nat := length (filter (fun x => Nat.leb j x) l).

Lemma count_ge_S j l : In j l -> S (count_ge (S j) l) <= count_ge j l.
Proof.
  unfold count_ge. induction l as [|a t IH]; simpl; [tauto|].
  intros [->|H].
  - rewrite Nat.leb_refl. destruct (Nat.leb_spec (S j) j); try lia. simpl.
    assert (length (filter (fun x => S j <=? x) t) <= length (filter (fun x => j <=? x) t)).
    { clear. induction t as [|b t IH]; simpl; auto.
      destruct (Nat.leb_spec (S j) b), (Nat.leb_spec j b); simpl; lia. }
    lia.
  - specialize (IH H). destruct (Nat.leb_spec (S j) a), (Nat.leb_spec j a); simpl; lia.
Qed.

Lemma count_ge_0_notin j l : count_ge j l = 0 -> ~ In j l.
Proof.
  unfold count_ge. induction l as [|a t IH]; simpl; [tauto|].
  destruct (Nat.leb_spec j a) as [Hle|Hlt]; simpl; [discriminate|].
  intros H0 [E|E]; [lia|]. apply IH; auto.
Qed.

Lemma first_free_notin fuel j l : count_ge j l <= fuel -> ~ In (first_free_from fuel j l) l.
Proof.
  revert j. induction fuel as [|f IH]; intros j H; simpl.
  - apply count_ge_0_notin. lia.
  - destruct (mem_nat j l) eqn:E.
    + apply mem_nat_In in E. apply IH. pose proof (count_ge_S j l E). lia.
    + intro Hin. apply mem_nat_In in Hin. congruence.
Qed.

Theorem fresh_id_notin l : ~ In (fresh_id l) l.
Proof.
  unfold fresh_id. apply first_free_notin. unfold count_ge.
  clear. induction l as [|a t IH]; simpl; auto. lia.
Qed.
