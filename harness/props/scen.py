"""Deterministic scenarios for the Model-V properties; handle ids are allocated as the implementation does
(one per successful new / send, in operation order)."""


class B:
    def __init__(self):
        self.ops = []
        self.n = 0
        self.creator = []          # handle k is created by operation number creator[k]
        self.rcreator = []         # register handle k is created by operation number rcreator[k]

    def new(self, node):
        self.creator.append(len(self.ops))
        self.ops.append(("new", node))
        self.n += 1
        return self.n - 1

    def send(self, h, t):
        self.creator.append(len(self.ops))
        self.ops.append(("send", h, t))
        self.n += 1
        return self.n - 1

    def newreg(self, node, maxq):
        """client-made empty register (must succeed); returns its register handle"""
        self.rcreator.append(len(self.ops))
        self.ops.append(("newreg", node, maxq))
        return len(self.rcreator) - 1

    def newin(self, node, rh):
        """qubit created inside the client-made register rh (must succeed)"""
        self.creator.append(len(self.ops))
        self.ops.append(("newinreg", node, rh))
        self.n += 1
        return self.n - 1

    def newinq(self, node, h):
        """qubit created inside the register that currently simulates the held qubit h (must succeed)"""
        self.creator.append(len(self.ops))
        self.ops.append(("newinregq", node, h))
        self.n += 1
        return self.n - 1

    def sym(self):
        """handles replaced by the index of their creating operation (net_run.replay format)"""
        fields = {"g1": [1], "g2": [1, 2], "send": [1], "meas": [1], "new": [], "newreg": [], "newinreg": [], "newinregq": [2]}
        out = []
        for o in self.ops:
            o = list(o)
            for f in fields[o[0]]:
                o[f] = self.creator[o[f]]
            if o[0] == "newinreg":
                o[2] = self.rcreator[o[2]]
            out.append(tuple(o))
        return out

    def g1(self, h, g):
        self.ops.append(("g1", h, g))

    def g2(self, a, b, g):
        self.ops.append(("g2", a, b, g))

    def meas(self, h, inplace, coin):
        self.ops.append(("meas", h, inplace, coin))

    def raw(self, op):
        self.ops.append(op)


CAPS3 = [(6, 8), (6, 8), (6, 8)]


def placement_cases():
    """every placement case x gate, asymmetric states, followed by measurements"""
    out = []
    for g in ("cnot", "cphase"):
        for case in range(1, 8):
            b = B()
            if case in (1, 2):
                x, y = b.new(0), b.new(0)
                b.g1(x, "H"); b.g1(y, "K")
                b.g2(x, y, g)
                if case == 1:
                    b.g1(y, "H"); b.g2(y, x, g)
            elif case == 3:
                x, y = b.new(1), b.new(1)
                b.g1(x, "H"); b.g2(x, y, "cnot"); b.g1(y, "K")
                x2 = b.send(x, 0); y2 = b.send(y, 0)
                b.g2(y2, x2, g)
                x, y = x2, y2
            elif case == 4:
                x, y, z = b.new(1), b.new(1), b.new(1)
                b.g1(x, "H"); b.g1(y, "K"); b.g2(z, y, "cnot")
                x2 = b.send(x, 0); y2 = b.send(y, 0)
                b.g2(x2, y2, g)
                x, y = x2, y2
                b.g1(z, "H"); b.meas(z, False, True)
            elif case == 5:
                x, y, z = b.new(0), b.new(1), b.new(1)
                b.g1(x, "H"); b.g1(y, "K"); b.g2(y, z, "cnot")
                y2 = b.send(y, 0); z2 = b.send(z, 2)
                b.g2(x, y2, g)
                y = y2
                b.g1(z2, "H"); b.meas(z2, False, False)
            elif case == 6:
                x, y, z = b.new(0), b.new(1), b.new(1)
                b.g1(x, "K"); b.g1(y, "H"); b.g2(z, y, "cphase")
                y2 = b.send(y, 0); z2 = b.send(z, 2)
                b.g2(y2, x, g)
                x, y = y2, x
                b.g1(z2, "K"); b.meas(z2, True, True)
            else:
                x, y, z, w = b.new(1), b.new(2), b.new(1), b.new(2)
                b.g1(x, "H"); b.g1(y, "K"); b.g2(x, z, "cnot"); b.g2(w, y, "cphase")
                x2 = b.send(x, 0); y2 = b.send(y, 0)
                b.g2(x2, y2, g)
                x, y = x2, y2
                b.g1(z, "H"); b.meas(z, False, True); b.meas(w, False, False)
            b.g1(x, "H")
            b.meas(x, True, True)
            b.meas(y, False, False)
            b.meas(x, False, True)
            out.append(("case%d_%s" % (case, g), CAPS3, b.sym()))
    return out


def forwarding():
    """qubits sent on while simulated elsewhere: A->B->C->A, with a merged register and a third party"""
    b = B()
    x, y, z = b.new(0), b.new(0), b.new(0)
    b.g1(x, "H"); b.g2(x, y, "cnot"); b.g2(y, z, "cnot"); b.g1(z, "K")
    y1 = b.send(y, 1)
    y2 = b.send(y1, 2)           # forwarded while simulated at 0 (third node)
    z1 = b.send(z, 2)
    b.g2(y2, z1, "cphase")       # both remote, same node, same register
    y3 = b.send(y2, 0)           # back to the simulating node
    b.g2(x, y3, "cnot")
    w = b.new(2)
    b.g1(w, "H")
    b.g2(w, z1, "cnot")          # control local, target remote
    z2 = b.send(z1, 1)           # now simulated at 2, forwarded from 2 to 1
    z3 = b.send(z2, 0)           # target is not the simulating node
    b.meas(x, False, True)
    b.meas(y3, True, False)
    b.meas(z3, False, True)
    b.meas(w, False, False)
    return [("forwarding_chain", CAPS3, b.sym())]


def register_limit():
    """both-remote merge on a node that already simulates maxRegisters registers"""
    b = B()
    own = b.new(2)
    a = b.new(0)
    a2 = b.send(a, 2)
    c = b.new(1)
    c2 = b.send(c, 2)
    b.g1(a2, "H")
    b.g2(a2, c2, "cnot")
    b.meas(a2, False, True)
    b.meas(c2, False, True)
    n2 = b.new(2)               # at the register limit again? one own register + merge register freed
    return [("both_remote_merge_at_register_limit", [(5, 4), (5, 4), (5, 1)], b.sym())]


def capacity():
    out = []
    for mq in (1, 2, 3):
        b = B()
        hs = [b.new(0) for _ in range(mq)]
        b.raw(("new", 0))                       # refused
        o = b.new(1)
        b.raw(("send", o, 0))                   # refused: receiver full
        b.meas(hs[0], False, True)              # frees one slot
        o2 = b.send(o, 0)                       # now accepted
        b.raw(("new", 0))                       # refused again
        s = b.send(o2, 1)                       # frees one slot by sending
        n = b.new(0)
        out.append(("capacity_%d" % mq, [(mq, 8), (3, 8)], b.sym()))
    return out


def stale():
    b = B()
    x, y = b.new(0), b.new(0)
    b.g1(x, "H"); b.g2(x, y, "cnot")
    b.meas(x, False, True)                      # x departs, y inherits position 0
    b.g1(x, "X"); b.g1(x, "H")
    b.g2(x, y, "cnot"); b.g2(y, x, "cphase")
    b.raw(("send", x, 1))
    b.meas(x, True, False); b.meas(x, False, True)
    z = b.new(0)
    b.g2(y, z, "cnot")
    y1 = b.send(y, 1)                           # y departs by sending; register at 0 still holds z
    b.g1(y, "Z"); b.g2(y, z, "cnot"); b.g2(z, y, "cnot")
    b.raw(("send", y, 2)); b.meas(y, False, True)
    b.meas(y1, False, True); b.meas(z, False, False)
    return [("stale_after_measure_and_send", CAPS3, b.sym())]


def refusals():
    b = B()
    x = b.new(0)
    x1 = b.send(x, 1)                           # simulated at 0, held by 1
    b.g1(x1, "T"); b.g1(x1, "Rot")              # unsupported gate on a remotely simulated qubit
    b.g2(x1, x1, "cnot")                        # identical operands, remote
    y = b.new(1)
    b.g2(y, y, "cphase")                        # identical operands, local
    b.raw(("send", x1, 7))                      # unknown target
    f1, f2 = b.new(2), b.new(2)                 # node 2 has capacity 2
    b.raw(("send", x1, 2))                      # receiver full, qubit simulated at a third node
    b.raw(("send", y, 2))                       # receiver full, qubit simulated at the sender
    b.raw(("new", 2))                           # creation at capacity
    b.g1(x1, "H"); b.g2(x1, y, "cnot")          # still usable
    b.meas(x1, False, True); b.meas(y, False, True)
    return [("refusals_by_placement", [(4, 8), (4, 8), (2, 8)], b.sym())]


def big_merge():
    """a register that outgrows the engine's default size (10): a one-qubit local register absorbs a 10-qubit register that is simulated
    at another node and held by three nodes (merges must never fail for capacity)"""
    b = B()
    caps = [(6, 12), (6, 12), (6, 12)]
    first = [b.new(2) for _ in range(5)]
    b.g1(first[0], "H")
    for q in first[1:]:
        b.g2(first[0], q, "cnot")               # 5-qubit register at node 2
    away = [b.send(first[1], 0), b.send(first[2], 0), b.send(first[3], 1), b.send(first[4], 1)]
    more = [b.new(2) for _ in range(4)]
    for q in more:
        b.g2(first[0], q, "cnot")               # 9 qubits
    away += [b.send(more[0], 0), b.send(more[1], 1), b.send(more[2], 1)]
    last = b.new(2)
    b.g2(first[0], last, "cnot")                # 10 qubits, all simulated at node 2
    fresh = b.new(0)
    b.g1(fresh, "K")
    b.g2(fresh, away[0], "cnot")                # control local (1-qubit register) pulls the 10-qubit register: 11 > 10
    b.g2(away[1], fresh, "cphase")
    b.meas(fresh, False, True)
    b.meas(away[0], False, False)
    out = [("big_merge_beyond_default_register_size", caps, b.sym())]
    # the same locally: everything at one node; a fresh one-qubit register absorbs a 10-qubit register and vice versa, then refusals on
    # the big register (identical operands) and measurements: nothing may stay locked, the merge must not be refused
    b = B()
    caps = [(14, 14), (4, 8)]
    first = [b.new(0) for _ in range(10)]
    b.g1(first[0], "H")
    for q in first[1:]:
        b.g2(first[0], q, "cnot")               # 10-qubit register at node 0
    f1 = b.new(0)
    b.g1(f1, "H")
    b.g2(f1, first[3], "cnot")                  # control in the one-qubit register, target in the 10-qubit register
    b.g1(first[5], "X")
    b.g2(first[2], first[7], "cphase")
    f2 = b.new(0)
    b.g2(first[4], f2, "cnot")                  # control in the 11-qubit register, target fresh
    b.meas(first[5], False, False)
    b.meas(f1, False, True)
    b.g1(first[9], "Z")
    moved = b.send(first[9], 1)
    b.g1(moved, "H")
    out.append(("big_local_merge_beyond_default_register_size", caps, b.sym()))
    return out


def register_api():
    """the two client operations on registers (remote_add_register, remote_new_qubit_inreg): fill a register of capacity 2, refusals (full,
    foreign node, node full, capacity 0), a qubit of the register sent away and one measured out, creation again, the client-made register
    absorbing another one (local merge) and being pulled to another node (remote merge), the register limit reached by newreg"""
    b = B()
    caps = [(5, 4), (5, 4), (2, 3)]
    R0 = b.newreg(0, 2)                         # register 0 of node 0: empty, capacity 2
    a = b.newin(0, R0)
    c = b.newin(0, R0)                          # full
    b.raw(("newinreg", 0, R0))                  # third creation refused: register full
    b.raw(("newinreg", 1, R0))                  # asked of a node that does not simulate the register: refused
    b.g1(a, "H"); b.g2(a, c, "cnot")            # same register: just the gate
    c1 = b.send(c, 1)                           # one sent away: still simulated in the register at node 0
    b.raw(("newinreg", 0, R0))                  # hence still full
    b.meas(a, False, True)                      # one measured out: the register holds one qubit (c1's) at position 0
    d = b.newin(0, R0)                          # create again: position 1
    b.g1(d, "K")
    e = b.new(0)                                # an ordinary one-qubit register (capacity 10)
    b.g1(e, "H")
    b.g2(d, e, "cnot")                          # local merge: the client-made register absorbs e's (capacity 2 + 1)
    b.raw(("newinreg", 0, R0))                  # 3 of 3: refused
    b.meas(e, True, False)
    f = b.new(1)
    b.g1(f, "H")
    b.g2(f, c1, "cphase")                       # node 1: control local, target simulated at 0 -> the client-made register is pulled to node 1
    g = b.newinq(1, f)                          # create inside the merged register at node 1 (capacity 10 + 3)
    b.g1(g, "H")
    b.g2(g, c1, "cnot")
    b.raw(("newinregq", 0, f))                  # node 0 no longer simulates it: refused
    d1 = b.send(d, 2)                           # held by 2, simulated at 1
    b.meas(g, False, True)
    b.meas(d1, False, False)
    # register limit at node 2 (3 registers, 2 qubits)
    R1 = b.newreg(2, 1)
    R2 = b.newreg(2, 0)
    R3 = b.newreg(2, 3)
    b.raw(("newreg", 2, 1))                     # refused: register limit
    b.raw(("new", 2))                           # ordinary creation needs a register too: refused
    b.raw(("newinreg", 2, R2))                  # capacity 0: always full
    h = b.newin(2, R1)
    b.raw(("newinreg", 2, R1))                  # full
    i = b.newin(2, R3)
    b.raw(("newinreg", 2, R3))                  # room in the register, but the node holds its maximum of 2
    b.g1(h, "H")
    b.g2(h, i, "cnot")                          # two client-made registers merge: one register slot is free again
    R4 = b.newreg(2, 2)
    b.raw(("newinreg", 2, R4))                  # node full
    b.meas(h, False, True)
    j = b.newin(2, R4)
    b.g2(j, i, "cphase")
    b.meas(i, False, True)
    b.meas(j, False, False)
    b.meas(c1, False, True)
    b.meas(f, False, False)
    b.meas(e, False, True)
    return [("register_api", caps, b.sym())]
