(* C07: capacity freed by measuring or sending is immediately reusable. *)
From Coq Require Import List Bool Arith Lia.
From SQ Require Import Base.ListUtil Stab.Tableau Net.Model Net.Refusal Net.Capacity Net.Handles Net.Inv Net.InvNew Net.Population.
Import ListNotations.

Lemma maxQ_step s o i : maxQ (nth_node (fst (step s o)) i) = maxQ (nth_node s i).
Proof.
  destruct (step_keeps o s) as [_ E]. unfold caps_of in E.
  assert (E' : map maxQ (nodes (fst (step s o))) = map maxQ (nodes s)).
  { assert (X : map fst (map (fun nd => (maxQ nd, maxR nd)) (nodes (fst (step s o)))) =
                map fst (map (fun nd => (maxQ nd, maxR nd)) (nodes s))) by congruence.
    rewrite !map_map in X. exact X. }
  unfold nth_node. change 0 with (maxQ (empty_node 0 0)) at 1 3. 
  rewrite <- !(map_nth maxQ). rewrite E'. reflexivity.
Qed.

Theorem room_after_destructive_measure s h c v vi q :
  hid_inv s -> cap_inv s -> find_handle s h = Some (vi, q) -> snd (step s (OMeas h false c)) = Ok v ->
  length (virt (nth_node (fst (step s (OMeas h false c))) vi)) < maxQ (nth_node (fst (step s (OMeas h false c))) vi).
Proof.
  intros HI HC EF Hok.
  pose proof (held_meas_destructive s h c v vi q vi HI EF Hok) as E. rewrite Nat.eqb_refl in E. unfold held in E.
  rewrite E, maxQ_step.
  pose proof (cap_nth s vi HC) as Cn. unfold cap_ok in Cn.
  apply find_handle_some in EF as (_ & Hq & _).
  destruct (virt (nth_node s vi)); simpl in *; [contradiction|lia].
Qed.

Theorem room_after_send s h t v vi q :
  hid_inv s -> cap_inv s -> find_handle s h = Some (vi, q) -> vi <> t -> snd (step s (OSend h t)) = Ok v ->
  length (virt (nth_node (fst (step s (OSend h t))) vi)) < maxQ (nth_node (fst (step s (OSend h t))) vi).
Proof.
  intros HI HC EF Hne Hok.
  pose proof (held_send s h t v vi q vi HI EF Hne Hok) as E. rewrite Nat.eqb_refl in E. unfold held in E.
  rewrite E, maxQ_step.
  pose proof (cap_nth s vi HC) as Cn. unfold cap_ok in Cn.
  apply find_handle_some in EF as (_ & Hq & _).
  destruct (virt (nth_node s vi)); simpl in *; [contradiction|lia].
Qed.

(* hence the very next arrival at that node is accepted *)
Theorem receive_after_room s h' t vi' q' :
  find_handle s h' = Some (vi', q') -> t < length (nodes s) ->
  length (virt (nth_node s t)) < maxQ (nth_node s t) -> exists v, snd (step s (OSend h' t)) = Ok v.
Proof.
  intros EF Lt Hroom. destruct (send_decision s h' t vi' q' EF) as (_ & _ & [_ K]). apply K. auto.
Qed.
