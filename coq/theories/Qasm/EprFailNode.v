(* C11, failed pair creation, at the level of Model V: the network after a creation that failed and was cleaned up is EXACTLY the
   network before it, except for two counters (the handle counter, and the creator node's register-number counter, which are
   never re-used): every node's list of held qubits, simulated qubits, registers and its register count are literally equal.
   (TeardownNet.epr_keep_failure_effect proves the part of this that concerns held qubits, from the generic per-node lemmas;
   here the simulated qubits and registers are followed through the seven native calls.) *)
From Coq Require Import List Bool Arith Lia.
From SQ Require Import Base.ListUtil Stab.Tableau Net.Model Net.Refusal Net.Handles Net.Inv Net.InvNew Net.InvMeas Net.InvStep
  Net.PerNode Qasm.Exec Qasm.ExecProps Qasm.Teardown Qasm.TeardownX.
Import ListNotations.

Local Arguments step : simpl never.
Local Arguments measure : simpl never.

(* the node with its register-number counter advanced by k: what a failed creation leaves *)
Definition bump (nd : node) (k : nat) : node :=
  mkNode (virt nd) (sims nd) (regs nd) (numRegs nd) (nextReg nd + k) (maxQ nd) (maxR nd).

Lemma upd_upd {A} (l : list A) i x y : upd (upd l i x) i y = upd l i y.
Proof. revert i; induction l as [|a t IH]; intros [|i]; simpl; auto. f_equal; auto. Qed.

(* ---- small list facts about entries appended after a list that does not contain their key ------------------------------------ *)
Lemma find_sq_app_new k l x : ~ In k (map s_simNum l) -> s_simNum x = k -> forall l2, find_sq k (l ++ x :: l2) = Some x.
Proof.
  intros H E l2. induction l as [|a t IH]; simpl.
  - rewrite E, Nat.eqb_refl. reflexivity.
  - destruct (Nat.eqb_spec (s_simNum a) k); [exfalso; apply H; simpl; auto|]. apply IH. intro; apply H; simpl; auto.
Qed.
Lemma find_reg_app_new k l r : ~ In k (map r_num l) -> r_num r = k -> forall l2, find_reg k (l ++ r :: l2) = Some r.
Proof.
  intros H E l2. induction l as [|a t IH]; simpl.
  - rewrite E, Nat.eqb_refl. reflexivity.
  - destruct (Nat.eqb_spec (r_num a) k); [exfalso; apply H; simpl; auto|]. apply IH. intro; apply H; simpl; auto.
Qed.
Lemma set_reg_old l r : ~ In (r_num r) (map r_num l) -> set_reg l r = l.
Proof.
  intro H. unfold set_reg. rewrite <- (map_id l) at 2. apply map_ext_in. intros x Hx.
  destruct (Nat.eqb_spec (r_num x) (r_num r)); auto. exfalso. apply H. rewrite <- e. apply in_map; auto.
Qed.
Lemma del_reg_old l k : ~ In k (map r_num l) -> del_reg l k = l.
Proof.
  intro H. unfold del_reg. induction l as [|a t IH]; simpl; auto.
  destruct (Nat.eqb_spec (r_num a) k); simpl; [exfalso; apply H; simpl; auto|]. f_equal. apply IH. intro; apply H; simpl; auto.
Qed.
Lemma filter_sim_old k (l : list sq) : ~ In k (map s_simNum l) -> filter (fun y => negb (Nat.eqb (s_simNum y) k)) l = l.
Proof.
  intro H. induction l as [|a t IH]; simpl; auto.
  destruct (Nat.eqb_spec (s_simNum a) k); simpl; [exfalso; apply H; simpl; auto|]. f_equal. apply IH. intro; apply H; simpl; auto.
Qed.
Lemma remove_vq_old h (l : list vq) : ~ In h (map v_hid l) -> remove_vq h l = l.
Proof.
  intro H. unfold remove_vq. induction l as [|a t IH]; simpl; auto.
  destruct (Nat.eqb_spec (v_hid a) h); simpl; [exfalso; apply H; simpl; auto|]. f_equal. apply IH. intro; apply H; simpl; auto.
Qed.
Lemma shift_old k p (l : list sq) : (forall y, In y l -> s_reg y <> k) -> map (shift_sq k p) l = l.
Proof.
  intro H. rewrite <- (map_id l) at 2. apply map_ext_in. intros y Hy. unfold shift_sq.
  destruct (Nat.eqb_spec (s_reg y) k); [exfalso; apply (H y); auto|reflexivity].
Qed.

(* a live handle is found where it is *)
Lemma find_handle_at s i q : hid_inv s -> In q (virt (nth_node s i)) -> find_handle s (v_hid q) = Some (i, q).
Proof.
  intros HI Hq.
  assert (Hin : In (v_hid q) (hn (nth_node s i))) by (unfold hn; apply in_map; exact Hq).
  destruct (live_find s i (v_hid q) Hin) as (vi & q' & F). rewrite F.
  apply find_handle_some in F as (_ & Hq' & E).
  destruct (hid_unique s vi i q' q HI Hq' Hq E) as [-> ->]. reflexivity.
Qed.
Lemma filter_sim_app_new k (l : list sq) x : ~ In k (map s_simNum l) -> s_simNum x = k ->
  forall l2, filter (fun y => negb (Nat.eqb (s_simNum y) k)) (l ++ x :: l2) = l ++ filter (fun y => negb (Nat.eqb (s_simNum y) k)) l2.
Proof. intros H E l2. rewrite filter_app, (filter_sim_old k l H). simpl. rewrite E, Nat.eqb_refl. reflexivity. Qed.
Lemma del_reg_app_new k (l : list reg) r : ~ In k (map r_num l) -> r_num r = k -> forall l2, del_reg (l ++ r :: l2) k = l ++ del_reg l2 k.
Proof. intros H E l2. unfold del_reg. rewrite filter_app. fold (del_reg l k). rewrite (del_reg_old l k H). simpl. rewrite E, Nat.eqb_refl. reflexivity. Qed.
Lemma remove_vq_app_new h (l : list vq) q : ~ In h (map v_hid l) -> v_hid q = h -> forall l2, remove_vq h (l ++ q :: l2) = l ++ remove_vq h l2.
Proof. intros H E l2. unfold remove_vq. rewrite filter_app. fold (remove_vq h l). rewrite (remove_vq_old h l H). simpl. rewrite E, Nat.eqb_refl. reflexivity. Qed.
Lemma set_reg_app_new (l : list reg) r0 r1 : ~ In (r_num r1) (map r_num l) -> r_num r0 = r_num r1 ->
  forall l2, set_reg (l ++ r0 :: l2) r1 = l ++ r1 :: set_reg l2 r1.
Proof. intros H E l2. unfold set_reg. rewrite map_app. fold (set_reg l r1). rewrite (set_reg_old l r1 H). simpl. rewrite E, Nat.eqb_refl. reflexivity. Qed.

(* node nd plus ONE extra qubit (handle a, number v, simulated qubit sn) alone in an extra register K of node i *)
Definition ext1 (i : nat) (nd : node) (a v sn K mx : nat) (t : tab) (dk : nat) : node :=
  mkNode (virt nd ++ [mkVq a v i sn a]) (sims nd ++ [mkSq sn K 0]) (regs nd ++ [mkReg K mx 1 t [a]])
         (S (numRegs nd)) (nextReg nd + dk) (maxQ nd) (maxR nd).
Record fresh1 (nd : node) (a sn K : nat) : Prop := {
  f_a : ~ In a (map v_hid (virt nd)); f_sn : ~ In sn (map s_simNum (sims nd)); f_K : ~ In K (map r_num (regs nd));
  f_sK : forall y, In y (sims nd) -> s_reg y <> K }.

Lemma meas_out i s nd a v sn K mx t dk c :
  hid_inv s -> i < length (nodes s) -> nth_node s i = ext1 i nd a v sn K mx t dk -> fresh1 nd a sn K ->
  exists o, step s (OMeas a false c) = (mkNet (upd (nodes s) i (bump nd dk)) (next_hid s), Ok o).
Proof.
  intros HI Li E [Fa Fs FK _]. unfold step, op_meas.
  set (q := mkVq a v i sn a).
  assert (Hq : In q (virt (nth_node s i))) by (rewrite E; cbn [virt ext1]; apply in_or_app; right; simpl; auto).
  rewrite (find_handle_at s i q HI Hq : find_handle s a = Some (i, q)).
  unfold locate. cbn [v_simNode v_simNum q]. rewrite E. cbn [sims regs ext1].
  rewrite (find_sq_app_new sn (sims nd) (mkSq sn K 0) Fs eq_refl []). cbn [s_reg].
  rewrite (find_reg_app_new K (regs nd) (mkReg K mx 1 t [a]) FK eq_refl []).
  cbn [r_n r_tab s_pos].
  pose proof (measure_n 1 0 true c t) as M1. destruct (measure 1 0 true c t) as [[o n1] t1]. cbn [fst snd] in M1. subst n1.
  rewrite remove_sim_eq.
  set (r1 := reg_with_tab _ 1 t1). set (x := mkSq sn K 0).
  set (t' := snd (measure _ _ false c _)).
  unfold update_reg_at. rewrite E.
  set (ndA := with_regs _ _ _).
  rewrite (nth_node_set_eq s i ndA Li).
  set (ndB := rm_node ndA x r1 t').
  assert (LA : i < length (nodes (set_node s i ndA))) by (rewrite set_node_length; exact Li).
  rewrite (nth_node_set_eq _ i ndB LA).
  assert (EB : ndB = mkNode (virt nd ++ [q]) (sims nd) (regs nd) (numRegs nd) (nextReg nd + dk) (maxQ nd) (maxR nd)).
  { unfold ndB, rm_node, ndA, with_regs, ext1, r1, x, reg_with_tab.
    cbn [virt sims regs numRegs nextReg maxQ maxR r_n r_num r_max r_ids s_pos s_simNum].
    cbn [Nat.sub Nat.eqb].
    rewrite (set_reg_app_new (regs nd) (mkReg K mx 1 t [a]) (mkReg K mx 1 t1 [a]) FK eq_refl []).
    rewrite (filter_sim_app_new sn (sims nd) (mkSq sn K 0) Fs eq_refl []).
    rewrite (del_reg_app_new K (regs nd) (mkReg K mx 1 t1 [a]) FK eq_refl _).
    cbn [filter set_reg map del_reg]. rewrite !app_nil_r, Nat.sub_0_r. reflexivity. }
  rewrite EB. unfold with_virt. cbn [virt sims regs numRegs nextReg maxQ maxR].
  rewrite (remove_vq_app_new a (virt nd) q Fa eq_refl []). cbn [remove_vq filter]. rewrite app_nil_r.
  exists (if o then 1 else 0). f_equal. unfold set_node. cbn [nodes next_hid]. rewrite !upd_upd. reflexivity.
Qed.

(* creation: the new qubit sits alone in a register with the node's next register number *)
Lemma new_shape i s s1 v :
  ginv s -> step s (ONew i) = (s1, Ok v) ->
  let nd := nth_node s i in
  exists sn t, nodes s1 = upd (nodes s) i (ext1 i nd (next_hid s) v sn (nextReg nd) 10 t 1) /\
             next_hid s1 = S (next_hid s) /\ i < length (nodes s) /\ fresh1 nd (next_hid s) sn (nextReg nd).
Proof.
  intros [HI IV] S1 nd. unfold step in S1.
  destruct (Nat.ltb_spec i (length (nodes s))) as [Li|Li]; [|discriminate].
  unfold op_new in S1. fold nd in S1.
  destruct (Nat.leb (maxQ nd) (length (virt nd))); [discriminate|].
  unfold add_register in S1. destruct (Nat.leb (maxR nd) (numRegs nd)); [discriminate|].
  pose proof (inv_nodes s IV i) as OK. fold nd in OK.
  assert (FK : ~ In (nextReg nd) (map r_num (regs nd))).
  { intro Hin. apply in_map_iff in Hin as (r & E & Hr). pose proof (ok_rlt nd OK r Hr). lia. }
  exists (fresh_id (map s_simNum (sims nd))), (add_qubit 0 []).
  inversion S1; subst s1 v; clear S1. cbn [nodes next_hid].
  split.
  - f_equal. unfold ext1, with_virt, with_sims, with_regs, reg_with_ids, reg_with_tab.
    cbn [virt sims regs numRegs nextReg maxQ maxR r_num r_max r_n r_tab r_ids].
    match goal with |- context [set_reg (regs nd ++ [?r0]) ?r1] => rewrite (set_reg_app_new (regs nd) r0 r1 FK eq_refl []) end.
    cbn [set_reg map]. rewrite Nat.add_1_r. reflexivity.
  - split; [reflexivity|]. split; [exact Li|]. constructor.
    + intro Hin. assert (next_hid s < next_hid s); [|lia]. apply (hn_lt s i); auto.
    + apply fresh_id_not_in.
    + exact FK.
    + intros y Hy E. destruct (ok_sreg nd OK y Hy) as (r & Hr & Er & _). apply FK. rewrite <- E, <- Er. apply in_map. exact Hr.
Qed.

(* H on the first of two temporaries that sit in two separate registers: only its tableau changes *)
Lemma gate1_nested i s nd a1 v1 sn1 K1 m1 t1 d1 a2 v2 sn2 K2 m2 t2 d2 :
  hid_inv s -> i < length (nodes s) ->
  nth_node s i = ext1 i (ext1 i nd a1 v1 sn1 K1 m1 t1 d1) a2 v2 sn2 K2 m2 t2 d2 ->
  fresh1 nd a1 sn1 K1 -> fresh1 (ext1 i nd a1 v1 sn1 K1 m1 t1 d1) a2 sn2 K2 ->
  exists t1', step s (OGate1 a1 NH) =
    (mkNet (upd (nodes s) i (ext1 i (ext1 i nd a1 v1 sn1 K1 m1 t1' d1) a2 v2 sn2 K2 m2 t2 d2)) (next_hid s), OkNone).
Proof.
  intros HI Li E [Fa Fs FK FsK] [Fa2 Fs2 FK2 FsK2]. unfold step, op_gate1.
  set (q := mkVq a1 v1 i sn1 a1).
  assert (Hq : In q (virt (nth_node s i))).
  { rewrite E. cbn [virt ext1]. apply in_or_app. left. apply in_or_app. right. simpl. auto. }
  rewrite (find_handle_at s i q HI Hq : find_handle s a1 = Some (i, q)).
  unfold locate. cbn [v_simNode v_simNum q]. rewrite E. cbn [sims regs ext1].
  rewrite <- !app_assoc. cbn [app].
  rewrite (find_sq_app_new sn1 (sims nd) (mkSq sn1 K1 0) Fs eq_refl _). cbn [s_reg].
  rewrite (find_reg_app_new K1 (regs nd) (mkReg K1 m1 1 t1 [a1]) FK eq_refl _).
  cbn [gate1_of r_n r_tab s_pos].
  eexists. f_equal. unfold update_reg_at, set_node. cbn [nodes next_hid]. f_equal. f_equal.
  rewrite E. unfold with_regs, ext1, reg_with_tab.
  cbn [virt sims regs numRegs nextReg maxQ maxR r_num r_max r_n r_tab r_ids].
  rewrite <- !app_assoc. cbn [app].
  match goal with |- context [set_reg (regs nd ++ ?r0 :: ?l2) ?r1] => rewrite (set_reg_app_new (regs nd) r0 r1 FK eq_refl l2) end.
  cbn [set_reg map r_num].
  assert (NK : K2 <> K1).
  { intro; subst. apply FK2. cbn [regs ext1]. rewrite map_app. apply in_or_app. right. simpl. auto. }
  destruct (Nat.eqb_spec K2 K1); [contradiction|]. reflexivity.
Qed.
Lemma find_reg_app_l k l r l2 : find_reg k l = Some r -> find_reg k (l ++ l2) = Some r.
Proof. induction l as [|a t IH]; simpl; [discriminate|]. destruct (Nat.eqb (r_num a) k); auto. Qed.
Lemma find_sq_app_l k l x l2 : find_sq k l = Some x -> find_sq k (l ++ l2) = Some x.
Proof. induction l as [|a t IH]; simpl; [discriminate|]. destruct (Nat.eqb (s_simNum a) k); auto. Qed.
Lemma set_reg_nested_first (l : list reg) r1 r2 r1' : ~ In (r_num r1') (map r_num l) -> r_num r1 = r_num r1' -> r_num r2 <> r_num r1' ->
  set_reg ((l ++ [r1]) ++ [r2]) r1' = (l ++ [r1']) ++ [r2].
Proof.
  intros H E N. unfold set_reg. rewrite !map_app. fold (set_reg l r1'). rewrite (set_reg_old l r1' H). simpl.
  rewrite E, Nat.eqb_refl. destruct (Nat.eqb_spec (r_num r2) (r_num r1')); [contradiction|reflexivity].
Qed.

Local Arguments tensor : simpl never.
Local Arguments tab_gate2 : simpl never.

(* node nd plus TWO extra qubits sharing one extra register K (positions 0 and 1) *)
Definition ext2m (i : nat) (nd : node) (a1 v1 sn1 a2 v2 sn2 K mx : nat) (t : tab) (dk : nat) : node :=
  mkNode ((virt nd ++ [mkVq a1 v1 i sn1 a1]) ++ [mkVq a2 v2 i sn2 a2]) ((sims nd ++ [mkSq sn1 K 0]) ++ [mkSq sn2 K 1])
         (regs nd ++ [mkReg K mx 2 t [a1; a2]]) (S (numRegs nd)) (nextReg nd + dk) (maxQ nd) (maxR nd).

Lemma map_mv_old k1 k2 off (l : list sq) : (forall y, In y l -> s_reg y <> k2) ->
  map (fun y => if Nat.eqb (s_reg y) k2 then mkSq (s_simNum y) k1 (s_pos y + off) else y) l = l.
Proof.
  intro H. rewrite <- (map_id l) at 2. apply map_ext_in. intros y Hy.
  destruct (Nat.eqb_spec (s_reg y) k2); [exfalso; apply (H y); auto|reflexivity].
Qed.

(* CNOT between them: the second register is merged into the first *)
Lemma gate2_nested i s nd a1 v1 sn1 K1 m1 t1 d1 a2 v2 sn2 K2 m2 t2 d2 :
  hid_inv s -> i < length (nodes s) ->
  nth_node s i = ext1 i (ext1 i nd a1 v1 sn1 K1 m1 t1 d1) a2 v2 sn2 K2 m2 t2 d2 ->
  fresh1 nd a1 sn1 K1 -> fresh1 (ext1 i nd a1 v1 sn1 K1 m1 t1 d1) a2 sn2 K2 ->
  exists mx t, step s (OGate2 a1 a2 NCnot) =
    (mkNet (upd (nodes s) i (ext2m i nd a1 v1 sn1 a2 v2 sn2 K1 mx t (d1 + d2))) (next_hid s), OkNone).
Proof.
  intros HI Li E [Fa Fs FK FsK] [Fa2 Fs2 FK2 FsK2]. unfold step, op_gate2.
  set (q1 := mkVq a1 v1 i sn1 a1). set (q2 := mkVq a2 v2 i sn2 a2).
  assert (Hq1 : In q1 (virt (nth_node s i))).
  { rewrite E. cbn [virt ext1]. apply in_or_app. left. apply in_or_app. right. simpl. auto. }
  assert (Hq2 : In q2 (virt (nth_node s i))).
  { rewrite E. cbn [virt ext1]. apply in_or_app. right. simpl. auto. }
  rewrite (find_handle_at s i q1 HI Hq1 : find_handle s a1 = Some (i, q1)).
  rewrite (find_handle_at s i q2 HI Hq2 : find_handle s a2 = Some (i, q2)).
  rewrite Nat.eqb_refl. cbn [negb v_simNode v_simNum q1 q2]. rewrite Nat.eqb_refl.
  assert (NK : K2 <> K1).
  { intro; subst. apply FK2. cbn [regs ext1]. rewrite map_app. apply in_or_app. right. simpl. auto. }
  assert (NS : sn2 <> sn1).
  { intro; subst. apply Fs2. cbn [sims ext1]. rewrite map_app. apply in_or_app. right. simpl. auto. }
  assert (Fs2' : ~ In sn2 (map s_simNum (sims nd))).
  { intro H. apply Fs2. cbn [sims ext1]. rewrite map_app. apply in_or_app. left. exact H. }
  assert (FK2' : ~ In K2 (map r_num (regs nd))).
  { intro H. apply FK2. cbn [regs ext1]. rewrite map_app. apply in_or_app. left. exact H. }
  assert (P1 : pos_of s i sn1 = (K1, 0)).
  { unfold pos_of. rewrite E. cbn [sims ext1]. rewrite <- !app_assoc. cbn [app].
    rewrite (find_sq_app_new sn1 (sims nd) (mkSq sn1 K1 0) Fs eq_refl _). reflexivity. }
  assert (P2 : pos_of s i sn2 = (K2, 0)).
  { unfold pos_of. rewrite E. cbn [sims ext1].
    rewrite (find_sq_app_new sn2 (sims nd ++ [mkSq sn1 K1 0]) (mkSq sn2 K2 0)); [reflexivity| |reflexivity].
    rewrite map_app. intro H. apply in_app_iff in H as [H|[H|[]]]; [exact (Fs2' H)|]. cbn in H. congruence. }
  rewrite P1, P2. destruct (Nat.eqb_spec K1 K2) as [EK|_]; [congruence|].
  assert (FKa : ~ In K2 (map r_num (regs nd ++ [mkReg K1 m1 1 t1 [a1]]))) by exact FK2.
  assert (LM : exists mx t, local_merge s i K1 K2 = mkNet (upd (nodes s) i (ext2m i nd a1 v1 sn1 a2 v2 sn2 K1 mx t (d1 + d2))) (next_hid s)).
  { unfold local_merge. rewrite E. cbn [regs sims virt numRegs nextReg maxQ maxR ext1].
    rewrite (find_reg_app_l K1 _ _ [mkReg K2 m2 1 t2 [a2]] (find_reg_app_new K1 (regs nd) (mkReg K1 m1 1 t1 [a1]) FK eq_refl [])).
    rewrite (find_reg_app_new K2 (regs nd ++ [mkReg K1 m1 1 t1 [a1]]) (mkReg K2 m2 1 t2 [a2]) FKa eq_refl []).
    cbn [r_n r_num r_max r_tab r_ids].
    eexists _, _. unfold set_node. cbn [nodes next_hid]. f_equal. f_equal. unfold ext2m. f_equal.
    - rewrite map_app. rewrite (map_mv_old K1 K2 1 (sims nd ++ [mkSq sn1 K1 0]) FsK2).
      cbn [map s_reg s_simNum s_pos]. rewrite Nat.eqb_refl. reflexivity.
    - rewrite (set_reg_nested_first (regs nd)); [|exact FK|reflexivity|exact NK].
      rewrite (del_reg_app_new K2 (regs nd ++ [_]) (mkReg K2 m2 1 t2 [a2])); [|rewrite map_app; rewrite map_app in FKa; exact FKa|reflexivity].
      cbn [del_reg filter]. rewrite app_nil_r. reflexivity.
    - lia. }
  destruct LM as (mx & t & LM). rewrite LM. clear LM.
  set (sm := mkNet _ _).
  assert (EM : nth_node sm i = ext2m i nd a1 v1 sn1 a2 v2 sn2 K1 mx t (d1 + d2)).
  { unfold sm. rewrite nth_node_mk, Nat.eqb_refl. destruct (Nat.ltb_spec i (length (nodes s))); [reflexivity|lia]. }
  assert (P1' : pos_of sm i sn1 = (K1, 0)).
  { unfold pos_of. rewrite EM. cbn [sims ext2m].
    rewrite (find_sq_app_l sn1 _ _ [mkSq sn2 K1 1] (find_sq_app_new sn1 (sims nd) (mkSq sn1 K1 0) Fs eq_refl [])). reflexivity. }
  assert (P2' : pos_of sm i sn2 = (K1, 1)).
  { unfold pos_of. rewrite EM. cbn [sims ext2m].
    rewrite (find_sq_app_new sn2 (sims nd ++ [mkSq sn1 K1 0]) (mkSq sn2 K1 1)); [reflexivity| |reflexivity].
    rewrite map_app. intro H. apply in_app_iff in H as [H|[H|[]]]; [exact (Fs2' H)|]. cbn in H. congruence. }
  rewrite P1', P2'. unfold apply_gate2_at. rewrite EM. cbn [regs ext2m].
  rewrite (find_reg_app_new K1 (regs nd) (mkReg K1 mx 2 t [a1; a2]) FK eq_refl []).
  exists mx. eexists. f_equal. unfold update_reg_at, set_node, sm. cbn [nodes next_hid]. rewrite upd_upd. f_equal. f_equal.
  rewrite nth_node_mk, Nat.eqb_refl. destruct (Nat.ltb_spec i (length (nodes s))); [|lia]. cbn [andb].
  unfold with_regs, ext2m, reg_with_tab. cbn [virt sims regs numRegs nextReg maxQ maxR r_num r_max r_n r_tab r_ids].
  match goal with |- context [set_reg (regs nd ++ [?r0]) ?r1] => rewrite (set_reg_app_new (regs nd) r0 r1 FK eq_refl []) end.
  cbn [set_reg map]. reflexivity.
Qed.

(* measuring the first of two temporaries that share a register out: the second stays, alone, at position 0 *)
Lemma meas_first i s nd a1 v1 sn1 a2 v2 sn2 K mx t dk c :
  hid_inv s -> i < length (nodes s) -> nth_node s i = ext2m i nd a1 v1 sn1 a2 v2 sn2 K mx t dk ->
  fresh1 nd a1 sn1 K -> a2 <> a1 -> sn2 <> sn1 ->
  exists o t', step s (OMeas a1 false c) = (mkNet (upd (nodes s) i (ext1 i nd a2 v2 sn2 K mx t' dk)) (next_hid s), Ok o).
Proof.
  intros HI Li E [Fa Fs FK FsK] Na Ns. unfold step, op_meas.
  set (q := mkVq a1 v1 i sn1 a1).
  assert (Hq : In q (virt (nth_node s i))).
  { rewrite E. cbn [virt ext2m]. apply in_or_app. left. apply in_or_app. right. simpl. auto. }
  rewrite (find_handle_at s i q HI Hq : find_handle s a1 = Some (i, q)).
  unfold locate. cbn [v_simNode v_simNum q]. rewrite E. cbn [sims regs ext2m].
  rewrite (find_sq_app_l sn1 _ _ [mkSq sn2 K 1] (find_sq_app_new sn1 (sims nd) (mkSq sn1 K 0) Fs eq_refl [])). cbn [s_reg].
  rewrite (find_reg_app_new K (regs nd) (mkReg K mx 2 t [a1; a2]) FK eq_refl []).
  cbn [r_n r_tab s_pos].
  pose proof (measure_n 2 0 true c t) as M1. destruct (measure 2 0 true c t) as [[o n1] t1]. cbn [fst snd] in M1. subst n1.
  rewrite remove_sim_eq.
  set (r1 := reg_with_tab _ 2 t1). set (x := mkSq sn1 K 0).
  set (t' := snd (measure _ _ false c _)).
  unfold update_reg_at. rewrite E.
  set (ndA := with_regs _ _ _).
  rewrite (nth_node_set_eq s i ndA Li).
  set (ndB := rm_node ndA x r1 t').
  assert (LA : i < length (nodes (set_node s i ndA))) by (rewrite set_node_length; exact Li).
  rewrite (nth_node_set_eq _ i ndB LA).
  assert (EB : ndB = mkNode ((virt nd ++ [q]) ++ [mkVq a2 v2 i sn2 a2]) (sims nd ++ [mkSq sn2 K 0]) (regs nd ++ [mkReg K mx 1 t' [a2]])
                            (S (numRegs nd)) (nextReg nd + dk) (maxQ nd) (maxR nd)).
  { unfold ndB, rm_node, ndA, with_regs, ext2m, r1, x, reg_with_tab.
    cbn [virt sims regs numRegs nextReg maxQ maxR r_n r_num r_max r_ids s_pos s_simNum].
    cbn [Nat.sub Nat.eqb remove_nth].
    match goal with |- context [set_reg (regs nd ++ [?r0]) ?r1] => rewrite (set_reg_app_new (regs nd) r0 r1 FK eq_refl []) end.
    cbn [set_reg map].
    match goal with |- context [set_reg (regs nd ++ [?r0]) ?r1] => rewrite (set_reg_app_new (regs nd) r0 r1 FK eq_refl []) end.
    cbn [set_reg map].
    rewrite !map_app, (shift_old K 0 (sims nd) FsK). cbn [map]. unfold shift_sq. cbn [s_reg s_pos s_simNum]. rewrite Nat.eqb_refl.
    cbn [andb Nat.ltb Nat.leb Nat.sub].
    rewrite filter_app. rewrite (filter_sim_app_new sn1 (sims nd) (mkSq sn1 K 0) Fs eq_refl []).
    cbn [filter s_simNum]. destruct (Nat.eqb_spec sn2 sn1); [contradiction|]. cbn [negb]. rewrite app_nil_r. reflexivity. }
  rewrite EB. unfold with_virt. cbn [virt sims regs numRegs nextReg maxQ maxR].
  assert (RV : remove_vq a1 ((virt nd ++ [q]) ++ [mkVq a2 v2 i sn2 a2]) = virt nd ++ [mkVq a2 v2 i sn2 a2]).
  { rewrite <- app_assoc. cbn [app]. rewrite (remove_vq_app_new a1 (virt nd) q Fa eq_refl _).
    unfold remove_vq. cbn [filter v_hid]. destruct (Nat.eqb_spec a2 a1); [contradiction|]. reflexivity. }
  rewrite RV.
  exists (if o then 1 else 0), t'. f_equal. unfold set_node. cbn [nodes next_hid]. rewrite !upd_upd. reflexivity.
Qed.

Lemma nth_node_of_nodes s s' i nd : nodes s' = upd (nodes s) i nd -> i < length (nodes s) -> nth_node s' i = nd.
Proof. intros E L. unfold nth_node. rewrite E. apply nth_upd_eq. exact L. Qed.

(* ---- the two theorems: created, (entangled,) measured out again = nothing happened, up to the two counters -------------------- *)
Theorem one_temp_restored i s v c :
  ginv s -> snd (step s (ONew i)) = Ok v ->
  run s [ONew i; OMeas (next_hid s) false c] =
  mkNet (upd (nodes s) i (bump (nth_node s i) 1)) (S (next_hid s)).
Proof.
  intros G OK. destruct (step s (ONew i)) as [s1 r1] eqn:S1. cbn [snd] in OK. subst r1.
  destruct (new_shape i s s1 v G S1) as (sn & t & N1 & X1 & Li & F).
  assert (G1 : ginv s1) by (pose proof (step_ginv s (ONew i) G) as X; rewrite S1 in X; exact X).
  assert (L1 : i < length (nodes s1)) by (rewrite N1, upd_length; exact Li).
  destruct (meas_out i s1 (nth_node s i) (next_hid s) v sn (nextReg (nth_node s i)) 10 t 1 c (proj1 G1) L1
              (nth_node_of_nodes s s1 i _ N1 Li) F) as (o & M).
  unfold run. cbn [fold_left]. rewrite S1. cbn [fst]. rewrite M. cbn [fst]. rewrite N1, upd_upd, X1. reflexivity.
Qed.

Lemma fresh1_tab i nd a v sn K m t t' d a2 sn2 K2 :
  fresh1 (ext1 i nd a v sn K m t d) a2 sn2 K2 -> fresh1 (ext1 i nd a v sn K m t' d) a2 sn2 K2.
Proof. intros [A B C D]. constructor; [exact A|exact B| |exact D]. cbn [regs ext1] in *. rewrite map_app in *. exact C. Qed.

Theorem two_temps_restored i s v1 v2 c1 c2 :
  ginv s -> snd (step s (ONew i)) = Ok v1 -> snd (step (fst (step s (ONew i))) (ONew i)) = Ok v2 ->
  let a1 := next_hid s in let a2 := S (next_hid s) in
  run s [ONew i; ONew i; OGate1 a1 NH; OGate2 a1 a2 NCnot; OMeas a1 false c1; OMeas a2 false c2] =
  mkNet (upd (nodes s) i (bump (nth_node s i) 2)) (S (S (next_hid s))).
Proof.
  intros G OK1 OK2 a1 a2. set (nd := nth_node s i).
  destruct (step s (ONew i)) as [s1 r1] eqn:S1. cbn [fst snd] in *. subst r1.
  destruct (step s1 (ONew i)) as [s2 r2] eqn:S2. cbn [fst snd] in *. subst r2.
  destruct (new_shape i s s1 v1 G S1) as (sn1 & t1 & N1 & X1 & Li & F1). fold nd a1 in N1, F1.
  assert (G1 : ginv s1) by (pose proof (step_ginv s (ONew i) G) as X; rewrite S1 in X; exact X).
  assert (L1 : i < length (nodes s1)) by (rewrite N1, upd_length; exact Li).
  pose proof (nth_node_of_nodes s s1 i _ N1 Li) as E1.
  destruct (new_shape i s1 s2 v2 G1 S2) as (sn2 & t2 & N2 & X2 & _ & F2).
  rewrite E1 in N2, F2. rewrite X1 in N2, F2, X2. fold a1 a2 in N2, F2, X2.
  cbn [nextReg ext1] in N2, F2. set (K1 := nextReg nd) in *. set (K2 := K1 + 1) in *.
  assert (G2 : ginv s2) by (pose proof (step_ginv s1 (ONew i) G1) as X; rewrite S2 in X; exact X).
  assert (L2 : i < length (nodes s2)) by (rewrite N2, upd_length; exact L1).
  pose proof (nth_node_of_nodes s1 s2 i _ N2 L1) as E2.
  (* H *)
  destruct (gate1_nested i s2 nd a1 v1 sn1 K1 10 t1 1 a2 v2 sn2 K2 10 t2 1 (proj1 G2) L2 E2 F1 F2) as (t1' & S3).
  set (s3 := mkNet _ _) in S3.
  assert (G3 : ginv s3) by (pose proof (step_ginv s2 (OGate1 a1 NH) G2) as X; rewrite S3 in X; exact X).
  assert (L3 : i < length (nodes s3)) by (unfold s3; cbn [nodes]; rewrite upd_length; exact L2).
  assert (E3 : nth_node s3 i = ext1 i (ext1 i nd a1 v1 sn1 K1 10 t1' 1) a2 v2 sn2 K2 10 t2 1).
  { apply (nth_node_of_nodes s2 s3 i); [reflexivity|exact L2]. }
  (* CNOT *)
  destruct (gate2_nested i s3 nd a1 v1 sn1 K1 10 t1' 1 a2 v2 sn2 K2 10 t2 1 (proj1 G3) L3 E3 F1 (fresh1_tab _ _ _ _ _ _ _ _ _ _ _ _ _ F2))
    as (mx & t12 & S4).
  set (s4 := mkNet _ _) in S4.
  assert (G4 : ginv s4) by (pose proof (step_ginv s3 (OGate2 a1 a2 NCnot) G3) as X; rewrite S4 in X; exact X).
  assert (L4 : i < length (nodes s4)) by (unfold s4; cbn [nodes]; rewrite upd_length; exact L3).
  assert (E4 : nth_node s4 i = ext2m i nd a1 v1 sn1 a2 v2 sn2 K1 mx t12 (1 + 1)).
  { apply (nth_node_of_nodes s3 s4 i); [reflexivity|exact L3]. }
  destruct F2 as [Fa2 Fs2 FK2 FsK2]. cbn [virt sims regs ext1] in Fa2, Fs2, FK2, FsK2. rewrite map_app in Fa2, Fs2.
  assert (Na : a2 <> a1) by (unfold a2, a1; lia).
  assert (Ns : sn2 <> sn1) by (intro; subst; apply Fs2; apply in_or_app; right; simpl; auto).
  (* the first temporary is measured out *)
  destruct (meas_first i s4 nd a1 v1 sn1 a2 v2 sn2 K1 mx t12 (1 + 1) c1 (proj1 G4) L4 E4 F1 Na Ns) as (o1 & t' & S5).
  set (s5 := mkNet _ _) in S5.
  assert (G5 : ginv s5) by (pose proof (step_ginv s4 (OMeas a1 false c1) G4) as X; rewrite S5 in X; exact X).
  assert (L5 : i < length (nodes s5)) by (unfold s5; cbn [nodes]; rewrite upd_length; exact L4).
  assert (E5 : nth_node s5 i = ext1 i nd a2 v2 sn2 K1 mx t' (1 + 1)).
  { apply (nth_node_of_nodes s4 s5 i); [reflexivity|exact L4]. }
  assert (F5 : fresh1 nd a2 sn2 K1).
  { destruct F1 as [Fa Fs FK FsK]. constructor; auto.
    - intro H. apply Fa2. apply in_or_app. left. exact H.
    - intro H. apply Fs2. apply in_or_app. left. exact H. }
  (* the second *)
  destruct (meas_out i s5 nd a2 v2 sn2 K1 mx t' (1 + 1) c2 (proj1 G5) L5 E5 F5) as (o2 & S6).
  unfold run. cbn [fold_left]. rewrite S1. cbn [fst]. rewrite S2. cbn [fst]. rewrite S3. cbn [fst]. rewrite S4. cbn [fst].
  rewrite S5. cbn [fst]. rewrite S6. cbn [fst].
  unfold s5, s4, s3. cbn [nodes next_hid]. rewrite !upd_upd, N2, upd_upd, N1, upd_upd, X2. reflexivity.
Qed.

(* what "the same up to the register-number counter" means field by field, for every node *)
Lemma bumped_same_fields s s' i k : nodes s' = upd (nodes s) i (bump (nth_node s i) k) ->
  forall j, virt (nth_node s' j) = virt (nth_node s j) /\ sims (nth_node s' j) = sims (nth_node s j) /\
            regs (nth_node s' j) = regs (nth_node s j) /\ numRegs (nth_node s' j) = numRegs (nth_node s j) /\
            maxQ (nth_node s' j) = maxQ (nth_node s j) /\ maxR (nth_node s' j) = maxR (nth_node s j).
Proof.
  intros E j. unfold nth_node at 1 3 5 7 9 11. rewrite E.
  destruct (Nat.eq_dec j i) as [->|N].
  - destruct (Nat.ltb_spec i (length (nodes s))) as [L|L].
    + rewrite nth_upd_eq by exact L. repeat split; reflexivity.
    + rewrite upd_overflow by exact L. repeat split; reflexivity.
  - rewrite nth_upd_neq by auto. repeat split; reflexivity.
Qed.
Lemma bump_0 s i : upd (nodes s) i (bump (nth_node s i) 0) = nodes s.
Proof.
  unfold bump. rewrite Nat.add_0_r.
  replace (mkNode _ _ _ _ _ _ _) with (nth_node s i) by (destruct (nth_node s i); reflexivity).
  apply upd_same.
Qed.
