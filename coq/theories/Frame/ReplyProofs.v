(* Model F: proofs about the host-side reply reassembly (Reply.v) for any prefix-free codec, and the proof
   that the netqasm return-message layouts form such a codec. *)
From Coq Require Import List NArith Arith Lia Bool.
From SQ Require Import Frame.Bytes Frame.Msg Frame.Reply.
Import ListNotations.
Local Open Scope nat_scope.

Definition sprefix (p l : bytes) : Prop := exists s, s <> [] /\ p ++ s = l.

Lemma sprefix_length p l : sprefix p l -> length p < length l.
Proof.
  intros (s & Hs & <-). rewrite app_length. destruct s; [congruence|simpl; lia].
Qed.

Lemma sprefix_cons p x l : sprefix p (x :: l) -> p = [] \/ exists p', p = x :: p' /\ sprefix p' l.
Proof.
  intros (s & Hs & E). destruct p as [|y p']; [left; reflexivity|right].
  simpl in E. inversion E; subst. exists p'. split; [reflexivity|]. exists s. auto.
Qed.

Lemma app_split_long (a b c d : bytes) : a ++ b = c ++ d -> length c <= length a ->
  exists a', a = c ++ a' /\ d = a' ++ b.
Proof.
  revert c. induction a as [|x a IH]; intros c E H.
  - destruct c; [|simpl in H; lia]. exists []. simpl in *. auto.
  - destruct c as [|y c].
    + exists (x :: a). simpl in *. auto.
    + simpl in E. injection E as -> E'. simpl in H.
      destruct (IH c E' ltac:(lia)) as (a' & -> & ->). exists a'. auto.
Qed.

Lemma app_split_short (a b c d : bytes) : a ++ b = c ++ d -> length a < length c ->
  exists s, s <> [] /\ a ++ s = c.
Proof.
  revert c. induction a as [|x a IH]; intros c E H.
  - exists c. split; [destruct c; simpl in H; [lia|congruence]|reflexivity].
  - destruct c as [|y c]; [simpl in H; lia|].
    simpl in E. injection E as -> E'. simpl in H.
    destruct (IH c E' ltac:(lia)) as (s & Hs & <-). exists s. auto.
Qed.

Section ClientProofs.
  Context {M : Type}.
  Variable enc : M -> bytes.
  Variable parse : bytes -> option M.
  Variable kind_of : M -> kind.
  Variable wf : M -> Prop.
  (* a prefix-free codec: a complete message parses whatever follows it, no proper prefix of a message parses *)
  Hypothesis parse_enc : forall m tail, wf m -> parse (enc m ++ tail) = Some m.
  Hypothesis parse_prefix : forall m p, wf m -> sprefix p (enc m) -> parse p = None.
  Hypothesis parse_nil : parse [] = None.

  Notation hr := (hr enc parse kind_of).
  Notation session := (session enc parse kind_of).
  Notation cut := (cut kind_of).
  Notation spec := (spec kind_of).

  Definition stream (ms : list M) : bytes := flat_map enc ms.

  Lemma enc_nonempty m : wf m -> enc m <> [].
  Proof.
    intros Hm E. pose proof (parse_enc m [] Hm) as H. rewrite E in H. simpl in H. congruence.
  Qed.

  Lemma cut_post_length ms : length (snd (cut ms)) <= length ms.
  Proof.
    induction ms as [|m ms IH]; simpl; [lia|].
    destruct (kind_of m); simpl; try lia.
    destruct (cut ms) as [[pre o] post]. simpl in *. lia.
  Qed.

  (* one call, for every way the remaining stream is split between the buffer and the future reads *)
  Lemma hr_spec fuel : forall buf sock upd ms,
    Forall wf ms -> buf ++ concat sock = stream ms -> length ms + length sock < fuel ->
    exists b' s',
      hr fuel buf sock upd = (snd (fst (cut ms)), upd ++ fst (fst (cut ms)), b', s') /\
      b' ++ concat s' = stream (snd (cut ms)) /\ length s' <= length sock.
  Proof.
    induction fuel as [|fuel IH]; intros buf sock upd ms Hw E Hf; [lia|].
    destruct ms as [|m ms].
    - (* nothing more will come *)
      simpl in E. apply app_eq_nil in E as [-> Ec]. simpl. rewrite parse_nil.
      destruct sock as [|c sock].
      + exists [], []. rewrite app_nil_r. auto.
      + simpl in Ec. apply app_eq_nil in Ec as [-> Ec].
        destruct (IH [] sock upd [] Hw Ec ltac:(simpl in *; lia)) as (b' & s' & H1 & H2 & H3).
        exists b', s'. simpl in *. split; [exact H1|]. split; [exact H2|lia].
    - inversion Hw as [|? ? Hm Hms]; subst.
      unfold stream in E. simpl in E. fold (stream ms) in E.
      destruct (le_lt_dec (length (enc m)) (length buf)) as [Hl|Hl].
      + (* a complete message is in the buffer *)
        destruct (app_split_long _ _ _ _ E Hl) as (a' & -> & Er).
        simpl. rewrite (parse_enc m a' Hm).
        rewrite skipn_app, Nat.sub_diag, skipn_all. simpl.
        destruct (kind_of m) as [id| |] eqn:Ek.
        * exists a', sock. simpl. rewrite app_nil_r. auto.
        * exists a', sock. simpl. rewrite app_nil_r. auto.
        * destruct (IH a' sock (upd ++ [m]) ms Hms (eq_sym Er) ltac:(simpl in *; lia))
            as (b' & s' & H1 & H2 & H3).
          exists b', s'. destruct (cut ms) as [[pre o] post]. simpl in *.
          rewrite <- app_assoc in H1. simpl in H1. auto.
      + (* only a proper prefix of the next message is in the buffer: read more *)
        destruct (app_split_short _ _ _ _ E Hl) as (s & Hs & Es).
        simpl. rewrite (parse_prefix m buf Hm (ex_intro _ s (conj Hs Es))).
        destruct sock as [|c sock].
        * exfalso. simpl in E. rewrite app_nil_r in E. subst buf.
          rewrite app_length in Hl. lia.
        * simpl in E. rewrite app_assoc in E.
          destruct (IH (buf ++ c) sock upd (m :: ms) Hw E ltac:(simpl in *; lia)) as (b' & s' & H1 & H2 & H3).
          exists b', s'. split; [exact H1|]. split; [exact H2|simpl; lia].
  Qed.

  Lemma cut_cases ms : Forall wf ms ->
    Forall wf (snd (cut ms)) /\
    match snd (fst (cut ms)) with
    | HRDone _ => length (snd (cut ms)) < length ms
    | HRError m => In m ms /\ kind_of m = KErr
    | HRStarved => snd (cut ms) = []
    | HRFuel => False
    end.
  Proof.
    induction 1 as [|m ms Hm Hms IH]; simpl; [split; [constructor|reflexivity]|].
    destruct (kind_of m) eqn:Ek; simpl.
    - split; [assumption|lia].
    - split; [assumption|]. split; [left; reflexivity|assumption].
    - destruct (cut ms) as [[pre o] post]. simpl in *. destruct IH as [IH1 IH2].
      split; [assumption|]. destruct o; try assumption.
      + lia.
      + destruct IH2. split; [right; assumption|assumption].
  Qed.

  Definition no_err (ms : list M) : Prop := forall m, In m ms -> kind_of m <> KErr.

  (* all calls of a session: their outcomes are the stream cut after every Done, for every chunking *)
  Lemma session_spec n : forall fuel buf sock ms,
    Forall wf ms -> buf ++ concat sock = stream ms -> length ms + length sock < fuel -> length ms < n ->
    fst (session n fuel buf sock) = spec n ms /\
    (no_err ms -> snd (session n fuel buf sock) = []).
  Proof.
    induction n as [|n IH]; intros fuel buf sock ms Hw E Hf Hn; [lia|].
    destruct (hr_spec fuel buf sock [] ms Hw E Hf) as (b' & s' & H1 & H2 & H3).
    simpl. rewrite H1.
    destruct (cut_cases ms Hw) as [Hwp Hcase].
    destruct (cut ms) as [[pre o] post] eqn:Ec. simpl in *.
    destruct o as [id|m| |].
    - assert (A1 : length post + length s' < fuel). { lia. }
      assert (A2 : length post < n) by lia.
      destruct (IH fuel b' s' post Hwp H2 A1 A2) as [I1 I2].
      destruct (session n fuel b' s') as [l b''] eqn:Es. simpl in *.
      split; [rewrite I1; reflexivity|].
      intro Hne. apply I2. intros x Hx.
      (* messages of post are messages of ms *)
      apply Hne. clear - Ec Hx. revert pre post Ec Hx.
      induction ms as [|y ms IHm]; intros pre post Ec Hx; simpl in Ec.
      + inversion Ec.
      + destruct (kind_of y).
        * inversion Ec; subst. right; assumption.
        * inversion Ec.
        * destruct (cut ms) as [[p1 o1] q1]. inversion Ec; subst. right. apply (IHm _ _ eq_refl Hx).
    - split; [reflexivity|]. intro Hne. destruct Hcase as [Hin Hk]. exfalso. exact (Hne m Hin Hk).
    - split; [reflexivity|]. intros _. subst post. simpl in H2. apply app_eq_nil in H2. tauto.
    - destruct Hcase.
  Qed.

  (* the reading most people want: starting with an empty buffer, for ANY chunking cs of the reply stream of ms *)
  Lemma client_reassembly_gen ms cs :
    Forall wf ms -> concat cs = stream ms ->
    fst (session (S (length ms)) (S (length ms + length cs)) [] cs) = spec (S (length ms)) ms /\
    (no_err ms -> snd (session (S (length ms)) (S (length ms + length cs)) [] cs) = []).
  Proof.
    intros Hw E. apply session_spec; auto; simpl; lia.
  Qed.
End ClientProofs.

(* ------------------------------------------------------------------------------------------ the netqasm codec *)
Lemma parse_ret_prefix m p : wf_ret m -> sprefix p (enc_ret m) -> parse_ret p = None.
Proof.
  intros Hw Hp. pose proof (sprefix_length _ _ Hp) as Hl. rewrite ret_len_enc in Hl.
  destruct p as [|t p']; [reflexivity|].
  destruct Hp as (s & Hs & E).
  destruct m as [id|c|r v|a vs]; simpl in E; injection E as -> E; simpl in Hl.
  - unfold parse_ret. destruct (Nat.leb_spec 8 (length (0%N :: p'))) as [H|H]; [simpl in H; lia|reflexivity].
  - unfold parse_ret. destruct (Nat.leb_spec 2 (length (1%N :: p'))) as [H|H]; [simpl in H; lia|reflexivity].
  - unfold parse_ret. destruct (Nat.leb_spec 8 (length (3%N :: p'))) as [H|H]; [simpl in H; lia|reflexivity].
  - unfold parse_ret. change (2 =? 0)%N with false. change (2 =? 1)%N with false. change (2 =? 2)%N with true.
    cbv iota. destruct Hw as (Ha & Hvs & Hn).
    assert (Hn' : u32_ok (N.of_nat (length vs))) by (unfold u32_ok; lia).
    unfold parse_arr.
    destruct (Nat.leb_spec 8 (length p')) as [H8|H8]; [|reflexivity].
    assert (E4 : rd32_at 4 p' = N.of_nat (length vs)).
    { rewrite <- (rd32_at_app_l 4 p' s) by lia. rewrite E.
      apply (rd32_at_le32 (le32 a) (N.of_nat (length vs)) (flat_map enc_val vs) 4 Hn' eq_refl). }
    rewrite E4.
    destruct (N.leb_spec 2147483648 (N.of_nat (length vs))) as [Hc|Hc]; [reflexivity|].
    destruct (N.ltb_spec (blen (skipn 8 p')) (8 * N.of_nat (length vs))) as [Hc2|Hc2]; [reflexivity|].
    exfalso. unfold blen in Hc2. rewrite skipn_length in Hc2. lia.
Qed.

Lemma parse_ret_nil : parse_ret [] = None.
Proof. reflexivity. Qed.

(* client_reassembly for the layouts netqasm 2.3.0 really uses *)
Lemma client_reassembly_netqasm ms cs :
  Forall wf_ret ms -> concat cs = flat_map enc_ret ms ->
  fst (session_ret (S (length ms)) (S (length ms + length cs)) [] cs) = spec_ret (S (length ms)) ms /\
  (no_err ret_kind ms -> snd (session_ret (S (length ms)) (S (length ms + length cs)) [] cs) = []).
Proof.
  apply (client_reassembly_gen enc_ret parse_ret ret_kind wf_ret parse_enc_ret parse_ret_prefix parse_ret_nil).
Qed.

(* non-vacuity: a reply stream with two Dones, a register and an array, cut in the middle of everything *)
Example client_example :
  let ms := [RReg 3 1; RDone 0; RArr 5 [1; 2]; RDone 1]%N in
  let s := flat_map enc_ret ms in
  let cs := [firstn 3 s; firstn 9 (skipn 3 s); firstn 20 (skipn 12 s); skipn 32 s] in
  Forall wf_ret ms /\ concat cs = s /\
  session_ret 5 9 [] cs = ([(HRDone 0%N, [RReg 3 1]%N); (HRDone 1%N, [RArr 5 [1; 2]]%N); (HRStarved, [])], []).
Proof.
  split; [repeat constructor; unfold u32_ok, byte_ok; simpl; lia|].
  split; vm_compute; reflexivity.
Qed.
