"""C15 — all register backends implement one contract (claimed for the stabilizer backend only: qutip / projectq are not installed).
   obligations   : Properties/C15.v (engine laws proved for the model of stabilizerEngine)
   correspondence: the real stabilizerEngine driven call for call (pool of engines, absorb / export+import between them), after every
                   call the returned value / exception class and (activeQubits, get_register_RI()) of every engine vs Stab/Engine.v
   oracle        : a density-matrix reference written from the contract (kron order, projectors, partial trace), harness/oracle_*.py"""
import copy
import json

import numpy as np

import common
import oracle_meas as OM
import oracle_np as O
import stab_common as S

G1 = ["X", "Y", "Z", "H", "K", "S"]
G2 = {"CNOT": ("apply_CNOT", "ECNOT", "CNOT"), "CPHASE": ("apply_CPHASE", "ECPHASE", "CZ")}
UNSUP = {"T": "UT", "rotation": "URot", "onequbit": "UOne", "twoqubit": "UTwo", "replace": "UReplace"}
NMAX_ORACLE = 7


# ---------------------------------------------------------------------------------------------------------------
# running a program on the real engines
# ---------------------------------------------------------------------------------------------------------------
def classify(exc):
    from simulaqron.virtual_node.basics import quantumError, noQubitError
    from simulaqron.general import SimUnsupportedError
    if isinstance(exc, noQubitError):
        return "ENoQubit"
    if isinstance(exc, quantumError):
        return "EQuantum"
    if isinstance(exc, SimUnsupportedError):
        return "EUnsupported"
    if isinstance(exc, NotImplementedError):
        return "ENotImpl"
    if isinstance(exc, ValueError):
        return "EValue"
    return "EOther:" + type(exc).__name__


def observe(pool):
    out = []
    for e in pool:
        re_, im = e.get_register_RI()
        out.append([int(e.activeQubits), [[bool(x) for x in r] for r in re_], im is None])
    return out


def call_one(pool, op):
    """returns ("ok", value) or ("err", class)"""
    import simulaqron.toolbox.stabilizer_states as M
    from simulaqron.virtual_node.stabilizer_simulator import stabilizerEngine
    k = op["op"]
    if k == "new":
        pool.append(stabilizerEngine("node", len(pool), op["max"]))
        return ("ok", None)
    e = pool[op["i"]]
    old = M.randint
    M.randint = lambda a, b: int(op.get("coin", 0))
    try:
        if k == "add_fresh":
            v = e.add_fresh_qubit()
        elif k == "add_qubit":
            v = e.add_qubit(copy.deepcopy(op["data"]))
        elif k == "gate1":
            v = getattr(e, "apply_" + op["g"])(op["q"])
        elif k == "gate2":
            v = getattr(e, G2[op["g"]][0])(op["q1"], op["q2"])
        elif k == "unsupported":
            u = op["u"]
            if u == "T":
                v = e.apply_T(op["q"])
            elif u == "rotation":
                v = e.apply_rotation(op["q"], (1, 0, 0), 0.3)
            elif u == "onequbit":
                v = e.apply_onequbit_gate(None, op["q"])
            elif u == "twoqubit":
                v = e.apply_twoqubit_gate(None, op["q"], op["q"] + 1)
            else:
                v = e.replace_qubit(op["q"], [[False, True, False]])
        elif k == "meas_inplace":
            v = e.measure_qubit_inplace(op["q"])
        elif k == "measure":
            v = e.measure_qubit(op["q"])
        elif k == "remove":
            v = e.remove_qubit(op["q"])
        elif k == "absorb":
            v = e.absorb(pool[op["j"]])
        elif k == "absorb_exported":
            o = pool[op["j"]]
            re_, im = o.get_register_RI()
            v = e.absorb_parts(re_, im, o.activeQubits)
        else:
            raise common.Broken("unknown op " + k)
        return ("ok", v)
    except common.Broken:
        raise
    except Exception as exc:        # noqa: the class of the exception is the observation
        return ("err", classify(exc))
    finally:
        M.randint = old


def execute(prog):
    pool = []
    trace = []
    for op in prog:
        r = call_one(pool, op)
        trace.append((r, observe(pool)))
    return trace


# ---------------------------------------------------------------------------------------------------------------
# the contract, written as a density-matrix reference (independent of the Coq model)
# ---------------------------------------------------------------------------------------------------------------
ZERO = np.array([[1, 0], [0, 0]], dtype=complex)
ONE1 = np.array([[1]], dtype=complex)


def data_state(data):
    """(m, rho) if `data` is an m x 2m / m x (2m+1) boolean matrix of commuting independent generators, else None"""
    try:
        m = len(data)
        if m == 0:
            return 0, ONE1
        w = set(len(r) for r in data)
        if w == {2 * m}:
            data = [list(r) + [False] for r in data]
        elif w != {2 * m + 1}:
            return None
        a = np.array(data, dtype=int)[:, :-1]
        if ((a[:, :m] @ a[:, m:].T + a[:, m:] @ a[:, :m].T) % 2).any():
            return None
        rho = O.projector(data, m)
        return (m, rho) if O.is_pure_state(rho) else ("dependent", None)
    except Exception:
        return None


def judge(prog, trace):
    """None, or (kind, step index, explanation) for the first call at which the real engines break the contract"""
    ref = []          # per engine: [max, n, rho]
    for step, (op, (res, ob)) in enumerate(zip(prog, trace)):
        k = op["op"]
        status, val = res
        before = [(r[1], r[2].copy()) for r in ref]
        changed = None
        if k == "new":
            ref.append([op["max"], 0, ONE1.copy()])
        else:
            r = ref[op["i"]]
            mx, n, rho = r
            if k == "add_fresh":
                if n >= mx:
                    if res != ("err", "ENoQubit"):
                        return ("limit", step, "add_fresh_qubit on a full register (%d/%d) must raise noQubitError, got %r" % (n, mx, res))
                else:
                    if res != ("ok", n):
                        return ("add", step, "add_fresh_qubit must return the old size %d, got %r" % (n, res))
                    r[1], r[2] = n + 1, np.kron(rho, ZERO)
            elif k == "add_qubit":
                ds = data_state(op["data"])
                if ds is None:
                    if status != "err":
                        return ("data", step, "add_qubit accepted data that is not a generator matrix")
                elif ds[0] == "dependent":
                    pass        # commuting but dependent rows: outside the contract, only 'state unchanged or consistent' below is skipped
                else:
                    m, rnew = ds
                    if n + m > mx:
                        if status != "err":
                            return ("limit", step, "add_qubit of %d qubit(s) to a register holding %d of max %d was accepted (size limit not enforced)" % (m, n, mx))
                    else:
                        if res != ("ok", n):
                            return ("add", step, "add_qubit must return the old size %d, got %r" % (n, res))
                        r[1], r[2] = n + m, np.kron(rho, rnew)
            elif k == "gate1":
                q = op["q"]
                if 0 <= q < n:
                    if status != "ok":
                        return ("gate", step, "gate %s on valid position %d refused: %r" % (op["g"], q, res))
                    u = O.op1(n, q, O.G1[op["g"]])
                    r[2] = u @ rho @ u.conj().T
                elif status != "err":
                    return ("gate", step, "gate on position %d of a %d-qubit register accepted" % (q, n))
            elif k == "gate2":
                a, b = op["q1"], op["q2"]
                if 0 <= a < n and 0 <= b < n and a != b:
                    if status != "ok":
                        return ("gate", step, "gate %s on valid positions refused: %r" % (op["g"], res))
                    u = O.op2(n, a, b, G2[op["g"]][2])
                    r[2] = u @ rho @ u.conj().T
                elif status != "err":
                    return ("gate", step, "two-qubit gate on positions (%d,%d) of a %d-qubit register accepted" % (a, b, n))
            elif k == "unsupported":
                want = "ENotImpl" if op["u"] == "replace" else "EUnsupported"
                if res != ("err", want):
                    return ("unsupported", step, "%s must raise %s, got %r" % (op["u"], want, res))
            elif k in ("meas_inplace", "measure", "remove"):
                q = op["q"]
                if not (0 <= q < n):
                    if status != "err":
                        return ("measure", step, "%s on position %d of a %d-qubit register accepted" % (k, q, n))
                else:
                    if status != "ok":
                        return ("measure", step, "%s on a valid position refused: %r" % (k, res))
                    if k == "remove":
                        if val is not None:
                            return ("measure", step, "remove_qubit returned %r" % (val,))
                        cands = [b for b in (0, 1) if OM.born(rho, n, q, b) > 1e-9]
                    else:
                        if val not in (0, 1) or OM.born(rho, n, q, int(val)) < 1e-9:
                            return ("measure", step, "%s returned outcome %r of Born probability 0" % (k, val))
                        cands = [int(val)]
                    posts = [OM.projected(rho, n, q, b) for b in cands]
                    if k == "meas_inplace":
                        r[2] = posts[0]
                    else:
                        posts = [O.partial_trace_out(p_, n, q) for p_ in posts]
                        r[1] = n - 1
                        # the outcome of remove_qubit is not returned: accept the branch the engine took
                        got = O.projector(ob[op["i"]][1], n - 1) if OM.shape_ok(ob[op["i"]][1], n - 1) else None
                        pick = [p_ for p_ in posts if got is not None and O.close(got, p_)]
                        r[2] = pick[0] if pick else posts[0]
            elif k in ("absorb", "absorb_exported"):
                o = ref[op["j"]]
                if n + o[1] > mx:
                    if res != ("err", "EQuantum"):
                        return ("limit", step, "%s of %d qubits into %d/%d must raise quantumError, got %r" % (k, o[1], n, mx, res))
                else:
                    if res != ("ok", None):
                        return ("absorb", step, "%s within the size limit refused / returned a value: %r" % (k, res))
                    r[1], r[2] = n + o[1], np.kron(rho, o[2])
        # every engine now holds exactly its reference state, on the reference qubit order
        if len(ob) != len(ref):
            return ("pool", step, "engine pool size")
        for idx, (r, o) in enumerate(zip(ref, ob)):
            if o[0] != r[1] or not OM.shape_ok(o[1], r[1]) or not o[2]:
                return ("size", step, "engine %d reports activeQubits=%d / a %d-row register, contract says %d" % (idx, o[0], len(o[1]), r[1]))
            if r[1] <= NMAX_ORACLE:
                got = O.projector(o[1], r[1])
                if not O.close(got, r[2]):
                    unchanged = idx < len(before) and before[idx][0] == r[1] and O.close(before[idx][1], r[2])
                    return ("state" if not unchanged else "atomic", step,
                            "after %s engine %d does not hold the reference state%s" % (k, idx, " (a refused / foreign call changed it)" if unchanged else ""))
    return None


# ---------------------------------------------------------------------------------------------------------------
# Coq text
# ---------------------------------------------------------------------------------------------------------------
def coq_call(op):
    k = op["op"]
    if k == "new":
        return "PNew %d" % op["max"]
    i = op.get("i")
    coin = common.cbool(op.get("coin", 0))
    if k == "absorb":
        return "PAbsorb %d %d" % (i, op["j"])
    if k == "absorb_exported":
        return "PAbsorbExported %d %d" % (i, op["j"])
    if k == "add_fresh":
        c = "KAddFresh"
    elif k == "add_qubit":
        c = "(KAddQubit %s)" % common.ctab(op["data"])
    elif k == "gate1":
        c = "(KGate1 E%s %d)" % (op["g"], op["q"])
    elif k == "gate2":
        c = "(KGate2 %s %d %d)" % (G2[op["g"]][1], op["q1"], op["q2"])
    elif k == "unsupported":
        c = "(KUnsupported %s)" % UNSUP[op["u"]]
    elif k == "meas_inplace":
        c = "(KMeasInplace %d %s)" % (op["q"], coin)
    elif k == "measure":
        c = "(KMeasure %d %s)" % (op["q"], coin)
    elif k == "remove":
        c = "(KRemove %d %s)" % (op["q"], coin)
    else:
        raise common.Broken("unknown op " + k)
    return "PCall %d %s" % (i, c)


def coq_res(res):
    status, v = res
    if status == "err":
        return "(RErr %s)" % (v if not v.startswith("EOther") else "EOther")
    if v is None:
        return "RUnit"
    if isinstance(v, (bool, np.bool_)):
        return "(ROutcome %s)" % common.cbool(v)
    return None     # decided by the call kind, see coq_step


def coq_step(op, res, ob):
    r = coq_res(res)
    if r is None:
        v = int(res[1])
        r = "(RNat %d)" % v if op["op"] in ("add_fresh", "add_qubit") else "(ROutcome %s)" % common.cbool(v)
    o = "[" + "; ".join("(%d, %s)" % (x[0], common.ctab(x[1])) for x in ob) + "]"
    return "(%s, %s, %s)" % (coq_call(op), r, o)


def coq_prog(prog, trace):
    return "[" + ";\n  ".join(coq_step(op, res, ob) for op, (res, ob) in zip(prog, trace)) + "]"


def coq_text(progs):
    return (common.CASE_HEADER + "From SQ Require Import Base.ListUtil Stab.Pauli Stab.Kernels Stab.Tableau Stab.Engine Stab.EngineCases.\n"
            "Definition progs : list (list (pcall * eres * obs)) := [\n" + ";\n".join(progs) + "\n].\n"
            "Eval vm_compute in failing_progs progs.\nEval vm_compute in diverge_at progs.\n")


# ---------------------------------------------------------------------------------------------------------------
# program generation
# ---------------------------------------------------------------------------------------------------------------
def rand_data(rng, valid=True):
    m = rng.choice([1, 1, 2])
    t = S.tabl(O.ref_random_tableau(m, rng))
    if valid:
        if rng.random() < 0.3:
            t = [r[:-1] for r in t]                     # n x 2n form
        return t
    kind = rng.randrange(4)
    if kind == 0:
        return [r + [False] for r in t]                 # too wide
    if kind == 1:
        return [[True, False, False], [False, True, False]]   # 2 rows of width 3
    if kind == 2:
        return [[True, False, False, False, False], [False, False, True, False, False]]   # X0, Z0 do not commute
    return [t[0], t[0][:-1]] if m == 1 else [t[0], t[1][:-2]]   # ragged


def gen_program(rng, length, scenario=None):
    """the generator tracks sizes only to aim positions; it does not predict states"""
    prog = []
    sizes, maxs = [], []

    def new(m):
        prog.append({"op": "new", "max": m})
        sizes.append(0)
        maxs.append(m)

    k = rng.choice([1, 2, 2, 3])
    for _ in range(k):
        new(rng.choice([1, 2, 3, 4, 5, 6, 6, 7]))

    def pos(i, bad=0.06):
        n = sizes[i]
        if n == 0 or rng.random() < bad:
            return rng.choice([n, n + 1, n + 3])
        return rng.randrange(n)

    def entangle(i, steps):
        for _ in range(steps):
            n = sizes[i]
            if n < maxs[i] and (n < 2 or rng.random() < 0.35):
                prog.append({"op": "add_fresh", "i": i})
                sizes[i] += 1
            elif n >= 2 and rng.random() < 0.55:
                a, b = rng.sample(range(n), 2)
                prog.append({"op": "gate2", "i": i, "g": rng.choice(list(G2)), "q1": a, "q2": b})
            elif n >= 1:
                prog.append({"op": "gate1", "i": i, "g": rng.choice(G1), "q": rng.randrange(n)})

    if scenario in ("absorb_empty", "absorb_nonempty", "export_empty", "export_nonempty"):
        while len(sizes) < 2:
            new(rng.choice([4, 5, 6, 7]))
        maxs[0] = prog[0]["max"] = rng.choice([5, 6, 7])
        maxs[1] = prog[1]["max"] = rng.choice([3, 4])
        entangle(1, rng.randrange(5, 9))
        if scenario.endswith("nonempty"):
            entangle(0, rng.randrange(3, 6))
        op = "absorb" if scenario.startswith("absorb") else "absorb_exported"
        prog.append({"op": op, "i": 0, "j": 1})
        if sizes[0] + sizes[1] <= maxs[0]:
            sizes[0] += sizes[1]

    while len(prog) < length:
        i = rng.randrange(len(sizes))
        n = sizes[i]
        x = rng.random()
        if x < 0.22:
            prog.append({"op": "add_fresh", "i": i})
            if n < maxs[i]:
                sizes[i] += 1
        elif x < 0.40:
            prog.append({"op": "gate1", "i": i, "g": rng.choice(G1), "q": pos(i)})
        elif x < 0.58:
            if n >= 2 and rng.random() < 0.93:
                a, b = rng.sample(range(n), 2)
            else:
                a, b = pos(i, 0.3), pos(i, 0.3)
            prog.append({"op": "gate2", "i": i, "g": rng.choice(list(G2)), "q1": a, "q2": b})
        elif x < 0.66:
            prog.append({"op": "meas_inplace", "i": i, "q": pos(i), "coin": rng.randrange(2)})
        elif x < 0.72:
            q = pos(i)
            prog.append({"op": "measure", "i": i, "q": q, "coin": rng.randrange(2)})
            if q < n:
                sizes[i] -= 1
        elif x < 0.77:
            q = pos(i)
            prog.append({"op": "remove", "i": i, "q": q, "coin": rng.randrange(2)})
            if q < n:
                sizes[i] -= 1
        elif x < 0.86 and len(sizes) > 1:
            j = rng.randrange(len(sizes))
            if j == i and rng.random() < 0.8:
                j = (i + 1) % len(sizes)
            op = rng.choice(["absorb", "absorb_exported"])
            prog.append({"op": op, "i": i, "j": j})
            if sizes[i] + sizes[j] <= maxs[i]:
                sizes[i] += sizes[j]
        elif x < 0.92:
            valid = rng.random() < 0.75
            d = rand_data(rng, valid)
            prog.append({"op": "add_qubit", "i": i, "data": d})
            if valid and n + len(d) <= maxs[i]:
                sizes[i] += len(d)
        elif x < 0.96:
            prog.append({"op": "unsupported", "i": i, "u": rng.choice(list(UNSUP)), "q": rng.randrange(max(n, 1))})
        else:
            new(rng.choice([1, 2, 3, 6]))
    return prog[:max(length, 1)] if scenario is None else prog


def structured_programs(rng, thorough):
    """wide entangled registers under layers of one-qubit gates (row products with large +-i imbalance during the elimination inside measure /
    remove) and Y-rich pairs going through two-qubit gates: states random short programs almost never reach"""
    out = []
    for n in ((4, 5, 6, 7) if thorough else (4, 6)):
        for layers in (["S", "H"], ["K"], ["S"], ["H", "S", "H"]):
            prog = [{"op": "new", "max": n}] + [{"op": "add_fresh", "i": 0} for _ in range(n)]
            order = list(range(1, n))
            rng.shuffle(order)
            # encoding circuits of the same GHZ state with different stored generators: parity CNOTs onto qubit 1 first (they act trivially on
            # |0..0> but change which generators are stored), then H(0) and the fan-out
            for j in order[:rng.randrange(0, n - 1)]:
                if j != 1:
                    prog.append({"op": "gate2", "i": 0, "g": "CNOT", "q1": j, "q2": 1})
            prog.append({"op": "gate1", "i": 0, "g": "H", "q": 0})
            for j in order:
                prog.append({"op": "gate2", "i": 0, "g": "CNOT", "q1": 0, "q2": j})
            for g in layers:
                for q in range(n):
                    prog.append({"op": "gate1", "i": 0, "g": g, "q": q})
            mode = rng.choice(["measure", "remove", "meas_inplace"])
            live = n
            for q in range(n):
                if mode == "meas_inplace":
                    prog.append({"op": "meas_inplace", "i": 0, "q": q, "coin": rng.randrange(2)})
                else:
                    prog.append({"op": mode, "i": 0, "q": rng.randrange(live), "coin": rng.randrange(2)})
                    live -= 1
            out.append(("structured-wide", prog))
    for n in (4, 5, 6):
        prog = [{"op": "new", "max": n}] + [{"op": "add_fresh", "i": 0} for _ in range(n)]
        prog += [{"op": "gate2", "i": 0, "g": "CNOT", "q1": j, "q2": 1} for j in range(n - 1, 1, -1)]
        prog += [{"op": "gate1", "i": 0, "g": "H", "q": 0}] + [{"op": "gate2", "i": 0, "g": "CNOT", "q1": 0, "q2": j} for j in range(n - 1, 0, -1)]
        prog += [{"op": "gate1", "i": 0, "g": "S", "q": q} for q in range(n)] + [{"op": "gate1", "i": 0, "g": "H", "q": q} for q in range(n)]
        prog += [{"op": "measure", "i": 0, "q": 0, "coin": c} for c in ([1, 0, 1, 1, 0, 1][:n])]
        out.append(("structured-wide", prog))
    for g2 in ("CNOT", "CPHASE"):
        for first in (["H"], ["K"], ["H", "K"]):
            prog = [{"op": "new", "max": 3}, {"op": "add_fresh", "i": 0}, {"op": "add_fresh", "i": 0}]
            prog += [{"op": "gate1", "i": 0, "g": g, "q": 0} for g in first]
            prog += [{"op": "gate2", "i": 0, "g": "CNOT", "q1": 0, "q2": 1}, {"op": "gate1", "i": 0, "g": "K", "q": 0}, {"op": "gate1", "i": 0, "g": "K", "q": 1},
                     {"op": "gate1", "i": 0, "g": "K", "q": 0}, {"op": "gate1", "i": 0, "g": "K", "q": 1},
                     {"op": "gate2", "i": 0, "g": g2, "q1": 0, "q2": 1}, {"op": "gate2", "i": 0, "g": g2, "q1": 1, "q2": 0},
                     {"op": "meas_inplace", "i": 0, "q": 0, "coin": 1}, {"op": "measure", "i": 0, "q": 1, "coin": 0}, {"op": "measure", "i": 0, "q": 0, "coin": 1}]
            out.append(("structured-yy", prog))
    for tail in ([("H", 0)], [("S", 0), ("H", 1)], []):
        prog = [{"op": "new", "max": 2}, {"op": "add_fresh", "i": 0}, {"op": "add_fresh", "i": 0},
                {"op": "gate2", "i": 0, "g": "CNOT", "q1": 0, "q2": 1}, {"op": "gate1", "i": 0, "g": "H", "q": 0}, {"op": "gate1", "i": 0, "g": "H", "q": 1},
                {"op": "gate2", "i": 0, "g": "CPHASE", "q1": 1, "q2": 0}, {"op": "gate2", "i": 0, "g": "CNOT", "q1": 0, "q2": 1}]
        prog += [{"op": "gate1", "i": 0, "g": g, "q": q} for g, q in tail]
        prog += [{"op": "measure", "i": 0, "q": 0, "coin": 1}, {"op": "measure", "i": 0, "q": 0, "coin": 1}]
        out.append(("structured-yy", prog))
        prog2 = [{"op": "new", "max": 2}, {"op": "add_fresh", "i": 0}, {"op": "add_fresh", "i": 0}, {"op": "gate1", "i": 0, "g": "H", "q": 0},
                 {"op": "gate2", "i": 0, "g": "CNOT", "q1": 0, "q2": 1}, {"op": "gate1", "i": 0, "g": "S", "q": 0}, {"op": "gate1", "i": 0, "g": "S", "q": 1},
                 {"op": "gate2", "i": 0, "g": "CNOT", "q1": 0, "q2": 1}]
        prog2 += [{"op": "gate1", "i": 0, "g": g, "q": q} for g, q in tail]
        prog2 += [{"op": "meas_inplace", "i": 0, "q": 0, "coin": 0}, {"op": "measure", "i": 0, "q": 1, "coin": 1}, {"op": "measure", "i": 0, "q": 0, "coin": 0}]
        out.append(("structured-yy", prog2))
    return out


D18_WITNESS = [{"op": "new", "max": 1}, {"op": "add_fresh", "i": 0}, {"op": "add_qubit", "i": 0, "data": [[False, True, False]]}]


def shrink(prog, kind):
    """greedy delta debugging: drop calls while the oracle still reports the same kind of breach"""
    def bad(p):
        try:
            j = judge(p, execute(p))
        except Exception:
            return False
        return j is not None and j[0] == kind
    cur = list(prog)
    changed = True
    while changed:
        changed = False
        for idx in range(len(cur) - 1, -1, -1):
            if cur[idx]["op"] == "new" and any(o.get("i", -1) >= sum(1 for x in cur[:idx] if x["op"] == "new") or
                                                o.get("j", -1) >= sum(1 for x in cur[:idx] if x["op"] == "new") for o in cur[idx + 1:]):
                continue
            cand = cur[:idx] + cur[idx + 1:]
            if bad(cand):
                cur = cand
                changed = True
    return cur


def run(ctx):
    rng = ctx.rng
    thorough = ctx.tier == "thorough"
    # the other two backends cannot be loaded here
    missing = []
    for mod in ("qutip", "projectq"):
        try:
            __import__(mod)
        except Exception:
            missing.append(mod)
    ctx.coverage["backends_not_importable"] = missing
    ctx.coverage["claimed_for"] = "stabilizer backend only (qutip / projectq engines cannot be imported in this environment)"
    ctx.trusted += ["numpy/scipy primitives used by StabilizerState (block_diag, fancy indexing, tolist): modelled by hand, exercised by the correspondence",
                    "random.randint replaced by a scripted coin",
                    "the density-matrix reference of the contract (harness/props/c15.py judge, oracle_np, oracle_meas) and the textbook link stabilizer group <-> state",
                    "qutipEngine / projectQEngine are NOT covered: their modules cannot be imported (qutip, projectq absent)"]
    ctx.rule = ("random programs of <= 20 interface calls over a pool of 1..3 real stabilizerEngine objects (maxQubits 1..7): add_fresh, add_qubit(valid/malformed data), "
                "X/Y/Z/H/K/CNOT/CPHASE, T/rotation/arbitrary gates/replace (unsupported), measure in place / destructive, remove, absorb, export+absorb_parts, "
                "6% positions out of range; four scenario families: entangled asymmetric state absorbed / exported into an empty / non-empty register; "
                "a program is non-trivial if some absorb or import of a non-empty register succeeded or a refusal occurred; distinct = distinct program text")
    common.check_properties_file(ctx)

    progs = [("d18-witness", D18_WITNESS)]
    if ctx.replay:
        r = json.load(open(ctx.replay))["replay"]
        if isinstance(r, dict) and "program" in r:
            progs.append(("replay", r["program"]))
    nscen = 60 if thorough else 12
    for sc in ("absorb_empty", "absorb_nonempty", "export_empty", "export_nonempty"):
        for _ in range(nscen):
            progs.append((sc, gen_program(rng, rng.randrange(12, 21), sc)[:20]))
    progs += structured_programs(rng, thorough)
    for _ in range(3000 if thorough else 400):
        progs.append(("random", gen_program(rng, rng.randrange(3, 21))))

    texts, descs, bad = [], [], []
    for tag, prog in progs:
        trace = execute(prog)
        j = judge(prog, trace)
        ctx.count("oracle_programs_judged")
        if j is not None:
            bad.append((j, tag, prog))
        texts.append(coq_prog(prog, trace))
        descs.append({"class": tag, "program": prog, "impl_trace": [[list(r), ob] for r, ob in trace]})
        merged = refused = False
        for op, (res, ob) in zip(prog, trace):
            ctx.count("call_" + op["op"])
            if res[0] == "err":
                ctx.count("raised_" + res[1])
                refused = True
            elif op["op"] in ("absorb", "absorb_exported"):
                into = "empty" if (ob[op["i"]][0] == ob[op["j"]][0] or op["i"] == op["j"]) else "nonempty"
                if ob[op["j"]][0] > 0:
                    ctx.count("%s_of_nonempty_into_%s" % (op["op"], into))
                    merged = True
        ctx.count("calls", len(prog))
        ctx.case(json.dumps(prog, sort_keys=True), nontrivial=merged or refused)
    for d in descs[1:3]:
        ctx.sample({"class": d["class"], "program": d["program"]})

    # ---- Coq decides agreement ----------------------------------------------------------------------------------------
    shard = 60
    chunks = [list(range(i, min(i + shard, len(texts)))) for i in range(0, len(texts), shard)]
    res = common.coq_eval_many([coq_text([texts[i] for i in ch]) for ch in chunks])
    failing, okall = [], True
    for ch, (ok, out) in zip(chunks, res):
        lists = common.parse_nat_lists(out) if ok else []
        if not ok or len(lists) != 2:
            ctx.obligation("correspondence engine programs evaluate in Coq", False, out)
            okall = False
            continue
        for idx, at in zip(lists[0], lists[1]):
            failing.append((ch[idx], at))
    ctx.obligation("correspondence stabilizerEngine: model = implementation (results, exception classes, every register after every call) on %d programs / %d calls"
                   % (len(texts), ctx.coverage.get("calls", 0)), okall and not failing,
                   "first disagreement: %r" % ([dict(descs[i], diverges_at_call=at) for i, at in failing[:1]],))

    # negative positions cannot be written as Coq naturals: judged here only (must raise, must not change anything)
    neg_ok = True
    for _ in range(30):
        prog = gen_program(rng, 8)
        pool = []
        for op in prog:
            call_one(pool, op)
        if not pool:
            continue
        before = observe(pool)
        for name, args in (("apply_H", (-1,)), ("apply_CNOT", (0, -1)), ("measure_qubit_inplace", (-1,)), ("measure_qubit", (-2,)), ("remove_qubit", (-1,))):
            try:
                getattr(pool[0], name)(*args)
                neg_ok = False
            except Exception:
                pass
            ctx.count("negative_position_calls")
        neg_ok = neg_ok and observe(pool) == before
    ctx.obligation("negative positions are refused and change nothing", neg_ok)

    ctx.count("oracle_breaches", len(bad))
    ctx.obligation("oracle (density-matrix reference of the register contract) accepts the implementation on every program", not bad,
                   repr([(j, tag) for j, tag, _ in bad[:2]]))

    if bad:
        seen = set()
        for (kind, step, why), tag, prog in sorted(bad, key=lambda b: len(b[2])):
            if kind in seen:
                continue
            seen.add(kind)
            small = shrink(prog[:step + 1], kind)
            j2 = judge(small, execute(small)) or (kind, step, why)
            key = "oracle:engine:" + kind
            if kind == "limit" and small and small[-1]["op"] == "add_qubit":
                key = "oracle:engine:limit:add_qubit"
            ctx.report(key, "stabilizerEngine breaks the register contract at call %d of the replay program: %s" % (j2[1], j2[2]),
                       {"program": small, "breach": list(j2)}, True)
    elif ctx.broken():
        ctx.report("broken:" + ";".join(ctx.broken()), "proof obligation / correspondence no longer checks: " + "; ".join(ctx.broken()),
                   {"broken": ctx.broken(), "first_disagreement": [dict(descs[i], diverges_at_call=at) for i, at in failing[:1]]}, found_input=False)
