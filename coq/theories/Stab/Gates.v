(* Every gate kernel = positionwise Clifford conjugation of the signed Pauli string the row denotes,
   for every n, every position(s) and every row of length 2n+1. *)
From Coq Require Import List Bool Arith Lia.
From SQ Require Import Base.ListUtil Stab.Pauli Stab.Kernels.
Import ListNotations.

Definition wf_row (n : nat) (r : row) : Prop := length r = 2 * n + 1.

(* the signed Pauli string a row denotes *)
Definition pauli_at (n : nat) (r : row) (i : nat) : pauli := pauli_of (get r i) (get r (i + n)).
Definition decode (n : nat) (r : row) : bool * list pauli :=
  (get r (2 * n), map (pauli_at n r) (seq 0 n)).

(* specification: conjugation by a one-/two-qubit Clifford at given positions *)
Definition conj1 (g : gate1) (p : nat) (sp : bool * list pauli) : bool * list pauli :=
  let '(f, q) := conj1_tbl g (nth p (snd sp) PI) in
  (xorb (fst sp) f, upd (snd sp) p q).

Definition conj2 (g : gate2) (c t : nat) (sp : bool * list pauli) : bool * list pauli :=
  let '(f, (qc, qt)) := conj2_tbl g (nth c (snd sp) PI) (nth t (snd sp) PI) in
  (xorb (fst sp) f, upd (upd (snd sp) c qc) t qt).

Lemma upd_map_seq {A} (f : nat -> A) n p q :
  upd (map f (seq 0 n)) p q = map (fun i => if Nat.eqb i p then q else f i) (seq 0 n).
Proof.
  assert (G : forall k, upd (map f (seq k n)) p q =
                        map (fun i => if Nat.eqb i (p + k) then q else f i) (seq k n)).
  { revert p. induction n as [|n IH]; intros p k; simpl; auto.
    destruct p as [|p]; simpl.
    - rewrite Nat.eqb_refl. f_equal.
      apply map_ext_in. intros i Hi. apply in_seq in Hi.
      destruct (Nat.eqb_spec i k); try lia; auto.
    - destruct (Nat.eqb_spec k (S (p + k))); try lia. f_equal.
      rewrite IH. apply map_ext. intros i. replace (p + S k) with (S (p + k)) by lia. auto. }
  rewrite G. apply map_ext. intros i. rewrite Nat.add_0_r. auto.
Qed.

Lemma nth_map_seq {A} (f : nat -> A) n p d : p < n -> nth p (map f (seq 0 n)) d = f p.
Proof.
  intros H. rewrite (nth_indep _ d (f 0)) by (rewrite map_length, seq_length; auto).
  rewrite map_nth. rewrite seq_nth; auto.
Qed.

Ltac nat_tests :=
  repeat match goal with
  | |- context [Nat.eqb ?a ?b] => destruct (Nat.eqb_spec a b); try lia
  | |- context [Nat.ltb ?a ?b] => destruct (Nat.ltb_spec a b); try lia
  end.

Ltac norm_get :=
  unfold swap_cols; repeat (rewrite ?get_flip_if, ?get_upd, ?flip_if_length, ?upd_length); simpl andb.

Ltac bits := repeat match goal with
  | |- context [get ?r ?i] => destruct (get r i)
  end; try reflexivity.

(* generic proof script for a one-qubit kernel *)
Ltac solve_gate1 :=
  let n := fresh "n" in let p := fresh "p" in let r := fresh "r" in
  let Hwf := fresh "Hwf" in let Hp := fresh "Hp" in let Etbl := fresh "Etbl" in
  let f := fresh "f" in let q := fresh "q" in let i := fresh "i" in let Hi := fresh "Hi" in let Hne := fresh "Hne" in
  intros n p r Hwf Hp; unfold wf_row in Hwf;
  unfold decode, conj1; cbn [fst snd];
  rewrite nth_map_seq by assumption;
  match goal with |- context [conj1_tbl ?g ?x] => destruct (conj1_tbl g x) as [f q] eqn:Etbl end;
  f_equal;
  [ unfold pauli_at in Etbl; cbv beta delta [apply_X_row apply_Y_row apply_Z_row apply_H_row apply_K_row apply_S_row];
    norm_get; rewrite ?Hwf; nat_tests; revert Etbl; bits; simpl; intro Etbl; inversion Etbl; reflexivity
  | rewrite upd_map_seq; apply map_ext_in; intros i Hi; apply in_seq in Hi;
    unfold pauli_at in *;
    cbv beta delta [apply_X_row apply_Y_row apply_Z_row apply_H_row apply_K_row apply_S_row];
    norm_get; rewrite ?Hwf;
    destruct (Nat.eqb_spec i p) as [->|Hne];
    [ nat_tests; revert Etbl; bits; simpl; intro Etbl; inversion Etbl; reflexivity
    | nat_tests; bits ] ].

Theorem apply_X_spec : forall n p r, wf_row n r -> p < n ->
  decode n (apply_X_row n p r) = conj1 GX p (decode n r).
Proof. solve_gate1. Qed.

Theorem apply_Y_spec : forall n p r, wf_row n r -> p < n ->
  decode n (apply_Y_row n p r) = conj1 GY p (decode n r).
Proof. solve_gate1. Qed.

Theorem apply_Z_spec : forall n p r, wf_row n r -> p < n ->
  decode n (apply_Z_row n p r) = conj1 GZ p (decode n r).
Proof. solve_gate1. Qed.

Theorem apply_H_spec : forall n p r, wf_row n r -> p < n ->
  decode n (apply_H_row n p r) = conj1 GH p (decode n r).
Proof. solve_gate1. Qed.

Theorem apply_K_spec : forall n p r, wf_row n r -> p < n ->
  decode n (apply_K_row n p r) = conj1 GK p (decode n r).
Proof. solve_gate1. Qed.

Theorem apply_S_spec : forall n p r, wf_row n r -> p < n ->
  decode n (apply_S_row n p r) = conj1 GS p (decode n r).
Proof. solve_gate1. Qed.

(* two-qubit kernels *)
Ltac solve_gate2 :=
  let n := fresh "n" in let c := fresh "c" in let t := fresh "t" in let r := fresh "r" in
  let Hwf := fresh "Hwf" in let Hc := fresh "Hc" in let Ht := fresh "Ht" in let Hct := fresh "Hct" in
  let Etbl := fresh "Etbl" in let f := fresh "f" in let qc := fresh "qc" in let qt := fresh "qt" in
  let i := fresh "i" in let Hi := fresh "Hi" in
  intros n c t r Hwf Hc Ht Hct; unfold wf_row in Hwf;
  unfold decode, conj2; cbn [fst snd];
  rewrite !nth_map_seq by assumption;
  match goal with |- context [conj2_tbl ?g ?x ?y] => destruct (conj2_tbl g x y) as [f [qc qt]] eqn:Etbl end;
  unfold pauli_at in Etbl; simpl in Etbl;
  f_equal;
  [ cbv beta delta [apply_CNOT_row apply_CZ_row];
    norm_get; rewrite ?Hwf; nat_tests; revert Etbl; bits; simpl; intro Etbl; inversion Etbl; reflexivity
  | rewrite !upd_map_seq; apply map_ext_in; intros i Hi; apply in_seq in Hi;
    unfold pauli_at in *;
    cbv beta delta [apply_CNOT_row apply_CZ_row];
    norm_get; rewrite ?Hwf;
    destruct (Nat.eqb_spec i t) as [->|Hnt];
    [ nat_tests; revert Etbl; bits; simpl; intro Etbl; inversion Etbl; reflexivity
    | destruct (Nat.eqb_spec i c) as [->|Hnc];
      [ nat_tests; revert Etbl; bits; simpl; intro Etbl; inversion Etbl; reflexivity
      | nat_tests; bits ] ] ].

Theorem apply_CNOT_spec : forall n c t r, wf_row n r -> c < n -> t < n -> c <> t ->
  decode n (apply_CNOT_row n c t r) = conj2 GCNOT c t (decode n r).
Proof. solve_gate2. Qed.

Theorem apply_CZ_spec : forall n c t r, wf_row n r -> c < n -> t < n -> c <> t ->
  decode n (apply_CZ_row n c t r) = conj2 GCZ c t (decode n r).
Proof. solve_gate2. Qed.

(* kernels keep the row length *)
Lemma apply_gate1_rows_wf :
  forall n p r, wf_row n r ->
    wf_row n (apply_X_row n p r) /\ wf_row n (apply_Y_row n p r) /\ wf_row n (apply_Z_row n p r) /\
    wf_row n (apply_H_row n p r) /\ wf_row n (apply_K_row n p r) /\ wf_row n (apply_S_row n p r).
Proof.
  intros n p r H; unfold wf_row in *.
  unfold apply_X_row, apply_Y_row, apply_Z_row, apply_H_row, apply_K_row, apply_S_row, swap_cols.
  repeat split; repeat (rewrite ?flip_if_length, ?upd_length); auto.
Qed.

Lemma apply_gate2_rows_wf :
  forall n c t r, wf_row n r -> wf_row n (apply_CNOT_row n c t r) /\ wf_row n (apply_CZ_row n c t r).
Proof.
  intros n c t r H; unfold wf_row in *. unfold apply_CNOT_row, apply_CZ_row.
  split; repeat (rewrite ?flip_if_length, ?upd_length); auto.
Qed.
