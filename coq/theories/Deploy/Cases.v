(* Correspondence cases for Model D: observations made on a REAL network (processes, TCP) are judged by the model.

   CStagger n obs : node processes were launched one by one; between launches every launched virtual node was asked
                    check_connections over Perspective Broker.  Connection attempts and retries are not observable from
                    outside, so only what the model says for EVERY schedule is compared:
                      (upper bound) an answer True is possible only in the eager schedule's state, i.e. (Connect.check_not_premature)
                                    only after every configured node has been launched;
                      (lower bound) an answer False is impossible for a one-node network (conn = {self} from the start);
                      (stability)   after an answer True a node never answers False (Connect.check_run_stable);
                      (liveness)    after OSettled (all launched, retry interval elapsed several times) every answer is True
                                    (Connect.eventually_connected), and the model is fully connected as well.
   CLife nodes steps : Network.start / Network.stop were called in the given order; after each call the liveness of the
                    2*nodes processes was observed; compared with Procs.lifecycle instantiated with spawn = comes to life and
                    terminate = dies. *)
From Coq Require Import List Bool Arith.
From SQ Require Import Base.ListUtil Deploy.Model Deploy.Procs.
Import ListNotations.

Inductive oev :=
| OLaunch (i : nat)            (* the process of node i was launched (it starts listening some time later) *)
| OCheck (i : nat) (b : bool)  (* node i answered b to check_connections *)
| OSettled.                    (* every node launched and listening, several retry intervals have passed *)

(* returns 0 when every observation is possible, otherwise 1 + index of the first impossible one *)
Fixpoint check_obs (n k : nat) (s : state) (seen_true : list nat) (settled : bool) (obs : list oev) : nat :=
  match obs with
  | [] => if settled then (if all_connected n s then 0 else S k) else 0
  | OLaunch i :: t =>
      if (i <? n) && negb (nmem i (started s)) && negb settled
      then check_obs n (S k) (eager_up n s i) seen_true settled t
      else S k
  | OCheck i b :: t =>
      if negb (nmem i (started s)) then S k
      else if b then
        (if check_connections n s i then check_obs n (S k) s (i :: seen_true) settled t else S k)
      else
        (if nmem i seen_true || settled || (n =? 1) then S k else check_obs n (S k) s seen_true settled t)
  | OSettled :: t =>
      if all_connected n s then check_obs n (S k) s seen_true true t else S k
  end.

Definition os_spawn (_ : pst) : pst := Alive.
Definition os_terminate (_ : pst) : pst := Ended.

(* one observed step: the call, the liveness of the processes after it, the cached flag Network._running after it (the flag is
   compared after stop only: after a start it is set by the polling [running] property, which is not modelled) *)
Fixpoint check_life (k : nat) (nw : network) (steps : list (nop * list bool * bool)) : nat :=
  match steps with
  | [] => 0
  | (o, alive, flag) :: t =>
      let nw' := apply os_spawn os_terminate nw o in
      if list_eqb Bool.eqb (map is_alive (procs nw')) alive
         && match o with Stop => Bool.eqb (running_flag nw') flag | Start => true end
      then check_life (S k) nw' t else S k
  end.

Inductive dcase :=
| CStagger (n : nat) (obs : list oev)
| CLife (nodes : nat) (steps : list (nop * list bool * bool)).

Definition check_case (c : dcase) : bool :=
  match c with
  | CStagger n obs => check_obs n 0 init [] false obs =? 0
  | CLife nodes steps => check_life 0 (new_network nodes) steps =? 0
  end.

Definition failing_cases (l : list dcase) : list nat := failing (map check_case l).

(* self-test of the judge *)
Example judge_accepts :
  failing_cases [CStagger 2 [OLaunch 1; OCheck 1 false; OLaunch 0; OCheck 0 false; OCheck 1 true; OSettled; OCheck 0 true; OCheck 1 true];
                 CStagger 1 [OLaunch 0; OCheck 0 true; OSettled; OCheck 0 true];
                 CLife 1 [(Start, [true; true], true); (Stop, [false; false], false); (Start, [true; true], false)]] = [].
Proof. vm_compute. reflexivity. Qed.

Example judge_rejects :
  failing_cases [CStagger 2 [OLaunch 1; OCheck 1 true];                                   (* premature True *)
                 CStagger 2 [OLaunch 1; OLaunch 0; OCheck 1 true; OCheck 1 false];        (* not stable *)
                 CStagger 2 [OLaunch 1; OLaunch 0; OSettled; OCheck 0 false];             (* never connected *)
                 CStagger 1 [OLaunch 0; OCheck 0 false];                                  (* len(conn) compared with the wrong number *)
                 CLife 1 [(Start, [true; true], true); (Stop, [false; true], false)];     (* a process survives stop *)
                 CLife 1 [(Start, [true; true], true); (Stop, [false; false], false); (Start, [false; false], false)];
                 CLife 1 [(Start, [true; true], true); (Stop, [false; false], true)]] = [0; 1; 2; 3; 4; 5; 6].   (* stale running flag *)
Proof. vm_compute. reflexivity. Qed.
