(* C01 — location transparency.

   FULL statement (what the property says): for every program of native operations the joint quantum state of all held
   qubits equals the state of an ideal single register, and every reported outcome has non-zero probability there.

   PROVED here, over Model V, for all networks, all programs and all placement histories, in two layers.

   Layer 1 (placement, Net/Placement.v): in every reachable state each native operation issues its engine call on exactly
   the register position whose recorded identity is the physical qubit the handle denotes — control and target in that
   order — after merges (all seven cases) under which the bookkeeping invariant (Properties/C02.v) is preserved; sending
   hands over the same physical qubit; physical-qubit identities are never duplicated.

   Layer 2 (stabilizer groups, Net/Joint*.v, Ideal.v, Transparency.v): states are compared as stabilizer GROUPS of signed
   Pauli strings over physical-qubit identities (order-free: `gstr = ph * (nat -> pauli)`, equality `geq` = same phase,
   pointwise same Paulis).  `joint s P`: P is in the product of the groups of all registers of all nodes, each register
   placed on the identities it records (C01_joint_ideal_explicit gives the paper form).  The ideal machine (`istep`) keeps
   ONE tableau over the identities in creation order; a Model-V operation is translated (`tr`) through the identities
   only; refused / ignored operations become no-ops.  C01_location_transparency: after any program, joint group = ideal
   group, and the list of measurement outcomes Model V reports equals the ideal machine's for the same coins.
   C01_reported_outcome_possible: the reported outcome has non-zero probability (the projector of the other eigenvalue
   does not stabilise the state).  Composition of: register merges = regrouping of the product (C13 tensor_group), gates =
   conjugation at the identity (C13 gate*_group_image), creation = a |0> factor (C13 add_qubit_group), measurement =
   C14 meas_random / meas_determined(_outcome) / destructive theorems / meas_repeat.

   NOT formalised (same status as C13/C14): the link stabilizer group <-> Hilbert-space vector and the Born rule
   ("probability > 0" is the group-level criterion above; probability 1/2 of the random branch is "both coins accepted").
   Backends other than the stabilizer engine are covered by the engine contract C15, not here.  The state-vector oracle of
   harness/net_run.py still compares the joint state after EVERY operation on the implementation. *)
From Coq Require Import List Bool Arith.
From SQ Require Import Base.ListUtil Stab.Tableau Net.Model Net.Refusal Net.Handles Net.Inv Net.InvStep Net.Bookkeeping Net.Placement
  Stab.Pauli Stab.LocalZ Net.RegsPerm Net.Joint Net.JointOps Net.JointExplicit Net.Ideal Net.Transparency Net.TransparencyExamples.
Import ListNotations.

Theorem C01_single_qubit_gate_hits_denoted_qubit : forall s h g gg vi q,
  reachable s -> find_handle s h = Some (vi, q) -> gate1_of g = Some gg ->
  exists x r, In r (regs (nth_node s (v_simNode q))) /\ s_pos x < r_n r /\
              nth (s_pos x) (r_ids r) 0 = v_qid q /\
              step s (OGate1 h g) =
              (update_reg_at s (v_simNode q) (reg_with_tab r (r_n r) (tab_gate1 gg (r_n r) (s_pos x) (r_tab r))), OkNone).
Proof. exact gate1_hits_denoted_qubit. Qed.
Print Assumptions C01_single_qubit_gate_hits_denoted_qubit.

Theorem C01_measurement_hits_denoted_qubit : forall s h ip c vi q,
  reachable s -> find_handle s h = Some (vi, q) ->
  exists x r, In r (regs (nth_node s (v_simNode q))) /\ s_pos x < r_n r /\
              nth (s_pos x) (r_ids r) 0 = v_qid q /\
              snd (step s (OMeas h ip c)) =
              Ok (if fst (fst (measure (r_n r) (s_pos x) true c (r_tab r))) then 1 else 0).
Proof. exact measure_hits_denoted_qubit. Qed.
Print Assumptions C01_measurement_hits_denoted_qubit.

(* all seven placement cases: after the merges (state sm, invariant intact) the gate is applied in ONE register at the
   positions carrying the control's and the target's identities, in that order *)
Theorem C01_two_qubit_gate_hits_denoted_qubits : forall s h1 h2 g vi q1 q2,
  reachable s -> find_handle s h1 = Some (vi, q1) -> find_handle s h2 = Some (vi, q2) -> h1 <> h2 ->
  exists sm ni k p1 p2 r,
    ginv sm /\
    step s (OGate2 h1 h2 g) = (apply_gate2_at sm ni k g p1 p2, OkNone) /\
    In r (regs (nth_node sm ni)) /\ r_num r = k /\ p1 < r_n r /\ p2 < r_n r /\ p1 <> p2 /\
    nth p1 (r_ids r) 0 = v_qid q1 /\ nth p2 (r_ids r) 0 = v_qid q2.
Proof. exact gate2_hits_denoted_qubits. Qed.
Print Assumptions C01_two_qubit_gate_hits_denoted_qubits.

Theorem C01_send_moves_same_physical_qubit : forall s h t v vi q,
  reachable s -> find_handle s h = Some (vi, q) -> snd (step s (OSend h t)) = Ok v ->
  exists q', In q' (virt (nth_node (fst (step s (OSend h t))) t)) /\ v_num q' = v /\
             v_qid q' = v_qid q /\ v_simNode q' = v_simNode q /\ v_simNum q' = v_simNum q /\ v_hid q' = next_hid s.
Proof. exact send_moves_same_qubit. Qed.
Print Assumptions C01_send_moves_same_physical_qubit.

Theorem C01_physical_qubit_held_once : forall s i j q q',
  reachable s -> In q (virt (nth_node s i)) -> In q' (virt (nth_node s j)) -> v_qid q = v_qid q' -> i = j /\ q = q'.
Proof. exact qid_identifies_held_qubit. Qed.
Print Assumptions C01_physical_qubit_held_once.

(* a qubit created inside a register (remote_new_qubit_inreg): |0> is appended at the end of exactly the named register of the asked
   node, recorded under the fresh identity; every other register of the network is untouched.  A client-made register starts empty. *)
From Coq Require Import Permutation.
Theorem C01_create_in_register_appends_to_named_register : forall s n ow k v,
  reachable s -> snd (step s (ONewInReg n ow k)) = Ok v ->
  ow = n /\ exists r rest, In r (regs (nth_node s n)) /\ r_num r = k /\ r_n r < r_max r /\
    Permutation (all_regs s) (r :: rest) /\
    Permutation (all_regs (fst (step s (ONewInReg n ow k))))
      (mkReg (r_num r) (r_max r) (S (r_n r)) (add_qubit (r_n r) (r_tab r)) (r_ids r ++ [next_hid s]) :: rest).
Proof. exact new_inreg_appends_to_named_register. Qed.
Print Assumptions C01_create_in_register_appends_to_named_register.

Theorem C01_create_register_adds_one_empty_register : forall s n mq v, snd (step s (ONewReg n mq)) = Ok v ->
  v = nextReg (nth_node s n) /\
  Permutation (all_regs (fst (step s (ONewReg n mq)))) (mkReg v mq 0 [] [] :: all_regs s).
Proof. exact newreg_adds_one_empty_register. Qed.
Print Assumptions C01_create_register_adds_one_empty_register.

(* ================= layer 2: joint stabilizer group = ideal group ============================================================ *)

(* MAIN THEOREM.  s = the network after the program; st = the ideal register after the translated program (same coins). *)
Theorem C01_location_transparency : forall caps ops,
  let s := run (init_net caps) ops in
  let iops := tr_run (init_net caps) ops in
  let st := irun iinit iops in
  (forall P, joint s P <-> ideal st P) /\
  outs_meas ops (run_outs (init_net caps) ops) = irun_outs iinit iops.
Proof. exact location_transparency. Qed.
Print Assumptions C01_location_transparency.

(* one step, from any reachable state that is matched with an ideal state (`tcore`: same group, same identities, both
   sides well-formed): the next states are matched again and the reported outcome is the ideal machine's *)
Theorem C01_step_transparency : forall s st o, reachable s -> tcore s st ->
  tcore (fst (step s o)) (fst (istep st (tr s o))) /\ out_meas o (snd (step s o)) = snd (istep st (tr s o)).
Proof. exact step_tcore. Qed.
Print Assumptions C01_step_transparency.

(* register merges (local_merge, merge_from, the forced temporary register; any sequence of them) keep the joint group *)
Theorem C01_merges_keep_joint_group : forall s sm, mrel s sm -> fsok (factors s) ->
  fsok (factors sm) /\ (forall y, In y (all_ids (factors sm)) <-> In y (all_ids (factors s))) /\
  forall P, jgroup (factors sm) P <-> jgroup (factors s) P.
Proof. exact mrel_factors. Qed.
Print Assumptions C01_merges_keep_joint_group.

(* every reported outcome has non-zero probability in the joint state and in the ideal state *)
Theorem C01_reported_outcome_possible : forall caps ops h ip c v,
  let s := run (init_net caps) ops in
  let st := irun iinit (tr_run (init_net caps) ops) in
  snd (step s (OMeas h ip c)) = Ok v ->
  exists vi q, find_handle s h = Some (vi, q) /\ (v = 0 \/ v = 1) /\
    ~ joint s (gz (ph_of_sign (negb (Nat.eqb v 1))) (v_qid q)) /\
    ~ ideal st (gz (ph_of_sign (negb (Nat.eqb v 1))) (v_qid q)).
Proof. exact reported_outcome_possible. Qed.
Print Assumptions C01_reported_outcome_possible.

(* reachable states: identities recorded in registers are pairwise different across all registers of all nodes, every
   register is a full stabilizer state of its size, the ideal register holds exactly the same identities *)
Theorem C01_reachable_registers_wellformed : forall caps ops,
  let s := run (init_net caps) ops in
  let st := irun iinit (tr_run (init_net caps) ops) in
  NoDup (flat_map r_ids (all_regs s)) /\
  (forall r, In r (all_regs s) -> length (r_ids r) = r_n r /\ full (r_n r) (r_tab r)) /\
  NoDup (fst st) /\ full (length (fst st)) (snd st) /\
  (forall y, In y (fst st) <-> In y (flat_map r_ids (all_regs s))).
Proof. exact reachable_factors_ok. Qed.
Print Assumptions C01_reachable_registers_wellformed.

(* `joint` / `ideal` in paper form: one group element per register, P restricted to the register's identities is that
   element position by position, identity elsewhere, phases add up *)
Theorem C01_joint_ideal_explicit : forall caps ops P,
  let s := run (init_net caps) ops in
  let st := irun iinit (tr_run (init_net caps) ops) in
  (joint s P <-> explicit (factors s) P) /\ (ideal st P <-> explicit [ifac st] P).
Proof. exact joint_ideal_explicit. Qed.
Print Assumptions C01_joint_ideal_explicit.

(* non-vacuity: three nodes, both-remote merge, Bell pair split over two nodes, a third register; Z_0 Z_1 is in the joint
   group and (by the theorem) in the ideal group; the outcomes of both machines for an in-place and a destructive
   measurement *)
Theorem C01_nonvacuous_split_bell_pair :
  factors (run (init_net caps3) prog7) =
    [mkF [5] 1 [[false; true; false]];
     mkF [0; 1] 2 [[true; true; false; false; false]; [false; false; true; true; false]]] /\
  joint (run (init_net caps3) prog7) (P0, g2 0 PZ 1 PZ) /\
  ideal (irun iinit (tr_run (init_net caps3) prog7)) (P0, g2 0 PZ 1 PZ) /\
  outs_meas prog (run_outs (init_net caps3) prog) =
    [None; None; None; None; None; None; None; None; Some true; Some true].
Proof. exact (conj ex_factors (conj ex_joint_ZZ (conj ex_ideal_ZZ (proj1 (proj2 ex_outcomes))))). Qed.
Print Assumptions C01_nonvacuous_split_bell_pair.

(* non-vacuity with the two client operations on registers (remote_add_register, remote_new_qubit_inreg): a register of capacity 2 is
   made and filled at node 0 (third creation refused), a Bell pair is built INSIDE it, node 1 keeps an unused (empty) register and
   pulls the client-made register by a remote merge; the register operations translate to fresh |0> qubits / no-ops, X_0 X_1 is in
   the joint group and (by the theorem) in the ideal group, and both machines report the same outcomes *)
Theorem C01_nonvacuous_client_registers :
  tr_run (init_net capsr) regprog =
    [INop; ICreate 0; ICreate 1; INop; IGate1 0 GH; IGate2 0 1 GCNOT; INop; INop; ICreate 3; IGate2 3 1 GCNOT;
     IMeas 1 true true; IMeas 0 false false; IMeas 3 false true] /\
  joint (run (init_net capsr) regprog10) (P0, g2 0 PX 1 PX) /\
  ideal (irun iinit (tr_run (init_net capsr) regprog10)) (P0, g2 0 PX 1 PX) /\
  outs_meas regprog (run_outs (init_net capsr) regprog) =
    [None; None; None; None; None; None; None; None; None; None; Some true; Some true; Some false].
Proof. exact (conj ex_reg_translation (conj ex_reg_joint_XX (conj ex_reg_ideal_XX (proj1 (proj2 ex_reg_outcomes))))). Qed.
Print Assumptions C01_nonvacuous_client_registers.
