(* The register contract, proved for the model of stabilizerEngine. *)
From Coq Require Import List Bool Arith Lia.
From SQ Require Import Base.ListUtil Stab.Pauli Stab.Kernels Stab.Gates Stab.Tableau Stab.Engine.
Import ListNotations.

(* a register holds a state: n rows of length 2n+1 that commute pairwise *)
Definition valid_engine (e : engine) : Prop :=
  length (e_tab e) = e_n e /\ Forall (wf_row (e_n e)) (e_tab e) /\ all_commute (e_n e) (e_tab e) = true.

(* ---------- refusal exactly at the size limit, and refusals change nothing ------------------------- *)
Lemma add_fresh_refusal e :
  (e_max e <= e_n e -> step e KAddFresh = (e, RErr ENoQubit)) /\
  (e_n e < e_max e -> step e KAddFresh = (mkE (e_max e) (S (e_n e)) (add_qubit (e_n e) (e_tab e)), RNat (e_n e))).
Proof.
  unfold step; split; intro H.
  - destruct (Nat.leb_spec (e_max e) (e_n e)); auto; lia.
  - destruct (Nat.leb_spec (e_max e) (e_n e)); auto; lia.
Qed.

Lemma absorb_refusal a b :
  (e_max a < e_n a + e_n b -> step a (KAbsorb b) = (a, RErr EQuantum)) /\
  (e_n a + e_n b <= e_max a ->
   step a (KAbsorb b) = (mkE (e_max a) (e_n a + e_n b) (tensor (e_n a) (e_tab a) (e_n b) (e_tab b)), RUnit)).
Proof.
  unfold step; split; intro H;
    destruct (Nat.ltb_spec (e_max a) (e_n a + e_n b)); auto; lia.
Qed.

(* every refused call leaves the register exactly as it was *)
Lemma refusal_atomic e c err : snd (step e c) = RErr err -> fst (step e c) = e.
Proof.
  destruct c; simpl.
  - destruct (Nat.leb _ _); simpl; auto; discriminate.
  - destruct (mk_state data) as [[m t]|]; simpl; auto.
    destruct (Nat.ltb _ _); simpl; auto; discriminate.
  - destruct (Nat.ltb _ _); simpl; auto; discriminate.
  - destruct (Nat.ltb _ _); simpl; auto; discriminate.
  - destruct (_ && _); simpl; auto; discriminate.
  - auto.
  - destruct (Nat.ltb _ _); simpl; auto.
    unfold apply_measure. destruct (measure _ _ _ _ _) as [[o n'] t']. simpl. discriminate.
  - destruct (Nat.ltb _ _); simpl; auto.
    unfold apply_measure. destruct (measure _ _ _ _ _) as [[o n'] t']. simpl. discriminate.
  - destruct (Nat.ltb _ _); simpl; auto; discriminate.
  - destruct (Nat.ltb _ _); simpl; auto.
    destruct (mk_state R) as [[m t]|]; simpl; auto; discriminate.
Qed.

(* ---------- export / import ------------------------------------------------------------------------ *)
Lemma forallb_length_false (t : tab) n m :
  Forall (wf_row n) t -> t <> [] -> m <> 2 * n + 1 -> forallb (fun r => Nat.eqb (length r) m) t = false.
Proof.
  intros H Hne Hm. destruct t as [|r t]; [congruence|]. inversion H; subst. simpl.
  unfold wf_row in *. destruct (Nat.eqb_spec (length r) m); [lia|reflexivity].
Qed.

Lemma forallb_length_true (t : tab) n :
  Forall (wf_row n) t -> forallb (fun r => Nat.eqb (length r) (2 * n + 1)) t = true.
Proof.
  induction 1; simpl; auto. unfold wf_row in H. rewrite H, Nat.eqb_refl. auto.
Qed.

Lemma mk_state_export e : valid_engine e -> mk_state (e_tab e) = Some (e_n e, e_tab e).
Proof.
  intros (HL & HW & HC). unfold mk_state. rewrite HL.
  destruct (Nat.eqb_spec (e_n e) 0) as [E|E].
  - rewrite E in HL. destruct (e_tab e); simpl in HL; try discriminate. rewrite E. reflexivity.
  - assert (Hne : e_tab e <> []) by (intro X; rewrite X in HL; simpl in HL; lia).
    rewrite (forallb_length_false _ (e_n e) (2 * e_n e) HW Hne) by lia.
    rewrite (forallb_length_true _ _ HW). rewrite HC. reflexivity.
Qed.

Theorem absorb_parts_export a b :
  valid_engine b ->
  step a (KAbsorbParts (fst (export b)) (snd (export b))) = step a (KAbsorb b).
Proof.
  intros Hb. unfold export; simpl. rewrite (mk_state_export b Hb). reflexivity.
Qed.

(* ---------- the contract, stated once for any backend --------------------------------------------------------
   E     : register type            size / maxq : activeQubits / maxQubits
   D     : what a register denotes  den : E -> D,  ten : tensor product on D (second factor behind the first),
                                    zero1 : the one-qubit state |0>
   good  : registers that can be exported (holding a state)                                                  *)
Record EngineLaws (E D X : Type) (size maxq : E -> nat) (den : E -> D) (ten : D -> D -> D) (zero1 : D)
       (good : E -> Prop)
       (add_fresh : E -> E * eres) (absorb : E -> E -> E * eres)
       (exportf : E -> X) (absorb_parts : E -> X -> E * eres) : Prop := {
  law_fresh_ok : forall e, size e < maxq e ->
      snd (add_fresh e) = RNat (size e) /\ size (fst (add_fresh e)) = S (size e) /\
      maxq (fst (add_fresh e)) = maxq e /\ den (fst (add_fresh e)) = ten (den e) zero1;
  law_fresh_refused : forall e, maxq e <= size e -> add_fresh e = (e, RErr ENoQubit);
  law_absorb_ok : forall a b, size a + size b <= maxq a ->
      snd (absorb a b) = RUnit /\ size (fst (absorb a b)) = size a + size b /\
      maxq (fst (absorb a b)) = maxq a /\ den (fst (absorb a b)) = ten (den a) (den b);
  law_absorb_refused : forall a b, maxq a < size a + size b -> absorb a b = (a, RErr EQuantum);
  law_export_import : forall a b, good b -> absorb_parts a (exportf b) = absorb a b
}.

Definition stab_den (e : engine) : nat * tab := (e_n e, e_tab e).
Definition stab_ten (a b : nat * tab) : nat * tab := (fst a + fst b, tensor (fst a) (snd a) (fst b) (snd b)).

Theorem stab_engine_laws :
  EngineLaws engine (nat * tab) (list row * nat) e_n e_max stab_den stab_ten (1, [[false; true; false]]) valid_engine
             (fun e => step e KAddFresh) (fun a b => step a (KAbsorb b))
             export (fun a x => step a (KAbsorbParts (fst x) (snd x))).
Proof.
  constructor.
  - intros e H. destruct (add_fresh_refusal e) as [_ R]. rewrite (R H). simpl.
    repeat split; auto. unfold stab_den, stab_ten, add_qubit. simpl. f_equal. lia.
  - intros e H. destruct (add_fresh_refusal e) as [R _]. auto.
  - intros a b H. destruct (absorb_refusal a b) as [_ R]. rewrite (R H). simpl. repeat split; auto.
  - intros a b H. destruct (absorb_refusal a b) as [R _]. auto.
  - intros a b H. apply absorb_parts_export; auto.
Qed.
