(* The stabilizer engine keeps FULL stabilizer states: every call of the register interface maps a register holding
   n well-formed, commuting, independent generators on n qubits to such a register again (measurement included, in
   place and destructive, both branches).  StabilizerState(data) checks commutation but not independence, so data
   handed in from outside (KAddQubit / KAbsorbParts / the absorbed register) must be independent itself. *)
From Coq Require Import List Bool Arith Lia.
From SQ Require Import Base.ListUtil Stab.Pauli Stab.Kernels Stab.Gates Stab.Tableau Stab.Group Stab.GroupGates
  Stab.MulProof Stab.GaussProof Stab.MeasureProof Stab.TensorProof Stab.PermProof Stab.MeasureOrig Stab.F2 Stab.Bridge
  Stab.DestructiveProof Stab.EqProof Stab.MeasureFull Stab.DestructiveDet Stab.Engine Stab.EngineProof.
Import ListNotations.

Definition full_engine (e : engine) : Prop := length (e_tab e) = e_n e /\ valid (e_n e) (e_tab e).

Definition data_ok (d : list row) : Prop := forall m t, mk_state d = Some (m, t) -> independent m t.

Definition call_ok (c : ecall) : Prop :=
  match c with
  | KAbsorb other => full_engine other
  | KAddQubit d => data_ok d
  | KAbsorbParts R _ => data_ok R
  | _ => True
  end.

Lemma full_engine_valid_engine e : full_engine e -> valid_engine e.
Proof.
  intros (L & W & C & _). repeat split; auto. apply commuting_all_commute; auto.
Qed.

Lemma new_engine_full m : full_engine (new_engine m).
Proof.
  unfold full_engine, new_engine; cbn. split; auto. split; [constructor|]. split; [intros a b []|].
  intros sel HL _. destruct sel; [reflexivity|discriminate].
Qed.

Lemma mk_state_facts d m t : mk_state d = Some (m, t) -> length t = m /\ wf_tab m t /\ commuting m t.
Proof.
  unfold mk_state. destruct (Nat.eqb_spec (length d) 0) as [E|E].
  - intro H. injection H as <- <-. split; [reflexivity|]. split; [constructor | intros a b []].
  - destruct (forallb (fun r => length r =? 2 * length d) d) eqn:F1.
    + destruct (all_commute (length d) (map (fun r => r ++ [false]) d)) eqn:AC; [|discriminate].
      intro H. injection H as <- <-. split; [apply map_length|]. split; [|apply all_commute_commuting'; auto].
      unfold wf_tab. rewrite Forall_forall. intros r Hr. apply in_map_iff in Hr. destruct Hr as (r0 & <- & Hr0).
      rewrite forallb_forall in F1. specialize (F1 r0 Hr0). apply Nat.eqb_eq in F1.
      unfold wf_row. rewrite app_length. simpl. lia.
    + destruct (forallb (fun r => length r =? 2 * length d + 1) d) eqn:F2; [|discriminate].
      destruct (all_commute (length d) d) eqn:AC; [|discriminate].
      intro H. injection H as <- <-. split; auto. split; [|apply all_commute_commuting'; auto].
      unfold wf_tab. rewrite Forall_forall. intros r Hr. rewrite forallb_forall in F2. apply Nat.eqb_eq. apply F2; auto.
Qed.

Lemma tensor_full n1 t1 n2 t2 : length t1 = n1 -> valid n1 t1 -> length t2 = n2 -> valid n2 t2 ->
  length (tensor n1 t1 n2 t2) = n1 + n2 /\ valid (n1 + n2) (tensor n1 t1 n2 t2).
Proof.
  intros L1 (W1 & C1 & I1) L2 (W2 & C2 & I2).
  assert (Z1 : n1 = 0 -> t1 = []) by (intro E; rewrite E in L1; destruct t1; auto; discriminate).
  assert (Z2 : n2 = 0 -> t2 = []) by (intro E; rewrite E in L2; destruct t2; auto; discriminate).
  split; [rewrite tensor_length; auto; lia|].
  repeat split; [apply tensor_wf | apply tensor_commuting | apply tensor_independent]; auto.
Qed.

Lemma apply_measure_full e q ip coin : full_engine e -> q < e_n e -> full_engine (fst (apply_measure e q ip coin)).
Proof.
  intros (L & V) Hq. unfold apply_measure.
  destruct ip.
  - pose proof (meas_inplace_full (e_n e) q coin (e_tab e) Hq V L) as (E1 & V1 & L1).
    destruct (measure (e_n e) q true coin (e_tab e)) as [[o n'] t']. cbn [fst snd] in *. subst n'.
    split; auto.
  - pose proof (meas_destructive_full (e_n e) q coin (e_tab e) Hq V L) as (E1 & V1 & L1).
    destruct (measure (e_n e) q false coin (e_tab e)) as [[o n'] t']. cbn [fst snd] in *. subst n'.
    split; auto.
Qed.

Theorem step_preserves_full e c : full_engine e -> call_ok c -> full_engine (fst (step e c)).
Proof.
  intros F OK. pose proof F as (L & V). pose proof V as (W & C & I).
  destruct c; cbn [step call_ok] in *.
  - (* add_fresh_qubit *)
    destruct (Nat.leb (e_max e) (e_n e)); auto. cbn [fst]. unfold full_engine; cbn [e_n e_tab].
    assert (Z : e_n e = 0 -> e_tab e = []) by (intro E; rewrite E in L; destruct (e_tab e); auto; discriminate).
    destruct (add_qubit_valid (e_n e) (e_tab e) W Z C I) as (W' & C' & I' & L').
    replace (S (e_n e)) with (e_n e + 1) by lia. split; [lia|]. repeat split; auto.
  - (* add_qubit(data) *)
    destruct (mk_state data) as [[m t]|] eqn:E; auto.
    destruct (Nat.ltb (e_max e) (e_n e + m)); auto. cbn [fst]. unfold full_engine; cbn [e_n e_tab].
    destruct (mk_state_facts _ _ _ E) as (Lt & Wt & Ct).
    apply tensor_full; auto. repeat split; auto.
  - (* remove_qubit *)
    destruct (Nat.ltb_spec (e_n e) (q + 1)); auto. cbn [fst]. apply apply_measure_full; auto. lia.
  - (* one-qubit gate *)
    destruct (Nat.ltb_spec q (e_n e)); auto. cbn [fst]. unfold full_engine; cbn [e_n e_tab]. split.
    + rewrite tab_gate1_map, map_length. auto.
    + repeat split; [apply gate1_preserves_wf | apply gate1_preserves_commuting | apply gate1_preserves_independent]; auto.
  - (* two-qubit gate *)
    destruct (Nat.ltb_spec q1 (e_n e)); cbn [andb]; auto. destruct (Nat.ltb_spec q2 (e_n e)); cbn [andb]; auto.
    destruct (Nat.eqb_spec q1 q2); cbn [negb]; auto. cbn [fst]. unfold full_engine; cbn [e_n e_tab]. split.
    + rewrite tab_gate2_map, map_length. auto.
    + repeat split; [apply gate2_preserves_wf | apply gate2_preserves_commuting | apply gate2_preserves_independent]; auto.
  - (* unsupported *) auto.
  - (* measure in place *)
    destruct (Nat.ltb_spec (e_n e) (q + 1)); auto.
    pose proof (apply_measure_full e q true coin F ltac:(lia)) as M.
    destruct (apply_measure e q true coin) as [e' o]. exact M.
  - (* measure (destructive) *)
    destruct (Nat.ltb_spec q (e_n e)); auto.
    pose proof (apply_measure_full e q false coin F ltac:(lia)) as M.
    destruct (apply_measure e q false coin) as [e' o]. exact M.
  - (* absorb *)
    destruct (Nat.ltb (e_max e) (e_n e + e_n other)); auto. cbn [fst]. unfold full_engine; cbn [e_n e_tab].
    destruct OK as (Lo & Vo). apply tensor_full; auto.
  - (* absorb_parts *)
    destruct (Nat.ltb (e_max e) (e_n e + activeQ)); auto.
    destruct (mk_state R) as [[m t]|] eqn:E; auto. cbn [fst]. unfold full_engine; cbn [e_n e_tab].
    destruct (mk_state_facts _ _ _ E) as (Lt & Wt & Ct).
    apply tensor_full; auto. repeat split; auto.
Qed.

Theorem run_preserves_full : forall cs e, full_engine e -> Forall call_ok cs -> full_engine (run e cs).
Proof.
  induction cs as [|c cs IH]; intros e F OK; [exact F|].
  inversion OK as [|? ? Hc Hcs]; subst. unfold run in *. cbn [fold_left]. apply IH; auto.
  apply step_preserves_full; auto.
Qed.

(* the exported data of a full register are accepted again and are independent: registers built from the interface
   alone (fresh qubits, gates, measurements, absorbing each other) stay full *)
Lemma export_data_ok e : full_engine e -> data_ok (fst (export e)).
Proof.
  intros F m t H. pose proof (mk_state_export e (full_engine_valid_engine e F)) as X.
  unfold export in H; cbn [fst] in H. rewrite X in H. injection H as <- <-. apply F.
Qed.
