"""H-sync: several real virtualNode objects in one interpreter, wired directly, deterministic clock and coin.
The unmodified code of /repo (scratch copy) runs; only the network plumbing (connect_to_node), the reactor
global, and the random coin of StabilizerState.measure are replaced from outside."""
import socket


class Env:
    pass


def setup(backend="stabilizer"):
    """import simulaqron from the scratch copy with the stabilizer backend and a virtual clock"""
    from twisted.internet import task
    from simulaqron.settings import simulaqron_settings
    simulaqron_settings.sim_backend = backend
    simulaqron_settings.noisy_qubits = False
    import simulaqron.virtual_node.virtual as V
    import simulaqron.virtual_node.quantum as Q
    import simulaqron.toolbox.stabilizer_states as SS

    class Clock(task.Clock):
        stopped = False

        def stop(self):
            self.stopped = True

    env = Env()
    env.V, env.Q, env.SS = V, Q, SS

    def new_clock():
        """every network gets its own virtual clock: timers orphaned by a hung operation of an earlier network die with it"""
        env.clock = Clock()
        V.reactor = env.clock
        Q.reactor = env.clock
        for m in env.clock_modules:          # further modules with a module-global `reactor` (NetQASM backend, see qasm_sync)
            m.reactor = env.clock
        for h in env.clock_hooks:            # instrumentation that wraps the clock (seeded timer jitter of harness/conc.py)
            h(env.clock)
        return env.clock
    env.clock_modules = []
    env.clock_hooks = []
    env.new_clock = new_clock
    new_clock()
    env.coins = []

    def scripted_randint(a, b):
        if not env.coins:
            raise RuntimeError("coin requested but none scripted")
        return env.coins.pop(0)
    SS.randint = scripted_randint
    # no TCP: nodes are wired directly by make_network
    V.virtualNode.connect_to_node = lambda self, node: None
    return env


class FakeHost:
    """stands for host_config.Host without DNS/TCP"""
    def __init__(self, name, idx):
        self.name = name
        self.hostname = "localhost"
        self.port = 8800 + idx
        self.ip = 2130706433
        self.family = socket.AF_INET
        self.factory = 0
        self.root = 0
        self.defer = 0


class FakeConfig:
    def __init__(self, names):
        self.hostDict = {n: FakeHost(n, i) for i, n in enumerate(names)}


def make_network(env, names, maxQ, maxR):
    """names: list of node names; maxQ/maxR: per-node capacities (lists). Every node gets its own Host objects for
    all peers (as in production, where each process reads the config itself)."""
    nodes = []
    cfgs = []
    env.new_clock()
    for i, n in enumerate(names):
        cfg = FakeConfig(names)
        node = env.V.virtualNode(cfg.hostDict[n], cfg, maxQubits=maxQ[i], maxRegisters=maxR[i])
        nodes.append(node)
        cfgs.append(cfg)
    for i, n in enumerate(names):
        for j, m in enumerate(names):
            if i != j:
                h = cfgs[i].hostDict[m]
                h.root = nodes[j]
                nodes[i].conn[m] = h
    net = Env()
    net.env, net.names, net.nodes, net.cfgs = env, names, nodes, cfgs
    net.hid = {}          # id(virtualQubit object) -> handle id
    net.objs = {}         # handle id -> virtualQubit object
    net.next_hid = 0
    return net


def fire(d):
    """result of an already-fired Deferred: ('ok', value) | ('err', exception) | ('pending', None)"""
    from twisted.internet.defer import Deferred
    if not isinstance(d, Deferred):
        return ("ok", d)
    box = []
    d.addCallbacks(lambda r: box.append(("ok", r)), lambda f: box.append(("err", f.value)))
    return box[0] if box else ("pending", None)


def tag_new_handles(net):
    """give a handle id to every virtualQubit object that has none yet (model allocates ids at the same events)"""
    new = []
    for node in net.nodes:
        for q in node.virtQubits:
            if id(q) not in net.hid:
                net.hid[id(q)] = net.next_hid
                net.objs[net.next_hid] = q
                new.append(net.next_hid)
                net.next_hid += 1
    return new


def resolve(net, obj):
    """the local object behind a (possibly remote) reference; identity on the in-process network"""
    r = getattr(net, "resolver", None)
    return r(obj) if r else obj


def node_index(net, host):
    return net.names.index(host.name)


def dump(net):
    """canonical dump of the whole bookkeeping, in the code's own list orders"""
    out = []
    for node in net.nodes:
        virt = []
        for q in node.virtQubits:
            sq = resolve(net, q.simQubit)
            # a reference that no longer resolves to a live object (possible only when the implementation misbehaves) is dumped as 999
            virt.append((net.hid.get(id(q), -1), q.num, node_index(net, q.simNode), sq.simNum if sq is not None else 999))
        sims = [(s.simNum, s.register.num, s.num) for s in node.simQubits]
        regs = []
        for rn in sorted(node.registers):
            r = node.registers[rn]
            arr = r.qubitReg.to_array()
            regs.append((rn, r.maxQubits, r.activeQubits, [[bool(x) for x in row] for row in arr]))
        out.append({"virt": virt, "sims": sims, "regs": regs, "numRegs": node.numRegs, "nextReg": node._next_reg_num})
    return out


def locks_held(net):
    held = []
    for i, node in enumerate(net.nodes):
        if node._lock.locked:
            held.append(("node", i))
        for s in node.simQubits:
            if s._lock.locked:
                held.append(("sim", i, s.simNum))
    return held


def object_graph_invariant(net):
    """C02 evaluated directly on the object graph (id()-based, independent of the model). Returns list of problems."""
    bad = []
    backing = {}
    for i, node in enumerate(net.nodes):
        nums = [q.num for q in node.virtQubits]
        if len(set(nums)) != len(nums):
            bad.append("duplicate virtual ids at node %d: %r" % (i, nums))
        snums = [s.simNum for s in node.simQubits]
        if len(set(snums)) != len(snums):
            bad.append("duplicate sim ids at node %d: %r" % (i, snums))
        if len(node.virtQubits) > node.maxQubits:
            bad.append("node %d holds %d > max %d" % (i, len(node.virtQubits), node.maxQubits))
        for q in node.virtQubits:
            if q.active != 1:
                bad.append("inactive qubit in list at node %d" % i)
            sn = net.nodes[node_index(net, q.simNode)]
            if resolve(net, q.simQubit) is None:
                bad.append("held qubit %d at node %d is backed by a dangling remote reference" % (q.num, i))
                continue
            if not any(resolve(net, q.simQubit) is s for s in sn.simQubits):
                bad.append("held qubit %d at node %d backed by a sim qubit that is not in its simulating node's list" % (q.num, i))
            if id(resolve(net, q.simQubit)) in backing:
                bad.append("sim qubit backs two held qubits")
            backing[id(resolve(net, q.simQubit))] = q
        if node.numRegs != len(node.registers):
            bad.append("numRegs %d != len(registers) %d at node %d" % (node.numRegs, len(node.registers), i))
        byreg = {}
        for s in node.simQubits:
            if not any(s.register is r for r in node.registers.values()):
                bad.append("sim qubit in a register that is not registered at node %d" % i)
            byreg.setdefault(id(s.register), []).append(s.num)
        for r in node.registers.values():
            pos = sorted(byreg.get(id(r), []))
            if pos != list(range(r.activeQubits)):
                bad.append("register positions are not 0..k-1: register %d at node %d holds positions %r for %d qubits" % (r.num, i, pos, r.activeQubits))
    for i, node in enumerate(net.nodes):
        for s in node.simQubits:
            if id(s) not in backing:
                bad.append("sim qubit %d at node %d backs no held qubit" % (s.simNum, i))
    return bad
