(* tensor_product / add_qubit: the rows of the block-diagonal construction are the identity-padded rows, and the
   generated group is the product group.  (stabilizer_states.py:473-507, model: Tableau.tensor / add_qubit) *)
From Coq Require Import List Bool Arith Lia.
From SQ Require Import Base.ListUtil Stab.Pauli Stab.Kernels Stab.Gates Stab.Tableau Stab.Group Stab.GroupGates
  Stab.MulProof Stab.GaussProof Stab.MeasureProof.
Import ListNotations.

(* the two kinds of rows of `tensor n1 t1 n2 t2` (both n1, n2 > 0) *)
Definition pad_l (n1 n2 : nat) (r : row) : row :=
  xpart n1 r ++ repeat false n2 ++ zpart n1 r ++ repeat false n2 ++ [sgn_of n1 r].
Definition pad_r (n1 n2 : nat) (r : row) : row :=
  repeat false n1 ++ xpart n2 r ++ repeat false n1 ++ zpart n2 r ++ [sgn_of n2 r].

(* tensor product of two Pauli group elements *)
Definition ptensor (a b : pstr) : pstr := (padd (fst a) (fst b), snd a ++ snd b).

Lemma tensor_rows n1 t1 n2 t2 : n1 <> 0 -> n2 <> 0 ->
  tensor n1 t1 n2 t2 = map (pad_l n1 n2) t1 ++ map (pad_r n1 n2) t2.
Proof. destruct n1, n2; intros; try lia; reflexivity. Qed.

(* ---------- bits of the padded rows ------------------------------------------------------------------ *)
Lemma get_app (a b : row) j : get (a ++ b) j = if Nat.ltb j (length a) then get a j else get b (j - length a).
Proof.
  unfold get. destruct (Nat.ltb_spec j (length a)); [apply app_nth1 | apply app_nth2]; auto.
Qed.

Lemma get_repeat_false k j : get (repeat false k) j = false.
Proof. unfold get. revert j; induction k as [|k IH]; intros [|j]; simpl; auto. Qed.

Lemma get_firstn k (r : row) j : get (firstn k r) j = if Nat.ltb j k then get r j else false.
Proof.
  unfold get. revert r j; induction k as [|k IH]; intros r j; simpl.
  - destruct j; reflexivity.
  - destruct r as [|x r]; simpl.
    + destruct j; destruct (Nat.ltb _ _); reflexivity.
    + destruct j as [|j]; simpl; auto. rewrite IH. reflexivity.
Qed.

Lemma get_skipn k (r : row) j : get (skipn k r) j = get r (k + j).
Proof. unfold get. apply nth_skipn. Qed.

Lemma get_single (b : bool) j : get [b] j = if Nat.eqb j 0 then b else false.
Proof. destruct j as [|[|j]]; reflexivity. Qed.

Lemma xpart_length n r : wf_row n r -> length (xpart n r) = n.
Proof. unfold wf_row, xpart. intro H. rewrite firstn_length. lia. Qed.
Lemma zpart_length n r : wf_row n r -> length (zpart n r) = n.
Proof. unfold wf_row, zpart. intro H. rewrite firstn_length, skipn_length. lia. Qed.

Ltac ltb_cases :=
  repeat match goal with
  | |- context [Nat.ltb ?a ?b] => destruct (Nat.ltb_spec a b); try lia
  | |- context [Nat.eqb ?a ?b] => destruct (Nat.eqb_spec a b); try lia
  end.

Lemma get_pad_l n1 n2 r j : wf_row n1 r ->
  get (pad_l n1 n2 r) j =
  if Nat.ltb j n1 then get r j
  else if Nat.ltb j (n1 + n2) then false
  else if Nat.ltb j (2 * n1 + n2) then get r (j - n2)
  else if Nat.ltb j (2 * (n1 + n2)) then false
  else if Nat.eqb j (2 * (n1 + n2)) then get r (2 * n1) else false.
Proof.
  intro Hw. pose proof (xpart_length n1 r Hw) as Lx. pose proof (zpart_length n1 r Hw) as Lz.
  unfold pad_l. rewrite get_app, Lx.
  destruct (Nat.ltb_spec j n1) as [H1|H1].
  { unfold xpart. rewrite get_firstn. ltb_cases; try reflexivity. }
  rewrite get_app, repeat_length.
  destruct (Nat.ltb_spec (j - n1) n2) as [H2|H2].
  { rewrite get_repeat_false. ltb_cases; try reflexivity. }
  rewrite get_app, Lz.
  destruct (Nat.ltb_spec (j - n1 - n2) n1) as [H3|H3].
  { unfold zpart. rewrite get_firstn, get_skipn. ltb_cases; try reflexivity; try (f_equal; lia). }
  rewrite get_app, repeat_length.
  destruct (Nat.ltb_spec (j - n1 - n2 - n1) n2) as [H4|H4].
  { rewrite get_repeat_false. ltb_cases; try reflexivity. }
  rewrite get_single. unfold sgn_of. ltb_cases; reflexivity.
Qed.

Lemma get_pad_r n1 n2 r j : wf_row n2 r ->
  get (pad_r n1 n2 r) j =
  if Nat.ltb j n1 then false
  else if Nat.ltb j (n1 + n2) then get r (j - n1)
  else if Nat.ltb j (2 * n1 + n2) then false
  else if Nat.ltb j (2 * (n1 + n2)) then get r (j - 2 * n1)
  else if Nat.eqb j (2 * (n1 + n2)) then get r (2 * n2) else false.
Proof.
  intro Hw. pose proof (xpart_length n2 r Hw) as Lx. pose proof (zpart_length n2 r Hw) as Lz.
  unfold pad_r. rewrite get_app, repeat_length.
  destruct (Nat.ltb_spec j n1) as [H1|H1].
  { rewrite get_repeat_false. reflexivity. }
  rewrite get_app, Lx.
  destruct (Nat.ltb_spec (j - n1) n2) as [H2|H2].
  { unfold xpart. rewrite get_firstn. ltb_cases; try reflexivity. }
  rewrite get_app, repeat_length.
  destruct (Nat.ltb_spec (j - n1 - n2) n1) as [H3|H3].
  { rewrite get_repeat_false. ltb_cases; try reflexivity. }
  rewrite get_app, Lz.
  destruct (Nat.ltb_spec (j - n1 - n2 - n1) n2) as [H4|H4].
  { unfold zpart. rewrite get_firstn, get_skipn. ltb_cases; try reflexivity; try (f_equal; lia). }
  rewrite get_single. unfold sgn_of. ltb_cases; reflexivity.
Qed.

Lemma pad_l_wf n1 n2 r : wf_row n1 r -> wf_row (n1 + n2) (pad_l n1 n2 r).
Proof.
  intro Hw. unfold wf_row, pad_l. rewrite !app_length, !repeat_length, xpart_length, zpart_length by auto. simpl. lia.
Qed.
Lemma pad_r_wf n1 n2 r : wf_row n2 r -> wf_row (n1 + n2) (pad_r n1 n2 r).
Proof.
  intro Hw. unfold wf_row, pad_r. rewrite !app_length, !repeat_length, xpart_length, zpart_length by auto. simpl. lia.
Qed.

Lemma map_seq_off {A} k : forall (f : nat -> A) s, map f (seq s k) = map (fun i => f (s + i)) (seq 0 k).
Proof.
  induction k as [|k IH]; intros f s; simpl; auto.
  rewrite Nat.add_0_r. f_equal. rewrite (IH f (S s)), (IH (fun i => f (s + i)) 1).
  apply map_ext. intro i. f_equal. lia.
Qed.

(* ---------- row level ------------------------------------------------------------------------------------ *)
Theorem pad_l_decode n1 n2 r : wf_row n1 r ->
  decode (n1 + n2) (pad_l n1 n2 r) = (fst (decode n1 r), snd (decode n1 r) ++ repeat PI n2).
Proof.
  intro Hw. unfold decode. cbn [fst snd]. f_equal.
  - rewrite get_pad_l by auto. ltb_cases; try reflexivity.
  - rewrite seq_app, map_app. f_equal.
    + apply map_ext_in. intros i Hi. apply in_seq in Hi. unfold pauli_at.
      rewrite !get_pad_l by auto. ltb_cases; try reflexivity; try (do 2 f_equal; lia).
    + rewrite (map_const _ PI).
      * rewrite seq_length. reflexivity.
      * intros i Hi. apply in_seq in Hi. unfold pauli_at. rewrite !get_pad_l by auto. ltb_cases; try reflexivity.
Qed.

Theorem pad_r_decode n1 n2 r : wf_row n2 r ->
  decode (n1 + n2) (pad_r n1 n2 r) = (fst (decode n2 r), repeat PI n1 ++ snd (decode n2 r)).
Proof.
  intro Hw. unfold decode. cbn [fst snd]. f_equal.
  - rewrite get_pad_r by auto. ltb_cases; try reflexivity.
  - rewrite seq_app, map_app. f_equal.
    + rewrite (map_const _ PI).
      * rewrite seq_length. reflexivity.
      * intros i Hi. apply in_seq in Hi. unfold pauli_at. rewrite !get_pad_r by auto. ltb_cases; try reflexivity.
    + cbn [Nat.add]. rewrite map_seq_off. apply map_ext_in. intros i Hi. apply in_seq in Hi. unfold pauli_at.
      rewrite !get_pad_r by auto. ltb_cases; try reflexivity; try (f_equal; f_equal; lia).
Qed.

(* tensor_spec, row level: the decoded rows of the tensor product are the rows of the first factor padded with
   identities on the right, followed by the rows of the second factor padded with identities on the left.
   (A state on 0 qubits has no generators; the code returns the other factor unchanged in that case.) *)
Theorem tensor_rows_spec n1 t1 n2 t2 : wf_tab n1 t1 -> wf_tab n2 t2 ->
  (n1 = 0 -> t1 = []) -> (n2 = 0 -> t2 = []) ->
  map (decode (n1 + n2)) (tensor n1 t1 n2 t2) =
  map (fun r => (fst (decode n1 r), snd (decode n1 r) ++ repeat PI n2)) t1 ++
  map (fun r => (fst (decode n2 r), repeat PI n1 ++ snd (decode n2 r))) t2.
Proof.
  intros W1 W2 Z1 Z2.
  destruct (Nat.eq_dec n1 0) as [E1|E1].
  { subst n1. rewrite (Z1 eq_refl). reflexivity. }
  destruct (Nat.eq_dec n2 0) as [E2|E2].
  { subst n2. rewrite (Z2 eq_refl). cbn [map]. rewrite app_nil_r.
    replace (tensor n1 t1 0 []) with t1 by (destruct n1; [lia|reflexivity]).
    rewrite Nat.add_0_r. apply map_ext. intro r. cbn [repeat]. rewrite app_nil_r. apply surjective_pairing. }
  rewrite tensor_rows by auto. rewrite map_app, !map_map. unfold wf_tab in *. rewrite Forall_forall in *.
  f_equal; apply map_ext_in; intros r Hr; [apply pad_l_decode | apply pad_r_decode]; auto.
Qed.

Lemma tensor_wf n1 t1 n2 t2 : wf_tab n1 t1 -> wf_tab n2 t2 -> wf_tab (n1 + n2) (tensor n1 t1 n2 t2).
Proof.
  intros W1 W2.
  destruct (Nat.eq_dec n1 0) as [E1|E1]; [subst; exact W2|].
  destruct (Nat.eq_dec n2 0) as [E2|E2].
  { subst. rewrite Nat.add_0_r. replace (tensor n1 t1 0 t2) with t1 by (destruct n1; [lia|reflexivity]). exact W1. }
  rewrite tensor_rows by auto. unfold wf_tab in *. rewrite Forall_forall in *. intros r Hr.
  apply in_app_iff in Hr. destruct Hr as [Hr|Hr]; apply in_map_iff in Hr; destruct Hr as (r0 & <- & Hr0);
    [apply pad_l_wf | apply pad_r_wf]; auto.
Qed.

Lemma tensor_length n1 t1 n2 t2 : (n1 = 0 -> t1 = []) -> (n2 = 0 -> t2 = []) ->
  length (tensor n1 t1 n2 t2) = length t1 + length t2.
Proof.
  intros Z1 Z2.
  destruct (Nat.eq_dec n1 0) as [E1|E1]; [subst; rewrite (Z1 eq_refl); reflexivity|].
  destruct (Nat.eq_dec n2 0) as [E2|E2].
  { subst. rewrite (Z2 eq_refl). destruct n1; [lia|]. simpl. lia. }
  rewrite tensor_rows by auto. rewrite app_length, !map_length. reflexivity.
Qed.

(* ---------- products of concatenated strings ------------------------------------------------------------- *)
Lemma pmul_l_app a : forall a' b b', length a = length a' ->
  pmul_l (a ++ b) (a' ++ b') =
  (padd (fst (pmul_l a a')) (fst (pmul_l b b')), snd (pmul_l a a') ++ snd (pmul_l b b')).
Proof.
  induction a as [|x a IH]; intros [|y a'] b b' HL; simpl in *; try discriminate.
  - destruct (pmul_l b b'); reflexivity.
  - rewrite IH by lia. cbn [fst snd]. rewrite padd_assoc. reflexivity.
Qed.

Lemma app_inj_len {A} (a : list A) : forall a' b b', length a = length a' -> a ++ b = a' ++ b' -> a = a' /\ b = b'.
Proof.
  induction a as [|x a IH]; intros [|y a'] b b' HL E; simpl in *; try discriminate; auto.
  injection E as -> E. destruct (IH a' b b') as [-> ->]; auto.
Qed.

Lemma ptensor_hom a b a' b' : length (snd a) = length (snd a') ->
  pmul (ptensor a b) (ptensor a' b') = ptensor (pmul a a') (pmul b b').
Proof.
  intro HL. destruct a as [ka a], b as [kb b], a' as [ka' a'], b' as [kb' b']. unfold pmul, ptensor. cbn [fst snd] in *.
  rewrite pmul_l_app by auto. cbn [fst snd]. f_equal.
  destruct ka, kb, ka', kb', (fst (pmul_l a a')), (fst (pmul_l b b')); reflexivity.
Qed.

Lemma ptensor_one n1 n2 : ptensor (pone n1) (pone n2) = pone (n1 + n2).
Proof. unfold ptensor, pone. cbn [fst snd padd]. rewrite repeat_app. reflexivity. Qed.

Lemma anti_l_app a : forall a' b b', length a = length a' ->
  anti_l (a ++ b) (a' ++ b') = xorb (anti_l a a') (anti_l b b').
Proof.
  induction a as [|x a IH]; intros [|y a'] b b' HL; simpl in *; try discriminate.
  - destruct (anti_l b b'); reflexivity.
  - rewrite IH by lia. rewrite xorb_assoc. reflexivity.
Qed.

Lemma pad_l_decode_ph n1 n2 r : wf_row n1 r ->
  decode_ph (n1 + n2) (pad_l n1 n2 r) = ptensor (decode_ph n1 r) (pone n2).
Proof.
  intro Hw. unfold decode_ph, lift, ptensor, pone. rewrite pad_l_decode by auto. cbn [fst snd]. rewrite padd_0_r. reflexivity.
Qed.
Lemma pad_r_decode_ph n1 n2 r : wf_row n2 r ->
  decode_ph (n1 + n2) (pad_r n1 n2 r) = ptensor (pone n1) (decode_ph n2 r).
Proof.
  intro Hw. unfold decode_ph, lift, ptensor, pone. rewrite pad_r_decode by auto. cbn [fst snd]. rewrite padd_0_l. reflexivity.
Qed.

Lemma ptensor_one_r a : ptensor a (pone 0) = a.
Proof. destruct a as [k a]. unfold ptensor, pone. cbn [fst snd repeat]. rewrite padd_0_r, app_nil_r. reflexivity. Qed.
Lemma ptensor_one_l a : ptensor (pone 0) a = a.
Proof. destruct a as [k a]. unfold ptensor, pone. cbn [fst snd repeat app]. rewrite padd_0_l. reflexivity. Qed.

Lemma gen_nil n a : gen n [] a -> a = pone n.
Proof.
  induction 1 as [|r Hr|a b Ga IHa Gb IHb]; auto; [destruct Hr|].
  subst. apply pmul_one_l. apply repeat_length.
Qed.

(* ---------- group level ---------------------------------------------------------------------------------- *)
Section TensorGroup.
  Variables n1 n2 : nat.
  Variables t1 t2 : tab.
  Hypothesis W1 : wf_tab n1 t1.
  Hypothesis W2 : wf_tab n2 t2.
  Let T := map (pad_l n1 n2) t1 ++ map (pad_r n1 n2) t2.

  Lemma wf1 r : In r t1 -> wf_row n1 r.
  Proof. unfold wf_tab in W1. rewrite Forall_forall in W1. auto. Qed.
  Lemma wf2 r : In r t2 -> wf_row n2 r.
  Proof. unfold wf_tab in W2. rewrite Forall_forall in W2. auto. Qed.

  Lemma gen_T_left a : gen n1 t1 a -> gen (n1 + n2) T (ptensor a (pone n2)).
  Proof.
    induction 1 as [|r Hr|a b Ga IHa Gb IHb].
    - rewrite ptensor_one. apply gen_one.
    - rewrite <- pad_l_decode_ph by (apply wf1; auto). apply gen_row. apply in_app_iff. left. apply in_map; auto.
    - replace (ptensor (pmul a b) (pone n2)) with (pmul (ptensor a (pone n2)) (ptensor b (pone n2))).
      + apply gen_mul; auto.
      + rewrite ptensor_hom by (rewrite (gen_length _ _ _ Ga), (gen_length _ _ _ Gb); reflexivity).
        rewrite pmul_one_l by apply repeat_length. reflexivity.
  Qed.

  Lemma gen_T_right b : gen n2 t2 b -> gen (n1 + n2) T (ptensor (pone n1) b).
  Proof.
    induction 1 as [|r Hr|a b Ga IHa Gb IHb].
    - rewrite ptensor_one. apply gen_one.
    - rewrite <- pad_r_decode_ph by (apply wf2; auto). apply gen_row. apply in_app_iff. right. apply in_map; auto.
    - replace (ptensor (pone n1) (pmul a b)) with (pmul (ptensor (pone n1) a) (ptensor (pone n1) b)).
      + apply gen_mul; auto.
      + rewrite ptensor_hom by reflexivity. rewrite pmul_one_l by apply repeat_length. reflexivity.
  Qed.

  Lemma gen_T_iff g : gen (n1 + n2) T g <-> exists a b, gen n1 t1 a /\ gen n2 t2 b /\ g = ptensor a b.
  Proof.
    split.
    - induction 1 as [|r Hr|x y Gx IHx Gy IHy].
      + exists (pone n1), (pone n2). repeat split; try apply gen_one. symmetry. apply ptensor_one.
      + unfold T in Hr. apply in_app_iff in Hr. destruct Hr as [Hr|Hr]; apply in_map_iff in Hr; destruct Hr as (r0 & <- & Hr0).
        * exists (decode_ph n1 r0), (pone n2). repeat split; [apply gen_row; auto | apply gen_one | apply pad_l_decode_ph, wf1; auto].
        * exists (pone n1), (decode_ph n2 r0). repeat split; [apply gen_one | apply gen_row; auto | apply pad_r_decode_ph, wf2; auto].
      + destruct IHx as (a & b & Ga & Gb & ->). destruct IHy as (a' & b' & Ga' & Gb' & ->).
        exists (pmul a a'), (pmul b b'). repeat split; try (apply gen_mul; auto).
        apply ptensor_hom. rewrite (gen_length _ _ _ Ga), (gen_length _ _ _ Ga'). reflexivity.
    - intros (a & b & Ga & Gb & ->).
      replace (ptensor a b) with (pmul (ptensor a (pone n2)) (ptensor (pone n1) b)).
      + apply gen_mul; [apply gen_T_left | apply gen_T_right]; auto.
      + rewrite ptensor_hom by (rewrite (gen_length _ _ _ Ga); symmetry; apply repeat_length).
        rewrite pmul_one_r by (eapply gen_length; eauto). rewrite pmul_one_l by (eapply gen_length; eauto). reflexivity.
  Qed.

  Lemma T_commuting : commuting n1 t1 -> commuting n2 t2 -> commuting (n1 + n2) T.
  Proof.
    intros C1 C2 a b Ha Hb. unfold T in Ha, Hb. rewrite symp_decode.
    apply in_app_iff in Ha, Hb.
    destruct Ha as [Ha|Ha]; apply in_map_iff in Ha; destruct Ha as (a0 & <- & Ha0);
    destruct Hb as [Hb|Hb]; apply in_map_iff in Hb; destruct Hb as (b0 & <- & Hb0);
      rewrite ?pad_l_decode, ?pad_r_decode by (apply wf1 || apply wf2; auto); cbn [snd].
    - rewrite anti_l_app by (rewrite !decode_length; reflexivity). rewrite anti_l_repeat_PI_r, <- symp_decode, C1; auto.
    - rewrite anti_l_app by (rewrite decode_length, repeat_length; reflexivity).
      rewrite anti_l_repeat_PI_r, anti_l_repeat_PI_l. reflexivity.
    - rewrite anti_l_app by (rewrite decode_length, repeat_length; reflexivity).
      rewrite anti_l_repeat_PI_r, anti_l_repeat_PI_l. reflexivity.
    - rewrite anti_l_app by (rewrite !repeat_length; reflexivity). rewrite anti_l_repeat_PI_r, <- symp_decode, C2; auto.
  Qed.

  Lemma gprod_T_right : forall u sel, (forall r, In r u -> wf_row n2 r) ->
    gprod (n1 + n2) sel (map (pad_r n1 n2) u) = ptensor (pone n1) (gprod n2 sel u).
  Proof.
    induction u as [|r u IH]; intros sel Hu.
    - destruct sel; cbn [map gprod]; symmetry; apply ptensor_one.
    - destruct sel as [|s sel]; cbn [map gprod]; [symmetry; apply ptensor_one|].
      rewrite IH by (intros; apply Hu; right; auto). destruct s; auto.
      rewrite pad_r_decode_ph by (apply Hu; left; auto). rewrite ptensor_hom by reflexivity.
      rewrite pmul_one_l by apply repeat_length. reflexivity.
  Qed.

  Lemma gprod_T : forall u sel, (forall r, In r u -> wf_row n1 r) ->
    gprod (n1 + n2) sel (map (pad_l n1 n2) u ++ map (pad_r n1 n2) t2) =
    ptensor (gprod n1 (firstn (length u) sel) u) (gprod n2 (skipn (length u) sel) t2).
  Proof.
    induction u as [|r u IH]; intros sel Hu.
    - cbn [map app length firstn skipn]. rewrite gprod_T_right by (apply wf2).
      destruct sel; reflexivity.
    - destruct sel as [|s sel]; cbn [map app length firstn skipn gprod].
      + replace (gprod n2 [] t2) with (pone n2) by (destruct t2; reflexivity). symmetry; apply ptensor_one.
      + rewrite IH by (intros; apply Hu; right; auto). destruct s; auto.
        rewrite pad_l_decode_ph by (apply Hu; left; auto).
        rewrite ptensor_hom by (rewrite decode_ph_length, gprod_length; reflexivity).
        rewrite pmul_one_l by apply gprod_length. reflexivity.
  Qed.

  Lemma T_independent : independent n1 t1 -> independent n2 t2 -> independent (n1 + n2) T.
  Proof.
    intros I1 I2 sel HL E. unfold T in *. rewrite app_length, !map_length in HL.
    rewrite gprod_T in E by apply wf1. unfold ptensor in E. cbn [snd] in E. rewrite repeat_app in E.
    apply app_inj_len in E.
    - destruct E as [E1 E2].
      apply I1 in E1; [|rewrite firstn_length; lia]. apply I2 in E2; [|rewrite skipn_length; lia].
      rewrite <- (firstn_skipn (length t1) sel), forallb_app, E1, E2. reflexivity.
    - rewrite gprod_length, repeat_length. reflexivity.
  Qed.
End TensorGroup.

(* tensor_spec, group level: the group generated by the tensor product is the product group *)
Theorem tensor_group n1 t1 n2 t2 : wf_tab n1 t1 -> wf_tab n2 t2 ->
  (n1 = 0 -> t1 = []) -> (n2 = 0 -> t2 = []) ->
  forall g, gen (n1 + n2) (tensor n1 t1 n2 t2) g <->
            exists a b, gen n1 t1 a /\ gen n2 t2 b /\ g = ptensor a b.
Proof.
  intros W1 W2 Z1 Z2 g.
  destruct (Nat.eq_dec n1 0) as [E1|E1].
  { subst n1. rewrite (Z1 eq_refl). cbn [tensor Nat.add]. split.
    - intro G. exists (pone 0), g. repeat split; [apply gen_one | auto | symmetry; apply ptensor_one_l].
    - intros (a & b & Ga & Gb & ->). apply gen_nil in Ga. subst a. rewrite ptensor_one_l. exact Gb. }
  destruct (Nat.eq_dec n2 0) as [E2|E2].
  { subst n2. rewrite (Z2 eq_refl). replace (tensor n1 t1 0 []) with t1 by (destruct n1; [lia|reflexivity]).
    rewrite Nat.add_0_r. split.
    - intro G. exists g, (pone 0). repeat split; [auto | apply gen_one | symmetry; apply ptensor_one_r].
    - intros (a & b & Ga & Gb & ->). apply gen_nil in Gb. subst b. rewrite ptensor_one_r. exact Ga. }
  rewrite tensor_rows by auto. apply gen_T_iff; auto.
Qed.

Theorem tensor_commuting n1 t1 n2 t2 : wf_tab n1 t1 -> wf_tab n2 t2 ->
  commuting n1 t1 -> commuting n2 t2 -> commuting (n1 + n2) (tensor n1 t1 n2 t2).
Proof.
  intros W1 W2 C1 C2.
  destruct (Nat.eq_dec n1 0) as [E1|E1]; [subst; exact C2|].
  destruct (Nat.eq_dec n2 0) as [E2|E2].
  { subst. rewrite Nat.add_0_r. replace (tensor n1 t1 0 t2) with t1 by (destruct n1; [lia|reflexivity]). exact C1. }
  rewrite tensor_rows by auto. apply T_commuting; auto.
Qed.

Theorem tensor_independent n1 t1 n2 t2 : wf_tab n1 t1 -> wf_tab n2 t2 ->
  (n1 = 0 -> t1 = []) -> (n2 = 0 -> t2 = []) ->
  independent n1 t1 -> independent n2 t2 -> independent (n1 + n2) (tensor n1 t1 n2 t2).
Proof.
  intros W1 W2 Z1 Z2 I1 I2.
  destruct (Nat.eq_dec n1 0) as [E1|E1]; [subst; exact I2|].
  destruct (Nat.eq_dec n2 0) as [E2|E2].
  { subst. rewrite Nat.add_0_r. replace (tensor n1 t1 0 t2) with t1 by (destruct n1; [lia|reflexivity]). exact I1. }
  rewrite tensor_rows by auto. apply T_independent; auto.
Qed.

(* ---------- add_qubit = tensor with |0> ------------------------------------------------------------------ *)
Definition zero1 : tab := [[false; true; false]].

Lemma zero1_wf : wf_tab 1 zero1.
Proof. repeat constructor. Qed.

Lemma gen_zero1 b : gen 1 zero1 b <-> (b = pone 1 \/ b = (P0, [PZ])).
Proof.
  split.
  - induction 1 as [|r Hr|x y Gx IHx Gy IHy].
    + left; reflexivity.
    + destruct Hr as [<-|[]]. right. reflexivity.
    + destruct IHx as [->| ->], IHy as [->| ->]; [left|right|right|left]; reflexivity.
  - intros [->| ->]; [apply gen_one|]. apply (gen_row 1 zero1 [false; true; false]). left; reflexivity.
Qed.

(* add_qubit_spec, row level: old rows padded with I, plus the new generator +Z on the new (last) qubit *)
Theorem add_qubit_rows_spec n t : wf_tab n t -> (n = 0 -> t = []) ->
  map (decode (n + 1)) (add_qubit n t) =
  map (fun r => (fst (decode n r), snd (decode n r) ++ [PI])) t ++ [(false, repeat PI n ++ [PZ])].
Proof.
  intros W Z. unfold add_qubit. rewrite tensor_rows_spec; auto using zero1_wf. discriminate.
Qed.

(* add_qubit_spec, group level *)
Theorem add_qubit_group n t : wf_tab n t -> (n = 0 -> t = []) ->
  forall g, gen (n + 1) (add_qubit n t) g <->
            exists a, gen n t a /\ (g = ptensor a (pone 1) \/ g = ptensor a (P0, [PZ])).
Proof.
  intros W Z g. unfold add_qubit. fold zero1. rewrite tensor_group; auto using zero1_wf; [|discriminate]. split.
  - intros (a & b & Ga & Gb & ->). apply gen_zero1 in Gb. exists a. destruct Gb as [->| ->]; auto.
  - intros (a & Ga & [->| ->]); exists a; [exists (pone 1) | exists (P0, [PZ])]; repeat split; auto; apply gen_zero1; auto.
Qed.

Theorem add_qubit_valid n t : wf_tab n t -> (n = 0 -> t = []) ->
  commuting n t -> independent n t ->
  wf_tab (n + 1) (add_qubit n t) /\ commuting (n + 1) (add_qubit n t) /\ independent (n + 1) (add_qubit n t) /\
  length (add_qubit n t) = length t + 1.
Proof.
  intros W Z C I. unfold add_qubit. fold zero1.
  assert (C0 : commuting 1 zero1) by (intros a b [<-|[]] [<-|[]]; reflexivity).
  assert (I0 : independent 1 zero1).
  { intros sel HL E. destruct sel as [|s [|s' sel]]; simpl in HL; try discriminate. destruct s; [discriminate E|reflexivity]. }
  repeat split.
  - apply tensor_wf; auto using zero1_wf.
  - apply tensor_commuting; auto using zero1_wf.
  - apply tensor_independent; auto using zero1_wf. discriminate.
  - rewrite tensor_length; auto. discriminate.
Qed.
