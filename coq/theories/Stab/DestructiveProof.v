(* Destructive measurement, random branch, at group level: the (n-1)-qubit result generates exactly the elements of
   the in-place group that act as I on the measured qubit, with that position deleted (remaining positions in order);
   its n-1 generators commute and are independent. *)
From Coq Require Import List Bool Arith Lia.
From SQ Require Import Base.ListUtil Stab.Pauli Stab.Kernels Stab.Gates Stab.Tableau Stab.Group Stab.GroupGates
  Stab.MulProof Stab.GaussProof Stab.MeasureProof Stab.TensorProof Stab.PermProof Stab.MeasureOrig
  Stab.F2 Stab.Rref Stab.GaussIndep Stab.Bridge.
Import ListNotations.

(* delete the two columns of the (front) measured qubit *)
Definition drop0 (n : nat) (r : row) : row := firstn (n - 1) (skipn 1 r) ++ skipn (n + 1) r.
Definition dest_row (n : nat) (coin : bool) (r : row) : row :=
  drop0 n (if coin then flip_if (get r n) r (2 * n) else r).

Definition pcons (x : pauli) (g : pstr) : pstr := (fst g, x :: snd g).
Definition remove_at (p : nat) (l : list pauli) : list pauli := firstn p l ++ skipn (S p) l.

Lemma measure_random_destructive n p coin t : random_branch n p t = true ->
  measure n p false coin t = (coin, n - 1, map (dest_row n coin) (skipn 1 (eliminated n p t))).
Proof.
  unfold random_branch, measure, eliminated, dest_row, drop0. intros ->. cbn [negb].
  destruct coin; rewrite ?skipn_map, ?map_map; reflexivity.
Qed.

Lemma get_drop0 n r j : 1 <= n -> wf_row n r ->
  get (drop0 n r) j = if Nat.ltb j (n - 1) then get r (j + 1) else get r (j + 2).
Proof.
  intros Hn Hw. unfold wf_row in Hw. unfold drop0. rewrite get_app.
  assert (L : length (firstn (n - 1) (skipn 1 r)) = n - 1) by (rewrite firstn_length, skipn_length; lia).
  rewrite L. destruct (Nat.ltb_spec j (n - 1)).
  - rewrite get_firstn. destruct (Nat.ltb_spec j (n - 1)); [|lia]. rewrite get_skipn. f_equal. lia.
  - rewrite get_skipn. f_equal. lia.
Qed.

Lemma drop0_wf n r : 1 <= n -> wf_row n r -> wf_row (n - 1) (drop0 n r).
Proof.
  intros Hn Hw. unfold wf_row in *. unfold drop0. rewrite app_length, firstn_length, !skipn_length. lia.
Qed.

Lemma drop0_decode n r : 1 <= n -> wf_row n r ->
  decode (n - 1) (drop0 n r) = (fst (decode n r), tl (snd (decode n r))).
Proof.
  intros Hn Hw. unfold decode. cbn [fst snd]. f_equal.
  - rewrite get_drop0 by auto. destruct (Nat.ltb_spec (2 * (n - 1)) (n - 1)); f_equal; lia.
  - rewrite (seq_0_S n Hn). cbn [map tl]. rewrite (map_seq_off (n - 1) (pauli_at n r) 1).
    apply map_ext_in. intros i Hi. apply in_seq in Hi. unfold pauli_at. rewrite !get_drop0 by auto.
    destruct (Nat.ltb_spec i (n - 1)); [|lia]. destruct (Nat.ltb_spec (i + (n - 1)) (n - 1)); [lia|].
    f_equal; f_equal; lia.
Qed.

Lemma flip_row_wf n (b : bool) r : wf_row n r -> wf_row n (if b then flip_if (get r n) r (2 * n) else r).
Proof. unfold wf_row. intro H. destruct b; rewrite ?flip_if_length; auto. Qed.

Lemma dest_row_wf n coin r : 1 <= n -> wf_row n r -> wf_row (n - 1) (dest_row n coin r).
Proof. intros Hn Hw. apply drop0_wf; auto. apply flip_row_wf; auto. Qed.

(* the in-place row is the destructive row with an identity put back in front *)
Lemma dest_core n coin r : 1 <= n -> wf_row n r -> get r 0 = false ->
  decode_ph n (core_row n coin r) = pcons PI (decode_ph (n - 1) (dest_row n coin r)).
Proof.
  intros Hn Hw H0. unfold decode_ph, lift, pcons, dest_row. rewrite drop0_decode by (auto; apply flip_row_wf; auto).
  unfold decode. cbn [fst snd]. f_equal.
  - f_equal. rewrite get_core_row by auto.
    destruct (Nat.eqb_spec (2 * n) n); [lia|]. rewrite Nat.eqb_refl.
    destruct coin; auto. rewrite get_flip_if. unfold wf_row in Hw. rewrite Hw, Nat.eqb_refl.
    destruct (Nat.ltb_spec (2 * n) (2 * n + 1)); [reflexivity|lia].
  - rewrite (seq_0_S n Hn). cbn [map tl]. f_equal.
    + unfold pauli_at. rewrite !get_core_row by auto. rewrite Nat.add_0_l.
      destruct (Nat.eqb_spec 0 n); [lia|]. destruct (Nat.eqb_spec 0 (2 * n)); [lia|].
      rewrite Nat.eqb_refl, H0. reflexivity.
    + apply map_ext_in. intros i Hi. apply in_seq in Hi. unfold pauli_at. rewrite !get_core_row by auto.
      destruct (Nat.eqb_spec i n); [lia|]. destruct (Nat.eqb_spec i (2 * n)); [lia|].
      destruct (Nat.eqb_spec (i + n) n); [lia|]. destruct (Nat.eqb_spec (i + n) (2 * n)); [lia|].
      destruct coin; auto. rewrite !get_flip_if.
      destruct (Nat.eqb_spec (2 * n) i); [lia|]. destruct (Nat.eqb_spec (2 * n) (i + n)); [lia|]. reflexivity.
Qed.

(* ---------- pcons PI is an injective homomorphism ---------------------------------------------------------- *)
Lemma pcons_hom a b : pmul (pcons PI a) (pcons PI b) = pcons PI (pmul a b).
Proof. destruct a as [ka a], b as [kb b]. unfold pmul, pcons. cbn [fst snd pmul_l pmul1]. rewrite padd_0_l. reflexivity. Qed.

Lemma pcons_one n : 1 <= n -> pcons PI (pone (n - 1)) = pone n.
Proof. intro H. unfold pcons, pone. cbn [fst snd]. destruct n; [lia|]. simpl. rewrite Nat.sub_0_r. reflexivity. Qed.

Section Lift0.
  Variable n : nat.
  Hypothesis Hn : 1 <= n.
  Variable R : tab.
  Variables c d : row -> row.
  Hypothesis Hcd : forall r, In r R -> decode_ph n (c r) = pcons PI (decode_ph (n - 1) (d r)).

  Lemma lift0_fwd g' : gen n (map c R) g' -> exists g, gen (n - 1) (map d R) g /\ g' = pcons PI g.
  Proof.
    induction 1 as [|r Hr|a b Ga IHa Gb IHb].
    - exists (pone (n - 1)). split; [apply gen_one|]. symmetry. apply pcons_one; auto.
    - apply in_map_iff in Hr. destruct Hr as (r0 & <- & Hr0). exists (decode_ph (n - 1) (d r0)).
      split; [apply gen_row, in_map; auto|]. apply Hcd; auto.
    - destruct IHa as (a0 & Ga0 & ->), IHb as (b0 & Gb0 & ->). exists (pmul a0 b0).
      split; [apply gen_mul; auto|]. apply pcons_hom.
  Qed.

  Lemma lift0_bwd g : gen (n - 1) (map d R) g -> gen n (map c R) (pcons PI g).
  Proof.
    induction 1 as [|r Hr|a b Ga IHa Gb IHb].
    - rewrite pcons_one by auto. apply gen_one.
    - apply in_map_iff in Hr. destruct Hr as (r0 & <- & Hr0). rewrite <- Hcd by auto. apply gen_row, in_map; auto.
    - rewrite <- pcons_hom. apply gen_mul; auto.
  Qed.

  Lemma lift0_gprod : forall sel, gprod n sel (map c R) = pcons PI (gprod (n - 1) sel (map d R)).
  Proof.
    revert Hcd. induction R as [|r R' IH]; intros H sel.
    - destruct sel; cbn [map gprod]; symmetry; apply pcons_one; auto.
    - destruct sel as [|s sel]; cbn [map gprod]; [symmetry; apply pcons_one; auto|].
      rewrite IH by (intros; apply H; right; auto). destruct s; auto.
      rewrite H by (left; auto). apply pcons_hom.
  Qed.

  Lemma lift0_commuting : commuting n (map c R) -> commuting (n - 1) (map d R).
  Proof.
    intros C a b Ha Hb. apply in_map_iff in Ha, Hb. destruct Ha as (a0 & <- & Ha0), Hb as (b0 & <- & Hb0).
    specialize (C (c a0) (c b0) (in_map c R a0 Ha0) (in_map c R b0 Hb0)).
    rewrite symp_decode in *.
    change (snd (decode n (c a0))) with (snd (decode_ph n (c a0))) in C.
    change (snd (decode n (c b0))) with (snd (decode_ph n (c b0))) in C.
    rewrite !Hcd in C by auto. unfold pcons in C. cbn [snd anti_l] in C.
    change (anticomm1 PI PI) with false in C. rewrite xorb_false_l in C. exact C.
  Qed.

  Lemma lift0_independent : independent n (map c R) -> independent (n - 1) (map d R).
  Proof.
    intros I sel HL E. apply I; [rewrite map_length in *; auto|].
    rewrite lift0_gprod. unfold pcons; cbn [snd]. rewrite E. destruct n; [lia|]. simpl. rewrite Nat.sub_0_r. reflexivity.
  Qed.
End Lift0.

(* ---------- independence of the in-place result (frame with the measured qubit first) -------------------- *)
Lemma independent_tail n r t : independent n (r :: t) -> independent n t.
Proof.
  intros I sel HL E. specialize (I (false :: sel)). cbn [gprod length forallb negb andb] in I. apply I; auto.
Qed.

Lemma gprod_gen n t : forall sel, gen n t (gprod n sel t).
Proof.
  induction t as [|r t IH]; intros [|s sel]; cbn [gprod]; try apply gen_one.
  assert (Incl : forall x, gen n t x -> gen n (r :: t) x).
  { apply gen_incl. intros r' Hr. apply gen_row. right; auto. }
  destruct s; [apply gen_mul; [apply gen_row; left; auto|]|]; apply Incl, IH.
Qed.

Lemma tl_pmul_l a b : tl (snd (pmul_l a b)) = snd (pmul_l (tl a) (tl b)).
Proof. destruct a as [|x a], b as [|y b]; simpl; auto. destruct a; reflexivity. Qed.

Lemma repeat_PI_S n : 1 <= n -> repeat PI n = PI :: repeat PI (n - 1).
Proof. intro H. destruct n; [lia|]. simpl. rewrite Nat.sub_0_r. reflexivity. Qed.

Section CoreIndep.
  Variable n : nat.
  Variable coin : bool.
  Variable r0 : row.
  Variable R : tab.
  Hypothesis Hn : 1 <= n.
  Hypothesis Hw : wf_tab n (r0 :: R).
  Hypothesis Hc : commuting n (r0 :: R).
  Hypothesis Hi : independent n (r0 :: R).
  Hypothesis H0 : get r0 0 = true.
  Hypothesis HR : forall r, In r R -> get r 0 = false.

  Lemma wfR r : In r R -> wf_row n r.
  Proof. intro H. unfold wf_tab in Hw. rewrite Forall_forall in Hw. apply Hw. right; auto. Qed.

  (* tails of the products agree, heads are I for the edited rows *)
  Lemma core_gprod_tl : forall sel,
    tl (snd (gprod n sel (map (core_row n coin) R))) = tl (snd (gprod n sel R)) /\
    hd PI (snd (gprod n sel (map (core_row n coin) R))) = PI.
  Proof.
    assert (K : forall u, (forall r, In r u -> In r R) -> forall sel,
      tl (snd (gprod n sel (map (core_row n coin) u))) = tl (snd (gprod n sel u)) /\
      hd PI (snd (gprod n sel (map (core_row n coin) u))) = PI).
    { induction u as [|r u IH]; intros Hu sel.
      - destruct sel; cbn [map gprod]; split; auto; unfold pone; cbn [snd]; rewrite repeat_PI_S by auto; reflexivity.
      - destruct sel as [|s sel]; cbn [map gprod].
        + split; auto. unfold pone; cbn [snd]; rewrite repeat_PI_S by auto; reflexivity.
        + destruct (IH (fun x Hx => Hu x (or_intror Hx)) sel) as [T H]. destruct s; auto.
          assert (Hr : In r R) by (apply Hu; left; auto).
          pose proof (core_row_spec n coin r Hn (wfR r Hr) (HR r Hr)) as E.
          assert (Etl : tl (snd (decode_ph n (core_row n coin r))) = tl (snd (decode_ph n r))).
          { destruct (get r n); rewrite E; auto. unfold pmul; cbn [snd]. rewrite tl_pmul_l.
            rewrite decode_zrow by auto. cbn [snd tl]. rewrite pmul_l_one_r; auto.
            assert (L : length (snd (decode_ph n r)) = n) by apply decode_ph_length.
            destruct (snd (decode_ph n r)); simpl in *; lia. }
          assert (Ehd : hd PI (snd (decode_ph n (core_row n coin r))) = PI).
          { rewrite (dest_core n coin r Hn (wfR r Hr) (HR r Hr)). reflexivity. }
          unfold pmul; cbn [snd]. split.
          * rewrite !tl_pmul_l, T, Etl. reflexivity.
          * destruct (snd (decode_ph n (core_row n coin r))) as [|x l] eqn:E1;
              destruct (snd (gprod n sel (map (core_row n coin) u))) as [|y l'] eqn:E2; simpl in *; auto.
            subst. reflexivity. }
    apply K. auto.
  Qed.

  (* the head of a product of rows without X/Y in front is I or Z *)
  Lemma R_gprod_hd : forall sel, xbit (hd PI (snd (gprod n sel R))) = false.
  Proof.
    intro sel.
    assert (G : gen n R (gprod n sel R)) by apply gprod_gen.
    pose proof (gen_col0_clear n R Hn HR _ G) as A.
    assert (L : length (snd (gprod n sel R)) = n) by apply gprod_length.
    destruct (snd (gprod n sel R)) as [|x l]; [reflexivity|].
    unfold z0 in A. cbn [anti_l hd] in *. rewrite anti_l_repeat_PI_r in A. destruct x; simpl in *; auto; discriminate.
  Qed.

  Theorem core_inplace_independent : independent n (core_inplace n coin (r0 :: R)).
  Proof.
    unfold core_inplace. cbn [skipn]. intros sel HL E.
    destruct sel as [|s sel]; [simpl in HL; discriminate|]. cbn [length map] in HL. cbn [gprod] in E.
    destruct (core_gprod_tl sel) as [T H].
    set (P := gprod n sel (map (core_row n coin) R)) in *.
    assert (LP : length (snd P) = n) by apply gprod_length.
    (* the new generator is not selected *)
    assert (Hs : s = false).
    { destruct s; auto. exfalso. unfold pmul in E; cbn [snd] in E. rewrite decode_zrow in E by auto. cbn [snd] in E.
      destruct (snd P) as [|x l]; [simpl in LP; lia|]. cbn [hd] in H. subst x.
      rewrite (repeat_PI_S n Hn) in E. simpl in E. discriminate E. }
    subst s. cbn [forallb negb andb].
    (* hence the product of the selected old rows is I or Z_0; Z_0 is excluded since it anticommutes with row 0 *)
    set (Q := gprod n sel R) in *.
    assert (LQ : length (snd Q) = n) by apply gprod_length.
    assert (TQ : tl (snd Q) = repeat PI (n - 1)).
    { rewrite <- T, E. rewrite (repeat_PI_S n Hn). reflexivity. }
    pose proof (R_gprod_hd sel) as XQ. fold Q in XQ.
    assert (GQ : gen n (r0 :: R) Q).
    { pose proof (gprod_gen n (r0 :: R) (false :: sel)) as G. exact G. }
    assert (A0 : anti_l (snd Q) (snd (decode_ph n r0)) = false).
    { apply (gen_commute_row n (r0 :: R)); auto. left; auto. }
    clear T. destruct (snd Q) as [|x l] eqn:EQ; [simpl in LQ; lia|]. cbn [tl hd] in *. subst l.
    destruct x; try discriminate XQ.
    - (* I: independence of the eliminated tableau *)
      pose proof (Hi (false :: sel)) as Hi'. cbn [gprod length forallb negb andb] in Hi'.
      rewrite map_length in HL. apply Hi'; [lia|].
      fold Q. rewrite EQ. rewrite (repeat_PI_S n Hn). reflexivity.
    - exfalso. change (PZ :: repeat PI (n - 1)) with (z0 n) in A0. rewrite anti_l_sym, anti_row_z0 in A0 by auto.
      congruence.
  Qed.
End CoreIndep.

(* ---------- assembled: destructive measurement, random branch, original frame ------------------------------ *)
Lemma pcons_inj x a b : pcons x a = pcons x b -> a = b.
Proof. destruct a, b. unfold pcons; cbn [fst snd]. intro H. injection H as -> ->. reflexivity. Qed.

Theorem meas_random_destructive n p coin t : p < n -> wf_tab n t -> commuting n t -> random_branch n p t = true ->
  exists res resd,
    measure n p true coin t = (coin, n, res) /\ measure n p false coin t = (coin, n - 1, resd) /\
    wf_tab (n - 1) resd /\ commuting (n - 1) resd /\ length resd = length t - 1 /\
    (forall g, gen (n - 1) resd g <->
       exists g', gen n res g' /\ nth p (snd g') PI = PI /\ g = (fst g', remove_at p (snd g'))) /\
    (independent n t -> independent n res /\ independent (n - 1) resd).
Proof.
  intros Hp Hw Hc Hr.
  assert (Hn : 1 <= n) by lia.
  assert (Wf : wf_tab n (framed n p t)) by (apply perm_wf; auto).
  assert (Cf : commuting n (framed n p t)) by (apply perm_commuting; auto).
  destruct (meas_random_framed n p coin t Hn Wf Cf Hr) as (Em & Gt & R0 & Rrest & Gci).
  pose proof (measure_random_destructive n p coin t Hr) as Ed.
  set (tmp := eliminated n p t) in *.
  assert (Wt : wf_tab n tmp) by (apply gauss_wf; auto).
  assert (Ct : commuting n tmp) by (apply gauss_commuting; auto).
  assert (Lt : length tmp = length t).
  { unfold tmp, eliminated. rewrite gauss_length by auto. unfold framed. apply map_length. }
  destruct tmp as [|r0 R] eqn:Etmp; [unfold get in R0; simpl in R0; discriminate|].
  cbn [skipn] in *. cbn [nth] in R0.
  assert (HR : forall r, In r R -> get r 0 = false).
  { intros r Hin. apply (@In_nth row _ _ []) in Hin. destruct Hin as (j & Hj & <-).
    apply (Rrest (S j)). simpl. lia. }
  assert (WR : forall r, In r R -> wf_row n r).
  { intros r Hin. unfold wf_tab in Wt. rewrite Forall_forall in Wt. apply Wt. right; auto. }
  set (CI := core_inplace n coin (r0 :: R)) in *.
  set (CR := map (core_row n coin) R).
  set (D := map (dest_row n coin) R) in *.
  assert (ECI : CI = zrow n coin :: CR) by reflexivity.
  assert (Wci : wf_tab n CI) by (apply core_inplace_wf; auto).
  assert (Hcd : forall r, In r R -> decode_ph n (core_row n coin r) = pcons PI (decode_ph (n - 1) (dest_row n coin r))).
  { intros r Hin. apply dest_core; auto. }
  (* commuting of the in-place rows *)
  assert (CRr : commuting n R).
  { apply (commuting_of_in n (r0 :: R)); auto. intros r Hin. right; auto. }
  assert (CU : commuting n (zrow n coin :: R)).
  { apply commuting_cons; auto. intros r Hin. rewrite symp_decode.
    change (snd (decode n (zrow n coin))) with (snd (decode_ph n (zrow n coin))). rewrite decode_zrow' by auto. cbn [snd].
    rewrite anti_l_sym. change (snd (decode n r)) with (snd (decode_ph n r)). rewrite anti_row_z0 by auto. auto. }
  assert (Cci : commuting n CI).
  { apply (commuting_of_gen n (zrow n coin :: R)); auto. intros r Hin. apply Gci. apply gen_row; auto. }
  assert (Ccr : commuting n CR).
  { apply (commuting_of_in n CI); auto. intros r Hin. rewrite ECI. right; auto. }
  (* elements of <CR> have I in front, hence commute with Z_0 *)
  assert (Cent : forall h, gen n CR h -> anti_l (snd h) (snd (decode_ph n (zrow n coin))) = false).
  { intros h Gh. apply (lift0_fwd n Hn R _ _ Hcd) in Gh. destruct Gh as (g2 & _ & ->).
    rewrite decode_zrow' by auto. unfold pcons, z0. cbn [snd anti_l]. rewrite anti_l_repeat_PI_r. reflexivity. }
  exists (map (unperm_row n p) CI), D. split; [exact Em|]. split; [exact Ed|].
  split.
  { unfold wf_tab. rewrite Forall_forall. intros r Hin. apply in_map_iff in Hin. destruct Hin as (r1 & <- & Hin).
    apply dest_row_wf; auto. }
  split; [apply (lift0_commuting n R _ _ Hcd); auto|].
  split; [unfold D; rewrite map_length; simpl in Lt; lia|].
  split.
  - intro g. split.
    + intro Gg.
      assert (Lg : length (snd g) = n - 1) by (eapply gen_length; eauto).
      exists (punframe p (pcons PI g)).
      assert (E1 : pframe p (punframe p (pcons PI g)) = pcons PI g).
      { apply pframe_punframe. unfold pcons; cbn [snd length]. lia. }
      split; [|split].
      * apply (unperm_group n p CI Hp Wci). exists (pcons PI g). split; auto.
        rewrite ECI. apply gen_tail. apply (lift0_bwd n Hn R _ _ Hcd). auto.
      * change (nth p (snd (punframe p (pcons PI g))) PI) with (hd PI (snd (pframe p (punframe p (pcons PI g))))).
        rewrite E1. reflexivity.
      * change (remove_at p (snd (punframe p (pcons PI g)))) with (tl (snd (pframe p (punframe p (pcons PI g))))).
        rewrite E1. destruct g; reflexivity.
    + intros (g' & Gg' & Hnth & ->).
      apply (unperm_group n p CI Hp Wci) in Gg'. destruct Gg' as (g1 & G1 & ->).
      assert (L1 : length (snd g1) = n) by (eapply gen_length; eauto).
      change (nth p (snd (punframe p g1)) PI) with (hd PI (snd (pframe p (punframe p g1)))) in Hnth.
      change (remove_at p (snd (punframe p g1))) with (tl (snd (pframe p (punframe p g1)))).
      rewrite pframe_punframe in * by lia.
      replace (fst (punframe p g1)) with (fst g1) by reflexivity.
      rewrite ECI in G1. apply (gen_cons_central n _ CR Cent) in G1. destruct G1 as (h & Gh & E).
      apply (lift0_fwd n Hn R _ _ Hcd) in Gh. destruct Gh as (g2 & G2 & ->).
      destruct E as [->| ->].
      * destruct g2; exact G2.
      * exfalso. rewrite decode_zrow' in Hnth by auto. unfold pmul, pcons, z0 in Hnth. cbn [snd pmul_l hd pmul1] in Hnth.
        discriminate Hnth.
  - intro Hi.
    assert (Ifr : independent n (framed n p t)) by (apply perm_independent; auto).
    assert (Itmp : independent n (r0 :: R)).
    { rewrite <- Etmp. unfold tmp, eliminated. apply gauss_independent; auto. }
    assert (Ici : independent n CI) by (apply core_inplace_independent; auto).
    split; [apply unperm_independent; auto|].
    apply (lift0_independent n Hn R _ _ Hcd). rewrite ECI in Ici. eapply independent_tail; eauto.
Qed.
