"""C12 — the configured topology decides who may generate entanglement with whom.
   PARTS is the list of sub-checks run by run(ctx); each is a function part(ctx, env) that registers obligations,
   counts coverage and returns a list of (key, description, replay_obj) failures judged by the property oracle.

   decision_part (this file):
     obligations  : Gen/AdjacentGen.v (is_adjacent regenerated from factory.py = Qasm.Topo.is_adjacent for all topologies;
                    order of the three refusals and of the first cmd_new in cmd_epr; source of self.topology), Properties/C12.v
     correspondence: the REAL NetQASMFactory (topology loaded from a real network config file through
                    NetworksConfigConstructor) and the REAL VanillaSimulaQronExecutioner.cmd_epr (its cmd_new replaced
                    by a sentinel) over ALL directed topologies on <= 3 nodes x all ordered pairs (unknown node included)
                    and random ones up to 5 nodes; Coq decides agreement with is_adjacent / epr_check / may_create
     oracle       : the iff of the property evaluated in Python
   An end-to-end part (a refused request creates no qubits on any node; host-visible ErrorMessage) is to be appended
   to PARTS on top of the NetQASM harness."""
import itertools
import json
import os

import common


# ------------------------------------------------------------------------------------------------------
# literals
# ------------------------------------------------------------------------------------------------------
def cstr(s):
    return '"' + s.replace('"', '""') + '"'


def cnames(l):
    return "[" + "; ".join(cstr(x) for x in l) + "]"


def ctopo(t):
    if t is None:
        return "None"
    return "(Some [" + "; ".join("(%s, %s)" % (cstr(k), cnames(v)) for k, v in t.items()) + "])"


VERDICTS = {"unknown": "RefuseUnknown", "self": "RefuseSelf", "adjacent": "RefuseNotAdjacent", "create": "Create"}


def tcase_text(c):
    return ("{| t_topo := %s; t_known := %s; t_self := %s; t_r := %s; t_adj := %s; t_created := %s; t_verdict := %s |}"
            % (ctopo(c["topo"]), cnames(c["known"]), cstr(c["self"]), cstr(c["r"]),
               "true" if c["adj"] else "false", "true" if c["created"] else "false",
               "None" if c["verdict"] is None else "(Some %s)" % VERDICTS[c["verdict"]]))


def cases_text(cs):
    return ("From Coq Require Import List String Bool.\nImport ListNotations.\n"
            "From SQ Require Import Base.ListUtil Qasm.Topo.\nOpen Scope string_scope.\n"
            "Definition cases : list tcase := [\n" + ";\n".join(tcase_text(c) for c in cs) + "\n].\n"
            "Eval vm_compute in failing_tcases cases.\n")


# ------------------------------------------------------------------------------------------------------
# the property, stated directly
# ------------------------------------------------------------------------------------------------------
def oracle_adjacent(topo, self, r):
    return topo is None or (self in topo and r in topo[self])


def oracle_may_create(topo, known, self, r):
    return (r in known) and (r != self) and oracle_adjacent(topo, self, r)


# ------------------------------------------------------------------------------------------------------
# driving the real code
# ------------------------------------------------------------------------------------------------------
class _Host:
    def __init__(self, name):
        self.name = name


class _Net:
    def __init__(self, names):
        self.hostDict = {n: _Host(n) for n in names}


class _Reached(Exception):
    pass


class Driver:
    def __init__(self, ctx):
        from simulaqron.settings import simulaqron_settings
        from simulaqron.netqasm_backend.factory import NetQASMFactory
        from simulaqron.netqasm_backend.executioner import VanillaSimulaQronExecutioner
        import logging
        logging.getLogger("NetQASM").setLevel(logging.CRITICAL)      # "node not in the topology" warnings, once per call
        self.settings = simulaqron_settings
        self.Factory = NetQASMFactory
        self.Exec = VanillaSimulaQronExecutioner
        self.path = os.path.join(ctx.home, "c12_network.json")
        self.settings.network_config_file = self.path          # real setter, scratch copy

    def write_config(self, names, topo):
        nodes, port = {}, 8000
        for n in names:
            nodes[n] = {"app_socket": ["localhost", port], "qnodeos_socket": ["localhost", port + 1],
                        "vnode_socket": ["localhost", port + 2]}
            port += 3
        with open(self.path, "w") as f:
            json.dump({"default": {"nodes": nodes, "topology": topo}}, f)

    def node(self, names, self_name):
        """the real factory (topology read from the file) and a real executioner whose cmd_new is a sentinel"""
        fac = self.Factory(host=None, name=self_name, qnodeos_net=_Net(names), backend=lambda f: None)
        ex = self.Exec(self_name)
        ex.add_factory(fac)

        def cmd_new(*a, **k):
            raise _Reached()
        ex.cmd_new = cmd_new
        return fac, ex

    @staticmethod
    def ask(fac, ex, names, r):
        adj = fac.is_adjacent(r)
        srt = sorted(names)
        rid = srt.index(r) if r in srt else len(srt) + 3
        res = []
        d = ex.cmd_epr(create_id=0, remote_node_id=rid, epr_socket_id=0, remote_epr_socket_id=0, qubit_id=0,
                       create_request=None)
        d.addCallbacks(lambda v: res.append(("returned", repr(v))),
                       lambda e: res.append((type(e.value).__name__, str(e.value))))
        if not res:
            return adj, None, None, ("pending", "")
        kind, msg = res[0]
        if kind == "_Reached":
            return adj, True, "create", res[0]
        if kind == "ValueError":
            v = ("unknown" if "Unknown node" in msg else "self" if "itself" in msg else
                 "adjacent" if "not adjacent" in msg else None)
            return adj, False, v, res[0]
        return adj, None, None, res[0]


def subsets(xs):
    for k in range(len(xs) + 1):
        for c in itertools.combinations(xs, k):
            yield list(c)


def all_topologies(names):
    """every directed topology over `names`: each node absent from the dict, or present with any subset (self-loops allowed)"""
    choices = [None] + list(subsets(names))
    for combo in itertools.product(choices, repeat=len(names)):
        yield {n: c for n, c in zip(names, combo) if c is not None}


def decision_part(ctx, env):
    rng = ctx.rng
    thorough = ctx.tier == "thorough"
    ctx.trusted += [
        "translator translate/adjacent.py (fail-closed ast translator; Python `in` on a dict = key membership, on a list = element membership; json object = association list)",
        "the harness classifies cmd_epr's refusal by the text of its ValueError (unrecognised text: only refused/created is compared); cmd_new is replaced by a sentinel, the three checks before it run unmodified",
        "node ids: index in the sorted name list (get_node_id_from_net_config), an id beyond the list stands for an unknown node",
    ]
    common.run_translator(ctx, "adjacent.py", "simulaqron/netqasm_backend/factory.py", "AdjacentGen")
    common.check_properties_file(ctx)

    drv = Driver(ctx)
    cases, oracle_bad, odd = [], [], []

    def run_topology(names, topo, known=None, extra_targets=("Zed",), kind="exhaustive"):
        known = list(known if known is not None else names)
        drv.write_config(known, topo)
        for s in names:
            fac, ex = drv.node(known, s)
            if fac.topology != topo:
                odd.append({"what": "factory.topology differs from the configured one", "configured": topo, "loaded": fac.topology})
            for r in list(known) + list(extra_targets):
                adj, created, verdict, raw = Driver.ask(fac, ex, known, r)
                c = {"topo": topo, "known": known, "self": s, "r": r, "adj": bool(adj), "created": created,
                     "verdict": verdict, "raw": raw}
                if created is None or not isinstance(adj, bool):
                    odd.append(dict(c, what="cmd_epr neither refused with ValueError nor reached cmd_new, or is_adjacent returned a non-bool"))
                    c["created"] = bool(created)
                cases.append(c)
                want = oracle_may_create(topo, known, s, r)
                if bool(adj) != oracle_adjacent(topo, s, r) or created != want:
                    oracle_bad.append(dict(c, oracle_adjacent=oracle_adjacent(topo, s, r), oracle_may_create=want))
                ctx.case((json.dumps(topo, sort_keys=True), tuple(known), s, r), nontrivial=(topo is not None))
                ctx.count("verdict_%s" % verdict)
                ctx.count("cases_" + kind)

    # ---- exhaustive: all directed topologies on <= 3 nodes (and no topology), all ordered pairs + an unknown node ----
    ntop = 0
    for n in (1, 2, 3):
        names = ["A", "B", "C"][:n]
        run_topology(names, None)
        for topo in all_topologies(names):
            run_topology(names, topo)
            ntop += 1
    ctx.coverage["exhaustive"] = True
    ctx.coverage["exhaustive_scope"] = ("all %d directed topologies over 1..3 nodes (each node absent or with any subset of the nodes, self-loops included) "
                                        "+ no topology, x all ordered pairs incl. self and one unknown node" % ntop)
    # ---- random: up to 5 nodes, nodes absent from the topology, neighbours that are unknown names, duplicates -------------
    pool = ["Alice", "Bob", "Charlie", "David", "Eve"]
    for _ in range(2500 if thorough else 250):
        n = rng.randrange(2, 6)
        known = rng.sample(pool, n)
        if rng.random() < 0.08:
            topo = None
        else:
            topo = {}
            for k in known + (["Ghost"] if rng.random() < 0.2 else []):
                if rng.random() < 0.25:
                    continue                                   # node absent from the topology
                cand = known + ["Ghost", "Zed"]
                topo[k] = [rng.choice(cand) for _ in range(rng.randrange(0, n + 2))]
        run_topology(known, topo, known=known, extra_targets=("Zed", "Ghost"), kind="random")

    for c in cases[:1] + cases[len(cases) // 2:len(cases) // 2 + 1] + cases[-2:]:
        ctx.sample({k: c[k] for k in ("topo", "known", "self", "r", "adj", "created", "verdict", "raw")})

    shard = 400
    shards = [cases[i:i + shard] for i in range(0, len(cases), shard)]
    res = common.coq_eval_many([cases_text(sh) for sh in shards])
    failing, evalok = [], True
    for sh, (ok, out) in zip(shards, res):
        lists = common.parse_nat_lists(out) if ok else []
        if not ok or len(lists) != 1:
            ctx.obligation("correspondence topology cases evaluate in Coq", False, out)
            evalok = False
            continue
        failing += [sh[i] for i in lists[0]]
    ctx.obligation("correspondence: real is_adjacent / cmd_epr refusals = Qasm.Topo (is_adjacent, may_create, epr_check) on %d cases" % len(cases),
                   evalok and not failing, "first disagreement: %r" % (failing[:1],))
    ctx.obligation("cmd_epr always either raised ValueError before cmd_new or reached cmd_new; the loaded topology is the configured one",
                   not odd, repr(odd[:1]))
    ctx.obligation("oracle (the iff of the property evaluated in Python) agrees with the implementation", not oracle_bad, repr(oracle_bad[:1]))
    ctx.count("oracle_disagreements", len(oracle_bad))

    fails = []
    if oracle_bad:
        d = min(oracle_bad, key=lambda c: (len(c["known"]), len(json.dumps(c["topo"]))))
        what = ("is_adjacent(%r) at %r returned %r" % (d["r"], d["self"], d["adj"]) if d["adj"] != d["oracle_adjacent"]
                else "request %r -> %r was %s" % (d["self"], d["r"], "served" if d["created"] else "refused"))
        fails.append(("oracle:" + ("adjacent" if d["adj"] != d["oracle_adjacent"] else "may_create"),
                      "topology gate: %s, the property says otherwise" % what, d))
    elif odd:
        fails.append(("odd", odd[0]["what"], odd[0]))
    return fails


def e2e_part(ctx, env):
    """end-to-end half on the in-process NetQASM hosts: refused requests answer an error and create no qubit anywhere"""
    import net_sync as N
    import qasm_sync as Q
    from props import c09, c12_e2e
    ctx.trusted += c09.TRUST
    qenv = N.setup()
    Q.setup_qasm(qenv)
    c12_e2e.extra(ctx, qenv)
    return []


PARTS = [decision_part, e2e_part]


def run(ctx):
    ctx.rule = ("decision part: (topology, known nodes, requesting node, target) -> is_adjacent, refused/served and which refusal; "
                "non-trivial = a topology is configured; distinct = distinct (topology, known, self, target)")
    env = {}
    fails = []
    for part in PARTS:
        fails += part(ctx, env) or []
    for key, desc, obj in fails:
        ctx.report(key, desc, obj, True)
    if not fails and ctx.broken():
        ctx.report("broken:" + ";".join(ctx.broken()), "proof obligation / correspondence no longer checks: " + "; ".join(ctx.broken()),
                   {"broken": ctx.broken()}, found_input=False)
