(* Model Z — depolarizing idle noise of a simulated qubit (simulaqron/virtual_node/quantum.py:287-306).
   Executable definitions only; proofs are in Noise/DecideFacts.v.

     if not self.noisy: return
     t = time.time() - self.last_accessed          (first clock read)
     self.last_accessed = time.time()              (second clock read)
     p = (1 - np.exp(-t / self.T1)) / 4
     x = random.random()
     if   x < p:     self.register.apply_X(self.num)
     elif x < 2 * p: self.register.apply_Y(self.num)
     elif x < 3 * p: self.register.apply_Z(self.num)

   Numbers are exact rationals (Q); every IEEE double is one, and comparison of doubles is exact
   rational comparison, so `decide_thr` on the three threshold *doubles* reproduces the float code bit for bit.
   `decide` is the documented real-number reading with thresholds p, 2p, 3p. *)
From Coq Require Import QArith ZArith Bool List String.
From SQ Require Import Base.ListUtil Stab.Pauli Stab.Kernels Stab.Tableau.
Import ListNotations.

Definition Qltb (a b : Q) : bool := (Qnum a * QDen b <? Qnum b * QDen a)%Z.
Definition Qleb (a b : Q) : bool := (Qnum a * QDen b <=? Qnum b * QDen a)%Z.

(* the three comparisons in the code's order, on given thresholds *)
Definition decide_thr (noisy : bool) (t1 t2 t3 x : Q) : option pauli :=
  if negb noisy then None
  else if Qltb x t1 then Some PX
  else if Qltb x t2 then Some PY
  else if Qltb x t3 then Some PZ
  else None.

Definition decide (noisy : bool) (p x : Q) : option pauli :=
  decide_thr noisy p (2 * p) (3 * p) x.

(* idle clock: returns (t, new last_accessed); two separate clock reads, none when noise is off *)
Definition idle_update (noisy : bool) (last now1 now2 : Q) : option Q * Q :=
  if noisy then (Some (now1 - last), now2) else (None, last).

(* effect on the register: the chosen Pauli kernel at position num of the n-qubit tableau *)
Definition gate_of (P : pauli) : option gate1 :=
  match P with PX => Some GX | PY => Some GY | PZ => Some GZ | PI => None end.

Definition apply_noise (o : option pauli) (n num : nat) (t : tab) : tab :=
  match o with
  | None => t
  | Some P => match gate_of P with Some g => tab_gate1 g n num t | None => t end
  end.

Definition noise_step (noisy : bool) (p x : Q) (n num : nat) (t : tab) : tab :=
  apply_noise (decide noisy p x) n num t.

Definition opt_pauli_eqb (a b : option pauli) : bool :=
  match a, b with
  | None, None => true
  | Some x, Some y => pauli_eqb x y
  | _, _ => false
  end.

(* gates and measurements of simulatedQubit (quantum.py:129-239) that must start with the noise call;
   translate/noise.py checks each syntactically and regenerates the list it found *)
Definition expected_ops : list string :=
  ["remote_apply_X"; "remote_apply_K"; "remote_apply_Y"; "remote_apply_Z"; "remote_apply_H"; "remote_apply_T";
   "remote_apply_rotation"; "remote_measure_inplace"; "remote_measure"; "remote_cnot_onto"; "remote_cphase_onto"]%string.
