"""C06 — stale handles are inert."""
from props import netprop, scen


def run(ctx):
    t = ctx.tier == "thorough"
    ctx.rule = ("random programs in which the generator keeps every handle it ever obtained and issues ~25% of its operations (all kinds, as control "
                "and as target) through stale ones, with the departed qubit's register still populated; oracle: dump before = after and no exception; "
                "distinct = distinct (capacities, operation, dump)")
    netprop.run_property(ctx, "C06", ["stale", "stale", "mixed"], 1500 if t else 150, 30 if t else 24,
                         scenarios=scen.stale(), own_props=["C06"])
