(* Model N, executable part: the NetQASM layer of one simulated node on top of Model V.
     simulaqron/netqasm_backend/executioner.py  (VanillaSimulaQronExecutioner: cmd_new 133-149, _do_single_qubit_instr 151-160,
        _do_two_qubit_instr 188-204, get_virt_qubit 218-229, cmd_measure 248-258, cmd_reset 261-271,
        _clear_phys_qubit_in_memory 806-809, remove_qubit_id 784-786)
     netqasm/backend/executor.py (library; its qubit bookkeeping is modelled as it is: _allocate_physical_qubit,
        _get_unused_physical_qubit, _free_physical_qubit, _get_position_in_unit_module, _clear_qubits, stop_application)
     netqasm/backend/qnodeos.py (_handle_init_new_app, _handle_stop_app).
   A quantum NetQASM instruction = lookups (virtual address -> physical id -> handle) + native operations of Model V
   (Net.Model.step).  Classical instructions (registers, arrays, branches) are library code and are not modelled: an
   instruction here already carries the virtual addresses the registers held when it was executed. *)
From Coq Require Import List Bool Arith Lia.
From SQ Require Import Base.ListUtil Stab.Tableau Net.Model.
Import ListNotations.

(* physical qubit ids: n, or the temporary id -(1+n) that cmd_epr gives the half it is going to send *)
Inductive pid := PP (n : nat) | PM (n : nat).
Definition pid_eqb (a b : pid) : bool :=
  match a, b with PP x, PP y | PM x, PM y => Nat.eqb x y | _, _ => false end.
Lemma pid_eqb_spec a b : reflect (a = b) (pid_eqb a b).
Proof.
  destruct a, b; simpl; try (constructor; discriminate);
  destruct (Nat.eqb_spec n n0); constructor; congruence.
Qed.

Record host := mkHost {
  h_active : list nat;                         (* QNodeController._active_app_ids *)
  h_units : list (nat * list (option nat));    (* Executor._qubit_unit_modules : app id -> (virtual address -> physical id) *)
  h_used : list nat;                           (* Executor._used_physical_qubit_addresses, kept sorted *)
  h_qlist : list (pid * nat)                   (* factory.qubitList : physical id -> handle of the virtualQubit *)
}.
Definition empty_host : host := mkHost [] [] [] [].

(* ---- association lists ------------------------------------------------------------------------------------ *)
Fixpoint alookup {B} (k : nat) (l : list (nat * B)) : option B :=
  match l with [] => None | (k', v) :: t => if Nat.eqb k' k then Some v else alookup k t end.
Fixpoint aremove {B} (k : nat) (l : list (nat * B)) : list (nat * B) :=
  match l with [] => [] | (k', v) :: t => if Nat.eqb k' k then aremove k t else (k', v) :: aremove k t end.
Definition aset {B} (k : nat) (v : B) (l : list (nat * B)) : list (nat * B) := aremove k l ++ [(k, v)].

Fixpoint plookup (k : pid) (l : list (pid * nat)) : option nat :=
  match l with [] => None | (k', v) :: t => if pid_eqb k' k then Some v else plookup k t end.
Fixpoint premove (k : pid) (l : list (pid * nat)) : list (pid * nat) :=
  match l with [] => [] | (k', v) :: t => if pid_eqb k' k then premove k t else (k', v) :: premove k t end.
Definition pset (k : pid) (v : nat) (l : list (pid * nat)) : list (pid * nat) := premove k l ++ [(k, v)].

Fixpoint insert_sorted (x : nat) (l : list nat) : list nat :=
  match l with
  | [] => [x]
  | y :: t => if Nat.ltb x y then x :: l else if Nat.eqb x y then l else y :: insert_sorted x t
  end.
Definition remove_nat (x : nat) (l : list nat) : list nat := filter (fun y => negb (Nat.eqb y x)) l.

(* ---- the instruction -> native operation table (SIMULAQRON_OPS, ROTATION_AXIS; executioner.py:53-69) ---------- *)
Inductive vgate1 := VX | VY | VZ | VH | VS | VK | VT.
Inductive vgate2 := VCnot | VCphase.
Inductive axis := AxX | AxY | AxZ.
Definition native1 (g : vgate1) : g1 :=
  match g with VX => NX | VY => NY | VZ => NZ | VH => NH | VS => NS | VK => NK | VT => NT end.
Definition native2 (g : vgate2) : g2 := match g with VCnot => NCnot | VCphase => NCphase end.
Definition axis_vector (a : axis) : nat * nat * nat :=
  match a with AxX => (1, 0, 0) | AxY => (0, 1, 0) | AxZ => (0, 0, 1) end.
(* QG2 app a1 a2 g: the qubit of a1 is the receiver (control) of the native call, the qubit of a2 its argument (target) *)
Definition control_first : bool := true.

(* ---- instructions --------------------------------------------------------------------------------------------- *)
Inductive qinstr :=
| QInitApp (app maxq : nat)
| QStopApp (app : nat) (coins : list bool)        (* one coin per qubit still mapped, in address order *)
| QAlloc (app a : nat)
| QInit (app a : nat) (coin : bool)
| QG1 (app a : nat) (g : vgate1)
| QRot (app a : nat) (ax : axis)
| QG2 (app a1 a2 : nat) (g : vgate2)
| QMeas (app a : nat) (coin : bool)
| QFree (app a : nat) (coin : bool).

Inductive qres :=
| RDone (v : option nat)      (* instruction completed (measurement outcome) *)
| RErr                        (* exception inside the command loop: ErrorMessage, rest of the subroutine skipped, MsgDone *)
| REscaped.                   (* exception outside the command loop (StopApp): ErrorMessage, no MsgDone, reactor.stop *)

Definition ntrace := list (op * out).           (* native calls issued, with their results *)

Record qst := mkQ { q_net : net; q_host : host }.

(* ---- lookups ------------------------------------------------------------------------------------------------------ *)
(* _get_position_in_unit_module: None = RuntimeError / IndexError / NotAllocatedError *)
Definition position (h : host) (app a : nat) : option nat :=
  match alookup app (h_units h) with
  | None => None
  | Some um => match nth_error um a with Some (Some p) => Some p | _ => None end
  end.
(* get_virt_qubit: None = UnknownQubitError *)
Definition virt_of (h : host) (p : pid) : option nat := plookup p (h_qlist h).
Definition handle_of (h : host) (app a : nat) : option nat :=
  match position h app a with None => None | Some p => virt_of h (PP p) end.

Definition with_units (h : host) (u : list (nat * list (option nat))) : host := mkHost (h_active h) u (h_used h) (h_qlist h).
Definition with_used (h : host) (u : list nat) : host := mkHost (h_active h) (h_units h) u (h_qlist h).
Definition with_qlist (h : host) (q : list (pid * nat)) : host := mkHost (h_active h) (h_units h) (h_used h) q.
Definition with_active (h : host) (a : list nat) : host := mkHost a (h_units h) (h_used h) (h_qlist h).

Definition is_err (o : out) : bool := match o with Err _ => true | _ => false end.

(* cmd_new(physical_address) at node i: new_qubit, then qubitList[p] = ref *)
Definition cmd_new (i : nat) (s : qst) (p : pid) : qst * bool * ntrace :=
  let '(n', o) := step (q_net s) (ONew i) in
  match o with
  | Ok _ => (mkQ n' (with_qlist (q_host s) (pset p (next_hid (q_net s)) (h_qlist (q_host s)))), true, [(ONew i, o)])
  | _ => (mkQ n' (q_host s), false, [(ONew i, o)])
  end.

(* one native call on a handle; returns new net, result, trace *)
Definition native (s : qst) (o : op) : qst * out * ntrace :=
  let '(n', r) := step (q_net s) o in (mkQ n' (q_host s), r, [(o, r)]).

(* _clear_phys_qubit_in_memory(p): cmd_measure(p, inplace=False) then remove_qubit_id(p).  false = exception *)
Definition clear_phys (s : qst) (p : nat) (coin : bool) : qst * bool * ntrace :=
  match virt_of (q_host s) (PP p) with
  | None => (s, false, [])                                           (* UnknownQubitError *)
  | Some hd =>
      let '(s1, r, tr) := native s (OMeas hd false coin) in
      match r with
      | Ok _ => (mkQ (q_net s1) (with_qlist (q_host s1) (premove (PP p) (h_qlist (q_host s1)))), true, tr)
      | _ => (s1, false, tr)                                           (* outcome None -> RuntimeError; refusal *)
      end
  end.

(* Executor._clear_qubits over one unit module (already popped): stops at the first exception *)
Fixpoint clear_all (s : qst) (um : list (option nat)) (coins : list bool) : qst * bool * ntrace :=
  match um with
  | [] => (s, true, [])
  | None :: t => clear_all s t coins
  | Some p :: t =>
      let c := hd false coins in
      if negb (mem_nat p (h_used (q_host s))) then (s, false, [])        (* set.remove: KeyError *)
      else
        let s0 := mkQ (q_net s) (with_used (q_host s) (remove_nat p (h_used (q_host s)))) in
        let '(s1, ok, tr) := clear_phys s0 p c in
        if ok then let '(s2, ok2, tr2) := clear_all s1 t (tl coins) in (s2, ok2, tr ++ tr2)
        else (s1, false, tr)
  end.

Definition exec (i : nat) (s : qst) (q : qinstr) : qst * qres * ntrace :=
  let h := q_host s in
  match q with
  | QInitApp app maxq =>
      (* _add_app; allocate_new_qubit_unit_module overwrites an existing module *)
      let h1 := with_active h (insert_sorted app (h_active h)) in
      (mkQ (q_net s) (with_units h1 (aset app (repeat None maxq) (h_units h1))), RDone None, [])
  | QStopApp app coins =>
      if negb (mem_nat app (h_active h)) then (s, REscaped, [])             (* set.remove: KeyError *)
      else
        let h1 := with_active h (remove_nat app (h_active h)) in
        match alookup app (h_units h1) with
        | None => (mkQ (q_net s) h1, REscaped, [])                          (* dict.pop: KeyError *)
        | Some um =>
            let s1 := mkQ (q_net s) (with_units h1 (aremove app (h_units h1))) in
            let '(s2, ok, tr) := clear_all s1 um coins in
            (s2, if ok then RDone None else REscaped, tr)
        end
  | QAlloc app a =>
      match alookup app (h_units h) with
      | None => (s, RErr, [])
      | Some um =>
          match nth_error um a with
          | None => (s, RErr, [])                                            (* ValueError: outside the unit module *)
          | Some (Some _) => (s, RErr, [])                                   (* RuntimeError: already allocated *)
          | Some None =>
              let p := fresh_id (h_used h) in
              let h1 := with_units (with_used h (insert_sorted p (h_used h))) (aset app (upd um a (Some p)) (h_units h)) in
              let '(s2, ok, tr) := cmd_new i (mkQ (q_net s) h1) (PP p) in
              (* refused by the virtual node: the allocation is rolled back (since the D16 repair) *)
              if ok then (s2, RDone None, tr) else (mkQ (q_net s2) h, RErr, tr)
          end
      end
  | QG1 app a g =>
      match handle_of h app a with
      | None => (s, RErr, [])
      | Some hd => let '(s1, r, tr) := native s (OGate1 hd (native1 g)) in (s1, if is_err r then RErr else RDone None, tr)
      end
  | QRot app a ax =>
      match handle_of h app a with
      | None => (s, RErr, [])
      | Some hd => let '(s1, r, tr) := native s (OGate1 hd NRot) in (s1, if is_err r then RErr else RDone None, tr)
      end
  | QG2 app a1 a2 g =>
      match position h app a1, position h app a2 with
      | Some p1, Some p2 =>
          match virt_of h (PP p1), virt_of h (PP p2) with
          | Some h1, Some h2 =>
              if Nat.eqb h1 h2 then (s, RErr, [])                            (* control == target: ValueError, no native call *)
              else let '(s1, r, tr) := native s (OGate2 h1 h2 (native2 g)) in (s1, if is_err r then RErr else RDone None, tr)
          | _, _ => (s, RErr, [])
          end
      | _, _ => (s, RErr, [])
      end
  | QMeas app a coin =>
      match handle_of h app a with
      | None => (s, RErr, [])
      | Some hd =>
          let '(s1, r, tr) := native s (OMeas hd true coin) in
          (s1, match r with Ok v => RDone (Some v) | _ => RErr end, tr)      (* outcome None -> RuntimeError *)
      end
  | QInit app a coin =>
      (* cmd_reset: measure in place; if outcome then apply_X *)
      match handle_of h app a with
      | None => (s, RErr, [])
      | Some hd =>
          let '(s1, r, tr) := native s (OMeas hd true coin) in
          match r with
          | Ok 1 => let '(s2, r2, tr2) := native s1 (OGate1 hd NX) in (s2, if is_err r2 then RErr else RDone None, tr ++ tr2)
          | Err _ => (s1, RErr, tr)
          | _ => (s1, RDone None, tr)
          end
      end
  | QFree app a coin =>
      match alookup app (h_units h) with
      | None => (s, RErr, [])
      | Some um =>
          match nth_error um a with
          | Some (Some p) =>
              let h1 := with_units h (aset app (upd um a None) (h_units h)) in
              if negb (mem_nat p (h_used h)) then (mkQ (q_net s) h1, RErr, [])    (* set.remove: KeyError *)
              else
                let h2 := with_used h1 (remove_nat p (h_used h1)) in
                let '(s2, ok, tr) := clear_phys (mkQ (q_net s) h2) p coin in
                (s2, if ok then RDone None else RErr, tr)
          | _ => (s, RErr, [])                                                    (* IndexError / not allocated *)
          end
      end
  end.

(* a subroutine (or any message) = the instructions it executed; execution stops at the first exception *)
Fixpoint exec_list (i : nat) (s : qst) (qs : list qinstr) : qst * list qres * ntrace :=
  match qs with
  | [] => (s, [], [])
  | q :: t =>
      let '(s1, r, tr) := exec i s q in
      match r with
      | RDone _ => let '(s2, rs, tr2) := exec_list i s1 t in (s2, r :: rs, tr ++ tr2)
      | _ => (s1, [r], tr)
      end
  end.

Definition run_q (i : nat) (s : qst) (qs : list qinstr) : qst := fold_left (fun st q => fst (fst (exec i st q))) qs s.
