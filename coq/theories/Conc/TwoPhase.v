(* C03, data-level half: TWO-PHASE LOCKING IMPLIES SERIALIZABILITY, proved once, generically.

   Abstract data: a store `nid -> D` (one datum per node), a local state `L` per operation (program counter, results:
   the operation's outcome), and a deterministic access semantics
       acc o n l d = (l', d')      "operation o, in local state l, performs its next access on node n whose datum is d".
   Events of a schedule:  Lk o n  (o takes the lock of node n),  Ul o n  (o releases it),  Ac o n  (o accesses node n).
   A schedule is
     legal      locks are exclusive: Lk only on a free lock, Ul only by the holder;
     covered    every Ac o n happens while o holds the lock of n;
     two_phase  no operation locks after it has unlocked.
   THEOREM two_phase_serializable: the final store and ALL local states of a legal, covered, two-phase schedule equal
   (pointwise) those of `serial s`: the operations' own event subsequences run one after the other, in the order of their
   lock points (`lock_order s`: operations by the position of their LAST Lk).  lock_order respects real-time precedence
   (lock_order_real_time): if every event of o1 precedes every event of o2 then o1 comes first; so a client that issues its
   operations one after the other sees them in its own order.

   WHAT THIS IS NOT.  The theorem is about schedules of abstract accesses.  That the implementation's operations touch the
   bookkeeping of a node ONLY through accesses performed while they hold that node's lock (coverage of the footprint), and
   that an operation's behaviour on a node is a function of its own local state and that node's data alone, are hypotheses
   about simulaqron/virtual_node/virtual.py which the trace tie (Conc/Cases.v) does NOT check: model L records lock events,
   not accesses.  D is NOT instantiated with the node record of Net/Model.v: `Net.Model.step` is a function of the whole
   network (merges rewrite several nodes, `next_hid` is a network-wide ghost counter) and splitting it into per-node
   accesses would be a second model of virtual.py with its own tie.
   What IS tied: the lock events.  `sched` (section 5) maps a model-L trace to its Lk/Ul schedule; disciplined_legal and
   disciplined_two_phase prove that every accepted run of a configuration without _lock_nodes operations is a legal,
   two-phase lock schedule; disciplined_runs_serializable (section 6) concludes: ANY covered placement of accesses inside
   such a trace is serializable in the order `lock_order (sched tr)`, which is computed from the trace alone.
   The harness TESTS the prediction (harness/twophase.py, concprop.lockpoint_check): it compares every clean two-phase run
   with the sequential run in lock-point order.  The comparison is not an obligation because coverage does fail in the code:
   a destructive measurement removes the handle from `virtNode.root.virtQubits` (virtual.py:1377) under the lock of the
   SIMULATING node only; such runs are serializable, but at the moment of the removal rather than at the lock point.  Other
   known gaps: the `active` test before the locks (D23), update_virtual_merge on bystander nodes, qubit-level locks
   (notes/C03.md). *)
From Coq Require Import List Bool Arith Lia.
From SQ Require Import Base.ListUtil Conc.Model Conc.Own Conc.Deadlock.
Import ListNotations.

(* ================================================================================================================== *)
(* 1. lock level: schedules, legality, coverage, two-phase-ness, lock-point order                                     *)
(* ================================================================================================================== *)

Inductive event := Lk (o : opid) (n : nid) | Ul (o : opid) (n : nid) | Ac (o : opid) (n : nid).

Definition eop (e : event) : opid := match e with Lk o _ | Ul o _ | Ac o _ => o end.

Definition lockst := nid -> option opid.
Definition free : lockst := fun _ => None.
Definition setl (h : lockst) (n : nid) (v : option opid) : lockst := fun m => if Nat.eqb m n then v else h m.

Definition lstep (h : lockst) (e : event) : lockst :=
  match e with Lk o n => setl h n (Some o) | Ul _ n => setl h n None | Ac _ _ => h end.

Definition ok_legal (h : lockst) (e : event) : Prop :=
  match e with Lk _ n => h n = None | Ul o n => h n = Some o | Ac _ _ => True end.

Definition ok_cov (h : lockst) (e : event) : Prop :=
  match e with Ac o n => h n = Some o | _ => True end.

Fixpoint legal (h : lockst) (s : list event) : Prop :=
  match s with [] => True | e :: t => ok_legal h e /\ legal (lstep h e) t end.

Fixpoint covered (h : lockst) (s : list event) : Prop :=
  match s with [] => True | e :: t => ok_cov h e /\ covered (lstep h e) t end.

Fixpoint haslk (o : opid) (s : list event) : bool :=
  match s with
  | [] => false
  | Lk o' _ :: t => Nat.eqb o' o || haslk o t
  | _ :: t => haslk o t
  end.

(* after an unlock of o there is no lock of o *)
Fixpoint two_phase (s : list event) : Prop :=
  match s with
  | [] => True
  | Ul o _ :: t => haslk o t = false /\ two_phase t
  | _ :: t => two_phase t
  end.

(* operations by the position of their last Lk *)
Fixpoint lock_order (s : list event) : list opid :=
  match s with
  | [] => []
  | Lk o _ :: t => if haslk o t then lock_order t else o :: lock_order t
  | _ :: t => lock_order t
  end.

Definition isop (o : opid) (e : event) : bool := Nat.eqb (eop e) o.
Definition proj (o : opid) (s : list event) : list event := filter (isop o) s.
Definition rem (o : opid) (s : list event) : list event := filter (fun e => negb (isop o e)) s.

Definition serial (s : list event) : list event := flat_map (fun o => proj o s) (lock_order s).

Lemma proj_cons o e t : proj o (e :: t) = if Nat.eqb (eop e) o then e :: proj o t else proj o t.
Proof. reflexivity. Qed.

Lemma rem_cons o e t : rem o (e :: t) = if Nat.eqb (eop e) o then rem o t else e :: rem o t.
Proof. unfold rem, isop. simpl. destruct (Nat.eqb (eop e) o); reflexivity. Qed.

(* ---- setl ---- *)
Lemma setl_eq h n v : setl h n v n = v.
Proof. unfold setl. rewrite Nat.eqb_refl. auto. Qed.

Lemma setl_neq h n m v : m <> n -> setl h n v m = h m.
Proof. unfold setl. intros H. destruct (Nat.eqb_spec m n); [contradiction|auto]. Qed.

(* ---- haslk / lock_order ---- *)
Lemma haslk_app o a b : haslk o (a ++ b) = haslk o a || haslk o b.
Proof.
  induction a as [|[o1 n|o1 n|o1 n] t IH]; simpl; auto.
  rewrite IH. apply orb_assoc.
Qed.

Lemma lock_order_In o s : In o (lock_order s) <-> haslk o s = true.
Proof.
  induction s as [|[o1 n|o1 n|o1 n] t IH]; simpl; try exact IH.
  - split; [tauto|discriminate].
  - destruct (haslk o1 t) eqn:E.
    + rewrite IH. destruct (Nat.eqb_spec o1 o); simpl; [subst; tauto|tauto].
    + simpl. rewrite IH. destruct (Nat.eqb_spec o1 o); simpl; [tauto|]. split; [intros [X|X]; [contradiction|auto]|auto].
Qed.

Lemma lock_order_NoDup s : NoDup (lock_order s).
Proof.
  induction s as [|[o1 n|o1 n|o1 n] t IH]; simpl; auto; [constructor|].
  destruct (haslk o1 t) eqn:E; auto. constructor; auto.
  rewrite lock_order_In. congruence.
Qed.

Lemma lock_order_app a b :
  lock_order (a ++ b) = filter (fun o => negb (haslk o b)) (lock_order a) ++ lock_order b.
Proof.
  induction a as [|[o1 n|o1 n|o1 n] t IH]; simpl; auto.
  rewrite haslk_app. destruct (haslk o1 t) eqn:E; simpl; auto.
  destruct (haslk o1 b) eqn:E2; simpl; auto. rewrite IH. auto.
Qed.

(* REAL-TIME ORDER: if every event of o1 precedes every event of o2 (s = a ++ b, o2 silent in a, o1 silent in b) then o1
   comes before o2 in the serial order *)
Definition occurs (o : opid) (s : list event) : Prop := exists e, In e s /\ eop e = o.

Lemma haslk_occurs o s : haslk o s = true -> occurs o s.
Proof.
  induction s as [|[o1 n|o1 n|o1 n] t IH]; simpl; try discriminate;
    try (intros H; destruct (IH H) as (e & He & Ho); exists e; simpl; auto).
  destruct (Nat.eqb_spec o1 o).
  - subst. intros _. exists (Lk o n). simpl; auto.
  - simpl. intros H; destruct (IH H) as (e & He & Ho); exists e; simpl; auto.
Qed.

Theorem lock_order_real_time a b o1 o2 :
  ~ occurs o2 a -> ~ occurs o1 b ->
  In o1 (lock_order (a ++ b)) -> In o2 (lock_order (a ++ b)) ->
  exists l1 l2 l3, lock_order (a ++ b) = l1 ++ o1 :: l2 ++ o2 :: l3.
Proof.
  intros N2 N1 I1 I2. rewrite lock_order_app in *.
  assert (H1 : haslk o1 b = false).
  { destruct (haslk o1 b) eqn:E; auto. exfalso. apply N1. apply haslk_occurs; auto. }
  assert (H2 : haslk o2 a = false).
  { destruct (haslk o2 a) eqn:E; auto. exfalso. apply N2. apply haslk_occurs; auto. }
  apply in_app_or in I1. destruct I1 as [I1|I1]; [|apply lock_order_In in I1; congruence].
  apply in_app_or in I2. destruct I2 as [I2|I2].
  { apply filter_In in I2. destruct I2 as [I2 _]. apply lock_order_In in I2. congruence. }
  apply in_split in I1. destruct I1 as (l1 & l2 & E1).
  apply in_split in I2. destruct I2 as (l3 & l4 & E2).
  rewrite E1, E2. exists l1, (l2 ++ l3), l4. rewrite <- !app_assoc. simpl. reflexivity.
Qed.

(* ---- an operation that never locks and holds nothing never holds anything: it has no covered access ---- *)
Lemma no_lock_no_access o n : forall s h,
  legal h s -> covered h s -> haslk o s = false -> h n <> Some o -> ~ In (Ac o n) s.
Proof.
  induction s as [|e t IH]; simpl; intros h HL HC HK Hh; auto.
  destruct HL as [L1 L2]. destruct HC as [C1 C2].
  intros [X|X].
  - subst e. simpl in C1. contradiction.
  - revert X. apply (IH (lstep h e)); auto.
    + destruct e; simpl in HK; auto. apply orb_false_iff in HK. tauto.
    + destruct e as [o1 m|o1 m|o1 m]; simpl in *; auto.
      * apply orb_false_iff in HK. destruct HK as [HK _]. apply Nat.eqb_neq in HK.
        destruct (Nat.eq_dec n m) as [->|Ne]; [rewrite setl_eq; congruence|rewrite setl_neq; auto].
      * destruct (Nat.eq_dec n m) as [->|Ne]; [rewrite setl_eq; congruence|rewrite setl_neq; auto].
Qed.

(* every Lk of o is followed by a Lk of o': the lock point of o' is later than that of o *)
Fixpoint later_lp (o o' : opid) (s : list event) : Prop :=
  match s with
  | [] => True
  | e :: t => match e with Lk o1 _ => o1 = o -> haslk o' t = true | _ => True end /\ later_lp o o' t
  end.

Lemma later_lp_nolk o o' s : haslk o s = false -> later_lp o o' s.
Proof.
  induction s as [|[o1 n|o1 n|o1 n] t IH]; simpl; auto.
  intros H. apply orb_false_iff in H. destruct H as [H1 H2]. apply Nat.eqb_neq in H1. split; auto; intros; contradiction.
Qed.

Lemma later_lp_done o o' s : later_lp o o' s -> haslk o' s = false -> haslk o s = false.
Proof.
  induction s as [|[o1 n|o1 n|o1 n] t IH]; simpl; auto; try tauto.
  intros [H1 H2] H. apply orb_false_iff in H. destruct H as [Ha Hb].
  apply orb_false_iff. split; auto.
  apply Nat.eqb_neq. intro X. apply H1 in X. congruence.
Qed.

Lemma lock_order_head_later o o' s rest :
  lock_order s = o :: rest -> haslk o' s = true -> o' <> o -> later_lp o o' s.
Proof.
  revert rest. induction s as [|[o1 n|o1 n|o1 n] t IH]; simpl; intros rest HO HK Ne; try discriminate; eauto.
  destruct (haslk o1 t) eqn:E.
  - assert (HK' : haslk o' t = true).
    { destruct (Nat.eqb_spec o1 o'); [subst; auto|auto]. }
    split; eauto.
  - inversion HO; subst. split.
    + intros _. destruct (Nat.eqb_spec o o'); [congruence|auto].
    + apply later_lp_nolk; auto.
Qed.

(* THE 2PL ARGUMENT.  o' holds n now and its lock point is later than o's: o never accesses n from here on - to do so it
   would have to lock n after o' has released it, but then o' is shrinking and cannot reach its lock point any more. *)
Lemma held_by_later_never_accessed o o' n : forall s h,
  legal h s -> covered h s -> two_phase s -> h n = Some o' -> o' <> o -> later_lp o o' s -> ~ In (Ac o n) s.
Proof.
  induction s as [|e t IH]; simpl; intros h HL HC HT Hh Ne HQ; auto.
  destruct HL as [L1 L2]. destruct HC as [C1 C2]. destruct HQ as [Q1 Q2].
  intros [X|X].
  - subst e. simpl in C1. congruence.
  - revert X. destruct e as [o1 m|o1 m|o1 m]; simpl in *.
    + apply (IH (setl h m (Some o1))); auto.
      rewrite setl_neq; auto. intro; subst; congruence.
    + destruct HT as [T1 T2]. destruct (Nat.eq_dec n m) as [->|Nm].
      * assert (o1 = o') by congruence. subst o1.
        apply (no_lock_no_access o m t (setl h m None)); auto.
        -- eapply later_lp_done; eauto.
        -- rewrite setl_eq. discriminate.
      * apply (IH (setl h m None)); auto. rewrite setl_neq; auto.
    + apply (IH h); auto.
Qed.

(* ================================================================================================================== *)
(* 2. moving one operation to the front: purely list-level condition                                                  *)
(* ================================================================================================================== *)

(* two events commute as state transformers unless both are accesses of one node (or belong to one operation) *)
Definition commutes (e1 e2 : event) : Prop :=
  match e1, e2 with Ac o1 n1, Ac o2 n2 => o1 <> o2 /\ n1 <> n2 | _, _ => True end.

(* every event of another operation commutes with every later event of o *)
Fixpoint front_ok (o : opid) (s : list event) : Prop :=
  match s with
  | [] => True
  | e :: t => (eop e <> o -> forall x, In x t -> eop x = o -> commutes e x) /\ front_ok o t
  end.

Lemma front_ok_gen o : forall s h,
  legal h s -> covered h s -> two_phase s ->
  (forall o' n, o' <> o -> In (Ac o' n) s -> later_lp o o' s) ->
  front_ok o s.
Proof.
  induction s as [|e t IH]; simpl; intros h HL HC HT HQ; auto.
  destruct HL as [L1 L2]. destruct HC as [C1 C2].
  assert (HT' : two_phase t) by (destruct e; simpl in HT; tauto).
  split.
  - intros Ne x Hx Ex. destruct e as [o1 n|o1 n|o1 n]; simpl; auto.
    destruct x as [o2 m|o2 m|o2 m]; simpl; auto. simpl in *. subst o2. split; auto.
    intro; subst m. revert Hx.
    apply (held_by_later_never_accessed o o1 n t h); auto.
    apply (HQ o1 n); auto.
  - apply (IH (lstep h e)); auto.
    intros o' n Ne Hin. apply (HQ o' n Ne). auto.
Qed.

Theorem lock_point_first_front_ok s o rest :
  legal free s -> covered free s -> two_phase s -> lock_order s = o :: rest -> front_ok o s.
Proof.
  intros HL HC HT HO. apply (front_ok_gen o s free); auto.
  intros o' n Ne Hin. eapply lock_order_head_later; eauto.
  destruct (haslk o' s) eqn:E; auto. exfalso.
  revert Hin. apply (no_lock_no_access o' n s free); auto. discriminate.
Qed.

(* ---- removing one operation from a schedule ---- *)
Definition erased (o : opid) (h h' : lockst) : Prop :=
  forall n, h' n = match h n with Some o1 => if Nat.eqb o1 o then None else Some o1 | None => None end.

Lemma erased_step o h h' e : erased o h h' -> eop e <> o -> erased o (lstep h e) (lstep h' e).
Proof.
  intros R Ne n. destruct e as [o1 m|o1 m|o1 m]; simpl in *; auto.
  - unfold setl. destruct (Nat.eqb_spec n m); auto.
    destruct (Nat.eqb_spec o1 o); [contradiction|auto].
  - unfold setl. destruct (Nat.eqb_spec n m); auto.
Qed.

Lemma erased_drop o h h' e : erased o h h' -> eop e = o -> ok_legal h e -> erased o (lstep h e) h'.
Proof.
  intros R Eo OK n. destruct e as [o1 m|o1 m|o1 m]; simpl in *; auto; subst o1.
  - unfold setl. destruct (Nat.eqb_spec n m); auto. subst. rewrite Nat.eqb_refl. rewrite R, OK. auto.
  - unfold setl. destruct (Nat.eqb_spec n m); auto. subst. rewrite R, OK, Nat.eqb_refl. auto.
Qed.

Lemma rem_legal o : forall s h h', erased o h h' -> legal h s -> legal h' (rem o s).
Proof.
  induction s as [|e t IH]; intros h h' R HL; [exact I|].
  simpl in HL. destruct HL as [L1 L2]. simpl.
  unfold isop. destruct (Nat.eqb_spec (eop e) o) as [Eo|Ne]; simpl.
  - apply (IH (lstep h e)); auto. apply erased_drop; auto.
  - split.
    + destruct e as [o1 m|o1 m|o1 m]; simpl in *; auto.
      * rewrite R, L1. auto.
      * rewrite R, L1. destruct (Nat.eqb_spec o1 o); [contradiction|auto].
    + apply (IH (lstep h e)); auto. apply erased_step; auto.
Qed.

Lemma rem_covered o : forall s h h', erased o h h' -> legal h s -> covered h s -> covered h' (rem o s).
Proof.
  induction s as [|e t IH]; intros h h' R HL HC; [exact I|].
  simpl in HL, HC. destruct HL as [L1 L2]. destruct HC as [C1 C2]. simpl.
  unfold isop. destruct (Nat.eqb_spec (eop e) o) as [Eo|Ne]; simpl.
  - apply (IH (lstep h e)); auto. apply erased_drop; auto.
  - split.
    + destruct e as [o1 m|o1 m|o1 m]; simpl in *; auto.
      rewrite R, C1. destruct (Nat.eqb_spec o1 o); [contradiction|auto].
    + apply (IH (lstep h e)); auto. apply erased_step; auto.
Qed.

Lemma erased_free o : erased o free free.
Proof. intros n. reflexivity. Qed.

Lemma haslk_rem o o1 s : o1 <> o -> haslk o1 (rem o s) = haslk o1 s.
Proof.
  intros Ne. induction s as [|[o2 n|o2 n|o2 n] t IH]; simpl; auto; unfold isop; simpl;
    destruct (Nat.eqb_spec o2 o); simpl; auto.
  - subst. destruct (Nat.eqb_spec o o1); [congruence|auto].
  - rewrite IH. auto.
Qed.

Lemma haslk_rem_false o o1 s : haslk o1 s = false -> haslk o1 (rem o s) = false.
Proof.
  induction s as [|[o2 n|o2 n|o2 n] t IH]; simpl; auto; unfold isop; simpl;
    destruct (Nat.eqb_spec o2 o); simpl; auto.
  - intros H. apply orb_false_iff in H. tauto.
  - intros H. apply orb_false_iff in H. destruct H as [-> H]. simpl. auto.
Qed.

Lemma rem_two_phase o s : two_phase s -> two_phase (rem o s).
Proof.
  induction s as [|[o2 n|o2 n|o2 n] t IH]; simpl; auto; unfold isop; simpl;
    destruct (Nat.eqb_spec o2 o); simpl; auto; try tauto.
  intros [H1 H2]. split; auto. apply haslk_rem_false; auto.
Qed.

Lemma lock_order_rem o s : lock_order (rem o s) = filter (fun o1 => negb (Nat.eqb o1 o)) (lock_order s).
Proof.
  induction s as [|[o2 n|o2 n|o2 n] t IH]; simpl; auto; unfold isop; simpl;
    destruct (Nat.eqb_spec o2 o) as [->|Ne]; simpl; auto.
  - destruct (haslk o t); simpl; auto. rewrite Nat.eqb_refl. simpl. auto.
  - rewrite haslk_rem by auto. destruct (haslk o2 t); simpl; auto.
    destruct (Nat.eqb_spec o2 o); [contradiction|]. simpl. rewrite IH. auto.
Qed.

Lemma filter_notin o l : ~ In o l -> filter (fun o1 => negb (Nat.eqb o1 o)) l = l.
Proof.
  induction l as [|a t IH]; simpl; auto. intros H.
  destruct (Nat.eqb_spec a o); simpl; [subst; tauto|]. rewrite IH; auto.
Qed.

Lemma lock_order_rem_head o rest s : lock_order s = o :: rest -> lock_order (rem o s) = rest /\ ~ In o rest.
Proof.
  intros H. pose proof (lock_order_NoDup s) as ND. rewrite H in ND. inversion ND; subst.
  split; auto. rewrite lock_order_rem, H. simpl. rewrite Nat.eqb_refl. simpl. apply filter_notin; auto.
Qed.

Lemma proj_rem o o1 s : o1 <> o -> proj o1 (rem o s) = proj o1 s.
Proof.
  intros Ne. unfold proj, rem. induction s as [|e t IH]; simpl; auto. unfold isop in *.
  destruct (Nat.eqb_spec (eop e) o) as [E|E]; simpl.
  - destruct (Nat.eqb_spec (eop e) o1); [congruence|auto].
  - rewrite IH. auto.
Qed.

Lemma serial_head o rest s : lock_order s = o :: rest -> serial s = proj o s ++ serial (rem o s).
Proof.
  intros H. destruct (lock_order_rem_head _ _ _ H) as [HR Nin].
  unfold serial. rewrite H, HR. simpl. f_equal.
  rewrite !flat_map_concat_map. f_equal. apply map_ext_in.
  intros a Ha. symmetry. apply proj_rem. intro; subst; auto.
Qed.

(* no lock point at all: the schedule is empty *)
Lemma lock_order_nil s : legal free s -> covered free s -> lock_order s = [] -> s = [].
Proof.
  destruct s as [|[o n|o n|o n] t]; simpl; auto.
  - intros _ _ H. destruct (haslk o t) eqn:E; try discriminate.
    apply lock_order_In in E. rewrite H in E. contradiction.
  - intros [H _]. discriminate.
  - intros _ [H _]. discriminate.
Qed.

(* ================================================================================================================== *)
(* 3. data level                                                                                                      *)
(* ================================================================================================================== *)
Section Data.
Variables D L : Type.
Variable acc : opid -> nid -> L -> D -> L * D.

Record state := mkst { sd : nid -> D; sl : opid -> L }.

Definition updf {A} (f : nat -> A) (i : nat) (v : A) : nat -> A := fun j => if Nat.eqb j i then v else f j.

Definition exec1 (st : state) (e : event) : state :=
  match e with
  | Ac o n => let r := acc o n (sl st o) (sd st n) in mkst (updf (sd st) n (snd r)) (updf (sl st) o (fst r))
  | _ => st
  end.

Definition exec (s : list event) (st : state) : state := fold_left exec1 s st.

(* pointwise equality of stores and local states (no functional extensionality) *)
Definition eqst (a b : state) : Prop := (forall n, sd a n = sd b n) /\ (forall o, sl a o = sl b o).

Lemma eqst_refl a : eqst a a.
Proof. split; auto. Qed.

Lemma eqst_sym a b : eqst a b -> eqst b a.
Proof. intros [H1 H2]; split; auto. Qed.

Lemma eqst_trans a b c : eqst a b -> eqst b c -> eqst a c.
Proof. intros [H1 H2] [H3 H4]; split; intros; [rewrite H1|rewrite H2]; auto. Qed.

Lemma exec1_eqst e a b : eqst a b -> eqst (exec1 a e) (exec1 b e).
Proof.
  intros [H1 H2]. destruct e as [o n|o n|o n]; simpl; try (split; auto).
  - intros m. simpl. unfold updf. rewrite !H1, !H2. destruct (Nat.eqb m n); auto.
  - intros m. simpl. unfold updf. rewrite !H1, !H2. destruct (Nat.eqb m o); auto.
Qed.

Lemma exec_eqst s : forall a b, eqst a b -> eqst (exec s a) (exec s b).
Proof.
  induction s as [|e t IH]; simpl; intros; auto. apply IH. apply exec1_eqst; auto.
Qed.

Lemma exec_app a b st : exec (a ++ b) st = exec b (exec a st).
Proof. unfold exec. apply fold_left_app. Qed.

Lemma exec_cons e t st : exec (e :: t) st = exec t (exec1 st e).
Proof. reflexivity. Qed.

Arguments exec : simpl never.

Lemma exec1_comm e1 e2 st : commutes e1 e2 -> eqst (exec1 (exec1 st e1) e2) (exec1 (exec1 st e2) e1).
Proof.
  destruct e1 as [o1 n1|o1 n1|o1 n1], e2 as [o2 n2|o2 n2|o2 n2]; simpl; intros H; try apply eqst_refl.
  destruct H as [Ho Hn]. unfold updf.
  assert (E1 : Nat.eqb o2 o1 = false) by (apply Nat.eqb_neq; auto).
  assert (E2 : Nat.eqb n2 n1 = false) by (apply Nat.eqb_neq; auto).
  assert (E3 : Nat.eqb o1 o2 = false) by (apply Nat.eqb_neq; auto).
  assert (E4 : Nat.eqb n1 n2 = false) by (apply Nat.eqb_neq; auto).
  rewrite E1, E2, E3, E4. split; simpl.
  - intros m. destruct (Nat.eqb_spec m n2), (Nat.eqb_spec m n1); auto. congruence.
  - intros m. destruct (Nat.eqb_spec m o2), (Nat.eqb_spec m o1); auto. congruence.
Qed.

(* an event that commutes with every element of l can be moved behind l *)
Lemma move_past e : forall l r st,
  (forall x, In x l -> commutes e x) -> eqst (exec (e :: l ++ r) st) (exec (l ++ e :: r) st).
Proof.
  induction l as [|x l IH]; intros r st H; [apply eqst_refl|].
  simpl app. rewrite (exec_cons e), (exec_cons x), (exec_cons x).
  eapply eqst_trans.
  - apply exec_eqst. apply exec1_comm. apply H. left; auto.
  - rewrite <- (exec_cons e). apply IH. intros y Hy. apply H. right; auto.
Qed.

(* MOVE ONE OPERATION TO THE FRONT *)
Lemma move_front o : forall s st, front_ok o s -> eqst (exec s st) (exec (proj o s ++ rem o s) st).
Proof.
  induction s as [|e t IH]; intros st H; [apply eqst_refl|].
  simpl in H. destruct H as [H1 H2].
  rewrite proj_cons, rem_cons. destruct (Nat.eqb_spec (eop e) o) as [E|E]; simpl.
  - rewrite !exec_cons. apply IH; auto.
  - rewrite exec_cons. eapply eqst_trans; [apply IH; auto|].
    rewrite <- exec_cons. apply move_past.
    intros x Hx. apply filter_In in Hx. destruct Hx as [Hx Ho]. apply Nat.eqb_eq in Ho. apply H1; auto.
Qed.

(* THE THEOREM *)
Theorem two_phase_serializable_from : forall k s st,
  length (lock_order s) = k -> legal free s -> covered free s -> two_phase s ->
  eqst (exec s st) (exec (serial s) st).
Proof.
  induction k as [|k IH]; intros s st Hk HL HC HT.
  - destruct (lock_order s) eqn:E; try discriminate.
    rewrite (lock_order_nil s HL HC E). apply eqst_refl.
  - destruct (lock_order s) as [|o rest] eqn:E; try discriminate.
    destruct (lock_order_rem_head _ _ _ E) as [HR _].
    rewrite (serial_head o rest s E).
    eapply eqst_trans; [apply move_front; eapply lock_point_first_front_ok; eauto|].
    rewrite !exec_app. apply IH.
    + rewrite HR. simpl in Hk. lia.
    + apply (rem_legal o s free free); auto. apply erased_free.
    + apply (rem_covered o s free free); auto. apply erased_free.
    + apply rem_two_phase; auto.
Qed.

Theorem two_phase_serializable s st :
  legal free s -> covered free s -> two_phase s ->
  (forall n, sd (exec s st) n = sd (exec (serial s) st) n) /\
  (forall o, sl (exec s st) o = sl (exec (serial s) st) o).
Proof. intros. eapply two_phase_serializable_from; eauto. Qed.

(* the serial schedule IS the sequential execution: operation after operation, each running its own events *)
Theorem serial_is_sequential s st :
  exec (serial s) st = fold_left (fun st o => exec (proj o s) st) (lock_order s) st.
Proof.
  unfold serial. generalize (lock_order s). intros l. revert st.
  induction l as [|o l IH]; simpl; intros; auto. rewrite exec_app. apply IH.
Qed.

End Data.

Arguments sd {D L} _ _.
Arguments sl {D L} _ _.
Arguments mkst {D L} _ _.

(* ================================================================================================================== *)
(* 4. non-vacuity: a concrete instance                                                                                *)
(* ================================================================================================================== *)
(* data = one number per node; an access of operation 0 adds one, of operation 1 doubles, of any other operation adds ten;
   the local state (the operation's outcome) is the list of values it has read *)
Definition ex_acc (o : opid) (n : nid) (l : list nat) (d : nat) : list nat * nat :=
  (l ++ [d], match o with 0 => d + 1 | 1 => 2 * d | _ => d + 10 end).

Definition ex_init : state nat (list nat) := mkst (fun _ => 1) (fun _ => []).

Definition ex_view (st : state nat (list nat)) : list nat * list (list nat) :=
  (map (sd st) [0; 1; 2], map (sl st) [0; 1; 2]).

(* operation 0 walks over nodes 0 and 1 and releases 0 early; operation 1 follows it hand over hand; operation 2 works on
   node 2 all along.  Lock points: 2 (position 0), 0 (position 4), 1 (position 10). *)
Definition ex_sched : list event :=
  [Lk 2 2; Lk 0 0; Ac 0 0; Ac 2 2; Lk 0 1; Ul 0 0; Lk 1 0; Ac 1 0; Ac 0 1; Ul 0 1; Lk 1 1; Ac 2 2; Ac 1 1; Ul 1 0; Ul 1 1; Ul 2 2].

Example ex_sched_ok :
  legal free ex_sched /\ covered free ex_sched /\ two_phase ex_sched /\
  lock_order ex_sched = [2; 0; 1] /\ serial ex_sched <> ex_sched /\
  serial ex_sched =
    [Lk 2 2; Ac 2 2; Ac 2 2; Ul 2 2] ++ [Lk 0 0; Ac 0 0; Lk 0 1; Ul 0 0; Ac 0 1; Ul 0 1] ++
    [Lk 1 0; Ac 1 0; Lk 1 1; Ac 1 1; Ul 1 0; Ul 1 1] /\
  ex_view (exec _ _ ex_acc ex_sched ex_init) = ([4; 4; 21], [[1; 1]; [2; 2]; [1; 11]]) /\
  ex_view (exec _ _ ex_acc (serial ex_sched) ex_init) = ([4; 4; 21], [[1; 1]; [2; 2]; [1; 11]]).
Proof. vm_compute. repeat split; auto; discriminate. Qed.

(* dropping two-phase-ness: operation 0 releases node 0 and takes it again; operation 1 slips in between.  The schedule is
   legal and covered, and its result is that of NO sequential order of the two operations. *)
Definition ex_not_2pl : list event :=
  [Lk 0 0; Ac 0 0; Ul 0 0; Lk 1 0; Ac 1 0; Ul 1 0; Lk 0 0; Ac 0 0; Ul 0 0].

Example two_phase_needed :
  legal free ex_not_2pl /\ covered free ex_not_2pl /\ ~ two_phase ex_not_2pl /\
  sd (exec _ _ ex_acc ex_not_2pl ex_init) 0 = 5 /\
  sd (exec _ _ ex_acc (serial ex_not_2pl) ex_init) 0 = 4 /\
  sd (exec _ _ ex_acc (proj 0 ex_not_2pl ++ proj 1 ex_not_2pl) ex_init) 0 = 6 /\
  sd (exec _ _ ex_acc (proj 1 ex_not_2pl ++ proj 0 ex_not_2pl) ex_init) 0 = 4.
Proof. vm_compute. repeat split; auto. intros [H _]. discriminate. Qed.

(* dropping coverage: operation 1 accesses node 0 without its lock, inside operation 0's critical section.  Legal and
   two-phase; again no sequential order gives the result. *)
Definition ex_not_covered : list event := [Lk 0 0; Ac 0 0; Ac 1 0; Ac 0 0; Ul 0 0].

Example coverage_needed :
  legal free ex_not_covered /\ two_phase ex_not_covered /\ ~ covered free ex_not_covered /\
  sd (exec _ _ ex_acc ex_not_covered ex_init) 0 = 5 /\
  sd (exec _ _ ex_acc (serial ex_not_covered) ex_init) 0 = 3 /\
  sd (exec _ _ ex_acc (proj 0 ex_not_covered ++ proj 1 ex_not_covered) ex_init) 0 = 6 /\
  sd (exec _ _ ex_acc (proj 1 ex_not_covered ++ proj 0 ex_not_covered) ex_init) 0 = 4.
Proof. vm_compute. repeat split; auto. intros (_ & _ & H & _). discriminate. Qed.

(* dropping exclusiveness: both operations hold the lock of node 0 *)
Definition ex_not_legal : list event := [Lk 0 0; Ac 0 0; Lk 1 0; Ac 1 0; Ac 0 0; Ul 0 0].

Example legality_needed :
  ~ legal free ex_not_legal /\ two_phase ex_not_legal /\
  sd (exec _ _ ex_acc ex_not_legal ex_init) 0 = 5 /\
  sd (exec _ _ ex_acc (proj 0 ex_not_legal ++ proj 1 ex_not_legal) ex_init) 0 = 6 /\
  sd (exec _ _ ex_acc (proj 1 ex_not_legal ++ proj 0 ex_not_legal) ex_init) 0 = 4.
Proof. vm_compute. repeat split; auto. intros (_ & _ & H & _). discriminate. Qed.

(* ================================================================================================================== *)
(* 5. model L: every accepted run of a lock-disciplined configuration is a legal, two-phase lock schedule             *)
(* ================================================================================================================== *)
Definition ev_events (e : ev) : list event :=
  match e with EAcq n o _ => [Lk o n] | ERel n o _ => [Ul o n] | _ => [] end.

(* the lock schedule of a model-L trace *)
Definition sched (tr : list ev) : list event := flat_map ev_events tr.

(* what one accepted event of a lock-disciplined configuration does to the locks and to its own operation *)
Lemma step_spec cfg s e s' :
  all_disciplined cfg -> Own s -> step cfg s e = Some s' ->
  match e with
  | EIssue o => op_of s o = SIdle /\ op_of s' o = SRun [] (prog_of (kind_of cfg o)) None /\
                forall m, lock_of s' m = lock_of s m
  | EReq n o r => (exists held p, op_of s o = SRun held (AReq n :: p) None /\ op_of s' o = SRun held p (Some r)) /\
                forall m, lock_of s' m = lock_of s m
  | EAcq n o r => (exists held p, op_of s o = SRun held (AAcq n :: p) (Some r) /\ op_of s' o = SRun (n :: held) p None) /\
                lock_of s n = None /\
                forall m, lock_of s' m = if Nat.eqb m n then Some (o, false) else lock_of s m
  | ERel n o _ => (exists held p, op_of s o = SRun held (ARel n :: p) None /\ op_of s' o = SRun (remove1 n held) p None) /\
                lock_of s n = Some (o, false) /\
                forall m, lock_of s' m = if Nat.eqb m n then None else lock_of s m
  | EDone o => (exists held, op_of s o = SRun held [] None) /\ op_of s' o = SDone /\
                forall m, lock_of s' m = lock_of s m
  | _ => False
  end.
Proof.
  intros HC HS ST. destruct e as [o|o rs|n o r|n o r|n o was|o|o]; simpl in ST.
  - destruct (op_of s o) eqn:Eo; try discriminate.
    assert (R : o < length (ops s)) by (apply op_of_range; congruence).
    pose proof (disciplined_kind cfg o HC) as D.
    assert (s' = set_op s o (SRun [] (prog_of (kind_of cfg o)) None)) as ->.
    { destruct (kind_of cfg o); simpl in D; try discriminate; inv ST; reflexivity. }
    split; auto. split; [apply op_set_eq; auto|]. intros; apply lock_set_op.
  - pose proof (disciplined_kind cfg o HC) as D. destruct (kind_of cfg o); simpl in D; discriminate.
  - rewrite (own_orph _ HS) in ST. simpl in ST.
    destruct (op_of s o) eqn:Eo; try discriminate; try (own_contra HS o Eo).
    assert (R : o < length (ops s)) by (apply op_of_range; congruence).
    destruct prog as [|[m|m|m] p]; try discriminate. destruct cur; try discriminate.
    destruct (Nat.eqb_spec m n); try discriminate. subst m. inv ST.
    split; [|intros; apply lock_set_op].
    exists held, p. split; auto. apply op_set_eq; auto.
  - destruct (lock_of s n) eqn:El; try discriminate.
    destruct (Nat.ltb_spec n (length (locks s))) as [Rn|]; try discriminate.
    rewrite (own_orph _ HS) in ST. simpl in ST.
    destruct (op_of s o) eqn:Eo; try discriminate; try (own_contra HS o Eo).
    assert (R : o < length (ops s)) by (apply op_of_range; congruence).
    destruct prog as [|[m|m|m] p]; try discriminate. destruct cur as [r'|]; try discriminate.
    destruct (Nat.eqb_spec m n); simpl in ST; try discriminate. subst m.
    destruct (Nat.eqb_spec r r'); try discriminate. subst r'. inv ST.
    split; [|split; auto].
    + exists held, p. split; auto. rewrite op_set_lock. apply op_set_eq; auto.
    + intros m. destruct (Nat.eqb_spec m n) as [->|Ne].
      * apply lock_set_eq. auto.
      * rewrite lock_set_neq by auto. apply lock_set_op.
  - destruct (op_of s o) eqn:Eo; try discriminate; try (own_contra HS o Eo).
    assert (R : o < length (ops s)) by (apply op_of_range; congruence).
    destruct prog as [|[m|m|m] p]; try discriminate. destruct cur; try discriminate.
    destruct (Nat.eqb_spec m n); try discriminate. subst m.
    destruct (own_ops_run _ _ _ _ _ HS Eo) as (W & _ & HL).
    simpl in W. apply andb_true_iff in W. destruct W as [Hm _]. apply mem_In in Hm. apply HL in Hm.
    unfold rel_lock in ST. destruct (Bool.eqb was _); try discriminate. inv ST.
    split; [|split; auto].
    + exists held, p. split; auto. rewrite op_set_lock. apply op_set_eq; auto.
    + intros m. destruct (Nat.eqb_spec m n) as [->|Ne].
      * apply lock_set_none.
      * rewrite lock_set_neq by auto. apply lock_set_op.
  - pose proof (disciplined_kind cfg o HC) as D. destruct (kind_of cfg o); simpl in D; discriminate.
  - destruct (op_of s o) eqn:Eo; try discriminate; try (own_contra HS o Eo).
    assert (R : o < length (ops s)) by (apply op_of_range; congruence).
    destruct prog; try discriminate. destruct cur; try discriminate. inv ST.
    split; [eauto|]. split; [apply op_set_eq; auto|]. intros; apply lock_set_op.
Qed.

(* ---- legality ---- *)
Definition lock_view (s : st) (h : lockst) : Prop := forall n, h n = option_map fst (lock_of s n).

Lemma disciplined_legal_from cfg : forall tr s s' h,
  all_disciplined cfg -> Own s -> lock_view s h -> run cfg s tr = Some s' -> legal h (sched tr).
Proof.
  induction tr as [|e t IH]; simpl; intros s s' h HC HS HV R; auto.
  destruct (step cfg s e) as [s1|] eqn:ST; try discriminate.
  assert (HS1 : Own s1) by (eapply own_step; eauto).
  pose proof (step_spec cfg s e s1 HC HS ST) as SP.
  destruct e as [o|o rs|n o r|n o r|n o was|o|o]; simpl; try contradiction.
  - destruct SP as (_ & _ & SL). apply (IH s1 s'); auto. intros m. rewrite SL. apply HV.
  - destruct SP as (_ & SL). apply (IH s1 s'); auto. intros m. rewrite SL. apply HV.
  - destruct SP as (_ & El & SL). split.
    + rewrite HV, El. reflexivity.
    + apply (IH s1 s'); auto. intros m. rewrite SL. unfold setl. destruct (Nat.eqb m n); auto; apply HV.
  - destruct SP as (_ & El & SL). split.
    + rewrite HV, El. reflexivity.
    + apply (IH s1 s'); auto. intros m. rewrite SL. unfold setl. destruct (Nat.eqb m n); auto; apply HV.
  - destruct SP as (_ & _ & SL). apply (IH s1 s'); auto. intros m. rewrite SL. apply HV.
Qed.

Theorem disciplined_legal cfg nn tr s :
  all_disciplined cfg -> run cfg (init nn cfg) tr = Some s -> legal free (sched tr).
Proof.
  intros HC R. apply (disciplined_legal_from cfg tr (init nn cfg) s free); auto.
  - apply own_init.
  - intros n. rewrite lock_of_init. reflexivity.
Qed.

(* ---- two-phase-ness: every lock program of model L is two-phase, and programs only shrink ---- *)
Fixpoint no_acq (p : list act) : bool :=
  match p with [] => true | AAcq _ :: _ => false | _ :: t => no_acq t end.

Fixpoint tp_prog (p : list act) : bool :=
  match p with [] => true | ARel _ :: t => no_acq t && tp_prog t | _ :: t => tp_prog t end.

Lemma tp_prog_of k : tp_prog (prog_of k) = true.
Proof. destruct k; reflexivity. Qed.

Lemma tp_prog_tail a p : tp_prog (a :: p) = true -> tp_prog p = true.
Proof. destruct a; simpl; auto. intros H. apply andb_true_iff in H. tauto. Qed.

Definition TP (s : st) : Prop := forall o held prog cur, op_of s o = SRun held prog cur -> tp_prog prog = true.

Lemma tp_step cfg s e s' : all_disciplined cfg -> Own s -> TP s -> step cfg s e = Some s' -> TP s'.
Proof.
  intros HC HS HT ST o held prog cur Eo.
  destruct (step_frame cfg s e s' HC HS ST) as [FR _].
  destruct (Nat.eq_dec o (ev_op e)) as [->|Ne]; [|rewrite FR in Eo by auto; eapply HT; eauto].
  pose proof (step_spec cfg s e s' HC HS ST) as SP.
  destruct e as [o|o rs|n o r|n o r|n o was|o|o]; simpl in *; try contradiction.
  - destruct SP as (_ & E & _). rewrite E in Eo. inv Eo. apply tp_prog_of.
  - destruct SP as ((h0 & p & E0 & E) & _). rewrite E in Eo. inv Eo. apply HT in E0. eapply tp_prog_tail; eauto.
  - destruct SP as ((h0 & p & E0 & E) & _). rewrite E in Eo. inv Eo. apply HT in E0. eapply tp_prog_tail; eauto.
  - destruct SP as ((h0 & p & E0 & E) & _). rewrite E in Eo. inv Eo. apply HT in E0. eapply tp_prog_tail; eauto.
  - destruct SP as (_ & E & _). rewrite E in Eo. discriminate.
Qed.

Lemma tp_init nn cfg : TP (init nn cfg).
Proof.
  intros o held prog cur E. unfold op_of, init in E; simpl in E.
  destruct (nth_map_idle cfg o) as [X|X]; rewrite X in E; discriminate.
Qed.

(* an operation whose remaining program has no grant (or that is done) never locks again *)
Definition quiet (s : st) (o : opid) : Prop :=
  match op_of s o with SRun _ p _ => no_acq p = true | SDone => True | _ => False end.

Lemma quiet_run cfg o : forall tr s s',
  all_disciplined cfg -> Own s -> quiet s o -> run cfg s tr = Some s' -> haslk o (sched tr) = false.
Proof.
  induction tr as [|e t IH]; simpl; intros s s' HC HS HQ R; auto.
  destruct (step cfg s e) as [s1|] eqn:ST; try discriminate.
  assert (HS1 : Own s1) by (eapply own_step; eauto).
  destruct (step_frame cfg s e s1 HC HS ST) as [FR _].
  pose proof (step_spec cfg s e s1 HC HS ST) as SP.
  unfold quiet in HQ.
  destruct (Nat.eq_dec o (ev_op e)) as [->|Ne].
  - destruct e as [o|o rs|n o r|n o r|n o was|o|o]; simpl in *; try contradiction.
    + destruct SP as (E & _). rewrite E in HQ. contradiction.
    + destruct SP as ((h0 & p & E0 & E) & _). rewrite E0 in HQ. apply (IH s1 s'); auto. unfold quiet. rewrite E. auto.
    + destruct SP as ((h0 & p & E0 & E) & _). rewrite E0 in HQ. discriminate.
    + destruct SP as ((h0 & p & E0 & E) & _). rewrite E0 in HQ. apply (IH s1 s'); auto. unfold quiet. rewrite E. auto.
    + destruct SP as (_ & E & _). apply (IH s1 s'); auto. unfold quiet. rewrite E. auto.
  - assert (HQ1 : quiet s1 o) by (unfold quiet; rewrite FR; auto).
    specialize (IH s1 s' HC HS1 HQ1 R).
    destruct e as [o1|o1 rs|n o1 r|n o1 r|n o1 was|o1|o1]; simpl in *; auto.
    destruct (Nat.eqb_spec o1 o); [congruence|auto].
Qed.

Lemma disciplined_two_phase_from cfg : forall tr s s',
  all_disciplined cfg -> Own s -> TP s -> run cfg s tr = Some s' -> two_phase (sched tr).
Proof.
  induction tr as [|e t IH]; simpl; intros s s' HC HS HT R; auto.
  destruct (step cfg s e) as [s1|] eqn:ST; try discriminate.
  assert (HS1 : Own s1) by (eapply own_step; eauto).
  assert (HT1 : TP s1) by (apply (tp_step cfg s e s1); auto).
  specialize (IH s1 s' HC HS1 HT1 R).
  pose proof (step_spec cfg s e s1 HC HS ST) as SP.
  destruct e as [o|o rs|n o r|n o r|n o was|o|o]; simpl; auto.
  split; auto.
  destruct SP as ((h0 & p & E0 & E) & _). apply HT in E0. simpl in E0. apply andb_true_iff in E0.
  apply (quiet_run cfg o t s1 s'); auto. unfold quiet. rewrite E. tauto.
Qed.

Theorem disciplined_two_phase cfg nn tr s :
  all_disciplined cfg -> run cfg (init nn cfg) tr = Some s -> two_phase (sched tr).
Proof.
  intros HC R. apply (disciplined_two_phase_from cfg tr (init nn cfg) s); auto.
  - apply own_init.
  - apply tp_init.
Qed.

(* ================================================================================================================== *)
(* 6. the bridge: ANY covered placement of accesses inside a recorded lock trace is serializable, in the order        *)
(*    computed from the trace alone                                                                                   *)
(* ================================================================================================================== *)
Definition is_lock_event (e : event) : bool := match e with Ac _ _ => false | _ => true end.
Definition locks_of (s : list event) : list event := filter is_lock_event s.

Lemma legal_locks_of : forall s h, legal h (locks_of s) -> legal h s.
Proof.
  induction s as [|[o n|o n|o n] t IH]; simpl; intros h H; auto.
  - destruct H; split; auto.
  - destruct H; split; auto.
Qed.

Lemma haslk_locks_of o s : haslk o (locks_of s) = haslk o s.
Proof. induction s as [|[o1 n|o1 n|o1 n] t IH]; simpl; auto. rewrite IH; auto. Qed.

Lemma two_phase_locks_of s : two_phase (locks_of s) -> two_phase s.
Proof.
  induction s as [|[o n|o n|o n] t IH]; simpl; auto.
  rewrite haslk_locks_of. tauto.
Qed.

Lemma lock_order_locks_of s : lock_order (locks_of s) = lock_order s.
Proof.
  induction s as [|[o n|o n|o n] t IH]; simpl; auto.
  rewrite haslk_locks_of, IH. auto.
Qed.

Section Bridge.
Variables D L : Type.
Variable acc : opid -> nid -> L -> D -> L * D.

Theorem disciplined_runs_serializable cfg nn tr s0 s st :
  all_disciplined cfg -> run cfg (init nn cfg) tr = Some s0 ->
  locks_of s = sched tr -> covered free s ->
  lock_order s = lock_order (sched tr) /\
  (forall n, sd (exec D L acc s st) n = sd (exec D L acc (serial s) st) n) /\
  (forall o, sl (exec D L acc s st) o = sl (exec D L acc (serial s) st) o).
Proof.
  intros HC R E HCov. split.
  - rewrite <- E. symmetry. apply lock_order_locks_of.
  - apply two_phase_serializable; auto.
    + apply legal_locks_of. rewrite E. eapply disciplined_legal; eauto.
    + apply two_phase_locks_of. rewrite E. eapply disciplined_two_phase; eauto.
Qed.
End Bridge.

(* non-vacuity of the bridge: crossing-free sends and a creation, as model L accepts them *)
Definition ex_cfg : list okind := [KSend 0 1; KOne 1; KOne 0].
Definition ex_trace : list ev :=
  [EIssue 0; EIssue 1; EIssue 2; EReq 0 0 0; EAcq 0 0 0; EReq 1 1 1; EAcq 1 1 1; EReq 1 0 2; EReq 0 2 3;
   ERel 1 1 true; EDone 1; EAcq 1 0 2; ERel 1 0 true; ERel 0 0 true; EAcq 0 2 3; EDone 0; ERel 0 2 true; EDone 2].

Example ex_trace_ok :
  all_disciplined ex_cfg /\ (exists s, run ex_cfg (init 2 ex_cfg) ex_trace = Some s) /\
  sched ex_trace = [Lk 0 0; Lk 1 1; Ul 1 1; Lk 0 1; Ul 0 1; Ul 0 0; Lk 2 0; Ul 2 0] /\
  lock_order (sched ex_trace) = [1; 0; 2].
Proof. vm_compute. repeat split; eauto. Qed.

(* ================================================================================================================== *)
(* 7. executable deciders, used by the harness on the lock schedules it records (harness/twophase.py)                 *)
(* ================================================================================================================== *)
Definition oeqb (a b : option opid) : bool :=
  match a, b with None, None => true | Some x, Some y => Nat.eqb x y | _, _ => false end.

Lemma oeqb_spec a b : oeqb a b = true <-> a = b.
Proof.
  destruct a as [x|], b as [y|]; simpl; try (split; [discriminate|congruence]); try tauto.
  rewrite Nat.eqb_eq. split; congruence.
Qed.

Definition ok_legalb (h : lockst) (e : event) : bool :=
  match e with Lk _ n => oeqb (h n) None | Ul o n => oeqb (h n) (Some o) | Ac _ _ => true end.

Definition ok_covb (h : lockst) (e : event) : bool :=
  match e with Ac o n => oeqb (h n) (Some o) | _ => true end.

Fixpoint legalb (h : lockst) (s : list event) : bool :=
  match s with [] => true | e :: t => ok_legalb h e && legalb (lstep h e) t end.

Fixpoint coveredb (h : lockst) (s : list event) : bool :=
  match s with [] => true | e :: t => ok_covb h e && coveredb (lstep h e) t end.

Fixpoint two_phaseb (s : list event) : bool :=
  match s with
  | [] => true
  | Ul o _ :: t => negb (haslk o t) && two_phaseb t
  | _ :: t => two_phaseb t
  end.

Lemma legalb_spec : forall s h, legalb h s = true <-> legal h s.
Proof.
  induction s as [|e t IH]; simpl; intros h; [tauto|].
  rewrite andb_true_iff, IH. destruct e; simpl; rewrite ?oeqb_spec; tauto.
Qed.

Lemma coveredb_spec : forall s h, coveredb h s = true <-> covered h s.
Proof.
  induction s as [|e t IH]; simpl; intros h; [tauto|].
  rewrite andb_true_iff, IH. destruct e; simpl; rewrite ?oeqb_spec; tauto.
Qed.

Lemma two_phaseb_spec s : two_phaseb s = true <-> two_phase s.
Proof.
  induction s as [|[o n|o n|o n] t IH]; simpl; try tauto.
  rewrite andb_true_iff, IH, negb_true_iff. tauto.
Qed.

(* what the harness asks about a recorded lock schedule: [legal?; two-phase?] ++ lock_order ++ [999] *)
Definition sched_report (s : list event) : list nat :=
  (if legalb free s then 1 else 0) :: (if two_phaseb s then 1 else 0) :: lock_order s ++ [999].

Theorem sched_report_sound s order :
  sched_report s = 1 :: 1 :: order ++ [999] -> legal free s /\ two_phase s /\ lock_order s = order.
Proof.
  unfold sched_report. intros H.
  destruct (legalb free s) eqn:E1; try discriminate.
  destruct (two_phaseb s) eqn:E2; try discriminate.
  inversion H as [H1]. apply app_inv_tail in H1.
  split; [apply legalb_spec; auto|]. split; [apply two_phaseb_spec; auto|auto].
Qed.

(* ================================================================================================================== *)
(* 8. the serial schedule is a rearrangement: every operation keeps exactly its own events, in its own order          *)
(* ================================================================================================================== *)
Lemma never_locked_silent o : forall s h,
  legal h s -> covered h s -> haslk o s = false -> (forall n, h n <> Some o) -> proj o s = [].
Proof.
  induction s as [|e t IH]; intros h HL HC HK Hh; auto.
  simpl in HL, HC. destruct HL as [L1 L2]. destruct HC as [C1 C2].
  rewrite proj_cons.
  assert (Ne : eop e <> o).
  { destruct e as [o1 m|o1 m|o1 m]; simpl in *.
    - apply orb_false_iff in HK. destruct HK as [HK _]. apply Nat.eqb_neq in HK. auto.
    - intro; subst. apply (Hh m); auto.
    - intro; subst. apply (Hh m); auto. }
  destruct (Nat.eqb_spec (eop e) o); [contradiction|].
  apply (IH (lstep h e)); auto.
  - destruct e; simpl in HK; auto. apply orb_false_iff in HK. tauto.
  - intros m. destruct e as [o1 k|o1 k|o1 k]; simpl in *; auto.
    + destruct (Nat.eq_dec m k) as [->|Nk]; [rewrite setl_eq; congruence|rewrite setl_neq; auto].
    + destruct (Nat.eq_dec m k) as [->|Nk]; [rewrite setl_eq; congruence|rewrite setl_neq; auto].
Qed.

Lemma proj_proj o o' s : proj o (proj o' s) = if Nat.eqb o o' then proj o s else [].
Proof.
  induction s as [|e t IH]; [simpl; destruct (Nat.eqb o o'); auto|].
  rewrite (proj_cons o' e t), (proj_cons o e t).
  destruct (Nat.eqb_spec (eop e) o') as [E|E]; [rewrite proj_cons|]; rewrite IH;
    destruct (Nat.eqb_spec (eop e) o) as [E2|E2]; destruct (Nat.eqb_spec o o') as [E3|E3]; auto; congruence.
Qed.

Lemma proj_app o a b : proj o (a ++ b) = proj o a ++ proj o b.
Proof. apply filter_app. Qed.

Lemma proj_flat_map o s : forall order, NoDup order ->
  proj o (flat_map (fun o' => proj o' s) order) = if mem o order then proj o s else [].
Proof.
  induction order as [|a l IH]; simpl; intros ND; auto.
  inversion ND; subst. rewrite proj_app, proj_proj, IH by auto.
  destruct (Nat.eqb_spec a o) as [->|Ne]; simpl.
  - rewrite Nat.eqb_refl. destruct (mem o l) eqn:E; [apply mem_In in E; contradiction|apply app_nil_r].
  - destruct (Nat.eqb_spec o a); [congruence|auto].
Qed.

Theorem serial_keeps_each_operation s o :
  legal free s -> covered free s -> proj o (serial s) = proj o s.
Proof.
  intros HL HC. unfold serial. rewrite proj_flat_map by apply lock_order_NoDup.
  destruct (mem o (lock_order s)) eqn:E; auto.
  symmetry. apply (never_locked_silent o s free); auto; [|discriminate].
  destruct (haslk o s) eqn:E2; auto. apply lock_order_In in E2. apply mem_In in E2. congruence.
Qed.
