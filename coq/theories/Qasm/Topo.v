(* Model N, decision part of C12 — who may generate entanglement with whom.
     NetQASMFactory.is_adjacent           simulaqron/netqasm_backend/factory.py:220-243
     the three refusals of cmd_epr          simulaqron/netqasm_backend/executioner.py:390-406
       (unknown node id  ->  the node itself  ->  not adjacent  ->  only then the first cmd_new)
     NetQASMFactory.topology                 factory.py:185-190 : the "topology" entry of the network config (JSON
                                             object  name -> list of names, or null = fully connected)
   Executable definitions only; proofs in Qasm/TopoFacts.v. *)
From Coq Require Import List String Bool.
From SQ Require Import Base.ListUtil.
Import ListNotations.
Local Open Scope string_scope.

Definition name := string.
Definition topology := list (name * list name).      (* a JSON object; directed: t[a] lists whom a may reach *)

Fixpoint assoc (t : topology) (k : name) : option (list name) :=
  match t with
  | [] => None
  | (k', l) :: rest => if String.eqb k' k then Some l else assoc rest k
  end.

Definition mem (x : name) (l : list name) : bool := existsb (String.eqb x) l.

(* self.topology[self.name] when defined *)
Definition neighbours (topo : option topology) (self : name) : option (list name) :=
  match topo with None => None | Some t => assoc t self end.

Definition is_adjacent (topo : option topology) (self r : name) : bool :=
  match topo with
  | None => true                                   (* no topology configured: fully connected *)
  | Some t => match assoc t self with
              | Some l => mem r l
              | None => false                      (* node absent from the topology: no neighbours *)
              end
  end.

(* cmd_epr, in the code's order *)
Inductive verdict := RefuseUnknown | RefuseSelf | RefuseNotAdjacent | Create.

Definition epr_check (topo : option topology) (known : list name) (self r : name) : verdict :=
  if negb (mem r known) then RefuseUnknown
  else if String.eqb self r then RefuseSelf
  else if negb (is_adjacent topo self r) then RefuseNotAdjacent
  else Create.

Definition may_create (topo : option topology) (known : list name) (self r : name) : bool :=
  match epr_check topo known self r with Create => true | _ => false end.

Definition verdict_eqb (a b : verdict) : bool :=
  match a, b with
  | RefuseUnknown, RefuseUnknown | RefuseSelf, RefuseSelf | RefuseNotAdjacent, RefuseNotAdjacent | Create, Create => true
  | _, _ => false
  end.

(* ---------- Python expression semantics used by the generated text (translate/adjacent.py) -------------------
   Every operation that would raise in Python (`x in None`, `None[k]`, a missing key) evaluates to None here, so the
   obligation `gen_is_adjacent = Some (is_adjacent ...)` also says that the code never raises. *)
Definition py_is_none (topo : option topology) : option bool :=
  Some (match topo with None => true | Some _ => false end).
Definition py_in_dict (k : name) (topo : option topology) : option bool :=
  match topo with None => None | Some t => Some (match assoc t k with Some _ => true | None => false end) end.
Definition py_getitem (topo : option topology) (k : name) : option (list name) :=
  match topo with None => None | Some t => assoc t k end.
Definition py_in_list (x : name) (ol : option (list name)) : option bool :=
  match ol with None => None | Some l => Some (mem x l) end.
Definition py_not (a : option bool) : option bool := option_map negb a.
Definition py_and (a b : option bool) : option bool :=
  match a with Some true => b | Some false => Some false | None => None end.
Definition py_or (a b : option bool) : option bool :=
  match a with Some true => Some true | Some false => b | None => None end.
Definition py_if {A} (c : option bool) (a b : option A) : option A :=
  match c with Some true => a | Some false => b | None => None end.
Definition py_str_eq (a b : name) : option bool := Some (String.eqb a b).

(* ---------- correspondence cases (harness/props/c12.py) --------------------------------------------------------- *)
Record tcase := {
  t_topo : option topology;
  t_known : list name;
  t_self : name;
  t_r : name;
  t_adj : bool;                   (* what the real NetQASMFactory.is_adjacent returned *)
  t_created : bool;               (* the real cmd_epr reached its first cmd_new (true) / raised before (false) *)
  t_verdict : option verdict      (* which refusal, when the error text was recognised *)
}.

Definition check_tcase (c : tcase) : bool :=
  Bool.eqb (is_adjacent (t_topo c) (t_self c) (t_r c)) (t_adj c) &&
  Bool.eqb (may_create (t_topo c) (t_known c) (t_self c) (t_r c)) (t_created c) &&
  match t_verdict c with
  | Some v => verdict_eqb (epr_check (t_topo c) (t_known c) (t_self c) (t_r c)) v
  | None => true
  end.

Definition failing_tcases (l : list tcase) : list nat := failing (map check_tcase l).
