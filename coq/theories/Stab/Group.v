(* The n-qubit Pauli group as (phase i^k, list of single-qubit Paulis) with positionwise product, the group generated
   by the rows of a tableau, and the Clifford conjugations conj1/conj2 as automorphisms of it.
   Everything is tied to matrices only through the finite tables of Pauli.v / PauliMat.v. *)
From Coq Require Import List Bool Arith Lia.
From SQ Require Import Base.ListUtil Stab.Pauli Stab.Kernels Stab.Gates Stab.Tableau.
Import ListNotations.

Definition pstr := (ph * list pauli)%type.

Fixpoint pmul_l (a b : list pauli) : ph * list pauli :=
  match a, b with
  | x :: a', y :: b' => (padd (fst (pmul1 x y)) (fst (pmul_l a' b')), snd (pmul1 x y) :: snd (pmul_l a' b'))
  | _, _ => (P0, [])
  end.

Definition pmul (a b : pstr) : pstr :=
  (padd (padd (fst a) (fst b)) (fst (pmul_l (snd a) (snd b))), snd (pmul_l (snd a) (snd b))).

Definition pone (n : nat) : pstr := (P0, repeat PI n).

Definition lift (sp : bool * list pauli) : pstr := (ph_of_sign (fst sp), snd sp).
Definition decode_ph (n : nat) (r : row) : pstr := lift (decode n r).

(* commutation bit of two Pauli strings: true = they anticommute *)
Fixpoint anti_l (a b : list pauli) : bool :=
  match a, b with
  | x :: a', y :: b' => xorb (anticomm1 x y) (anti_l a' b')
  | _, _ => false
  end.

(* ---------- phases: a finite abelian group ------------------------------------------------------ *)
Definition pneg (a : ph) : ph := match a with P0 => P0 | P1 => P3 | P2 => P2 | P3 => P1 end.
Lemma padd_pneg a : padd a (pneg a) = P0. Proof. destruct a; reflexivity. Qed.
Lemma padd_cancel_r a b c : padd a c = padd b c -> a = b.
Proof. destruct a, b, c; simpl; intro H; try discriminate; reflexivity. Qed.
Lemma padd_cancel_l a b c : padd c a = padd c b -> a = b.
Proof. destruct a, b, c; simpl; intro H; try discriminate; reflexivity. Qed.
Lemma ph_of_sign_xorb a b : ph_of_sign (xorb a b) = padd (ph_of_sign a) (ph_of_sign b).
Proof. destruct a, b; reflexivity. Qed.
Definition ph_odd (k : ph) : bool := match k with P1 | P3 => true | _ => false end.
Lemma ph_odd_padd a b : ph_odd (padd a b) = xorb (ph_odd a) (ph_odd b).
Proof. destruct a, b; reflexivity. Qed.
Lemma ph_odd_pmul1 x y : ph_odd (fst (pmul1 x y)) = anticomm1 x y.
Proof. destruct x, y; reflexivity. Qed.

(* ---------- basic facts about the product -------------------------------------------------------- *)
Lemma pmul_l_length a b : length a = length b -> length (snd (pmul_l a b)) = length a.
Proof.
  revert b; induction a as [|x a IH]; intros [|y b] H; simpl in *; try discriminate; auto.
Qed.

Lemma pmul1_assoc x y z :
  snd (pmul1 (snd (pmul1 x y)) z) = snd (pmul1 x (snd (pmul1 y z))) /\
  padd (fst (pmul1 x y)) (fst (pmul1 (snd (pmul1 x y)) z)) = padd (fst (pmul1 y z)) (fst (pmul1 x (snd (pmul1 y z)))).
Proof. destruct x, y, z; simpl; auto. Qed.

Lemma pmul_l_assoc a : forall b c, length a = length b -> length b = length c ->
  snd (pmul_l (snd (pmul_l a b)) c) = snd (pmul_l a (snd (pmul_l b c))) /\
  padd (fst (pmul_l a b)) (fst (pmul_l (snd (pmul_l a b)) c)) =
  padd (fst (pmul_l b c)) (fst (pmul_l a (snd (pmul_l b c)))).
Proof.
  induction a as [|x a IH]; intros [|y b] [|z c] H1 H2; cbn [pmul_l fst snd length] in *; try discriminate; auto.
  destruct (IH b c) as [E1 E2]; try lia.
  destruct (pmul1_assoc x y z) as [F1 F2].
  split.
  - rewrite E1, F1. reflexivity.
  - idtac.
    set (u := fst (pmul1 x y)) in *. set (v := fst (pmul1 (snd (pmul1 x y)) z)) in *.
    set (u' := fst (pmul1 y z)) in *. set (v' := fst (pmul1 x (snd (pmul1 y z)))) in *.
    set (s := fst (pmul_l a b)) in *. set (s2 := fst (pmul_l (snd (pmul_l a b)) c)) in *.
    set (s' := fst (pmul_l b c)) in *. set (s2' := fst (pmul_l a (snd (pmul_l b c)))) in *.
    clearbody u v u' v' s s2 s' s2'.
    transitivity (padd (padd u v) (padd s s2)).
    { destruct u, v, s, s2; reflexivity. }
    rewrite F2, E2. destruct u', v', s', s2'; reflexivity.
Qed.

Lemma pmul_assoc a b c : length (snd a) = length (snd b) -> length (snd b) = length (snd c) ->
  pmul (pmul a b) c = pmul a (pmul b c).
Proof.
  intros H1 H2. destruct a as [ka a], b as [kb b], c as [kc c]; simpl in *.
  destruct (pmul_l_assoc a b c H1 H2) as [E1 E2]. unfold pmul; simpl.
  rewrite E1. f_equal.
  set (s := fst (pmul_l a b)) in *. set (s2 := fst (pmul_l (snd (pmul_l a b)) c)) in *.
  set (s' := fst (pmul_l b c)) in *. set (s2' := fst (pmul_l a (snd (pmul_l b c)))) in *.
  clearbody s s2 s' s2'.
  transitivity (padd (padd (padd ka kb) kc) (padd s s2)).
  { destruct ka, kb, kc, s, s2; reflexivity. }
  rewrite E2. destruct ka, kb, kc, s', s2'; reflexivity.
Qed.

Lemma pmul_l_one_l n a : length a = n -> pmul_l (repeat PI n) a = (P0, a).
Proof.
  revert a; induction n as [|n IH]; intros [|x a] H; simpl in *; try discriminate; auto.
  rewrite IH by lia. simpl. reflexivity.
Qed.

Lemma pmul_l_one_r n a : length a = n -> pmul_l a (repeat PI n) = (P0, a).
Proof.
  revert a; induction n as [|n IH]; intros [|x a] H; simpl in *; try discriminate; auto.
  rewrite IH by lia. simpl. destruct x; reflexivity.
Qed.

Lemma pmul_one_l n a : length (snd a) = n -> pmul (pone n) a = a.
Proof.
  intros H. destruct a as [k a]. unfold pmul, pone; simpl in *. rewrite pmul_l_one_l by auto. simpl.
  rewrite padd_0_r. reflexivity.
Qed.

Lemma pmul_one_r n a : length (snd a) = n -> pmul a (pone n) = a.
Proof.
  intros H. destruct a as [k a]. unfold pmul, pone; simpl in *. rewrite pmul_l_one_r by auto. simpl.
  rewrite !padd_0_r. reflexivity.
Qed.

Lemma pmul_l_self a : pmul_l a a = (P0, repeat PI (length a)).
Proof.
  induction a as [|x a IH]; simpl; auto. rewrite IH. simpl. destruct x; reflexivity.
Qed.

(* an element with a real phase (+1 or -1) is its own inverse *)
Lemma pmul_self a : ph_odd (fst a) = false -> pmul a a = pone (length (snd a)).
Proof.
  destruct a as [k a]; simpl; intro H. unfold pmul, pone; simpl. rewrite pmul_l_self. simpl.
  destruct k; try discriminate; reflexivity.
Qed.

(* commuting elements: the product does not depend on the order *)
Lemma pmul1_swap x y : snd (pmul1 y x) = snd (pmul1 x y) /\ fst (pmul1 y x) = pneg (fst (pmul1 x y)).
Proof. destruct x, y; simpl; auto. Qed.

Lemma pmul_l_swap a : forall b, snd (pmul_l b a) = snd (pmul_l a b) /\ fst (pmul_l b a) = pneg (fst (pmul_l a b)).
Proof.
  induction a as [|x a IH]; intros [|y b]; simpl; auto.
  destruct (IH b) as [E1 E2]. destruct (pmul1_swap x y) as [F1 F2].
  rewrite E1, E2, F1, F2. split; auto.
  destruct (fst (pmul1 x y)), (fst (pmul_l a b)); reflexivity.
Qed.

Lemma ph_odd_pmul_l a : forall b, ph_odd (fst (pmul_l a b)) = anti_l a b.
Proof.
  induction a as [|x a IH]; intros [|y b]; simpl; auto.
  rewrite ph_odd_padd, ph_odd_pmul1, IH. reflexivity.
Qed.

Lemma pmul_comm a b : anti_l (snd a) (snd b) = false -> pmul a b = pmul b a.
Proof.
  destruct a as [ka a], b as [kb b]; simpl; intro H. unfold pmul; simpl.
  destruct (pmul_l_swap a b) as [E1 E2]. rewrite E1, E2.
  rewrite <- ph_odd_pmul_l in H. f_equal.
  destruct ka, kb, (fst (pmul_l a b)); simpl in *; try discriminate; reflexivity.
Qed.

Lemma anti_l_sym a : forall b, anti_l a b = anti_l b a.
Proof.
  induction a as [|x a IH]; intros [|y b]; simpl; auto. rewrite IH. f_equal. destruct x, y; reflexivity.
Qed.

Lemma anticomm1_pmul1 x y z : anticomm1 (snd (pmul1 x y)) z = xorb (anticomm1 x z) (anticomm1 y z).
Proof. destruct x, y, z; reflexivity. Qed.

Lemma anti_l_pmul_l a : forall b c, length a = length b -> length b = length c ->
  anti_l (snd (pmul_l a b)) c = xorb (anti_l a c) (anti_l b c).
Proof.
  induction a as [|x a IH]; intros [|y b] [|z c] H1 H2; simpl in *; try discriminate; auto.
  rewrite IH by lia. rewrite anticomm1_pmul1.
  destruct (anticomm1 x z), (anticomm1 y z), (anti_l a c), (anti_l b c); reflexivity.
Qed.

(* ---------- replacing one position in both factors --------------------------------------------- *)
Lemma pmul_l_upd p : forall a b x y, length a = length b -> p < length a ->
  snd (pmul_l (upd a p x) (upd b p y)) = upd (snd (pmul_l a b)) p (snd (pmul1 x y)) /\
  padd (fst (pmul_l (upd a p x) (upd b p y))) (fst (pmul1 (nth p a PI) (nth p b PI))) =
  padd (fst (pmul_l a b)) (fst (pmul1 x y)).
Proof.
  induction p as [|p IH]; intros [|u a] [|v b] x y HL Hp; simpl in *; try discriminate; try lia.
  - split; auto.
    destruct (fst (pmul1 x y)), (fst (pmul_l a b)), (fst (pmul1 u v)); reflexivity.
  - destruct (IH a b x y) as [E1 E2]; try lia. split.
    + rewrite E1. reflexivity.
    + set (k := fst (pmul1 u v)) in *. clearbody k.
      rewrite <- padd_assoc, E2, padd_assoc. reflexivity.
Qed.

Lemma nth_pmul_l p : forall a b, length a = length b ->
  nth p (snd (pmul_l a b)) PI = snd (pmul1 (nth p a PI) (nth p b PI)).
Proof.
  induction p as [|p IH]; intros [|u a] [|v b] HL; simpl in *; try discriminate; auto.
Qed.

Lemma anti_l_upd p : forall a b x y, length a = length b -> p < length a ->
  xorb (anti_l (upd a p x) (upd b p y)) (anticomm1 (nth p a PI) (nth p b PI)) =
  xorb (anti_l a b) (anticomm1 x y).
Proof.
  induction p as [|p IH]; intros [|u a] [|v b] x y HL Hp; simpl in *; try discriminate; try lia.
  - destruct (anticomm1 x y), (anti_l a b), (anticomm1 u v); reflexivity.
  - specialize (IH a b x y ltac:(lia) ltac:(lia)).
    destruct (anticomm1 u v), (anti_l (upd a p x) (upd b p y)), (anticomm1 (nth p a PI) (nth p b PI)),
      (anti_l a b), (anticomm1 x y); simpl in *; congruence.
Qed.
