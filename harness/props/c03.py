"""C03 — concurrent operations from different nodes are serializable."""
from props import concprop


def run(ctx):
    ctx.rule = ("2..4 operations issued concurrently after a sequential prefix on 2..3 nodes over the real Perspective Broker; a seeded scheduler picks, "
                "step by step, one PB message of one link direction to deliver or a timer to fire; judged: (results, bookkeeping by qubit identity, joint "
                "state) equal those of one of the sequential orders; distinct = distinct (prefix, operations, first 60 scheduler choices)")
    concprop.run_property(ctx, "C03")
