(* Maximal isotropic subspaces of F_2^{2n}: n independent pairwise-commuting rows span every row
   that commutes with all of them.  Self-contained induction on the number of qubits. *)
From Coq Require Import List Bool Arith Lia.
From SQ Require Import Base.ListUtil Stab.Kernels Stab.Tableau Stab.F2.
Import ListNotations.

(* ---------- generic GF(2) combinations over an arbitrary column type ----------------------------- *)
Section Lin.
Variable I : Type.

Fixpoint linf (sel : list bool) (A : list (I -> bool)) (j : I) : bool :=
  match sel, A with
  | s :: sel', r :: A' => xorb (s && r j) (linf sel' A' j)
  | _, _ => false
  end.

Fixpoint dot (sel cs : list bool) : bool :=
  match sel, cs with
  | s :: sel', c :: cs' => xorb (s && c) (dot sel' cs')
  | _, _ => false
  end.

Definition addw (c : (I -> bool) -> bool) (w u : I -> bool) : I -> bool :=
  fun p => xorb (c u && w p) (u p).

Lemma linf_nil_r sel j : linf sel [] j = false.
Proof. destruct sel; reflexivity. Qed.

Lemma linf_app s1 s2 A1 A2 j :
  length s1 = length A1 ->
  linf (s1 ++ s2) (A1 ++ A2) j = xorb (linf s1 A1 j) (linf s2 A2 j).
Proof.
  revert A1; induction s1 as [|s s1 IH]; intros [|r A1] H; simpl in *; try discriminate.
  - destruct (linf s2 A2 j); reflexivity.
  - injection H as H. rewrite (IH _ H). rewrite xorb_assoc. reflexivity.
Qed.

Lemma linf_addw c w sel B j :
  linf sel (map (addw c w) B) j = xorb (dot sel (map c B) && w j) (linf sel B j).
Proof.
  revert B; induction sel as [|s sel IH]; intros [|r B]; simpl; try reflexivity.
  rewrite IH. unfold addw at 1.
  destruct s, (c r), (w j), (r j), (dot sel (map c B)), (linf sel B j); reflexivity.
Qed.

Lemma dot_allfalse sel cs : forallb negb sel = true -> dot sel cs = false.
Proof.
  revert cs; induction sel as [|s sel IH]; intros [|c cs] H; simpl in *; try reflexivity.
  apply andb_true_iff in H as [Hs H]. destruct s; simpl in *; try discriminate. rewrite (IH cs H). reflexivity.
Qed.

Lemma dot_zero sel cs : (forall c, In c cs -> c = false) -> dot sel cs = false.
Proof.
  revert cs; induction sel as [|s sel IH]; intros [|c cs] H; simpl in *; try reflexivity.
  rewrite (H c (or_introl eq_refl)), andb_false_r, IH; auto.
Qed.

Lemma linf_zero_col sel A j : (forall u, In u A -> u j = false) -> linf sel A j = false.
Proof.
  revert A; induction sel as [|s sel IH]; intros [|r A] H; simpl in *; try reflexivity.
  rewrite (H r (or_introl eq_refl)), andb_false_r, IH; auto.
Qed.

Lemma linf_move s s1 s2 w pre post j :
  length s1 = length pre ->
  linf (s1 ++ s :: s2) (pre ++ w :: post) j = linf (s :: s1 ++ s2) (w :: pre ++ post) j.
Proof.
  intros H. rewrite linf_app by exact H. simpl. rewrite linf_app by exact H.
  destruct (s && w j), (linf s1 pre j), (linf s2 post j); reflexivity.
Qed.

Lemma split_sel (sel : list bool) (pre post : list (I -> bool)) :
  length sel = length (pre ++ post) ->
  exists s1 s2, sel = s1 ++ s2 /\ length s1 = length pre /\ length s2 = length post.
Proof.
  intros H. rewrite app_length in H.
  exists (firstn (length pre) sel), (skipn (length pre) sel). split; [|split].
  - symmetry; apply firstn_skipn.
  - apply firstn_length_le; lia.
  - rewrite skipn_length; lia.
Qed.

Lemma in_move (a w : I -> bool) pre post : In a (w :: pre ++ post) <-> In a (pre ++ w :: post).
Proof. simpl. rewrite !in_app_iff. simpl. tauto. Qed.

End Lin.
Arguments linf {I}. Arguments addw {I}. Arguments in_move {I}.

(* ---------- Pauli vectors as functions (kind, qubit) -> bit; kind false = X, true = Z ------------ *)
Definition vec := (bool * nat)%type -> bool.
Definition tlv (u : vec) : vec := fun p => u (fst p, S (snd p)).
Definition X0 : bool * nat := (false, 0).
Definition Z0 : bool * nat := (true, 0).

Fixpoint sympf (n : nat) (a b : vec) : bool :=
  match n with
  | 0 => false
  | S n' => xorb (xorb (a X0 && b Z0) (a Z0 && b X0)) (sympf n' (tlv a) (tlv b))
  end.

Lemma sympf_ext_r n : forall a b b',
  (forall p, snd p < n -> b p = b' p) -> sympf n a b = sympf n a b'.
Proof.
  induction n as [|n IH]; intros a b b' H; simpl; [reflexivity|].
  rewrite (H X0), (H Z0) by (simpl; lia). f_equal.
  apply IH. intros p Hp. unfold tlv. apply H. simpl. lia.
Qed.

Lemma sympf_sym n : forall a b, sympf n a b = sympf n b a.
Proof.
  induction n as [|n IH]; intros a b; simpl; [reflexivity|].
  rewrite (IH (tlv a) (tlv b)).
  destruct (a X0), (a Z0), (b X0), (b Z0); reflexivity.
Qed.

Lemma sympf_ext_l n a a' b :
  (forall p, snd p < n -> a p = a' p) -> sympf n a b = sympf n a' b.
Proof. intros H. rewrite (sympf_sym n a b), (sympf_sym n a' b). apply sympf_ext_r; exact H. Qed.

Lemma sympf_zero_r n : forall a, sympf n a (fun _ => false) = false.
Proof.
  induction n as [|n IH]; intros a; simpl; [reflexivity|].
  change (tlv (fun _ => false)) with (fun _ : bool * nat => false). rewrite IH.
  rewrite !andb_false_r. reflexivity.
Qed.

Lemma sympf_add_r n : forall a b c s,
  sympf n a (fun p => xorb (s && c p) (b p)) = xorb (s && sympf n a c) (sympf n a b).
Proof.
  induction n as [|n IH]; intros a b c s; simpl.
  - destruct s; reflexivity.
  - change (tlv (fun p => xorb (s && c p) (b p))) with (fun p => xorb (s && tlv c p) (tlv b p)).
    rewrite IH.
    destruct s, (a X0), (a Z0), (b X0), (b Z0), (c X0), (c Z0),
      (sympf n (tlv a) (tlv c)), (sympf n (tlv a) (tlv b)); reflexivity.
Qed.

Lemma sympf_add_l n a b c s :
  sympf n (fun p => xorb (s && c p) (b p)) a = xorb (s && sympf n c a) (sympf n b a).
Proof. rewrite sympf_sym, sympf_add_r, (sympf_sym n a c), (sympf_sym n a b). reflexivity. Qed.

Lemma sympf_lin_r n a : forall sel A,
  sympf n a (linf sel A) = dot sel (map (sympf n a) A).
Proof.
  induction sel as [|s sel IH]; intros A.
  - simpl. transitivity (sympf n a (fun _ => false)); [|apply sympf_zero_r].
    apply sympf_ext_r. intros; reflexivity.
  - destruct A as [|r A].
    + simpl. transitivity (sympf n a (fun _ => false)); [|apply sympf_zero_r].
      apply sympf_ext_r. intros; reflexivity.
    + simpl. rewrite <- IH. rewrite <- sympf_add_r. apply sympf_ext_r. intros; reflexivity.
Qed.

Lemma sympf_lin_zero_r n a sel A :
  (forall u, In u A -> sympf n a u = false) -> sympf n a (linf sel A) = false.
Proof.
  intros H. rewrite sympf_lin_r. apply dot_zero. intros c Hc.
  apply in_map_iff in Hc as [u [<- Hu]]. apply H; exact Hu.
Qed.

Lemma sympf_tl n a b :
  a X0 = false -> b X0 = false -> sympf (S n) a b = sympf n (tlv a) (tlv b).
Proof. intros Ha Hb. simpl. rewrite Ha, Hb, andb_false_r. simpl. destruct (sympf n (tlv a) (tlv b)); reflexivity. Qed.

Lemma linf_tlv sel : forall A p, linf sel (map tlv A) p = linf sel A (fst p, S (snd p)).
Proof.
  induction sel as [|s sel IH]; intros [|r A] p; simpl; try reflexivity.
  rewrite IH. reflexivity.
Qed.

(* ---------- span / independence / commutation on n qubits ---------------------------------------- *)
Definition spanv (n : nat) (A : list vec) (f : vec) : Prop :=
  exists sel, length sel = length A /\ forall p, snd p < n -> f p = linf sel A p.
Definition indepv (n : nat) (A : list vec) : Prop :=
  forall sel, length sel = length A -> (forall p, snd p < n -> linf sel A p = false) ->
              forallb negb sel = true.
Definition commv (n : nat) (A : list vec) : Prop :=
  forall a b, In a A -> In b A -> sympf n a b = false.
Definition vcomm (n : nat) (A : list vec) (v : vec) : Prop :=
  forall a, In a A -> sympf n a v = false.

(* ---------- moving one generator to the front ---------------------------------------------------- *)
Lemma move_indep n w pre post : indepv n (pre ++ w :: post) -> indepv n (w :: pre ++ post).
Proof.
  intros H sel Hlen Hz. destruct sel as [|s sel]; [discriminate|].
  simpl in Hlen. injection Hlen as Hlen.
  destruct (split_sel _ sel pre post Hlen) as [s1 [s2 [-> [H1 H2]]]].
  assert (Hf : forallb negb (s1 ++ s :: s2) = true).
  { apply H.
    - rewrite !app_length; simpl; rewrite H1, H2; reflexivity.
    - intros p Hp. rewrite linf_move by exact H1. apply Hz; exact Hp. }
  rewrite forallb_app in Hf. simpl in Hf. simpl. rewrite forallb_app.
  destruct (negb s), (forallb negb s1), (forallb negb s2); simpl in *; congruence.
Qed.

Lemma move_span n w pre post f : spanv n (w :: pre ++ post) f -> spanv n (pre ++ w :: post) f.
Proof.
  intros [sel [Hlen Hf]]. destruct sel as [|s sel]; [discriminate|].
  simpl in Hlen. injection Hlen as Hlen.
  destruct (split_sel _ sel pre post Hlen) as [s1 [s2 [-> [H1 H2]]]].
  exists (s1 ++ s :: s2). split.
  - rewrite !app_length; simpl; rewrite H1, H2; reflexivity.
  - intros p Hp. rewrite linf_move by exact H1. apply Hf; exact Hp.
Qed.

Lemma move_comm n w pre post : commv n (pre ++ w :: post) -> commv n (w :: pre ++ post).
Proof. intros H a b Ha Hb. apply H; apply (proj1 (in_move _ w pre post)); assumption. Qed.

Lemma move_vcomm n w pre post v : vcomm n (pre ++ w :: post) v -> vcomm n (w :: pre ++ post) v.
Proof. intros H a Ha. apply H; apply (proj1 (in_move _ w pre post)); assumption. Qed.

(* ---------- adding multiples of the head generator to the others --------------------------------- *)
Lemma red_indep n c w B : indepv n (w :: B) -> indepv n (w :: map (addw c w) B).
Proof.
  intros H sel Hlen Hz. destruct sel as [|s sel]; [discriminate|].
  simpl in Hlen. injection Hlen as Hlen. rewrite map_length in Hlen.
  pose (d := dot sel (map c B)).
  assert (Hf : forallb negb (xorb s d :: sel) = true).
  { apply H.
    - simpl; f_equal; exact Hlen.
    - intros p Hp. specialize (Hz p Hp). simpl in Hz. rewrite linf_addw in Hz. fold d in Hz.
      simpl. revert Hz. destruct s, d, (w p), (linf sel B p); simpl; congruence. }
  simpl in Hf. apply andb_true_iff in Hf as [Hs Hsel].
  assert (Hd : d = false) by (apply dot_allfalse; exact Hsel).
  simpl. rewrite Hsel. rewrite Hd in Hs. destruct s; simpl in *; congruence.
Qed.

Lemma red_span n c w B f : spanv n (w :: map (addw c w) B) f -> spanv n (w :: B) f.
Proof.
  intros [sel [Hlen Hf]]. destruct sel as [|s sel]; [discriminate|].
  simpl in Hlen. injection Hlen as Hlen. rewrite map_length in Hlen.
  pose (d := dot sel (map c B)).
  exists (xorb s d :: sel). split; [simpl; f_equal; exact Hlen|].
  intros p Hp. rewrite (Hf p Hp). simpl. rewrite linf_addw. fold d.
  destruct s, d, (w p), (linf sel B p); reflexivity.
Qed.

Lemma comm_addw_l n c (w u b : vec) :
  sympf n w b = false -> sympf n u b = false -> sympf n (addw c w u) b = false.
Proof. intros H1 H2. unfold addw. rewrite sympf_add_l, H1, H2. destruct (c u); reflexivity. Qed.

Lemma comm_addw_r n c (w u a : vec) :
  sympf n a w = false -> sympf n a u = false -> sympf n a (addw c w u) = false.
Proof. intros H1 H2. unfold addw. rewrite sympf_add_r, H1, H2. destruct (c u); reflexivity. Qed.

Lemma red_comm n c w B : commv n (w :: B) -> commv n (w :: map (addw c w) B).
Proof.
  intros H a b Ha Hb. simpl in Ha, Hb.
  assert (Hww : sympf n w w = false) by (apply H; left; reflexivity).
  destruct Ha as [<-|Ha]; destruct Hb as [<-|Hb].
  - exact Hww.
  - apply in_map_iff in Hb as [u [<- Hu]]. apply comm_addw_r; [exact Hww|].
    apply H; [left; reflexivity|right; exact Hu].
  - apply in_map_iff in Ha as [u [<- Hu]]. apply comm_addw_l; [exact Hww|].
    apply H; [right; exact Hu|left; reflexivity].
  - apply in_map_iff in Ha as [u1 [<- Hu1]]. apply in_map_iff in Hb as [u2 [<- Hu2]].
    apply comm_addw_l; apply comm_addw_r.
    + exact Hww.
    + apply H; [left; reflexivity|right; exact Hu2].
    + apply H; [right; exact Hu1|left; reflexivity].
    + apply H; right; assumption.
Qed.

Lemma red_vcomm n c w B v : vcomm n (w :: B) v -> vcomm n (w :: map (addw c w) B) v.
Proof.
  intros H a Ha. simpl in Ha. destruct Ha as [<-|Ha].
  - apply H; left; reflexivity.
  - apply in_map_iff in Ha as [u [<- Hu]]. apply comm_addw_l.
    + apply H; left; reflexivity.
    + apply H; right; exact Hu.
Qed.

Lemma pivot_reduce n p0 A w v :
  In w A -> w p0 = true -> commv n A -> indepv n A -> vcomm n A v ->
  exists B, length A = S (length B) /\ commv n (w :: B) /\ indepv n (w :: B) /\
    vcomm n (w :: B) v /\
    (forall u, In u B -> u p0 = false) /\
    (forall f, spanv n (w :: B) f -> spanv n A f) /\
    (forall q, (forall u, In u A -> u q = false) -> forall u, In u B -> u q = false).
Proof.
  intros Hin Hw Hc Hi Hv. apply in_split in Hin as [pre [post ->]].
  pose (c := fun u : vec => u p0).
  exists (map (addw c w) (pre ++ post)). repeat split.
  - rewrite map_length, !app_length. simpl. lia.
  - apply red_comm, move_comm, Hc.
  - apply red_indep, move_indep, Hi.
  - apply red_vcomm, move_vcomm, Hv.
  - intros u Hu. apply in_map_iff in Hu as [u' [<- Hu']]. unfold addw, c. rewrite Hw.
    destruct (u' p0); reflexivity.
  - intros f Hf. apply move_span. apply red_span in Hf. exact Hf.
  - intros q Hq u Hu. apply in_map_iff in Hu as [u' [<- Hu']]. unfold addw.
    rewrite (Hq w), (Hq u').
    + destruct (c u'); reflexivity.
    + apply (proj1 (in_move _ w pre post)). right; exact Hu'.
    + apply in_app_iff. right; left; reflexivity.
Qed.

(* replace the target v by v + (v p0) w *)
Lemma norm_v n w B v p0 :
  w p0 = true -> commv n (w :: B) -> vcomm n (w :: B) v ->
  exists v1 : vec, v1 p0 = false /\ vcomm n (w :: B) v1 /\
    (forall q, w q = false -> v1 q = v q) /\
    (spanv n (w :: B) v1 -> spanv n (w :: B) v).
Proof.
  intros Hw Hc Hv. exists (addw (fun u : vec => u p0) w v). repeat split.
  - unfold addw. rewrite Hw. destruct (v p0); reflexivity.
  - intros a Ha. apply comm_addw_r; [apply Hc; [exact Ha|left; reflexivity]|apply Hv; exact Ha].
  - intros q Hq. unfold addw. rewrite Hq, andb_false_r. destruct (v q); reflexivity.
  - intros [sel [Hlen Hf]]. destruct sel as [|s sel]; [discriminate|].
    exists (xorb s (v p0) :: sel). split; [exact Hlen|].
    intros p Hp. specialize (Hf p Hp). unfold addw in Hf. simpl in Hf. simpl.
    revert Hf. destruct s, (v p0), (w p), (v p), (linf sel B p); simpl; congruence.
Qed.

(* ---------- removing qubit 0 --------------------------------------------------------------------- *)
Lemma zero_from_tail n (y : vec) :
  y X0 = false -> y Z0 = false -> (forall p, snd p < n -> tlv y p = false) ->
  forall p, snd p < S n -> y p = false.
Proof.
  intros Hx Hz Ht [k [|i]] Hp.
  - destruct k; assumption.
  - apply (Ht (k, i)). simpl in *. lia.
Qed.

Lemma key_z0 n (a y : vec) :
  a X0 = true -> y X0 = false -> (forall p, snd p < n -> tlv y p = false) ->
  sympf (S n) a y = false -> y Z0 = false.
Proof.
  intros Ha Hy Ht Hs. simpl in Hs. rewrite Ha, Hy in Hs.
  rewrite (sympf_ext_r n (tlv a) (tlv y) (fun _ => false)) in Hs by exact Ht.
  rewrite sympf_zero_r in Hs. destruct (y Z0), (a Z0); simpl in Hs; congruence.
Qed.

Lemma x0_from_Z n (v Z : vec) :
  Z X0 = false -> Z Z0 = true -> (forall p, snd p < n -> tlv Z p = false) ->
  sympf (S n) v Z = false -> v X0 = false.
Proof.
  intros Hx Hz Ht Hs. simpl in Hs. rewrite Hx, Hz in Hs.
  rewrite (sympf_ext_r n (tlv v) (tlv Z) (fun _ => false)) in Hs by exact Ht.
  rewrite sympf_zero_r in Hs. destruct (v X0), (v Z0); simpl in Hs; congruence.
Qed.

Lemma tail_indep n w B :
  indepv (S n) (w :: B) ->
  (forall sel, length sel = length B ->
     (forall p, snd p < n -> linf sel (map tlv B) p = false) ->
     forall p, snd p < S n -> linf sel B p = false) ->
  indepv n (map tlv B).
Proof.
  intros Hi Hz sel Hlen Ht. rewrite map_length in Hlen.
  assert (Hf : forallb negb (false :: sel) = true).
  { apply Hi.
    - simpl; f_equal; exact Hlen.
    - intros p Hp. simpl. rewrite (Hz sel Hlen Ht p Hp). reflexivity. }
  exact Hf.
Qed.

Lemma tail_comm n B :
  (forall u, In u B -> u X0 = false) -> commv (S n) B -> commv n (map tlv B).
Proof.
  intros HB Hc a b Ha Hb.
  apply in_map_iff in Ha as [u1 [<- Hu1]]. apply in_map_iff in Hb as [u2 [<- Hu2]].
  rewrite <- sympf_tl by (apply HB; assumption). apply Hc; assumption.
Qed.

Lemma tail_vcomm n B v :
  (forall u, In u B -> u X0 = false) -> v X0 = false -> vcomm (S n) B v ->
  vcomm n (map tlv B) (tlv v).
Proof.
  intros HB Hv Hc a Ha. apply in_map_iff in Ha as [u [<- Hu]].
  rewrite <- sympf_tl; [apply Hc; exact Hu|apply HB; exact Hu|exact Hv].
Qed.

Definition P (n : nat) : Prop :=
  forall A v, length A = n -> commv n A -> indepv n A -> vcomm n A v -> spanv n A v.

Lemma comm_tail_of_cons n w B : commv n (w :: B) -> commv n B.
Proof. intros H a b Ha Hb. apply H; right; assumption. Qed.
Lemma vcomm_tail_of_cons n w B v : vcomm n (w :: B) v -> vcomm n B v.
Proof. intros H a Ha. apply H; right; assumption. Qed.

(* Case A: the head generator has an X on qubit 0, nobody else has *)
Lemma caseA n (IH : P n) w B v :
  length B = n -> w X0 = true -> (forall u, In u B -> u X0 = false) -> v X0 = false ->
  commv (S n) (w :: B) -> indepv (S n) (w :: B) -> vcomm (S n) (w :: B) v ->
  spanv (S n) (w :: B) v.
Proof.
  intros Hlen Hw HB Hv Hc Hi Hvc.
  assert (HzA : forall y : vec, y X0 = false -> (forall p, snd p < n -> tlv y p = false) ->
                 sympf (S n) w y = false -> forall p, snd p < S n -> y p = false).
  { intros y Hy Ht Hs. apply zero_from_tail; [exact Hy| |exact Ht].
    apply (key_z0 n w y Hw Hy Ht Hs). }
  assert (HiT : indepv n (map tlv B)).
  { apply (tail_indep n w B Hi). intros sel Hl Ht. apply HzA.
    - apply linf_zero_col. exact HB.
    - intros p Hp. unfold tlv. rewrite <- linf_tlv. apply Ht; exact Hp.
    - apply sympf_lin_zero_r. intros u Hu. apply Hc; [left; reflexivity|right; exact Hu]. }
  destruct (IH (map tlv B) (tlv v)) as [sel [Hl Hf]].
  - rewrite map_length; exact Hlen.
  - apply tail_comm; [exact HB|apply (comm_tail_of_cons _ _ _ Hc)].
  - exact HiT.
  - apply tail_vcomm; [exact HB|exact Hv|apply (vcomm_tail_of_cons _ _ _ _ Hvc)].
  - rewrite map_length in Hl. exists (false :: sel). split; [simpl; f_equal; exact Hl|].
    intros p Hp. simpl.
    pose (y := fun p : bool * nat => xorb (true && v p) (linf sel B p)).
    assert (Hy : y p = false).
    { apply HzA; [| | |exact Hp].
      - unfold y. rewrite Hv, (linf_zero_col _ sel B X0 HB). reflexivity.
      - intros q Hq. unfold y, tlv. rewrite <- linf_tlv, <- (Hf q Hq). unfold tlv.
        destruct (v (fst q, S (snd q))); reflexivity.
      - unfold y. rewrite sympf_add_r, (Hvc w (or_introl eq_refl)), sympf_lin_zero_r; [reflexivity|].
        intros u Hu. apply Hc; [left; reflexivity|right; exact Hu]. }
    revert Hy. unfold y. destruct (v p), (linf sel B p); simpl; congruence.
Qed.

(* Case B: nobody has an X on qubit 0; the generators in B have no Z there either *)
Lemma caseB_indep n w B :
  (forall u, In u B -> u X0 = false) -> (forall u, In u B -> u Z0 = false) ->
  indepv (S n) (w :: B) -> indepv n (map tlv B).
Proof.
  intros HBx HBz Hi. apply (tail_indep n w B Hi). intros sel Hl Ht.
  apply zero_from_tail.
  - apply linf_zero_col; exact HBx.
  - apply linf_zero_col; exact HBz.
  - intros p Hp. unfold tlv. rewrite <- linf_tlv. apply Ht; exact Hp.
Qed.

(* y = w + sum_sel B vanishes on qubits 1.. when tl w = sum_sel (tl B) *)
Lemma tail_cancel n (w : vec) sel B :
  (forall p, snd p < n -> tlv w p = linf sel (map tlv B) p) ->
  forall p, snd p < n -> tlv (fun q => xorb (true && w q) (linf sel B q)) p = false.
Proof.
  intros Hf p Hp. unfold tlv at 1. rewrite <- linf_tlv, <- (Hf p Hp). unfold tlv.
  destruct (w (fst p, S (snd p))); reflexivity.
Qed.

Lemma caseB1 n (IH : P n) w B :
  length B = n -> w X0 = false -> w Z0 = false ->
  (forall u, In u B -> u X0 = false) -> (forall u, In u B -> u Z0 = false) ->
  commv (S n) (w :: B) -> indepv (S n) (w :: B) -> False.
Proof.
  intros Hlen Hwx Hwz HBx HBz Hc Hi.
  destruct (IH (map tlv B) (tlv w)) as [sel [Hl Hf]].
  - rewrite map_length; exact Hlen.
  - apply tail_comm; [exact HBx|apply (comm_tail_of_cons _ _ _ Hc)].
  - apply (caseB_indep n w B HBx HBz Hi).
  - intros a Ha. apply in_map_iff in Ha as [u [<- Hu]].
    rewrite <- sympf_tl; [apply Hc; [right; exact Hu|left; reflexivity]|apply HBx; exact Hu|exact Hwx].
  - rewrite map_length in Hl.
    assert (Hfb : forallb negb (true :: sel) = true).
    { apply Hi; [simpl; f_equal; exact Hl|].
      intros p Hp. simpl.
      apply (zero_from_tail n (fun q => xorb (true && w q) (linf sel B q))); [| | |exact Hp].
      - rewrite Hwx, (linf_zero_col _ sel B X0 HBx). reflexivity.
      - rewrite Hwz, (linf_zero_col _ sel B Z0 HBz). reflexivity.
      - apply tail_cancel; exact Hf. }
    simpl in Hfb. discriminate.
Qed.

Lemma caseB2 n (IH : P n) w B v :
  length B = n -> w X0 = false -> w Z0 = true ->
  (forall u, In u B -> u X0 = false) -> (forall u, In u B -> u Z0 = false) ->
  commv (S n) (w :: B) -> indepv (S n) (w :: B) -> vcomm (S n) (w :: B) v ->
  spanv (S n) (w :: B) v.
Proof.
  intros Hlen Hwx Hwz HBx HBz Hc Hi Hvc.
  assert (HcT : commv n (map tlv B))
    by (apply tail_comm; [exact HBx|apply (comm_tail_of_cons _ _ _ Hc)]).
  assert (HiT : indepv n (map tlv B)) by apply (caseB_indep n w B HBx HBz Hi).
  (* Z on qubit 0 is in the span *)
  destruct (IH (map tlv B) (tlv w)) as [sel1 [Hl1 Hf1]].
  { rewrite map_length; exact Hlen. }
  { exact HcT. }
  { exact HiT. }
  { intros a Ha. apply in_map_iff in Ha as [u [<- Hu]].
    rewrite <- sympf_tl; [apply Hc; [right; exact Hu|left; reflexivity]|apply HBx; exact Hu|exact Hwx]. }
  assert (Hvx : v X0 = false).
  { apply (x0_from_Z n v (fun q => xorb (true && w q) (linf sel1 B q))).
    - rewrite Hwx, (linf_zero_col _ sel1 B X0 HBx). reflexivity.
    - rewrite Hwz, (linf_zero_col _ sel1 B Z0 HBz). reflexivity.
    - apply tail_cancel; exact Hf1.
    - rewrite sympf_add_r, (sympf_sym _ v w), (Hvc w (or_introl eq_refl)), sympf_lin_zero_r;
        [reflexivity|].
      intros u Hu. rewrite sympf_sym. apply Hvc; right; exact Hu. }
  destruct (norm_v (S n) w B v Z0 Hwz Hc Hvc) as [v1 [Hv1z [Hv1c [Hv1k Hback]]]].
  apply Hback.
  assert (Hv1x : v1 X0 = false) by (rewrite (Hv1k X0 Hwx); exact Hvx).
  destruct (IH (map tlv B) (tlv v1)) as [sel [Hl Hf]].
  - rewrite map_length; exact Hlen.
  - exact HcT.
  - exact HiT.
  - apply tail_vcomm; [exact HBx|exact Hv1x|apply (vcomm_tail_of_cons _ _ _ _ Hv1c)].
  - rewrite map_length in Hl. exists (false :: sel). split; [simpl; f_equal; exact Hl|].
    intros p Hp. simpl.
    assert (Hy : (fun q => xorb (true && v1 q) (linf sel B q)) p = false).
    { apply (zero_from_tail n (fun q => xorb (true && v1 q) (linf sel B q))); [| | |exact Hp].
      - rewrite Hv1x, (linf_zero_col _ sel B X0 HBx). reflexivity.
      - rewrite Hv1z, (linf_zero_col _ sel B Z0 HBz). reflexivity.
      - apply tail_cancel; exact Hf. }
    simpl in Hy. revert Hy. destruct (v1 p), (linf sel B p); simpl; congruence.
Qed.

Lemma all_false_of_existsb (f : vec -> bool) A :
  existsb f A = false -> forall u, In u A -> f u = false.
Proof.
  intros H u Hu. destruct (f u) eqn:E; [|reflexivity].
  rewrite <- H. symmetry. apply existsb_exists. exists u; split; assumption.
Qed.

Theorem iso_max : forall n, P n.
Proof.
  induction n as [|n IH]; intros A v Hlen Hc Hi Hv.
  - exists []. split; [destruct A; [reflexivity|discriminate]|]. intros p Hp; lia.
  - destruct (existsb (fun u : vec => u X0) A) eqn:Ex.
    + apply existsb_exists in Ex as [w [Hin Hw]].
      destruct (pivot_reduce (S n) X0 A w v Hin Hw Hc Hi Hv)
        as [B [HlB [HcB [HiB [HvB [HBx [Hsp _]]]]]]].
      apply Hsp.
      destruct (norm_v (S n) w B v X0 Hw HcB HvB) as [v1 [Hv1x [Hv1c [_ Hback]]]].
      apply Hback. apply (caseA n IH); try assumption. unfold vec in *; lia.
    + assert (HAx : forall u, In u A -> u X0 = false)
        by exact (all_false_of_existsb _ A Ex).
      destruct (existsb (fun u : vec => u Z0) A) eqn:Ez.
      * apply existsb_exists in Ez as [w [Hin Hw]].
        destruct (pivot_reduce (S n) Z0 A w v Hin Hw Hc Hi Hv)
          as [B [HlB [HcB [HiB [HvB [HBz [Hsp Hkeep]]]]]]].
        apply Hsp. apply (caseB2 n IH); try assumption.
        -- unfold vec in *; lia.
        -- apply HAx; exact Hin.
        -- apply (Hkeep X0 HAx).
      * assert (HAz : forall u, In u A -> u Z0 = false)
          by exact (all_false_of_existsb _ A Ez).
        destruct A as [|w B]; [discriminate|]. exfalso.
        apply (caseB1 n IH w B).
        -- simpl in Hlen; injection Hlen as Hlen; exact Hlen.
        -- apply HAx; left; reflexivity.
        -- apply HAz; left; reflexivity.
        -- intros u Hu; apply HAx; right; exact Hu.
        -- intros u Hu; apply HAz; right; exact Hu.
        -- exact Hc.
        -- exact Hi.
Qed.

(* ---------- transfer to rows --------------------------------------------------------------------- *)
Definition col (n : nat) (p : bool * nat) : nat := if fst p then snd p + n else snd p.
Definition emb (n : nat) (r : row) : vec := fun p => get r (col n p).

Lemma fold_sympf n : forall a b : vec,
  fold_right xorb false
    (map (fun i => xorb (a (false, i) && b (true, i)) (a (true, i) && b (false, i))) (seq 0 n))
  = sympf n a b.
Proof.
  induction n as [|n IH]; intros a b; [reflexivity|].
  change (seq 0 (S n)) with (0 :: seq 1 n). rewrite <- seq_shift, map_cons, map_map.
  simpl. f_equal. exact (IH (tlv a) (tlv b)).
Qed.

Lemma symp_emb n a b : symp n a b = sympf n (emb n a) (emb n b).
Proof. exact (fold_sympf n (emb n a) (emb n b)). Qed.

Lemma lin_emb n sel : forall A p, linf sel (map (emb n) A) p = lin sel A (col n p).
Proof.
  induction sel as [|s sel IH]; intros [|r A] p; simpl; try reflexivity.
  rewrite IH. reflexivity.
Qed.

Lemma col_lt n p : snd p < n -> col n p < 2 * n.
Proof. destruct p as [[|] i]; unfold col; simpl; lia. Qed.

Lemma col_surj n j : j < 2 * n -> exists p, snd p < n /\ col n p = j.
Proof.
  intros H. destruct (Nat.ltb_spec j n) as [Hlt|Hge].
  - exists (false, j). split; [exact Hlt|reflexivity].
  - exists (true, j - n). unfold col; simpl. split; lia.
Qed.

Theorem isotropic_maximal n A v :
  length A = n ->
  (forall a b, In a A -> In b A -> symp n a b = false) ->
  lindep (2 * n) A ->
  (forall a, In a A -> symp n a v = false) ->
  inspan (2 * n) A (get v).
Proof.
  intros Hlen Hc Hi Hv.
  destruct (iso_max n (map (emb n) A) (emb n v)) as [sel [Hl Hf]].
  - rewrite map_length; exact Hlen.
  - intros a b Ha Hb. apply in_map_iff in Ha as [a' [<- Ha']]. apply in_map_iff in Hb as [b' [<- Hb']].
    rewrite <- symp_emb. apply Hc; assumption.
  - intros sel Hl Hz. rewrite map_length in Hl. apply Hi; [exact Hl|].
    intros j Hj. destruct (col_surj n j Hj) as [p [Hp <-]].
    rewrite <- lin_emb. apply Hz; exact Hp.
  - intros a Ha. apply in_map_iff in Ha as [a' [<- Ha']]. rewrite <- symp_emb. apply Hv; exact Ha'.
  - rewrite map_length in Hl. exists sel. split; [exact Hl|].
    intros j Hj. destruct (col_surj n j Hj) as [p [Hp <-]].
    rewrite <- lin_emb. exact (Hf p Hp).
Qed.

