(* Correspondence cases for model F: the harness writes lists of these (inputs together with what the real
   NetQASMProtocol / SubroutineHandler / SimulaQronConnection / Socket / netqasm deserialisers did) and Coq decides
   agreement with the model by vm_compute. *)
From Coq Require Import List NArith Arith Bool.
From SQ Require Import Base.ListUtil Frame.Bytes Frame.Msg Frame.Stream Frame.Reply Frame.Conn Frame.Sock.
Import ListNotations.
Local Open Scope nat_scope.

(* the stub executor of the harness: a subroutine returns one register (raw byte 23 = M5) holding its length *)
Definition exec_stub (m : hostmsg) : list retmsg :=
  match m with HSub b => [RReg 23%N (N.of_nat (length b))] | _ => [] end.

(* run-length literal for long byte strings written by the harness *)
Definition rle (l : list (N * N)) : bytes := flat_map (fun p => repeat (fst p) (N.to_nat (snd p))) l.

Definition opt_eqb {A} (e : A -> A -> bool) (a b : option A) : bool :=
  match a, b with Some x, Some y => e x y | None, None => true | _, _ => false end.

Fixpoint all2 {A B} (e : A -> B -> bool) (a : list A) (b : list B) : bool :=
  match a, b with
  | [], [] => true
  | x :: a', y :: b' => e x y && all2 e a' b'
  | _, _ => false
  end.

Definition hrout_eqb (a b : hr_out retmsg) : bool :=
  match a, b with
  | HRDone x, HRDone y => N.eqb x y
  | HRError x, HRError y => retmsg_eqb x y
  | HRStarved, HRStarved => true
  | HRFuel, HRFuel => true
  | _, _ => false
  end.

Definition call_eqb (a b : hr_out retmsg * list retmsg) : bool :=
  hrout_eqb (fst a) (fst b) && all2 retmsg_eqb (snd a) (snd b).

(* one dataReceived call as observed: frames given to the handler during the call, self.buf afterwards, raised? *)
Definition obs_call := (list frame * bytes * bool)%type.

Fixpoint server_calls (buf : bytes) (cs : list bytes) (obs : list obs_call) : bool :=
  match cs, obs with
  | [], [] => true
  | c :: cs', (hs, b, raised) :: obs' =>
      let '(hs', b', s) := feed_fix buf c in
      frames_eqb hs' hs && bytes_eqb b' b && status_eqb s (if raised then SRaise else SWait)
      && server_calls b' cs' obs'
  | _, _ => false
  end.

Fixpoint server_calls_cur (buf : bytes) (cs : list bytes) (obs : list obs_call) : bool :=
  match cs, obs with
  | [], [] => true
  | c :: cs', (hs, b, raised) :: obs' =>
      let '(hs', b', s) := feed_cur buf c in
      frames_eqb hs' hs && bytes_eqb b' b && status_eqb s (if raised then SRaise else SWait)
      && server_calls_cur b' cs' obs'
  | _, _ => false
  end.

Inductive fcase :=
| CServer (cs : list bytes) (obs : list obs_call)
| CNode (ops : list nop) (obufs : list bytes) (owrites : list (nat * bytes)) (olog : list (nat * frame))
| CClient (n : nat) (buf0 : bytes) (sock : list bytes) (ocalls : list (hr_out retmsg * list retmsg)) (obuf : bytes)
| CSock (ops : list sop) (orecvd : list bytes) (oleft : nat)
| CDeser (raw : bytes) (o : option hostmsg)
| CParseRet (raw : bytes) (o : option retmsg) (olen : nat).

Definition write_eqb (a : nat * retmsg) (b : nat * bytes) : bool :=
  Nat.eqb (fst a) (fst b) && bytes_eqb (enc_ret (snd a)) (snd b).

Definition logent_eqb (a b : nat * frame) : bool := Nat.eqb (fst a) (fst b) && frame_eqb (snd a) (snd b).

Definition check_case (c : fcase) : bool :=
  match c with
  | CServer cs obs => server_calls [] cs obs
  | CNode ops obufs owrites olog =>
      let st := nrun exec_stub ops in
      all2 bytes_eqb (bufs st) obufs && all2 write_eqb (outs st) owrites && all2 logent_eqb (log st) olog
  | CClient n buf0 sock ocalls obuf =>
      let '(calls, b) := session_ret n (S (length buf0 + length sock + length (concat sock))) buf0 sock in
      all2 call_eqb calls ocalls && bytes_eqb b obuf
  | CSock ops orecvd oleft =>
      let st := srun ops in all2 bytes_eqb (recvd st) orecvd && Nat.eqb (length (inflight st)) oleft
  | CDeser raw o => opt_eqb hostmsg_eqb (deser raw) o
  | CParseRet raw o olen =>
      opt_eqb retmsg_eqb (parse_ret raw) o &&
      match parse_ret raw with Some m => Nat.eqb (length (enc_ret m)) olen | None => true end
  end.

(* the same server observation judged against the model of the code before the repair (used only to tell
   "the tree is the unrepaired one" from "the tree does something else") *)
Definition check_case_cur (c : fcase) : bool :=
  match c with
  | CServer cs obs => server_calls_cur [] cs obs
  | CNode ops obufs owrites olog =>
      let st := nrun_cur exec_stub ops in
      all2 bytes_eqb (bufs st) obufs && all2 write_eqb (outs st) owrites && all2 logent_eqb (log st) olog
  | _ => check_case c
  end.

Definition failing_cases (l : list fcase) : list nat := failing (map check_case l).
Definition failing_cases_cur (l : list fcase) : list nat := failing (map check_case_cur l).
