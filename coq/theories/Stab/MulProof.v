(* _multiply_stabilizers with the phase rule as coded = the product of the two Pauli strings, for commuting rows. *)
From Coq Require Import List Bool Arith Lia.
From SQ Require Import Base.ListUtil Stab.Pauli Stab.Kernels Stab.Gates Stab.Tableau Stab.Group Stab.GroupGates.
Import ListNotations.

(* i^k *)
Fixpoint ph_pow (k : nat) : ph := match k with O => P0 | S k' => padd P1 (ph_pow k') end.
Fixpoint ph_pow3 (k : nat) : ph := match k with O => P0 | S k' => padd P3 (ph_pow3 k') end.

Lemma ph_pow_add a b : ph_pow (a + b) = padd (ph_pow a) (ph_pow b).
Proof. induction a as [|a IH]; cbn [ph_pow Nat.add]; [destruct (ph_pow b); reflexivity|]. rewrite IH. apply padd_assoc. Qed.
Lemma ph_pow3_spec k : ph_pow3 k = ph_pow (3 * k).
Proof.
  induction k as [|k IH]; [reflexivity|]. replace (3 * S k) with (3 + 3 * k) by lia.
  rewrite ph_pow_add, <- IH. reflexivity.
Qed.
Lemma ph_pow_4q q : ph_pow (4 * q) = P0.
Proof.
  induction q as [|q IH]; [reflexivity|]. replace (4 * S q) with (4 + 4 * q) by lia.
  rewrite ph_pow_add, IH. reflexivity.
Qed.
Lemma ph_pow_mod k : ph_pow k = ph_pow (k mod 4).
Proof.
  rewrite (Nat.div_mod k 4) at 1 by lia. rewrite ph_pow_add, ph_pow_4q, padd_0_l. reflexivity.
Qed.
Lemma ph_pow_P0_iff k : ph_pow k = P0 <-> k mod 4 = 0.
Proof.
  rewrite ph_pow_mod. assert (H : k mod 4 < 4) by (apply Nat.mod_upper_bound; lia).
  destruct (k mod 4) as [|[|[|[|r]]]]; simpl; split; intro E; try discriminate; try lia; auto.
Qed.

(* ---------- the product of two mapped lists ------------------------------------------------------- *)
Lemma pmul_l_map_snd {A} (f g : A -> pauli) l :
  snd (pmul_l (map f l) (map g l)) = map (fun i => snd (pmul1 (f i) (g i))) l.
Proof. induction l as [|x l IH]; simpl; auto. rewrite IH. reflexivity. Qed.

Lemma pmul1_phase_cases x y :
  fst (pmul1 x y) = if is_plus_i x y then P1 else if is_minus_i x y then P3 else P0.
Proof. destruct x, y; reflexivity. Qed.

Lemma plus_minus_excl x y : is_plus_i x y = true -> is_minus_i x y = false.
Proof. destruct x, y; simpl; auto; discriminate. Qed.

Lemma pmul_l_map_fst {A} (f g : A -> pauli) l :
  fst (pmul_l (map f l) (map g l)) =
  padd (ph_pow (length (filter (fun i => is_plus_i (f i) (g i)) l)))
       (ph_pow3 (length (filter (fun i => is_minus_i (f i) (g i)) l))).
Proof.
  induction l as [|x l IH]; cbn [map pmul_l fst filter length ph_pow ph_pow3]; auto.
  rewrite IH, pmul1_phase_cases.
  destruct (is_plus_i (f x) (g x)) eqn:Ep.
  - rewrite (plus_minus_excl _ _ Ep). cbn [length ph_pow]. rewrite padd_assoc. reflexivity.
  - destruct (is_minus_i (f x) (g x)); cbn [length ph_pow3].
    + set (u := ph_pow _). set (v := ph_pow3 _). destruct u, v; reflexivity.
    + rewrite padd_0_l. reflexivity.
Qed.

(* ---------- bits of the product row ---------------------------------------------------------------- *)
Lemma get_tl (a : row) j : get (tl a) j = get a (S j).
Proof. destruct a; simpl; auto. unfold get. destruct j; reflexivity. Qed.
Lemma hd_get (a : row) : hd false a = get a 0.
Proof. destruct a; reflexivity. Qed.

Lemma xor_prefix_length k : forall a b, length (xor_prefix k a b) = k.
Proof. induction k as [|k IH]; intros a b; simpl; auto. Qed.

Lemma get_xor_prefix k : forall a b j, j < k -> get (xor_prefix k a b) j = xorb (get a j) (get b j).
Proof.
  induction k as [|k IH]; intros a b j Hj; [lia|]. simpl. destruct j as [|j].
  - unfold get at 1. simpl. rewrite !hd_get. reflexivity.
  - unfold get at 1. simpl. fold (get (xor_prefix k (tl a) (tl b)) j). rewrite IH by lia. rewrite !get_tl. reflexivity.
Qed.

Lemma get_mul_rows_lt n a b j : j < 2 * n -> get (mul_rows n a b) j = xorb (get a j) (get b j).
Proof.
  intro Hj. unfold mul_rows, get. rewrite app_nth1 by (rewrite xor_prefix_length; lia).
  apply get_xor_prefix; auto.
Qed.

Lemma get_mul_rows_sign n a b :
  get (mul_rows n a b) (2 * n) = xorb (xorb (get a (2 * n)) (get b (2 * n))) (has_minus_phase n a b).
Proof.
  unfold mul_rows, get. rewrite app_nth2 by (rewrite xor_prefix_length; lia).
  rewrite xor_prefix_length, Nat.sub_diag. reflexivity.
Qed.

Lemma mul_rows_wf n a b : wf_row n (mul_rows n a b).
Proof. unfold wf_row, mul_rows. rewrite app_length, xor_prefix_length. simpl. lia. Qed.

Lemma pauli_of_xor xa za xb zb :
  pauli_of (xorb xa xb) (xorb za zb) = snd (pmul1 (pauli_of xa za) (pauli_of xb zb)).
Proof. destruct xa, za, xb, zb; reflexivity. Qed.

Theorem mul_rows_spec n a b : symp n a b = false ->
  decode_ph n (mul_rows n a b) = pmul (decode_ph n a) (decode_ph n b).
Proof.
  intro Hc. unfold decode_ph, lift, pmul, decode. cbn [fst snd].
  rewrite pmul_l_map_snd, pmul_l_map_fst. f_equal.
  - rewrite get_mul_rows_sign.
    (* the phase of the product is real because the rows commute *)
    assert (Hodd : ph_odd (fst (pmul_l (map (pauli_at n a) (seq 0 n)) (map (pauli_at n b) (seq 0 n)))) = false).
    { rewrite ph_odd_pmul_l. rewrite symp_decode in Hc. exact Hc. }
    rewrite pmul_l_map_fst in Hodd.
    unfold has_minus_phase, count_pos.
    change (pauli_at' n a) with (pauli_at n a). change (pauli_at' n b) with (pauli_at n b).
    set (ni := length (filter (fun i => is_plus_i (pauli_at n a i) (pauli_at n b i)) (seq 0 n))) in *.
    set (nm := length (filter (fun i => is_minus_i (pauli_at n a i) (pauli_at n b i)) (seq 0 n))) in *.
    replace (ni + 4 * nm - nm) with (ni + 3 * nm) by lia.
    rewrite ph_pow3_spec in *. rewrite <- ph_pow_add in *.
    rewrite !ph_of_sign_xorb. f_equal.
    destruct (Nat.eqb_spec ((ni + 3 * nm) mod 4) 0) as [E|E].
    + apply ph_pow_P0_iff in E. rewrite E. reflexivity.
    + assert (N : ph_pow (ni + 3 * nm) <> P0) by (intro X; apply ph_pow_P0_iff in X; auto).
      destruct (ph_pow (ni + 3 * nm)); simpl in *; try discriminate; try congruence.
  - apply map_ext_in. intros i Hi. apply in_seq in Hi. unfold pauli_at.
    rewrite !get_mul_rows_lt by lia. apply pauli_of_xor.
Qed.

(* the symplectic form is bilinear w.r.t. the product of rows *)
Lemma symp_mul_rows_l n a b c : symp n (mul_rows n a b) c = xorb (symp n a c) (symp n b c).
Proof.
  unfold symp.
  assert (G : forall l, (forall i, In i l -> i < n) ->
     fold_right xorb false (map (fun i => xorb (get (mul_rows n a b) i && get c (i + n)) (get (mul_rows n a b) (i + n) && get c i)) l) =
     xorb (fold_right xorb false (map (fun i => xorb (get a i && get c (i + n)) (get a (i + n) && get c i)) l))
          (fold_right xorb false (map (fun i => xorb (get b i && get c (i + n)) (get b (i + n) && get c i)) l))).
  { induction l as [|x l IH]; intro H; simpl; auto.
    rewrite IH by (intros; apply H; simpl; auto).
    assert (Hx : x < n) by (apply H; simpl; auto). clear IH H.
    rewrite !get_mul_rows_lt by lia.
    set (A := fold_right xorb false _). set (B := fold_right xorb false _). clearbody A B.
    destruct (get a x), (get b x), (get a (x + n)), (get b (x + n)), (get c x), (get c (x + n));
      destruct A, B; reflexivity. }
  apply G. intros i Hi. apply in_seq in Hi. lia.
Qed.

Lemma symp_sym n a b : symp n a b = symp n b a.
Proof.
  unfold symp. f_equal. apply map_ext. intro i.
  destruct (get a i), (get b (i + n)), (get a (i + n)), (get b i); reflexivity.
Qed.

Lemma symp_mul_rows_r n a b c : symp n c (mul_rows n a b) = xorb (symp n c a) (symp n c b).
Proof. rewrite symp_sym, symp_mul_rows_l, (symp_sym n a c), (symp_sym n b c). reflexivity. Qed.
