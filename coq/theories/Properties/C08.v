(* C08 — entanglement generation delivers matched halves of one Bell pair per request.
   Also hosted here (to be cited by Properties/C12.v and C11): the end-to-end part of the topology gate
   (refused requests create nothing) and the pair-creation half of teardown. *)
From Coq Require Import List Bool Arith.
From SQ Require Import Base.ListUtil Stab.Tableau Net.Model Net.Population Qasm.Exec Qasm.Epr Qasm.EprGate.
Import ListNotations.

(* pairing, one direction of one socket pair: for every start value of the sequence counter and EVERY interleaving of creator
   steps and receiver polls: FIFO (received ++ still queued = created, in creation order), the sequence numbers are
   start, start+1, ... (pairwise distinct), and once the receiver holds as many results as were created they are the
   creator's, index by index *)
Theorem C08_epr_pairing : forall start evs,
  let s := erun (init_st start) evs in
  made s = got s ++ queue s /\ made s = seq start (creates evs) /\ NoDup (made s) /\
  (length (got s) = creates evs -> got s = made s /\ queue s = []).
Proof. exact epr_pairing. Qed.
Print Assumptions C08_epr_pairing.

Theorem C08_seq_unique_one_direction : forall start evs i j,
  let s := erun (init_st start) evs in
  i < length (made s) -> j < length (made s) -> nth i (made s) 0 = nth j (made s) 0 -> i = j.
Proof. exact seq_unique_one_direction. Qed.
Print Assumptions C08_seq_unique_one_direction.

(* "distinct from every other pair on that socket pair" fails across directions (D15): two distinct pairs, one created
   by each end of the socket pair, carry the same sequence number *)
Theorem C08_seq_unique_refuted :
  exists evs a b, krun kinit evs = [Some a; Some b; Some a; Some b] /\
                  i_from a <> i_from b /\ i_seq a = i_seq b /\ i_from_sock a = i_to_sock b /\ i_to_sock a = i_from_sock b.
Proof. exact seq_unique_refuted. Qed.
Print Assumptions C08_seq_unique_refuted.

(* ---- the keyed model (any number of sockets, node pairs, both directions; Qasm/EprKeyed.v) ------------------------------------
   ktrace s evs = the events with what each returned (krun, the list the correspondence compares with the implementation);
   enq_at / deq_at Q = what was appended to / popped from the receiving queue Q = (node, socket); made_on k = the records
   created on the directed key k = (creator node, creator socket, receiver node, receiver socket);
   recv_from k = the deliveries of k's queue that carry k's sender fields. *)
From SQ Require Import Qasm.EprKeyed.

(* FIFO per receiving queue, every event list, every starting state *)
Theorem C08_keyed_queue_fifo : forall evs s Q,
  deq_at Q (ktrace s evs) ++ q_get Q (k_q (kfinal s evs)) = q_get Q (k_q s) ++ enq_at Q (ktrace s evs).
Proof. exact keyed_queue_fifo. Qed.
Print Assumptions C08_keyed_queue_fifo.

(* per directed key, EVERY interleaving with traffic on any other keys (shared queues included): (a) FIFO, (b) sequence
   numbers start, start+1, ... (distinct), (c) the i-th item received from the key is the i-th record created on it
   (same sequence number, the creator as remote node, the sockets as the creator named them), (d) completeness *)
Theorem C08_keyed_pairing : forall s evs c ls r rs,
  let k := (c, ls, r, rs) in
  filter (sent_by k) (q_get (r, rs) (k_q s)) = [] ->
  let tr := ktrace s evs in
  let start := ctr_get k (k_ctr s) in
  let queued := filter (sent_by k) (q_get (r, rs) (k_q (kfinal s evs))) in
  recv_from k tr ++ queued = made_on k tr /\
  made_on k tr = map (item_of k) (seq start (count_on k evs)) /\ NoDup (map i_seq (made_on k tr)) /\
  (forall i it, nth_error (recv_from k tr) i = Some it ->
     nth_error (made_on k tr) i = Some it /\
     i_seq it = start + i /\ i_from it = c /\ i_from_sock it = ls /\ i_to_sock it = rs) /\
  (length (recv_from k tr) = count_on k evs -> recv_from k tr = made_on k tr /\ queued = []).
Proof. exact keyed_pairing. Qed.
Print Assumptions C08_keyed_pairing.

(* without looking at the sender fields "the receiver's i-th result on the socket is the creator's i-th pair" is false when
   two creating keys share a receiving queue (the code pops the head of the socket's deque whoever sent it) ... *)
Theorem C08_shared_queue_unfiltered_refuted :
  exists evs k, let tr := ktrace kinit evs in
    count_on k evs = 1 /\ length (deq_at (qk k) tr) = 1 /\ deq_at (qk k) tr <> made_on k tr /\
    recv_from k tr = [] /\ map i_from (deq_at (qk k) tr) = [2] /\ map i_from (made_on k tr) = [0].
Proof. exact shared_queue_unfiltered_refuted. Qed.
Print Assumptions C08_shared_queue_unfiltered_refuted.

(* ... and true exactly when the key is the only one that creates into its receiving queue: then everything polls of the
   receiving socket return is the key's pairs, index by index *)
Theorem C08_keyed_pairing_sole : forall s evs c ls r rs,
  let k := (c, ls, r, rs) in
  q_get (r, rs) (k_q s) = [] -> sole_creator k evs ->
  let tr := ktrace s evs in
  let start := ctr_get k (k_ctr s) in
  let got := deq_at (r, rs) tr in
  let queued := q_get (r, rs) (k_q (kfinal s evs)) in
  got ++ queued = made_on k tr /\
  made_on k tr = map (item_of k) (seq start (count_on k evs)) /\ NoDup (map i_seq (made_on k tr)) /\
  (forall i it, nth_error got i = Some it ->
     nth_error (made_on k tr) i = Some it /\
     i_seq it = start + i /\ i_from it = c /\ i_from_sock it = ls /\ i_to_sock it = rs) /\
  (length got = count_on k evs -> got = made_on k tr /\ queued = []).
Proof. exact keyed_pairing_sole. Qed.
Print Assumptions C08_keyed_pairing_sole.

(* the hypothesis is satisfiable: three nodes, two sockets, both directions of one socket pair, polls before and after *)
Theorem C08_keyed_example :
  sole_creator (0, 0, 1, 0) ex_traffic /\ sole_creator (1, 0, 0, 0) ex_traffic /\ sole_creator (0, 1, 1, 1) ex_traffic /\
  sole_creator (2, 0, 1, 2) ex_traffic /\
  count_on (0, 0, 1, 0) ex_traffic = 3 /\
  map i_seq (deq_at (1, 0) (ktrace kinit ex_traffic)) = [0; 1] /\
  map i_seq (q_get (1, 0) (k_q (kfinal kinit ex_traffic))) = [2] /\
  krun kinit [KPoll 1 2] = [None].
Proof. exact ex_sole_creators. Qed.
Print Assumptions C08_keyed_example.

(* the one-direction model above is the keyed model restricted to one key (any key, any start value) *)
Theorem C08_one_direction_is_special_case : forall k start evs,
  let s := erun (init_st start) evs in
  let kevs := map (emb k) evs in
  let tr := ktrace (kstart k start) kevs in
  made s = map i_seq (made_on k tr) /\ got s = map i_seq (deq_at (qk k) tr) /\
  queue s = map i_seq (q_get (qk k) (k_q (kfinal (kstart k start) kevs))) /\
  nxt s = ctr_get k (k_ctr (kfinal (kstart k start) kevs)) /\
  creates evs = count_on k kevs /\ sole_creator k kevs.
Proof. exact one_direction_is_special_case. Qed.
Print Assumptions C08_one_direction_is_special_case.

(* the register the creator's native operations build is exactly <XX, ZZ> = |Phi+> *)
Theorem C08_bell_state : bell_tab = [[true; true; false; false; false]; [false; false; true; true; false]].
Proof. exact bell_state. Qed.
Print Assumptions C08_bell_state.

(* measure-directly: for all 3 x 3 bases and both coins of both measurements the reported outcomes are possible for |Phi+> *)
Theorem C08_md_outcomes :
  forallb (fun bl => forallb (fun br => forallb (fun c1 => forallb (fun c2 =>
    let '(o1, o2) := md_outcomes bl br c1 c2 in phi_plus_possible bl br o1 o2) [true; false]) [true; false]) all_bases) all_bases = true.
Proof. exact md_outcomes_possible. Qed.
Print Assumptions C08_md_outcomes.

(* C12 end-to-end: the gate is the conjunction of the three checks, and a refused request makes no native call and
   changes nothing *)
Theorem C12_epr_gate_iff : forall known self r adj,
  epr_gate known self r adj = true <-> In r known /\ r <> self /\ adj = true.
Proof. exact epr_gate_iff. Qed.
Print Assumptions C12_epr_gate_iff.

Theorem C12_refused_creates_nothing : forall i s known r adj qid coins,
  epr_gate known i r adj = false -> cmd_epr_keep i s known r adj qid coins = (s, RErr, []).
Proof. exact refused_creates_nothing. Qed.
Print Assumptions C12_refused_creates_nothing.

(* C11, halves handed to another node: after a successful creation the sent half is not in the creator's qubitList *)
Theorem C11_half_survives : forall i s known r adj qid coins s' tr,
  cmd_epr_keep i s known r adj qid coins = (s', RDone None, tr) -> plookup (PM qid) (h_qlist (q_host s')) = None.
Proof. exact half_survives. Qed.
Print Assumptions C11_half_survives.

(* C11 for a failed pair creation (the replay of the former finding C11:epr-temporaries: creator N0 with room for 4 qubits,
   receiver N1 with room for none).  Since the repair fixes/D16ii-epr-temporaries.diff the request still answers an error, but
   its two temporaries are measured out again (the complete list of native calls is shown), the creator's host (unit modules,
   used physical ids, qubitList) and node (held, simulated, registers, register counter) are what they were, and the stop
   finds nothing to clear.  General statement: C11_failed_creation_restores / C11_failed_creation_leaves_creator in C11.v *)
Theorem C11_failed_pair_restored :
  snd (fst (cmd_epr_keep 0 leak_start [0; 1] 1 true 0 [true; false])) = RErr /\
  snd (cmd_epr_keep 0 leak_start [0; 1] 1 true 0 [true; false]) =
    [(ONew 0, Ok 0); (ONew 0, Ok 1); (OGate1 0 NH, OkNone); (OGate2 0 1 NCnot, OkNone); (OSend 1 1, Err KNoQubit);
     (OMeas 0 false true, Ok 1); (OMeas 1 false false, Ok 1)] /\
  q_host leak_after_create = q_host leak_start /\
  node_counts leak_after_create 0 = node_counts leak_start 0 /\ node_counts leak_after_create 0 = (0, 0, 0, 0) /\
  snd (fst (exec 0 leak_after_create (QStopApp 0 []))) = RDone None /\
  node_counts leak_after_stop 0 = (0, 0, 0, 0) /\ h_units (q_host leak_after_stop) = [] /\ h_qlist (q_host leak_after_stop) = [].
Proof. exact failed_pair_restored. Qed.
Print Assumptions C11_failed_pair_restored.

(* room for one more qubit only: the second cmd_new is refused, the first temporary is removed again; the qubit the creator
   held before is still there, nothing else *)
Theorem C11_failed_second_creation_restored :
  snd (fst (cmd_epr_keep 0 tight_start [0; 1] 1 true 1 [false])) = RErr /\
  map fst (snd (cmd_epr_keep 0 tight_start [0; 1] 1 true 1 [false])) = [ONew 0; ONew 0; OMeas 1 false false] /\
  q_host (fst (fst (cmd_epr_keep 0 tight_start [0; 1] 1 true 1 [false]))) = q_host tight_start /\
  node_counts (fst (fst (cmd_epr_keep 0 tight_start [0; 1] 1 true 1 [false]))) 0 = node_counts tight_start 0 /\
  node_counts tight_start 0 = (1, 1, 1, 1).
Proof. exact failed_second_creation_restored. Qed.
Print Assumptions C11_failed_second_creation_restored.

(* what the code did BEFORE the repair on the first input (cmd_epr_keep_unrepaired = cmd_epr without its except-branch): both
   temporaries stay, the stop completes and the node keeps 2 qubits -- the former C11_stop_restores_refuted_failed_pair *)
Theorem C11_unrepaired_code_leaked :
  snd (fst (cmd_epr_keep_unrepaired 0 leak_start [0; 1] 1 true 0)) = RErr /\
  snd (fst (exec 0 old_leak_after_create (QStopApp 0 []))) = RDone None /\
  held (q_net leak_start) 0 = 0 /\ held (q_net old_leak_after_stop) 0 = 2 /\
  h_units (q_host old_leak_after_stop) = [] /\ length (h_qlist (q_host old_leak_after_stop)) = 2.
Proof. exact unrepaired_leak. Qed.
Print Assumptions C11_unrepaired_code_leaked.

Theorem C08_example_creation :
  snd (fst (cmd_epr_keep 0 ok_start [0; 1] 1 true 0 [])) = RDone None /\
  map fst (snd (cmd_epr_keep 0 ok_start [0; 1] 1 true 0 [])) = [ONew 0; ONew 0; OGate1 0 NH; OGate2 0 1 NCnot; OSend 1 1] /\
  held (q_net (fst (fst (cmd_epr_keep 0 ok_start [0; 1] 1 true 0 [])))) 0 = 1 /\
  held (q_net (fst (fst (cmd_epr_keep 0 ok_start [0; 1] 1 true 0 [])))) 1 = 1.
Proof. exact ex_create_ok. Qed.
Print Assumptions C08_example_creation.

(* ---- measure-directly requests as actions of the N-host network model (Qasm/EprGate.v cmd_epr_measure, Qasm/EprMeasureNode.v,
   Qasm/TeardownNet.v ACreateM, Qasm/EprMeasure.v) --------------------------------------------------------------------------------
   The finite table C08_md_outcomes above speaks about the tableau bell_tab; the theorems below connect it to the code path:
   the native calls cmd_epr issues for ONE pair of a measure-directly request, started in ANY network state that satisfies the
   global invariant (so: after any history of instructions, pair requests of both types, polls and stops on N hosts), at any
   node, with any sampled bases (Z / X / Y; rotations 0) and any coins. *)
From SQ Require Import Net.InvStep Qasm.TeardownFull Qasm.EprFailNode Qasm.EprMeasureNode Qasm.TeardownNet Qasm.TeardownNetExamples Qasm.EprMeasure.

(* Model V, call by call: both creations accepted => every further call succeeds; after the CNOT the two temporaries are the
   only qubits of ONE register of the creating node whose tableau is |Phi+>'s (bell_tab: nothing else is in that register, so
   the pair is entangled with nothing else); the two destructive measurements return md_outcomes bl br c1 c2; afterwards the
   network is what it was, up to the handle counter and the node's register-number counter *)
Theorem C08_md_native_calls : forall i s s1 s2 v1 v2 bl br c1 c2,
  ginv s -> step s (ONew i) = (s1, Ok v1) -> step s1 (ONew i) = (s2, Ok v2) ->
  let a1 := next_hid s in let a2 := S (next_hid s) in
  let o := md_outcomes bl br c1 c2 in
  exists s3 s4 s5 s6 s7,
    step s2 (OGate1 a1 NH) = (s3, OkNone) /\ step s3 (OGate2 a1 a2 NCnot) = (s4, OkNone) /\
    match basis_g1 bl with None => s5 = s4 | Some g => step s4 (OGate1 a1 g) = (s5, OkNone) end /\
    step s5 (OMeas a1 false c1) = (s6, Ok (b2n (fst o))) /\
    match basis_g1 br with None => s7 = s6 | Some g => step s6 (OGate1 a2 g) = (s7, OkNone) end /\
    step s7 (OMeas a2 false c2) = (mkNet (upd (nodes s) i (bump (nth_node s i) 2)) (S (S (next_hid s))), Ok (b2n (snd o))) /\
    next_hid s1 = a2 /\ next_hid s2 = S a2 /\
    ginv (mkNet (upd (nodes s) i (bump (nth_node s i) 2)) (S (S (next_hid s)))) /\
    exists sn1 sn2, nth_node s4 i = ext2m i (nth_node s i) a1 v1 sn1 a2 v2 sn2 (nextReg (nth_node s i)) 11 bell_tab 2.
Proof. exact md_steps. Qed.
Print Assumptions C08_md_native_calls.

Theorem C08_md_temporaries : forall i s v1 v2 bl br c1 c2,
  ginv s -> snd (step s (ONew i)) = Ok v1 -> snd (step (fst (step s (ONew i))) (ONew i)) = Ok v2 ->
  let ops := md_ops i (next_hid s) (S (next_hid s)) bl br c1 c2 in
  let o := md_outcomes bl br c1 c2 in
  run s ops = mkNet (upd (nodes s) i (bump (nth_node s i) 2)) (S (S (next_hid s))) /\
  run_outs s ops = [Ok v1; Ok v2; OkNone; OkNone] ++ basis_outs bl ++ [Ok (b2n (fst o))] ++ basis_outs br ++ [Ok (b2n (snd o))] /\
  (let '(o1, o2) := o in phi_plus_possible bl br o1 o2) = true.
Proof. exact md_temps_restored. Qed.
Print Assumptions C08_md_temporaries.

(* the request as an action of the N-host model: in every state satisfying the global invariant (C11_net_invariant_reachable:
   after every clean history), a measure-directly request of one pair that completes reports -- in the creator's ReturnArray
   record and in the record queued for the peer -- the outcomes md_outcomes bl br c1 c2 of the table for the sampled bases and
   coins, which are possible for |Phi+>; the two records carry the same sequence number, directionality 0 / 1, name each other
   as remote node and carry the local / remote socket id as purpose id; the native calls are exactly md_ops; and the request was
   allowed by the three checks *)
Theorem C08_md_request_outcomes : forall s i known r adj lsock rsock seq bl br c1 c2 coins,
  ninv s -> i < length (n_hosts s) ->
  let x := ACreateM i known r adj lsock rsock seq bl br c1 c2 coins in
  snd (nstep_r s x) = RDone None ->
  let o := md_outcomes bl br c1 c2 in
  let rc := mkMrec (b2n (fst o)) bl seq 0 r lsock in
  let rr := mkMrec (b2n (snd o)) br seq 1 i rsock in
  phi_plus_possible bl br (fst o) (snd o) = true /\
  act_records s x = [(i, rc)] /\
  n_pend (nstep s x) = n_pend s ++ [DM r rsock rr] /\
  tops (snd (fst (create_m s i known r adj lsock rsock seq bl br c1 c2 coins))) =
    md_ops i (next_hid (n_net s)) (S (next_hid (n_net s))) bl br c1 c2 /\
  In r known /\ r <> i /\ adj = true.
Proof. exact md_request_outcomes. Qed.
Print Assumptions C08_md_request_outcomes.

(* the receiver's poll of a deque whose head is an outcome record: the record is popped (it was the first entry of that
   node's deque for that socket) and returned; no qubit is mapped, the network is untouched *)
Theorem C08_md_record_poll : forall s i app a sock nd sk rec pd',
  i < length (n_hosts s) -> take_pend i sock (n_pend s) = Some (DM nd sk rec, pd') ->
  nstep_r s (ARecv i app a sock) =
    (mkN (n_net s) (upd (n_hosts s) i (keep_used (host_at s i) (fresh_id (h_used (host_at s i))))) pd', RDone None) /\
  act_records s (ARecv i app a sock) = [(i, rec)] /\ halves pd' = halves (n_pend s) /\
  exists l1 l2, n_pend s = l1 ++ DM nd sk rec :: l2 /\ pd' = l1 ++ l2 /\ nd = i /\ sk = sock /\
                forall e, In e l1 -> ~ (d_node e = i /\ d_sock e = sock).
Proof. exact md_record_poll. Qed.
Print Assumptions C08_md_record_poll.

(* non-vacuity: two hosts; a measure-directly request with sampled bases (X, Z) and coins (1, 0), then a create-and-keep
   request on the same sockets (its half waits BEHIND the record in one deque), two polls, two stops: the history is clean, every
   action completes, the records are the table's, nothing is left *)
Theorem C08_md_example :
  cleans (ninit caps2) md_history /\
  nrun_res (ninit caps2) md_history = [RDone None; RDone None; RDone None; RDone None; RDone None; RDone None; RDone None; RDone None] /\
  md_outcomes BX BZ true false = (true, false) /\
  nrun_records (ninit caps2) md_history = [(0, mkMrec 1 BX 0 0 1 0); (1, mkMrec 0 BZ 0 1 0 0)] /\
  populations (nrun (ninit caps2) (firstn 3 md_history)) = [(0, 0, 0, 0); (0, 0, 0, 0)] /\
  n_pend (nrun (ninit caps2) (firstn 3 md_history)) = [DM 1 0 (mkMrec 0 BZ 0 1 0 0)] /\
  map h_used (n_hosts (nrun (ninit caps2) (firstn 3 md_history))) = [[0]; []] /\
  map d_node (n_pend (nrun (ninit caps2) (firstn 4 md_history))) = [1; 1] /\
  halves (n_pend (nrun (ninit caps2) (firstn 4 md_history))) = [(1, 0, 0, 4)] /\
  map h_qlist (n_hosts (nrun (ninit caps2) (firstn 5 md_history))) = [[(PP 1, 2)]; []] /\
  map h_qlist (n_hosts (nrun (ninit caps2) (firstn 6 md_history))) = [[(PP 1, 2)]; [(PP 1, 4)]] /\
  populations (nrun (ninit caps2) (firstn 6 md_history)) = [(1, 2, 1, 1); (1, 0, 0, 0)] /\
  populations (nrun (ninit caps2) md_history) = [(0, 0, 0, 0); (0, 0, 0, 0)] /\
  n_pend (nrun (ninit caps2) md_history) = [].
Proof. exact md_example. Qed.
Print Assumptions C08_md_example.
