"""C13 — stabilizer gate algebra is exact.
   obligations : Gen/StabGatesGen.v (kernels regenerated from the source = hand model, all n), Properties/C13.v
   correspondence: exact tableau equality model/implementation for gates, tensor, add_qubit, gauss, ==, contains, row product
   oracle      : 2^n x 2^n matrix conjugation (harness/oracle_np.py)"""
import itertools

import numpy as np

import common
import oracle_np as O
import stab_common as S


def impl_gate(arr, g, pos):
    s = S.mk_state(arr)
    getattr(s, "apply_" + g)(*pos)
    return S.arr_of(s)


def gate_case(n, g, pos, tin, tout):
    if g in S.G1:
        return "CGate1 G%s %d %d %s %s" % (g, n, pos[0], common.ctab(tin), common.ctab(tout))
    return "CGate2 %s %d %d %d %s %s" % (S.G2C[g], n, pos[0], pos[1], common.ctab(tin), common.ctab(tout))


def exhaustive_states(ctx, nmax):
    out = []
    for n in range(1, nmax + 1):
        for t in O.all_stabilizer_states(n):
            out.append((n, t))
    return out


def run(ctx):
    from simulaqron.toolbox.stabilizer_states import StabilizerState
    rng = ctx.rng
    thorough = ctx.tier == "thorough"
    ctx.trusted += ["translator translate/stab_gates.py (fail-closed ast translator, numpy view/mask semantics as stated in its header)",
                    "numpy/scipy primitives used by StabilizerState (logical_*, fancy indexing, block_diag, apply_along_axis): modelled by hand, exercised by the correspondence",
                    "link stabilizer group <-> Hilbert-space state (Nielsen-Chuang 10.5): not re-proved; cross-checked numerically by oracle_np on every oracle evaluation"]
    ctx.rule = ("exhaustive: every stabilizer state on 1..%d qubits (closure under H,S,CNOT, plus 2 re-generated generating sets each) x every gate x every position/ordered pair; "
                "random: reference-generated tableaux up to 8 qubits and raw boolean matrices; a case is non-trivial if the operation changes the tableau or the query is decided on a non-canonical generating set; distinct = distinct (op, args, input tableau)"
                % (3 if thorough else 2))
    common.run_translator(ctx, "stab_gates.py", "simulaqron/toolbox/stabilizer_states.py", "StabGatesGen")
    common.check_properties_file(ctx)

    cases = []          # (coq text, description)
    oracle_bad = []

    def add_gate_cases(n, tin, with_oracle):
        for g in S.G1:
            for p in range(n):
                tout = impl_gate(tin, g, (p,))
                d = {"op": "apply_" + g, "n": n, "pos": [p], "in": S.tabl(tin), "impl_out": tout}
                cases.append((gate_case(n, g, (p,), S.tabl(tin), tout), d))
                ctx.case(("g", g, p, str(S.tabl(tin))), nontrivial=(tout != S.tabl(tin)))
                ctx.count("gate_" + g)
                if with_oracle and not S.oracle_gate(S.tabl(tin), n, g, (p,), tout):
                    oracle_bad.append(d)
        for g in S.G2:
            for c, t in itertools.permutations(range(n), 2):
                tout = impl_gate(tin, g, (c, t))
                d = {"op": "apply_" + g, "n": n, "pos": [c, t], "in": S.tabl(tin), "impl_out": tout}
                cases.append((gate_case(n, g, (c, t), S.tabl(tin), tout), d))
                ctx.case(("g", g, c, t, str(S.tabl(tin))), nontrivial=(tout != S.tabl(tin)))
                ctx.count("gate_" + g)
                if with_oracle and not S.oracle_gate(S.tabl(tin), n, g, (c, t), tout):
                    oracle_bad.append(d)

    # ---- exhaustive small states ---------------------------------------------------------------------------
    states = exhaustive_states(ctx, 3 if thorough else 2)
    ctx.count("exhaustive_states", len(states))
    for n, t in states:
        for u in O.generating_sets(t, n, rng, 2 if n > 1 else 0):
            add_gate_cases(n, u, with_oracle=True)
    ctx.coverage["exhaustive"] = True
    ctx.coverage["exhaustive_scope"] = "all stabilizer states on 1..%d qubits x all gates x all positions" % (3 if thorough else 2)

    # ---- random larger states --------------------------------------------------------------------------------
    nrand = 400 if thorough else 60
    for _ in range(nrand):
        n = rng.randrange(3, 9)
        t = O.ref_random_tableau(n, rng)
        g = rng.choice(S.G1 + S.G2 * 3)
        pos = (rng.randrange(n),) if g in S.G1 else tuple(rng.sample(range(n), 2))
        tout = impl_gate(t, g, pos)
        d = {"op": "apply_" + g, "n": n, "pos": list(pos), "in": S.tabl(t), "impl_out": tout}
        cases.append((gate_case(n, g, pos, S.tabl(t), tout), d))
        ctx.case(("g", g, pos, str(S.tabl(t))), nontrivial=(tout != S.tabl(t)))
        ctx.count("gate_" + g)
        if n <= 6 and not S.oracle_gate(S.tabl(t), n, g, pos, tout):
            oracle_bad.append(d)
    # raw boolean matrices (kernels are total on them; validates the model beyond valid states)
    for _ in range(200 if thorough else 40):
        n = rng.randrange(1, 6)
        t = [[rng.random() < 0.5 for _ in range(2 * n + 1)] for _ in range(n)]
        g = rng.choice(S.G1 + S.G2) if n > 1 else rng.choice(S.G1)
        pos = (rng.randrange(n),) if g in S.G1 else tuple(rng.sample(range(n), 2))
        tout = impl_gate(t, g, pos)
        cases.append((gate_case(n, g, pos, t, tout), {"op": "apply_" + g, "n": n, "pos": list(pos), "in": t, "impl_out": tout, "raw": True}))
        ctx.case(("raw", g, pos, str(t)))
        ctx.count("raw_matrix_cases")

    # ---- tensor / add_qubit / gauss / eq / contains / row product ----------------------------------------------
    pool = [(n, t) for n, t in states] + [(n, O.ref_random_tableau(n, rng)) for n in [1, 2, 3, 4, 5] for _ in range(12 if thorough else 4)]
    for _ in range(300 if thorough else 80):
        n1, t1 = rng.choice(pool)
        n2, t2 = rng.choice(pool)
        s1, s2 = S.mk_state(t1), S.mk_state(t2)
        # tensor
        ten = S.arr_of(s1.tensor_product(s2))
        d = {"op": "tensor", "n1": n1, "t1": S.tabl(t1), "n2": n2, "t2": S.tabl(t2), "impl_out": ten}
        cases.append(("CTensor %d %s %d %s %s" % (n1, common.ctab(S.tabl(t1)), n2, common.ctab(S.tabl(t2)), common.ctab(ten)), d))
        ctx.case(("tensor", str(d["t1"]), str(d["t2"])))
        ctx.count("tensor")
        if n1 + n2 <= 6:
            ok = len(ten) == n1 + n2 and O.close(O.projector(ten, n1 + n2), np.kron(O.projector(S.tabl(t1), n1), O.projector(S.tabl(t2), n2)))
            if not ok:
                oracle_bad.append(d)
        # add_qubit
        s1b = S.mk_state(t1)
        s1b.add_qubit()
        aq = S.arr_of(s1b)
        d = {"op": "add_qubit", "n": n1, "in": S.tabl(t1), "impl_out": aq}
        cases.append(("CAddQ %d %s %s" % (n1, common.ctab(S.tabl(t1)), common.ctab(aq)), d))
        ctx.case(("addq", str(d["in"])))
        ctx.count("add_qubit")
        if n1 <= 5:
            zero = np.array([[1, 0], [0, 0]], dtype=complex)
            if not (len(aq) == n1 + 1 and O.close(O.projector(aq, n1 + 1), np.kron(O.projector(S.tabl(t1), n1), zero))):
                oracle_bad.append(d)
        # gauss (standard form)
        ga = S.tabl(s1.to_array(standard_form=True))
        d = {"op": "gauss", "n": n1, "in": S.tabl(t1), "impl_out": ga}
        cases.append(("CGauss %d %s %s" % (n1, common.ctab(S.tabl(t1)), common.ctab(ga)), d))
        ctx.case(("gauss", str(d["in"])), nontrivial=(ga != S.tabl(t1)))
        ctx.count("gauss")
        if n1 <= 6 and not O.close(O.projector(ga, n1), O.projector(S.tabl(t1), n1)):
            oracle_bad.append(d)
        # equality: same group in another generating set, a sign-flipped variant, and an unrelated state
        variants = [O.generating_sets(np.array(t1), n1, rng, 1)[-1]]
        v = np.array(t1, dtype=bool).copy()
        v[rng.randrange(n1), -1] ^= True
        variants.append(v)
        variants.append(t2)
        for v in variants:
            nv = len(v)
            res = bool(s1 == S.mk_state(v))
            d = {"op": "eq", "n1": n1, "t1": S.tabl(t1), "n2": nv, "t2": S.tabl(v), "impl_out": res}
            cases.append(("CEq %d %s %d %s %s" % (n1, common.ctab(S.tabl(t1)), nv, common.ctab(S.tabl(v)), common.cbool(res)), d))
            ctx.case(("eq", str(d["t1"]), str(d["t2"])))
            ctx.count("eq_true" if res else "eq_false")
            if n1 <= 6 and nv <= 6:
                want = (n1 == nv) and O.close(O.projector(S.tabl(t1), n1), O.projector(S.tabl(v), nv))
                if want != res:
                    oracle_bad.append(d)
        # contains: a group element, its negative, a random Pauli
        els = sorted(O.group_elements(np.array(t1, dtype=bool), n1)) if n1 <= 5 else None
        cands = []
        if els:
            e = list(rng.choice(els))
            cands.append(e)
            cands.append(e[:-1] + [not e[-1]])
        cands.append([rng.random() < 0.5 for _ in range(2 * n1 + 1)])
        for gq in cands:
            res = bool(s1.contains([bool(x) for x in gq]))
            d = {"op": "contains", "n": n1, "in": S.tabl(t1), "g": [bool(x) for x in gq], "impl_out": res}
            cases.append(("CContains %d %s %s %s" % (n1, common.ctab(S.tabl(t1)), common.cblist(gq), common.cbool(res)), d))
            ctx.case(("contains", str(d["in"]), str(d["g"])))
            ctx.count("contains_true" if res else "contains_false")
            if els is not None and (tuple(bool(x) for x in gq) in set(els)) != res:
                oracle_bad.append(d)
        # row product as coded (also on non-commuting rows)
        a = [rng.random() < 0.5 for _ in range(2 * n1 + 1)]
        b = [rng.random() < 0.5 for _ in range(2 * n1 + 1)]
        out = [bool(x) for x in StabilizerState._multiply_stabilizers(np.array(a), np.array(b))]
        cases.append(("CMul %d %s %s %s" % (n1, common.cblist(a), common.cblist(b), common.cblist(out)),
                      {"op": "mul", "n": n1, "a": a, "b": b, "impl_out": out}))
        ctx.case(("mul", str(a), str(b)))
        ctx.count("mul")

    # ---- structured row products: every residue of (#i - #(-i)) mod 4, incl. imbalances of +-4, +-8 (wrong phase rules agree on small n) ----
    PLUS = [((1, 0), (1, 1)), ((1, 1), (0, 1)), ((0, 1), (1, 0))]        # (X,Y), (Y,Z), (Z,X): product carries +i
    for n in range(1, 9 if thorough else 8):
        for k in range(0, n + 1):
            for m in range(0, n + 1 - k):
                a = [False] * (2 * n + 1)
                b = [False] * (2 * n + 1)
                pos = list(range(n))
                rng.shuffle(pos)
                for idx, p in enumerate(pos[:k + m]):
                    (ax, az), (bx, bz) = rng.choice(PLUS)
                    if idx >= k:                                            # swapped order carries -i
                        (ax, az), (bx, bz) = (bx, bz), (ax, az)
                    a[p], a[p + n], b[p], b[p + n] = bool(ax), bool(az), bool(bx), bool(bz)
                for p in pos[k + m:]:                                       # commuting filler: identical Paulis or identity
                    if rng.random() < 0.5:
                        x, z = rng.random() < 0.5, rng.random() < 0.5
                        a[p], a[p + n], b[p], b[p + n] = x, z, x, z
                a[2 * n], b[2 * n] = rng.random() < 0.5, rng.random() < 0.5
                out = [bool(x) for x in StabilizerState._multiply_stabilizers(np.array(a), np.array(b))]
                d = {"op": "mul", "n": n, "a": a, "b": b, "impl_out": out, "plus_i": k, "minus_i": m}
                cases.append(("CMul %d %s %s %s" % (n, common.cblist(a), common.cblist(b), common.cblist(out)), d))
                ctx.case(("mulS", str(a), str(b)))
                ctx.count("mul_structured")
                if (k - m) % 2 == 0:                                        # commuting rows: judge the sign by exact Pauli arithmetic
                    want = O.ref_mul(np.array(a), np.array(b), n)
                    if [bool(x) for x in want] != out:
                        oracle_bad.append(d)
    # GHZ-type states on 4..6 qubits in Y-rich generating sets: == and contains go through products with imbalance 4
    for n in range(4, 7):
        ghz = O.ref_zero(n)
        ghz = O.ref_gate(ghz, n, "H", 0)
        for i in range(1, n):
            ghz = O.ref_gate(ghz, n, "CNOT", 0, i)
        for _ in range(6 if thorough else 3):
            u = ghz.copy()
            for p in rng.sample(range(n), rng.randrange(0, n + 1)):
                u = O.ref_gate(u, n, "S", p)
            v = O.generating_sets(u, n, rng, 1)[-1]
            s1 = S.mk_state(u)
            res = bool(s1 == S.mk_state(v))
            d = {"op": "eq", "n1": n, "t1": S.tabl(u), "n2": n, "t2": S.tabl(v), "impl_out": res}
            cases.append(("CEq %d %s %d %s %s" % (n, common.ctab(S.tabl(u)), n, common.ctab(S.tabl(v)), common.cbool(res)), d))
            ctx.case(("eqG", str(d["t1"]), str(d["t2"])))
            ctx.count("eq_true" if res else "eq_false")
            if not res:
                oracle_bad.append(d)
            els = sorted(O.group_elements(u, n))
            for e in rng.sample(els, 3):
                for flip in (False, True):
                    gq = list(e[:-1]) + [e[-1] ^ flip]
                    res = bool(s1.contains([bool(x) for x in gq]))
                    d = {"op": "contains", "n": n, "in": S.tabl(u), "g": [bool(x) for x in gq], "impl_out": res}
                    cases.append(("CContains %d %s %s %s" % (n, common.ctab(S.tabl(u)), common.cblist(gq), common.cbool(res)), d))
                    ctx.case(("containsG", str(d["in"]), str(d["g"])))
                    ctx.count("contains_true" if res else "contains_false")
                    if res != (not flip):
                        oracle_bad.append(d)

    # ---- every way of constructing a state (int, list of strings with and without phases, networkx graph, copy, integer array without dtype):
    # the constructed state must denote the documented tableau AND behave like it under every gate (same Coq gate cases as above) -----------
    import networkx as nx
    from simulaqron.toolbox.stabilizer_states import StabilizerState
    PNAME = {(False, False): "I", (True, False): "X", (True, True): "Y", (False, True): "Z"}

    def as_strings(t, n, explicit_plus):
        out = []
        for r in t:
            body = "".join(PNAME[(bool(r[i]), bool(r[n + i]))] for i in range(n))
            out.append(("-1" if r[2 * n] else ("+1" if explicit_plus else "")) + body)
        return out

    def constructed_cases(label, make, n, expect):
        """make() -> fresh StabilizerState; expect = its documented tableau"""
        s0 = make()
        got = S.arr_of(s0)
        ctx.count("constructor_" + label)
        if got != expect or s0.num_qubits != n:
            oracle_bad.append({"op": "construct:" + label, "n": n, "expected": expect, "impl_out": got})
            return
        for g in S.G1 + S.G2:
            if g in S.G2 and n < 2:
                continue
            pos = (rng.randrange(n),) if g in S.G1 else tuple(rng.sample(range(n), 2))
            s1 = make()
            try:
                getattr(s1, "apply_" + g)(*pos)
            except Exception as e:               # noqa: BLE001   a gate on a freshly constructed valid state must not fail
                oracle_bad.append({"op": "apply_%s after construct:%s" % (g, label), "n": n, "pos": list(pos), "in": expect,
                                   "impl_out": "%s: %s" % (type(e).__name__, e)})
                return
            tout = S.arr_of(s1)
            d = {"op": "apply_" + g, "n": n, "pos": list(pos), "in": expect, "impl_out": tout, "constructed_by": label}
            cases.append((gate_case(n, g, pos, expect, tout), d))
            ctx.case(("ctor", label, g, pos, str(expect)), nontrivial=True)
            if n <= 6 and not S.oracle_gate(expect, n, g, pos, tout):
                oracle_bad.append(d)
    for _ in range(60 if thorough else 12):
        n = rng.randrange(1, 6)
        gr = nx.gnp_random_graph(n, 0.5, seed=rng.randrange(10 ** 6))
        adj = [[gr.has_edge(i, j) for j in range(n)] for i in range(n)]
        expect = [[i == j for j in range(n)] + [adj[i][j] for j in range(n)] + [False] for i in range(n)]
        constructed_cases("networkx_graph", lambda gr=gr: StabilizerState(gr), n, expect)
        constructed_cases("int", lambda n=n: StabilizerState(n), n, [[False] * n + [i == j for j in range(n)] + [False] for i in range(n)])
        t = S.tabl(O.ref_random_tableau(n, rng))
        constructed_cases("strings", lambda t=t, n=n: StabilizerState(as_strings(t, n, False)), n, t)
        constructed_cases("strings_explicit_phase", lambda t=t, n=n: StabilizerState(as_strings(t, n, True)), n, t)
        constructed_cases("int_array", lambda t=t: StabilizerState(np.array(t, dtype=int)), n, t)
        constructed_cases("nested_lists_of_ints", lambda t=t: StabilizerState([[int(x) for x in r] for r in t]), n, t)
        constructed_cases("copy", lambda t=t: StabilizerState(S.mk_state(t)), n, t)
        if not any(r[2 * n] for r in t):
            constructed_cases("array_without_phase_column", lambda t=t, n=n: StabilizerState(np.array([r[:2 * n] for r in t], dtype=bool)), n, t)

    # ---- queries after in-place changes: == / to_array(standard_form=True) / contains must describe the CURRENT group, also when the object
    # was put into standard form (or compared) before it was changed ----------------------------------------------------------------------
    stale_bad = []
    for _ in range(200 if thorough else 50):
        n = rng.randrange(1, 5)
        t = S.tabl(O.ref_random_tableau(n, rng))
        s1 = S.mk_state(t)
        pre = rng.choice(["put_in_standard_form", "eq", "to_array_sf", "contains", "none"])
        if pre == "put_in_standard_form":
            s1.put_in_standard_form()
        elif pre == "eq":
            s1 == S.mk_state(t)
        elif pre == "to_array_sf":
            s1.to_array(standard_form=True)
        elif pre == "contains":
            s1.contains(t[0])
        cur = O.ref_zero(n) * False if False else None
        ref = np.array(S.arr_of(s1), dtype=bool)             # same group as t (possibly other generators)
        seq = []
        for _g in range(rng.randrange(1, 4)):
            g = rng.choice(S.G1 + (S.G2 if n > 1 else []))
            pos = (rng.randrange(n),) if g in S.G1 else tuple(rng.sample(range(n), 2))
            getattr(s1, "apply_" + g)(*pos)
            seq.append((g, pos))
            for gg in {"X": [], "Z": [], "Y": [], "H": ["H"], "S": ["S"], "K": None, "CNOT": ["CNOT"], "CZ": None}.get(g) or []:
                ref = O.ref_gate(ref, n, gg, *pos)
            if g in ("X", "Y", "Z", "K", "CZ"):
                ref = None
                break
        ctx.count("stale_query_probes")
        if ref is None:
            # gates the reference simulator does not have: use the implementation's own stored generators as the description of the new group
            expect = S.arr_of(s1)
        else:
            expect = S.tabl(ref)
        fresh = S.mk_state(expect)
        other = S.mk_state(t)
        same_as_before = O.close(O.projector(expect, n), O.projector(t, n)) if n <= 5 else None
        problems = []
        if not (s1 == fresh) or not (fresh == s1):
            problems.append("== with a fresh state of the same group is False")
        if same_as_before is False and (s1 == other):
            problems.append("== with the state before the gates is True although the group changed")
        if S.tabl(s1.to_array(standard_form=True)) != S.tabl(fresh.to_array(standard_form=True)):
            problems.append("to_array(standard_form=True) differs from that of a fresh state of the same group")
        if not all(s1.contains(r) for r in expect):
            problems.append("contains() rejects a current generator")
        ctx.case(("stale", pre, str(t), str(seq)), nontrivial=True)
        if problems:
            stale_bad.append({"op": "stale-query", "n": n, "before": t, "first": pre, "gates": [[g, list(p)] for g, p in seq], "problems": problems})
    ctx.obligation("queries (==, to_array(standard_form=True), contains) describe the current group after in-place gates, whatever was called before",
                   not stale_bad, repr(stale_bad[:1]))

    # ---- value semantics: the model's operations return new values; in the code the results of copy / tensor product / add_qubit / queries must
    # not share storage with their operands (a later gate on one object must not conjugate another)
    alias_bad = []
    from simulaqron.toolbox.stabilizer_states import StabilizerState
    GATES1 = ["apply_X", "apply_Y", "apply_Z", "apply_H", "apply_K", "apply_S"]
    for _ in range(300 if thorough else 60):
        n = rng.randrange(1, 5)
        src = S.mk_state(S.tabl(O.ref_random_tableau(n, rng)))
        other = S.mk_state(S.tabl(O.ref_random_tableau(rng.randrange(1, 3), rng)))
        made = {"copy": StabilizerState(src), "empty*src": StabilizerState() * src, "src*empty": src * StabilizerState(),
                "src*other": src * other, "tensor_product": src.tensor_product(other)}
        src == made["copy"]
        src.contains(S.arr_of(src)[0])
        objs = dict(made, src=src, other=other)
        snap = {k: S.arr_of(v) for k, v in objs.items()}
        victim = rng.choice(sorted(objs))
        o = objs[victim]
        for _g in range(3):
            if o.num_qubits >= 2 and rng.random() < 0.4:
                a, b = rng.sample(range(o.num_qubits), 2)
                getattr(o, rng.choice(["apply_CNOT", "apply_CZ"]))(a, b)
            else:
                getattr(o, rng.choice(GATES1))(rng.randrange(o.num_qubits))
        ctx.count("aliasing_probes")
        ctx.case(("alias", victim, str(snap["src"]), str(snap["other"])), nontrivial=True)
        for k, v in objs.items():
            if k != victim and S.arr_of(v) != snap[k]:
                alias_bad.append({"op": "aliasing", "mutated": victim, "changed_too": k, "n": n, "src": snap["src"], "other": snap["other"]})
    ctx.obligation("copies, tensor products (also with the empty state) and queries share no storage with their operands: gates on one object leave the others unchanged",
                   not alias_bad, repr(alias_bad[:1]))

    for c in cases[:2] + cases[-2:]:
        ctx.sample(c[1])
    failing = S.run_cases(ctx, cases, "stabilizer gates/tensor/gauss/eq/contains")
    ctx.count("oracle_disagreements", len(oracle_bad))
    ctx.obligation("oracle (matrix conjugation / projector equality) agrees with the implementation on every oracle-evaluated case",
                   not oracle_bad, repr(oracle_bad[:1]))

    # ---- verdict -------------------------------------------------------------------------------------------------
    if stale_bad:
        d = stale_bad[0]
        ctx.report("oracle:stale-query", "after %s and the gates %r: %s" % (d["first"], d["gates"], "; ".join(d["problems"])), d, True)
    if alias_bad:
        d = alias_bad[0]
        ctx.report("oracle:aliasing", "gates applied to `%s` also changed `%s`: the objects share their generator matrix" % (d["mutated"], d["changed_too"]), d, True)
    if oracle_bad:
        d = min(oracle_bad, key=lambda x: (x.get("n", x.get("n1", 0)), len(str(x))))
        ctx.report("oracle:%s" % d["op"], "implementation result of %s is not the conjugated/represented group" % d["op"], d, True)
    elif ctx.broken():
        # tie broken but the oracle found nothing on what was explored: judge the failing correspondence cases directly
        for d in failing:
            if d.get("raw"):
                continue
            # (all non-raw cases above were already judged when small enough)
        ctx.report("broken:" + ";".join(ctx.broken()), "proof obligation / correspondence no longer checks: " + "; ".join(ctx.broken()),
                   {"broken": ctx.broken(), "first_disagreement": failing[:1]}, found_input=False)
