(* Measurement: the facts that need `contains` to decide membership (EqProof.v) and maximality of the stabilizer
   group (Isotropic.v): outcome of the deterministic branch, +-Z_p in the group, repeatability, and the destructive
   deterministic branch at group level.  Original qubit order throughout. *)
From Coq Require Import List Bool Arith Lia.
From SQ Require Import Base.ListUtil Stab.Pauli Stab.Kernels Stab.Gates Stab.Tableau Stab.Group Stab.GroupGates
  Stab.MulProof Stab.GaussProof Stab.MeasureProof Stab.TensorProof Stab.PermProof Stab.MeasureOrig
  Stab.F2 Stab.Rref Stab.GaussRref Stab.GaussIndep Stab.Bridge Stab.DestructiveProof Stab.EqProof Stab.Isotropic.
Import ListNotations.

Definition zel (s : ph) (n p : nat) : pstr := (s, zp n p).      (* i^s Z_p *)

(* ---------- which branch ------------------------------------------------------------------------------------ *)
Lemma random_branch_false_of_commute n p t : p < n -> wf_tab n t -> commuting n t ->
  (forall h, gen n t h -> anti_l (snd h) (zp n p) = false) -> random_branch n p t = false.
Proof.
  intros Hp Hw Hc Hall. destruct (random_branch n p t) eqn:Hr; auto. exfalso.
  assert (Hn : 1 <= n) by lia.
  assert (Wf : wf_tab n (framed n p t)) by (apply perm_wf; auto).
  assert (Cf : commuting n (framed n p t)) by (apply perm_commuting; auto).
  destruct (meas_random_framed n p false t Hn Wf Cf Hr) as (_ & Gt & R0 & _ & _).
  set (tmp := eliminated n p t) in *.
  assert (Hin : In (nth 0 tmp []) tmp).
  { apply nth_In. destruct tmp; [unfold get in R0; simpl in R0; discriminate|simpl; lia]. }
  assert (G0 : gen n (framed n p t) (decode_ph n (nth 0 tmp []))) by (apply Gt; apply gen_row; auto).
  apply (perm_group n p t Hp Hw) in G0. destruct G0 as (h & Gh & E).
  pose proof (anti_row_z0 n (nth 0 tmp []) Hn) as A. rewrite E, anti_frame_z in A by (auto; eapply gen_length; eauto).
  rewrite Hall in A by auto. congruence.
Qed.

Lemma measure_determined_outcome n p ip coin t : random_branch n p t = false ->
  fst (fst (measure n p ip coin t)) = negb (contains n (eliminated n p t) (z_first n)).
Proof. unfold random_branch, measure, eliminated. intros ->. destruct ip; reflexivity. Qed.

Lemma eliminated_valid n p t : p < n -> valid n t -> valid n (eliminated n p t).
Proof.
  intros Hp (W & C & I). unfold eliminated.
  assert (Wf : wf_tab n (framed n p t)) by (apply perm_wf; auto).
  assert (Cf : commuting n (framed n p t)) by (apply perm_commuting; auto).
  repeat split; [apply gauss_wf | apply gauss_commuting | apply gauss_independent]; auto.
  apply perm_independent; auto.
Qed.

Lemma gen_eliminated n p t : p < n -> wf_tab n t -> commuting n t ->
  forall h, gen n (eliminated n p t) h <-> exists h0, gen n t h0 /\ h = pframe p h0.
Proof.
  intros Hp W C h. rewrite <- (perm_group n p t Hp W). unfold eliminated. apply gauss_group.
  apply perm_commuting; auto.
Qed.

Lemma gen_z_frame n p t s : p < n -> wf_tab n t -> commuting n t ->
  (gen n (eliminated n p t) (s, z0 n) <-> gen n t (zel s n p)).
Proof.
  intros Hp W C. rewrite gen_eliminated by auto. unfold zel. split.
  - intros (h & Gh & E). replace (s, zp n p) with h; auto.
    rewrite <- (punframe_pframe p h) by (rewrite (gen_length _ _ _ Gh); auto). rewrite <- E. apply punframe_z; auto.
  - intro G. exists (s, zp n p). split; auto. unfold pframe; cbn [fst snd]. rewrite move_front_zp; auto.
Qed.

(* ---------- deterministic branch: the outcome -------------------------------------------------------------- *)
Theorem meas_determined_outcome n p ip coin t : p < n -> valid n t -> random_branch n p t = false ->
  (fst (fst (measure n p ip coin t)) = false <-> gen n t (zel P0 n p)).
Proof.
  intros Hp V Hr. assert (Hn : 1 <= n) by lia. destruct V as (W & C & I). assert (V : valid n t) by (repeat split; auto).
  rewrite measure_determined_outcome by auto.
  rewrite <- gen_z_frame by auto.
  change (P0, z0 n) with (ph_of_sign false, z0 n). rewrite <- (decode_zrow' n false Hn).
  change (zrow n false) with (z_first n).
  rewrite <- (contains_iff_in_group n _ (z_first n) (eliminated_valid n p t Hp V) (zrow_wf n false)).
  destruct (contains n (eliminated n p t) (z_first n)); simpl; split; intro; auto; discriminate.
Qed.

(* +-Z_p is in the group of a full stabilizer state in the deterministic branch (maximality) *)
Theorem meas_determined_pm n p t : p < n -> valid n t -> length t = n -> random_branch n p t = false ->
  gen n t (zel P0 n p) \/ gen n t (zel P2 n p).
Proof.
  intros Hp (W & C & I) L Hr. assert (Hn : 1 <= n) by lia.
  destruct (meas_determined n p false t Hp W C Hr) as (_ & _ & _ & _ & _ & _ & Hall).
  set (v := unperm_row n p (z_first n)).
  assert (Dv : decode_ph n v = (P0, zp n p)).
  { unfold v. rewrite unperm_row_decode_ph by auto. change (z_first n) with (zrow n false).
    rewrite decode_zrow' by auto. apply punframe_z; auto. }
  assert (S : inspan (2 * n) t (get v)).
  { apply isotropic_maximal; auto.
    - apply independent_lindep; auto.
    - intros a Ha. rewrite symp_decode.
      change (snd (decode n a)) with (snd (decode_ph n a)). change (snd (decode n v)) with (snd (decode_ph n v)).
      rewrite Dv. cbn [snd]. apply Hall. apply gen_row; auto. }
  destruct (inspan_gen n t _ S) as (g & G & E).
  assert (Sg : snd g = zp n p).
  { apply (pbit_ext n); [eapply gen_length; eauto | apply zp_length |]. intros j Hj. rewrite E by auto.
    replace (zp n p) with (snd (decode n v)) by (change (snd (decode n v)) with (snd (decode_ph n v)); rewrite Dv; reflexivity).
    rewrite pbit_decode; auto. }
  pose proof (gen_real n t C g G) as Rg. unfold zel.
  destruct g as [k l]. cbn [fst snd] in *. subst l. destruct k; try discriminate; auto.
Qed.

Theorem meas_determined_outcome_true n p ip coin t : p < n -> valid n t -> length t = n -> random_branch n p t = false ->
  (fst (fst (measure n p ip coin t)) = true <-> gen n t (zel P2 n p)).
Proof.
  intros Hp V L Hr. pose proof (meas_determined_outcome n p ip coin t Hp V Hr) as O.
  pose proof (meas_determined_pm n p t Hp V L Hr) as PM. destruct V as (W & C & I).
  split.
  - intro H. destruct PM as [G|G]; auto. apply O in G. congruence.
  - intro G2. destruct (fst (fst (measure n p ip coin t))) eqn:E; auto. exfalso.
    assert (G0 : gen n t (zel P0 n p)) by (apply O; auto).
    pose proof (gen_sign_unique n t C I _ _ G0 G2 eq_refl) as X. discriminate X.
Qed.

(* ---------- repeatability ---------------------------------------------------------------------------------- *)
Lemma meas_inplace_valid n p coin t : p < n -> valid n t -> valid n (snd (measure n p true coin t)).
Proof.
  intros Hp (W & C & I). destruct (random_branch n p t) eqn:Hr.
  - destruct (meas_random_destructive n p coin t Hp W C Hr) as (res & resd & E1 & _ & _ & _ & _ & _ & Hi).
    destruct (meas_random n p coin t Hp W C Hr) as (res' & E1' & W' & C' & _).
    rewrite E1 in *. injection E1' as <-. cbn [snd]. repeat split; auto. apply Hi; auto.
  - destruct (meas_determined n p coin t Hp W C Hr) as (res & E & W' & C' & _).
    assert (Hn : 1 <= n) by lia.
    rewrite (measure_determined_inplace n p coin t Hr) in *. injection E as <-. cbn [snd]. repeat split; auto.
    apply unperm_independent; auto; [apply eliminated_valid; repeat split; auto|].
    apply eliminated_valid; repeat split; auto.
Qed.

Theorem meas_repeat n p c1 c2 t : p < n -> valid n t ->
  let m1 := measure n p true c1 t in
  let m2 := measure n p true c2 (snd m1) in
  fst (fst m2) = fst (fst m1) /\ snd (fst m2) = n /\ same_group n (snd m2) (snd m1) /\
  random_branch n p (snd m1) = false.
Proof.
  intros Hp V m1 m2. pose proof (meas_inplace_valid n p c1 t Hp V) as V1. fold m1 in V1.
  destruct V as (W & C & I). destruct V1 as (W1 & C1 & I1). assert (V1 : valid n (snd m1)) by (repeat split; auto).
  (* after the first measurement everything commutes with Z_p, and the outcome b1 satisfies (-1)^b1 Z_p in the group *)
  assert (K : (forall h, gen n (snd m1) h -> anti_l (snd h) (zp n p) = false) /\
              (fst (fst m1) = false <-> gen n (snd m1) (zel P0 n p))).
  { destruct (random_branch n p t) eqn:Hr.
    - destruct (meas_random n p c1 t Hp W C Hr) as (res & E & _ & _ & _ & Gr). unfold m1 in *. rewrite E in *. cbn [fst snd] in *.
      assert (GZ : gen n res (zel (ph_of_sign c1) n p)).
      { apply Gr. exists (pone n). split; [apply gen_one|]. split; [apply anti_l_repeat_PI_l|]. right.
        unfold zel. symmetry. apply pmul_one_r. apply zp_length. }
      split.
      + intros h Gh. apply (gen_commute n res C1 h _ Gh GZ).
      + split.
        * intros ->. exact GZ.
        * intro G0. destruct c1; auto. exfalso.
          pose proof (gen_sign_unique n res C1 I1 _ _ G0 GZ eq_refl) as X. discriminate X.
    - destruct (meas_determined n p c1 t Hp W C Hr) as (res & E & _ & _ & _ & SG & Hall).
      pose proof (meas_determined_outcome n p true c1 t Hp (conj W (conj C I)) Hr) as O.
      unfold m1 in *. rewrite E in *. cbn [fst snd] in *. split.
      + intros h Gh. apply Hall. apply SG; auto.
      + rewrite O. split; apply SG. }
  destruct K as [Hall Hb].
  assert (Hr2 : random_branch n p (snd m1) = false) by (apply random_branch_false_of_commute; auto).
  destruct (meas_determined n p c2 (snd m1) Hp W1 C1 Hr2) as (res2 & E2 & _ & _ & _ & SG2 & _).
  pose proof (meas_determined_outcome n p true c2 (snd m1) Hp V1 Hr2) as O2. fold m2 in O2, E2.
  repeat split; auto.
  - destruct (fst (fst m2)), (fst (fst m1)); auto.
    + apply O2, Hb. reflexivity.
    + symmetry. apply Hb, O2. reflexivity.
  - rewrite E2. reflexivity.
  - rewrite E2. cbn [snd]. apply SG2.
  - rewrite E2. cbn [snd]. apply SG2.
Qed.
