(* Model G: general lemmas — graphs given by a neighbour function on 0..n-1, relabelling, edge addition. *)
From Coq Require Import List Bool Arith Lia.
From SQ Require Import Graph.Model.
Import ListNotations.

(* ---------------------------------------------------------------------------------------------- *)
(* small list facts                                                                                  *)
(* ---------------------------------------------------------------------------------------------- *)
Lemma nodup_app2 {A} (l1 l2 : list A) :
  NoDup l1 -> NoDup l2 -> (forall x, In x l1 -> ~ In x l2) -> NoDup (l1 ++ l2).
Proof.
  induction l1 as [|a l1 IH]; simpl; intros H1 H2 H3; auto.
  inversion H1 as [|? ? Hn Hd]; subst. constructor.
  - intro Hin. apply in_app_or in Hin. destruct Hin as [Hin|Hin]; auto. apply (H3 a); auto.
  - apply IH; auto.
Qed.

Lemma NoDup_map_inj_on {A B} (f : A -> B) (l : list A) :
  NoDup l -> (forall x y, In x l -> In y l -> f x = f y -> x = y) -> NoDup (map f l).
Proof.
  induction l as [|a l IH]; simpl; intros H Hinj; [constructor|].
  inversion H as [|? ? Hn Hd]; subst. constructor.
  - intro Hin. apply in_map_iff in Hin. destruct Hin as (y & Hy & Hyl).
    assert (y = a) by (apply Hinj; auto). subst; auto.
  - apply IH; auto.
Qed.

Lemma sum_const {A} (f : A -> nat) (c : nat) (l : list A) :
  (forall i, In i l -> f i = c) -> list_sum (map f l) = c * length l.
Proof.
  induction l as [|a l IH]; simpl; intros H; [lia|].
  rewrite H, IH; auto. lia.
Qed.

Lemma map_nth_seq_firstn {A} (d : A) (l : list A) : forall i,
  i <= length l -> map (fun j => nth j l d) (seq 0 i) = firstn i l.
Proof.
  induction l as [|h t IH]; intros i Hi; simpl in Hi.
  - assert (i = 0) by lia. subst; reflexivity.
  - destruct i as [|i]; [reflexivity|].
    simpl. f_equal. rewrite <- seq_shift, map_map. simpl. apply IH. lia.
Qed.

Lemma map_nth_seq_skipn {A} (d : A) (l : list A) : forall a,
  map (fun j => nth j l d) (seq a (length l - a)) = skipn a l.
Proof.
  induction l as [|h t IH]; intros a.
  - simpl. destruct a; reflexivity.
  - destruct a as [|a].
    + simpl. f_equal. rewrite <- seq_shift, map_map. simpl.
      specialize (IH 0). rewrite Nat.sub_0_r in IH. simpl in IH. exact IH.
    + simpl length. replace (S (length t) - S a) with (length t - a) by lia.
      rewrite <- seq_shift, map_map. simpl. apply IH.
Qed.

Lemma map_nth_seq_all {A} (d : A) (l : list A) : map (fun j => nth j l d) (seq 0 (length l)) = l.
Proof. rewrite map_nth_seq_firstn; auto. apply firstn_all. Qed.

(* ---------------------------------------------------------------------------------------------- *)
(* reachability                                                                                      *)
(* ---------------------------------------------------------------------------------------------- *)
Lemma reach_trans g a b c : reach g a b -> reach g b c -> reach g a c.
Proof.
  intros H1 H2. induction H2 as [|x y z H2 IH Hadj]; auto.
  eapply reach_step; [apply IH; exact H1|exact Hadj].
Qed.

Lemma reach_sym g a b : symmetric g -> reach g a b -> reach g b a.
Proof.
  intros Hs H. induction H as [|a b c H IH Hadj]; [constructor|].
  eapply reach_trans; [|exact IH]. eapply reach_step; [apply reach_refl|]. apply Hs; auto.
Qed.

Lemma reach_mono g g' a b : (forall x y, adj g x y -> adj g' x y) -> reach g a b -> reach g' a b.
Proof.
  intros Hm H. induction H as [|x y z H IH Hadj]; [constructor|].
  eapply reach_step; [exact IH|apply Hm; exact Hadj].
Qed.

(* ---------------------------------------------------------------------------------------------- *)
(* graphs on 0..n-1 given by a neighbour function                                                     *)
(* ---------------------------------------------------------------------------------------------- *)
Definition idx_graph (n : nat) (nb : nat -> list nat) : graph := map (fun i => (i, nb i)) (seq 0 n).

Lemma In_idx n nb a l : In (a, l) (idx_graph n nb) <-> a < n /\ l = nb a.
Proof.
  unfold idx_graph. rewrite in_map_iff. split.
  - intros (i & Heq & Hi). inversion Heq; subst. apply in_seq in Hi. split; [lia|auto].
  - intros [Ha ->]. exists a. split; auto. apply in_seq; lia.
Qed.

Lemma adj_idx n nb a b : adj (idx_graph n nb) a b <-> a < n /\ In b (nb a).
Proof.
  unfold adj. split.
  - intros (l & Hl & Hb). apply In_idx in Hl. destruct Hl as [Ha ->]; auto.
  - intros [Ha Hb]. exists (nb a). split; auto. apply In_idx; auto.
Qed.

Lemma keys_idx n nb : map fst (idx_graph n nb) = seq 0 n.
Proof. unfold idx_graph. rewrite map_map. simpl. apply map_id. Qed.

Lemma degsum_idx n nb : degsum (idx_graph n nb) = list_sum (map (fun i => length (nb i)) (seq 0 n)).
Proof. unfold degsum, idx_graph. rewrite map_map. reflexivity. Qed.

Lemma idx_good n nb k :
  (forall a, a < n -> forall b, In b (nb a) -> b < n /\ b <> a /\ In a (nb b)) ->
  (forall a, a < n -> NoDup (nb a)) ->
  (forall i, 0 < i < n -> In (i - 1) (nb i)) ->
  list_sum (map (fun i => length (nb i)) (seq 0 n)) = 2 * k ->
  good (seq 0 n) (idx_graph n nb) k.
Proof.
  intros Hnb Hnd Hprev Hsum.
  assert (Hsym : symmetric (idx_graph n nb)).
  { intros a b Hab. apply adj_idx in Hab. destruct Hab as [Ha Hb].
    destruct (Hnb a Ha b Hb) as (Hbn & _ & Hba). apply adj_idx; auto. }
  repeat split.
  - rewrite keys_idx; auto.
  - rewrite keys_idx; auto.
  - unfold idx_graph. rewrite map_length; auto.
  - intros a b Hab. apply adj_idx in Hab. destruct Hab as [Ha Hb].
    destruct (Hnb a Ha b Hb) as (Hbn & _). apply in_seq; lia.
  - exact Hsym.
  - rewrite keys_idx. apply seq_NoDup.
  - apply In_idx in H. destruct H as [Ha ->]. auto.
  - apply In_idx in H. destruct H as [Ha ->]. intro Hin. destruct (Hnb a Ha a Hin) as (_ & Hne & _). auto.
  - intros a b Ha Hb. rewrite keys_idx in Ha, Hb. apply in_seq in Ha. apply in_seq in Hb.
    assert (H0 : forall i, i < n -> reach (idx_graph n nb) i 0).
    { induction i as [|i IH]; intros Hi; [constructor|].
      eapply reach_trans; [|apply IH; lia].
      eapply reach_step; [apply reach_refl|]. apply adj_idx. split; auto.
      pose proof (Hprev (S i)) as Hp. simpl in Hp. rewrite Nat.sub_0_r in Hp. apply Hp. lia. }
    eapply reach_trans; [apply H0; lia|]. apply reach_sym; auto. apply H0; lia.
  - rewrite degsum_idx. exact Hsum.
Qed.

(* ---------------------------------------------------------------------------------------------- *)
(* relabelling by an injective naming                                                                 *)
(* ---------------------------------------------------------------------------------------------- *)
Lemma In_relabel f g a' l' :
  In (a', l') (relabel f g) <-> exists a l, In (a, l) g /\ a' = f a /\ l' = map f l.
Proof.
  unfold relabel. rewrite in_map_iff. split.
  - intros ([a l] & Heq & Hin). simpl in Heq. inversion Heq; subst. eauto.
  - intros (a & l & Hin & -> & ->). exists (a, l). auto.
Qed.

Lemma adj_relabel f g a' b' :
  adj (relabel f g) a' b' <-> exists a b, adj g a b /\ a' = f a /\ b' = f b.
Proof.
  unfold adj. split.
  - intros (l' & Hl & Hb). apply In_relabel in Hl. destruct Hl as (a & l & Hin & -> & ->).
    apply in_map_iff in Hb. destruct Hb as (b & <- & Hb). exists a, b. eauto.
  - intros (a & b & (l & Hl & Hb) & -> & ->). exists (map f l). split.
    + apply In_relabel. eauto.
    + apply in_map; auto.
Qed.

Lemma keys_relabel f g : map fst (relabel f g) = map f (map fst g).
Proof. unfold relabel. rewrite !map_map. reflexivity. Qed.

Lemma degsum_relabel f g : degsum (relabel f g) = degsum g.
Proof.
  unfold degsum, relabel. rewrite map_map. f_equal. apply map_ext. intros [a l]. simpl. apply map_length.
Qed.

Lemma relabel_good n f g k nodes :
  good (seq 0 n) g k ->
  (forall a b, a < n -> b < n -> f a = f b -> a = b) ->
  map f (seq 0 n) = nodes ->
  good nodes (relabel f g) k.
Proof.
  intros ((Hk & Hlen & Hnbr) & Hsym & (Hnk & Hsimple) & Hconn & Hdeg) Hinj Hnodes.
  assert (Hkey : forall a, In a (map fst g) -> a < n) by (intros a Ha; apply Hk in Ha; apply in_seq in Ha; lia).
  assert (Hadjn : forall a b, adj g a b -> b < n) by (intros a b Hab; apply Hnbr in Hab; apply in_seq in Hab; lia).
  assert (Hreach : forall a b, reach g a b -> reach (relabel f g) (f a) (f b)).
  { intros a b H. induction H as [|x y z H IH Hadj]; [constructor|].
    eapply reach_step; [exact IH|]. apply adj_relabel. eauto. }
  repeat split.
  - rewrite keys_relabel. intros Ha. apply in_map_iff in Ha. destruct Ha as (x & <- & Hx).
    rewrite <- Hnodes. apply in_map. apply Hk; auto.
  - rewrite keys_relabel. intros Ha. rewrite <- Hnodes in Ha. apply in_map_iff in Ha. destruct Ha as (x & <- & Hx).
    apply in_map. apply Hk; auto.
  - unfold relabel. rewrite map_length, Hlen. rewrite <- Hnodes. rewrite map_length; auto.
  - intros a' b' Hab. apply adj_relabel in Hab. destruct Hab as (a & b & Hab & -> & ->).
    rewrite <- Hnodes. apply in_map. apply Hnbr in Hab; auto.
  - intros a' b' Hab. apply adj_relabel in Hab. destruct Hab as (a & b & Hab & -> & ->).
    apply adj_relabel. exists b, a. auto.
  - rewrite keys_relabel. apply NoDup_map_inj_on; auto.
  - apply In_relabel in H. destruct H as (a0 & l0 & Hin & -> & ->).
    apply NoDup_map_inj_on; [apply (Hsimple a0 l0 Hin)|].
    intros x y Hx Hy. apply Hinj; apply (Hadjn a0); exists l0; auto.
  - apply In_relabel in H. destruct H as (a0 & l0 & Hin & -> & ->).
    intro Hc. apply in_map_iff in Hc. destruct Hc as (b & Hfb & Hb).
    assert (b = a0).
    { apply Hinj; auto; [apply (Hadjn a0); exists l0; auto|apply Hkey; apply (in_map fst) in Hin; auto]. }
    subst b. apply (Hsimple a0 l0 Hin); auto.
  - intros a' b' Ha Hb. rewrite keys_relabel in Ha, Hb.
    apply in_map_iff in Ha. destruct Ha as (a & <- & Ha). apply in_map_iff in Hb. destruct Hb as (b & <- & Hb).
    apply Hreach. apply Hconn; auto.
  - rewrite degsum_relabel; auto.
Qed.

Lemma naming_inj nodes : NoDup nodes ->
  forall a b, a < length nodes -> b < length nodes -> naming nodes a = naming nodes b -> a = b.
Proof. intros H a b Ha Hb Heq. unfold naming in Heq. eapply (proj1 (NoDup_nth nodes 0)); eauto. Qed.

Lemma naming_all nodes : map (naming nodes) (seq 0 (length nodes)) = nodes.
Proof. unfold naming. apply map_nth_seq_all. Qed.

Lemma relabel_naming_good nodes g k :
  NoDup nodes -> good (seq 0 (length nodes)) g k -> good nodes (relabel (naming nodes) g) k.
Proof.
  intros Hnd Hg. eapply relabel_good; eauto.
  - apply naming_inj; auto.
  - apply naming_all.
Qed.

(* ---------------------------------------------------------------------------------------------- *)
(* adding a non-edge                                                                                  *)
(* ---------------------------------------------------------------------------------------------- *)
Lemma keys_add_edge g u v : map fst (add_edge g u v) = map fst g.
Proof.
  unfold add_edge. rewrite map_map. apply map_ext. intros [a l]; simpl.
  destruct (a =? u); simpl; auto. destruct (a =? v); auto.
Qed.

Lemma In_add_edge g u v a l' :
  In (a, l') (add_edge g u v) <->
  exists l, In (a, l) g /\ l' = (if a =? u then l ++ [v] else if a =? v then l ++ [u] else l).
Proof.
  unfold add_edge. rewrite in_map_iff. split.
  - intros ([a0 l0] & Heq & Hin). simpl in Heq. exists l0.
    destruct (a0 =? u) eqn:E1; [|destruct (a0 =? v) eqn:E2]; inversion Heq; subst; rewrite ?E1, ?E2; auto.
  - intros (l & Hin & ->). exists (a, l). split; auto. simpl.
    destruct (a =? u); auto. destruct (a =? v); auto.
Qed.

Lemma adj_add_edge_inv g u v a b :
  adj (add_edge g u v) a b -> adj g a b \/ (a = u /\ b = v) \/ (a = v /\ b = u).
Proof.
  intros (l' & Hl & Hb). apply In_add_edge in Hl. destruct Hl as (l & Hin & ->).
  destruct (Nat.eqb_spec a u) as [->|Hu].
  - apply in_app_or in Hb. destruct Hb as [Hb|[<-|[]]]; [left; exists l; auto|auto].
  - destruct (Nat.eqb_spec a v) as [->|Hv].
    + apply in_app_or in Hb. destruct Hb as [Hb|[<-|[]]]; [left; exists l; auto|auto].
    + left; exists l; auto.
Qed.

Lemma adj_add_edge_old g u v a b : adj g a b -> adj (add_edge g u v) a b.
Proof.
  intros (l & Hin & Hb). eexists. split; [apply In_add_edge; exists l; split; [exact Hin|reflexivity]|].
  destruct (a =? u); [apply in_or_app; auto|]. destruct (a =? v); [apply in_or_app; auto|auto].
Qed.

Lemma adj_add_edge_new1 g u v : In u (map fst g) -> adj (add_edge g u v) u v.
Proof.
  intros Hu. apply in_map_iff in Hu. destruct Hu as ([a l] & Ha & Hin). simpl in Ha. subst a.
  eexists. split; [apply In_add_edge; exists l; split; [exact Hin|reflexivity]|].
  rewrite Nat.eqb_refl. apply in_or_app; simpl; auto.
Qed.

Lemma adj_add_edge_new2 g u v : In v (map fst g) -> adj (add_edge g u v) v u.
Proof.
  intros Hv. apply in_map_iff in Hv. destruct Hv as ([a l] & Ha & Hin). simpl in Ha. subst a.
  eexists. split; [apply In_add_edge; exists l; split; [exact Hin|reflexivity]|].
  destruct (Nat.eqb_spec v u) as [->|Hne]; [apply in_or_app; simpl; auto|].
  rewrite Nat.eqb_refl. apply in_or_app; simpl; auto.
Qed.

Lemma degsum_add_edge g u v : u <> v ->
  degsum (add_edge g u v) = degsum g + count_occ Nat.eq_dec (map fst g) u + count_occ Nat.eq_dec (map fst g) v.
Proof.
  intros Hne. unfold degsum, add_edge. induction g as [|[a l] g IH]; simpl; auto.
  rewrite IH. destruct (Nat.eqb_spec a u) as [->|Hu]; simpl.
  - rewrite app_length; simpl. destruct (Nat.eq_dec u u); [|contradiction]. destruct (Nat.eq_dec u v); [contradiction|]. lia.
  - destruct (Nat.eqb_spec a v) as [->|Hv]; simpl.
    + rewrite app_length; simpl. destruct (Nat.eq_dec v u); [congruence|]. destruct (Nat.eq_dec v v); [|contradiction]. lia.
    + destruct (Nat.eq_dec a u); [contradiction|]. destruct (Nat.eq_dec a v); [contradiction|]. lia.
Qed.

Lemma add_edge_good nodes g k u v :
  good nodes g k -> u <> v -> In u (map fst g) -> In v (map fst g) -> ~ adj g u v -> ~ adj g v u ->
  good nodes (add_edge g u v) (S k).
Proof.
  intros ((Hk & Hlen & Hnbr) & Hsym & (Hnk & Hsimple) & Hconn & Hdeg) Hne Hu Hv Hnuv Hnvu.
  repeat split.
  - rewrite keys_add_edge. apply Hk.
  - rewrite keys_add_edge. apply Hk.
  - unfold add_edge. rewrite map_length; auto.
  - intros a b Hab. apply adj_add_edge_inv in Hab. destruct Hab as [Hab|[[-> ->]|[-> ->]]]; eauto; apply Hk; auto.
  - intros a b Hab. apply adj_add_edge_inv in Hab. destruct Hab as [Hab|[[-> ->]|[-> ->]]].
    + apply adj_add_edge_old; auto.
    + apply adj_add_edge_new2; auto.
    + apply adj_add_edge_new1; auto.
  - rewrite keys_add_edge; auto.
  - apply In_add_edge in H. destruct H as (l0 & Hin & ->). destruct (Hsimple a l0 Hin) as [Hnd Hna].
    destruct (Nat.eqb_spec a u) as [->|Hau].
    + apply nodup_app2; auto; [constructor; [intros []|constructor]|].
      intros x Hx [<-|[]]. apply Hnuv. exists l0; auto.
    + destruct (Nat.eqb_spec a v) as [->|Hav]; auto.
      apply nodup_app2; auto; [constructor; [intros []|constructor]|].
      intros x Hx [<-|[]]. apply Hnvu. exists l0; auto.
  - apply In_add_edge in H. destruct H as (l0 & Hin & ->). destruct (Hsimple a l0 Hin) as [Hnd Hna].
    destruct (Nat.eqb_spec a u) as [->|Hau].
    + intro Hc. apply in_app_or in Hc. destruct Hc as [Hc|[Hc|[]]]; auto.
    + destruct (Nat.eqb_spec a v) as [->|Hav]; auto.
      intro Hc. apply in_app_or in Hc. destruct Hc as [Hc|[Hc|[]]]; auto.
  - intros a b Ha Hb. rewrite keys_add_edge in Ha, Hb.
    eapply reach_mono; [|apply Hconn; auto]. intros; apply adj_add_edge_old; auto.
  - rewrite degsum_add_edge; auto.
    rewrite (proj1 (NoDup_count_occ' Nat.eq_dec (map fst g)) Hnk u Hu).
    rewrite (proj1 (NoDup_count_occ' Nat.eq_dec (map fst g)) Hnk v Hv). lia.
Qed.

Lemma add_edges_good nodes cs : forall g k,
  good nodes g k -> valid_choices g cs -> good nodes (add_edges g cs) (k + length cs).
Proof.
  induction cs as [|[u v] cs IH]; simpl; intros g k Hg Hv.
  - rewrite Nat.add_0_r; auto.
  - destruct Hv as (Hne & Hu & Hv & Hn1 & Hn2 & Hrest).
    replace (k + S (length cs)) with (S k + length cs) by lia.
    apply IH; auto. apply add_edge_good; auto.
Qed.
