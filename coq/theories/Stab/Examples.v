(* Non-vacuity: the hypotheses of the group-level theorems are satisfied by reachable, non-trivial states. *)
From Coq Require Import List Bool Arith Lia.
From SQ Require Import Base.ListUtil Stab.Pauli Stab.Kernels Stab.Gates Stab.Tableau Stab.Group Stab.GroupGates
  Stab.MulProof Stab.GaussProof Stab.MeasureProof Stab.Engine Stab.EngineProof
  Stab.TensorProof Stab.PermProof Stab.MeasureOrig Stab.F2 Stab.Bridge Stab.DestructiveProof Stab.EqProof Stab.MeasureFull Stab.DestructiveDet.
Import ListNotations.

Lemma all_commute_commuting n t : all_commute n t = true -> commuting n t.
Proof.
  unfold all_commute. intros H a b Ha Hb. rewrite forallb_forall in H. specialize (H a Ha).
  rewrite forallb_forall in H. specialize (H b Hb). apply negb_true_iff in H. exact H.
Qed.

Lemma wf_tab_dec n t : forallb (fun r => Nat.eqb (length r) (2 * n + 1)) t = true -> wf_tab n t.
Proof.
  intro H. unfold wf_tab. rewrite Forall_forall. intros r Hr. rewrite forallb_forall in H.
  apply Nat.eqb_eq. apply H; auto.
Qed.

(* Bell pair: XX, ZZ — reached from |00> by H(0), CNOT(0,1) *)
Definition bell : tab := [[true; true; false; false; false]; [false; false; true; true; false]].
(* the same state given by other generators: XX, -YY *)
Definition bell' : tab := [[true; true; false; false; false]; [true; true; true; true; true]].

Example bell_reached : tab_gate2 GCNOT 2 0 1 (tab_gate1 GH 2 0 (zero_state 2)) = bell.
Proof. vm_compute; reflexivity. Qed.

Example bell_valid : wf_tab 2 bell /\ commuting 2 bell /\ independent 2 bell.
Proof.
  split; [apply wf_tab_dec; reflexivity|]. split; [apply all_commute_commuting; reflexivity|].
  intros sel HL E. destruct sel as [|a [|b [|c sel]]]; simpl in HL; try discriminate.
  destruct a, b; vm_compute in E; try discriminate; reflexivity.
Qed.

Example bell_rows_commute : symp 2 (nth 0 bell []) (nth 1 bell []) = false.
Proof. reflexivity. Qed.

Example bell_eq_other_generators : teq 2 bell 2 bell' = true /\ bell <> bell' /\ commuting 2 bell'.
Proof. split; [reflexivity|]. split; [discriminate|]. apply all_commute_commuting; reflexivity. Qed.

(* measurement: qubit 1 of the Bell pair is in the random branch; qubit 1 of |0>|+> ... of |00> in the deterministic one *)
Example bell_random_branch :
  1 <= 2 /\ wf_tab 2 (framed 2 1 bell) /\ commuting 2 (framed 2 1 bell) /\ random_branch 2 1 bell = true.
Proof.
  split; [lia|]. split; [apply wf_tab_dec; reflexivity|]. split; [apply all_commute_commuting; reflexivity|]. reflexivity.
Qed.

Example zero_determined_branch :
  commuting 2 (framed 2 1 (zero_state 2)) /\ random_branch 2 1 (zero_state 2) = false.
Proof. split; [apply all_commute_commuting; reflexivity|reflexivity]. Qed.

Example bell_measured_both_outcomes :
  fst (fst (measure 2 1 true false bell)) = false /\ fst (fst (measure 2 1 true true bell)) = true /\
  snd (measure 2 1 true true bell) = [[false; false; false; true; true]; [false; false; true; false; true]].
Proof. repeat split; vm_compute; reflexivity. Qed.

(* engine: a reachable register holding an entangled asymmetric state is exportable *)
Definition eng_example : engine :=
  run (new_engine 4) [KAddFresh; KAddFresh; KAddFresh; KGate1 EH 0; KGate2 ECNOT 0 1; KGate1 EK 2; KGate2 ECPHASE 1 2].

Example eng_example_valid : valid_engine eng_example /\ e_n eng_example = 3.
Proof.
  split; [|reflexivity]. unfold valid_engine. split; [reflexivity|]. split.
  - apply wf_tab_dec. vm_compute. reflexivity.
  - vm_compute. reflexivity.
Qed.

Example eng_limit_reached :
  snd (step eng_example (KAbsorb eng_example)) = RErr EQuantum /\
  snd (step (fst (step eng_example KAddFresh)) KAddFresh) = RErr ENoQubit /\
  snd (step (new_engine 6) (KAbsorb eng_example)) = RUnit.
Proof. repeat split; vm_compute; reflexivity. Qed.

(* ---------- tensor / add_qubit / __eq__ / _contains: hypotheses satisfiable on reachable states ------------ *)
Example bell_tensor_zero :
  wf_tab 2 bell /\ wf_tab 1 (zero_state 1) /\ (2 = 0 -> bell = []) /\ (1 = 0 -> zero_state 1 = []) /\
  map (decode 3) (tensor 2 bell 1 (zero_state 1)) = [(false, [PX; PX; PI]); (false, [PZ; PZ; PI]); (false, [PI; PI; PZ])] /\
  add_qubit 2 bell = tensor 2 bell 1 (zero_state 1) /\ valid 3 (add_qubit 2 bell).
Proof.
  split; [apply wf_tab_dec; reflexivity|]. split; [apply wf_tab_dec; reflexivity|].
  split; [discriminate|]. split; [discriminate|]. split; [reflexivity|]. split; [reflexivity|].
  apply validb_sound. vm_compute. reflexivity.
Qed.

Example bell_valid_both : valid 2 bell /\ valid 2 bell' /\ teq 2 bell 2 bell' = true /\ bell <> bell'.
Proof. split; [apply validb_sound; reflexivity|]. split; [apply validb_sound; reflexivity|]. split; [reflexivity|discriminate]. Qed.

(* -YY is in the Bell group, +YY is not *)
Example bell_contains :
  wf_row 2 [true; true; true; true; true] /\ contains 2 bell [true; true; true; true; true] = true /\
  decode_ph 2 [true; true; true; true; true] = (P2, [PY; PY]) /\
  contains 2 bell [true; true; true; true; false] = false.
Proof. repeat split; reflexivity. Qed.

(* ---------- measurement, original frame --------------------------------------------------------------------- *)
Definition ghz3 : tab := tab_gate2 GCNOT 3 1 2 (tab_gate2 GCNOT 3 0 1 (tab_gate1 GH 3 0 (zero_state 3))).

Example ghz3_random :
  1 < 3 /\ valid 3 ghz3 /\ length ghz3 = 3 /\ random_branch 3 1 ghz3 = true /\
  measure 3 1 false true ghz3 = (true, 2, [[false; false; false; true; true]; [false; false; true; true; false]]) /\
  fst (fst (measure 3 1 false false ghz3)) = false.
Proof.
  split; [lia|]. split; [apply validb_sound; vm_compute; reflexivity|]. repeat split; vm_compute; reflexivity.
Qed.

(* |0>|1>: measuring qubit 1 is deterministic with outcome 1 (-Z_1 in the group), destructive result |0> *)
Definition zero_one : tab := tab_gate1 GX 2 1 (zero_state 2).

Example zero_one_determined :
  1 < 2 /\ valid 2 zero_one /\ length zero_one = 2 /\ random_branch 2 1 zero_one = false /\
  measure 2 1 false false zero_one = (true, 1, [[false; true; false]]) /\
  measure 2 1 true false zero_one = (true, 2, [[false; false; false; true; true]; [false; false; true; false; false]]).
Proof.
  split; [lia|]. split; [apply validb_sound; vm_compute; reflexivity|]. repeat split; vm_compute; reflexivity.
Qed.

(* repeat: both orders of coins on the GHZ state *)
Example ghz3_repeat :
  fst (fst (measure 3 1 true false (snd (measure 3 1 true true ghz3)))) = true /\
  fst (fst (measure 3 1 true true (snd (measure 3 1 true false ghz3)))) = false.
Proof. split; vm_compute; reflexivity. Qed.
