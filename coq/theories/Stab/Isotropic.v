(* Maximal isotropic subspaces of F_2^{2n}: n independent pairwise-commuting rows span every row
   that commutes with all of them.  Self-contained induction on the number of qubits. *)
From Coq Require Import List Bool Arith Lia.
From SQ Require Import Base.ListUtil Stab.Kernels Stab.Tableau Stab.F2.
Import ListNotations.

(* ---------- generic GF(2) combinations over an arbitrary column type ----------------------------- *)
Section Lin.
Variable I : Type.

Fixpoint linf (sel : list bool) (A : list (I -> bool)) (j : I) : bool :=
  match sel, A with
  | s :: sel', r :: A' => xorb (s && r j) (linf sel' A' j)
  | _, _ => false
  end.

Fixpoint dot (sel cs : list bool) : bool :=
  match sel, cs with
  | s :: sel', c :: cs' => xorb (s && c) (dot sel' cs')
  | _, _ => false
  end.

Definition addw (c : (I -> bool) -> bool) (w u : I -> bool) : I -> bool :=
  fun p => xorb (c u && w p) (u p).

Lemma linf_nil_r sel j : linf sel [] j = false.
Proof. destruct sel; reflexivity. Qed.

Lemma linf_app s1 s2 A1 A2 j :
  length s1 = length A1 ->
  linf (s1 ++ s2) (A1 ++ A2) j = xorb (linf s1 A1 j) (linf s2 A2 j).
Proof.
  revert A1; induction s1 as [|s s1 IH]; intros [|r A1] H; simpl in *; try discriminate.
  - destruct (linf s2 A2 j); reflexivity.
  - injection H as H. rewrite (IH _ H). rewrite xorb_assoc. reflexivity.
Qed.

Lemma linf_addw c w sel B j :
  linf sel (map (addw c w) B) j = xorb (dot sel (map c B) && w j) (linf sel B j).
Proof.
  revert B; induction sel as [|s sel IH]; intros [|r B]; simpl; try reflexivity.
  rewrite IH. unfold addw at 1.
  destruct s, (c r), (w j), (r j), (dot sel (map c B)), (linf sel B j); reflexivity.
Qed.

Lemma dot_allfalse sel cs : forallb negb sel = true -> dot sel cs = false.
Proof.
  revert cs; induction sel as [|s sel IH]; intros [|c cs] H; simpl in *; try reflexivity.
  apply andb_true_iff in H as [Hs H]. destruct s; simpl in *; try discriminate. rewrite (IH cs H). reflexivity.
Qed.

Lemma dot_zero sel cs : (forall c, In c cs -> c = false) -> dot sel cs = false.
Proof.
  revert cs; induction sel as [|s sel IH]; intros [|c cs] H; simpl in *; try reflexivity.
  rewrite (H c (or_introl eq_refl)), andb_false_r, IH; auto.
Qed.

Lemma linf_zero_col sel A j : (forall u, In u A -> u j = false) -> linf sel A j = false.
Proof.
  revert A; induction sel as [|s sel IH]; intros [|r A] H; simpl in *; try reflexivity.
  rewrite (H r (or_introl eq_refl)), andb_false_r, IH; auto.
Qed.

Lemma linf_move s s1 s2 w pre post j :
  length s1 = length pre ->
  linf (s1 ++ s :: s2) (pre ++ w :: post) j = linf (s :: s1 ++ s2) (w :: pre ++ post) j.
Proof.
  intros H. rewrite linf_app by exact H. simpl. rewrite linf_app by exact H.
  destruct (s && w j), (linf s1 pre j), (linf s2 post j); reflexivity.
Qed.

Lemma split_sel (sel : list bool) (pre post : list (I -> bool)) :
  length sel = length (pre ++ post) ->
  exists s1 s2, sel = s1 ++ s2 /\ length s1 = length pre /\ length s2 = length post.
Proof.
  intros H. rewrite app_length in H.
  exists (firstn (length pre) sel), (skipn (length pre) sel). split; [|split].
  - symmetry; apply firstn_skipn.
  - apply firstn_length_le; lia.
  - rewrite skipn_length; lia.
Qed.

Lemma in_move (a w : I -> bool) pre post : In a (w :: pre ++ post) <-> In a (pre ++ w :: post).
Proof. simpl. rewrite !in_app_iff. simpl. tauto. Qed.

End Lin.
Arguments linf {I}. Arguments addw {I}. Arguments in_move {I}.

(* ---------- Pauli vectors as functions (kind, qubit) -> bit; kind false = X, true = Z ------------ *)
Definition vec := (bool * nat)%type -> bool.
Definition tlv (u : vec) : vec := fun p => u (fst p, S (snd p)).
Definition X0 : bool * nat := (false, 0).
Definition Z0 : bool * nat := (true, 0).

Fixpoint sympf (n : nat) (a b : vec) : bool :=
  match n with
  | 0 => false
  | S n' => xorb (xorb (a X0 && b Z0) (a Z0 && b X0)) (sympf n' (tlv a) (tlv b))
  end.

Lemma sympf_ext_r n : forall a b b',
  (forall p, snd p < n -> b p = b' p) -> sympf n a b = sympf n a b'.
Proof.
  induction n as [|n IH]; intros a b b' H; simpl; [reflexivity|].
  rewrite (H X0), (H Z0) by (simpl; lia). f_equal.
  apply IH. intros p Hp. unfold tlv. apply H. simpl. lia.
Qed.

Lemma sympf_sym n : forall a b, sympf n a b = sympf n b a.
Proof.
  induction n as [|n IH]; intros a b; simpl; [reflexivity|].
  rewrite (IH (tlv a) (tlv b)).
  destruct (a X0), (a Z0), (b X0), (b Z0); reflexivity.
Qed.

Lemma sympf_ext_l n a a' b :
  (forall p, snd p < n -> a p = a' p) -> sympf n a b = sympf n a' b.
Proof. intros H. rewrite (sympf_sym n a b), (sympf_sym n a' b). apply sympf_ext_r; exact H. Qed.

Lemma sympf_zero_r n : forall a, sympf n a (fun _ => false) = false.
Proof.
  induction n as [|n IH]; intros a; simpl; [reflexivity|].
  change (tlv (fun _ => false)) with (fun _ : bool * nat => false). rewrite IH.
  rewrite !andb_false_r. reflexivity.
Qed.

Lemma sympf_add_r n : forall a b c s,
  sympf n a (fun p => xorb (s && c p) (b p)) = xorb (s && sympf n a c) (sympf n a b).
Proof.
  induction n as [|n IH]; intros a b c s; simpl.
  - destruct s; reflexivity.
  - change (tlv (fun p => xorb (s && c p) (b p))) with (fun p => xorb (s && tlv c p) (tlv b p)).
    rewrite IH.
    destruct s, (a X0), (a Z0), (b X0), (b Z0), (c X0), (c Z0),
      (sympf n (tlv a) (tlv c)), (sympf n (tlv a) (tlv b)); reflexivity.
Qed.

Lemma sympf_add_l n a b c s :
  sympf n (fun p => xorb (s && c p) (b p)) a = xorb (s && sympf n c a) (sympf n b a).
Proof. rewrite sympf_sym, sympf_add_r, (sympf_sym n a c), (sympf_sym n a b). reflexivity. Qed.

Lemma sympf_lin_r n a : forall sel A,
  sympf n a (linf sel A) = dot sel (map (sympf n a) A).
Proof.
  induction sel as [|s sel IH]; intros A.
  - simpl. transitivity (sympf n a (fun _ => false)); [|apply sympf_zero_r].
    apply sympf_ext_r. intros; reflexivity.
  - destruct A as [|r A].
    + simpl. transitivity (sympf n a (fun _ => false)); [|apply sympf_zero_r].
      apply sympf_ext_r. intros; reflexivity.
    + simpl. rewrite <- IH. rewrite <- sympf_add_r. apply sympf_ext_r. intros; reflexivity.
Qed.

Lemma sympf_lin_zero_r n a sel A :
  (forall u, In u A -> sympf n a u = false) -> sympf n a (linf sel A) = false.
Proof.
  intros H. rewrite sympf_lin_r. apply dot_zero. intros c Hc.
  apply in_map_iff in Hc as [u [<- Hu]]. apply H; exact Hu.
Qed.

Lemma sympf_tl n a b :
  a X0 = false -> b X0 = false -> sympf (S n) a b = sympf n (tlv a) (tlv b).
Proof. intros Ha Hb. simpl. rewrite Ha, Hb, andb_false_r. simpl. destruct (sympf n (tlv a) (tlv b)); reflexivity. Qed.

Lemma linf_tlv sel : forall A p, linf sel (map tlv A) p = linf sel A (fst p, S (snd p)).
Proof.
  induction sel as [|s sel IH]; intros [|r A] p; simpl; try reflexivity.
  rewrite IH. reflexivity.
Qed.

(* ---------- span / independence / commutation on n qubits ---------------------------------------- *)
Definition spanv (n : nat) (A : list vec) (f : vec) : Prop :=
  exists sel, length sel = length A /\ forall p, snd p < n -> f p = linf sel A p.
Definition indepv (n : nat) (A : list vec) : Prop :=
  forall sel, length sel = length A -> (forall p, snd p < n -> linf sel A p = false) ->
              forallb negb sel = true.
Definition commv (n : nat) (A : list vec) : Prop :=
  forall a b, In a A -> In b A -> sympf n a b = false.
Definition vcomm (n : nat) (A : list vec) (v : vec) : Prop :=
  forall a, In a A -> sympf n a v = false.
