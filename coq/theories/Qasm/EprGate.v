(* C12 (end-to-end part) and the pair-creation half of C11: cmd_epr for a create-and-keep request of one pair
   (executioner.py cmd_epr, send_epr_half), as repaired by fixes/D16ii-epr-temporaries.diff: when anything fails before the
   hand-over is complete, the temporary qubits that exist are removed again (_clear_phys_qubit_in_memory), the physical id is
   released and the error is re-raised.  The decision function may_create / is_adjacent itself is modelled and translated in
   Qasm/Topo.v (other builder); here `adj` is its result.
   Second half of the file: the same for ONE pair of a MEASURE-DIRECTLY request (cmd_epr_measure: both temporaries rotated into
   their sampled bases, measured destructively, removed; md_records: the two entanglement-information records). *)
From Coq Require Import List Bool Arith Lia.
From SQ Require Import Base.ListUtil Stab.Tableau Net.Model Net.Refusal Net.Population Qasm.Exec Qasm.Epr.
Import ListNotations.

(* the three checks, in the order cmd_epr makes them, all before the first cmd_new *)
Inductive epr_check := CKnown | CNotSelf | CAdjacent.
Definition epr_checks : list epr_check := [CKnown; CNotSelf; CAdjacent].
Definition check_ok (known : list nat) (self r : nat) (adj : bool) (c : epr_check) : bool :=
  match c with CKnown => mem_nat r known | CNotSelf => negb (Nat.eqb r self) | CAdjacent => adj end.
Definition epr_gate (known : list nat) (self r : nat) (adj : bool) : bool := forallb (check_ok known self r adj) epr_checks.

(* _clear_phys_qubit_in_memory(p) for ANY physical id, the temporary ids -(1+n) included: cmd_measure(p, inplace=False), then
   remove_qubit_id(p).  Exec.clear_phys is the instance p = PP n. *)
Definition clear_pid (s : qst) (p : pid) (coin : bool) : qst * bool * ntrace :=
  match virt_of (q_host s) p with
  | None => (s, false, [])                                           (* UnknownQubitError *)
  | Some hd =>
      let '(s1, r, tr) := native s (OMeas hd false coin) in
      match r with
      | Ok _ => (mkQ (q_net s1) (with_qlist (q_host s1) (premove p (h_qlist (q_host s1)))), true, tr)
      | _ => (s1, false, tr)
      end
  end.
Lemma clear_phys_is_clear_pid s p c : clear_phys s p c = clear_pid s (PP p) c.
Proof. reflexivity. Qed.

(* the except-branch of cmd_epr (since the D16(ii) repair):  for q_id in [qubit_id, -(1+qubit_id)]: if q_id in qubitList:
   _clear_phys_qubit_in_memory(q_id).  One coin per measurement actually made, in order (as QStopApp's coins). A failing removal
   ends the loop (its exception replaces the original one; the request fails either way). *)
Fixpoint epr_cleanup (s : qst) (ps : list pid) (coins : list bool) : qst * ntrace :=
  match ps with
  | [] => (s, [])
  | p :: t =>
      match virt_of (q_host s) p with
      | None => epr_cleanup s t coins
      | Some _ =>
          let '(s1, ok, tr) := clear_pid s p (hd false coins) in
          if ok then let '(s2, tr2) := epr_cleanup s1 t (tl coins) in (s2, tr ++ tr2) else (s1, tr)
      end
  end.
(* a request that fails inside the try block: the error is re-raised after the temporaries were removed.  The physical id qid
   (reserved by _get_unused_physical_qubit in _do_create_epr) is released: in the model it is entered into h_used only when the
   kept half is bound (TeardownNet.map_addr), so h_used is simply unchanged here. *)
Definition epr_fail (s : qst) (qid : nat) (coins : list bool) (tr : ntrace) : qst * qres * ntrace :=
  let '(sc, tc) := epr_cleanup s [PP qid; PM qid] coins in (sc, RErr, tr ++ tc).

(* cmd_epr for a create-and-keep request of one pair.  coins: the coins of the destructive measurements of the cleanup (used
   only when the request fails after a temporary exists) *)
Definition cmd_epr_keep (i : nat) (s : qst) (known : list nat) (r : nat) (adj : bool) (qid : nat) (coins : list bool)
  : qst * qres * ntrace :=
  if negb (epr_gate known i r adj) then (s, RErr, [])                  (* refused before any creation: see below *)
  else
    let '(s1, ok1, t1) := cmd_new i s (PP qid) in
    if negb ok1 then epr_fail s1 qid coins t1 else
    let '(s2, ok2, t2) := cmd_new i s1 (PM qid) in
    if negb ok2 then epr_fail s2 qid coins (t1 ++ t2) else          (* the first temporary is removed again *)
    match virt_of (q_host s2) (PP qid), virt_of (q_host s2) (PM qid) with
    | Some h1, Some h2 =>
        let '(s3, r3, t3) := native s2 (OGate1 h1 NH) in
        let '(s4, r4, t4) := native s3 (OGate2 h1 h2 NCnot) in
        let '(s5, r5, t5) := native s4 (OSend h2 r) in          (* netqasm_send_epr_half -> remote_send_qubit *)
        match r5 with
        | Ok _ => (mkQ (q_net s5) (with_qlist (q_host s5) (premove (PM qid) (h_qlist (q_host s5)))), RDone None,
                   t1 ++ t2 ++ t3 ++ t4 ++ t5)
        | _ => epr_fail s5 qid coins (t1 ++ t2 ++ t3 ++ t4 ++ t5)      (* receiver refused: both temporaries are removed *)
        end
    | _, _ => epr_fail s2 qid coins (t1 ++ t2)
    end.

(* the three checks are made inside the try block as well: the except-branch then looks the two ids up in qubitList, finds
   neither (qid is an unused physical id and qubitList's keys are used ids: TeardownX.x_keys; see gate_refusal_cleanup_is_noop)
   and releases qid -- nothing to model *)
Lemma gate_refusal_cleanup_is_noop s qid coins :
  plookup (PP qid) (h_qlist (q_host s)) = None -> plookup (PM qid) (h_qlist (q_host s)) = None ->
  epr_fail s qid coins [] = (s, RErr, []).
Proof. intros A B. unfold epr_fail. cbn [epr_cleanup]. unfold virt_of. rewrite A, B. reflexivity. Qed.

(* the code BEFORE the repair (no except-branch): kept only to show what the repair changed (unrepaired_leak below) *)
Definition cmd_epr_keep_unrepaired (i : nat) (s : qst) (known : list nat) (r : nat) (adj : bool) (qid : nat) : qst * qres * ntrace :=
  if negb (epr_gate known i r adj) then (s, RErr, [])
  else
    let '(s1, ok1, t1) := cmd_new i s (PP qid) in
    if negb ok1 then (s1, RErr, t1) else
    let '(s2, ok2, t2) := cmd_new i s1 (PM qid) in
    if negb ok2 then (s2, RErr, t1 ++ t2) else                 (* the first temporary stays in qubitList *)
    match virt_of (q_host s2) (PP qid), virt_of (q_host s2) (PM qid) with
    | Some h1, Some h2 =>
        let '(s3, r3, t3) := native s2 (OGate1 h1 NH) in
        let '(s4, r4, t4) := native s3 (OGate2 h1 h2 NCnot) in
        let '(s5, r5, t5) := native s4 (OSend h2 r) in
        match r5 with
        | Ok _ => (mkQ (q_net s5) (with_qlist (q_host s5) (premove (PM qid) (h_qlist (q_host s5)))), RDone None,
                   t1 ++ t2 ++ t3 ++ t4 ++ t5)
        | _ => (s5, RErr, t1 ++ t2 ++ t3 ++ t4 ++ t5)            (* receiver refused: both temporaries stay *)
        end
    | _, _ => (s2, RErr, t1 ++ t2)
    end.

Theorem epr_gate_iff known self r adj :
  epr_gate known self r adj = true <-> In r known /\ r <> self /\ adj = true.
Proof.
  unfold epr_gate; simpl. rewrite !andb_true_iff. unfold mem_nat. rewrite existsb_exists.
  split.
  - intros ((x & Hx & E) & N & A & _). apply Nat.eqb_eq in E. subst x.
    split; auto. split; auto. intro; subst. rewrite Nat.eqb_refl in N. discriminate.
  - intros (H & N & A). split; [exists r; split; auto; apply Nat.eqb_refl|].
    split; [|auto]. destruct (Nat.eqb_spec r self); [contradiction|reflexivity].
Qed.

(* refused_creates_nothing: unknown id, itself, or not adjacent: error, no native call, the whole state unchanged *)
Theorem refused_creates_nothing i s known r adj qid coins :
  epr_gate known i r adj = false -> cmd_epr_keep i s known r adj qid coins = (s, RErr, []).
Proof. intro H. unfold cmd_epr_keep. rewrite H. reflexivity. Qed.

Lemma epr_fail_res s qid coins tr : snd (fst (epr_fail s qid coins tr)) = RErr.
Proof. unfold epr_fail. destruct (epr_cleanup s [PP qid; PM qid] coins). reflexivity. Qed.

(* half_survives: after a successful creation the sent half is no longer in the creator's qubitList (so nothing the creator
   does later -- qfree, stop -- can reach it: every native call of the host goes through a qubitList handle) *)
Theorem half_survives i s known r adj qid coins s' tr :
  cmd_epr_keep i s known r adj qid coins = (s', RDone None, tr) -> plookup (PM qid) (h_qlist (q_host s')) = None.
Proof.
  assert (F : forall s0 tr0, epr_fail s0 qid coins tr0 <> (s', RDone None, tr)).
  { intros s0 tr0 E. pose proof (epr_fail_res s0 qid coins tr0) as R. rewrite E in R. discriminate. }
  unfold cmd_epr_keep. destruct (negb (epr_gate known i r adj)); [discriminate|].
  destruct (cmd_new i s (PP qid)) as [[s1 ok1] t1]. destruct (negb ok1); [intro E; destruct (F _ _ E)|].
  destruct (cmd_new i s1 (PM qid)) as [[s2 ok2] t2]. destruct (negb ok2); [intro E; destruct (F _ _ E)|].
  destruct (virt_of (q_host s2) (PP qid)) as [h1|]; [|intro E; destruct (F _ _ E)].
  destruct (virt_of (q_host s2) (PM qid)) as [h2|]; [|intro E; destruct (F _ _ E)].
  destruct (native s2 (OGate1 h1 NH)) as [[s3 r3] t3]. destruct (native s3 (OGate2 h1 h2 NCnot)) as [[s4 r4] t4].
  destruct (native s4 (OSend h2 r)) as [[s5 r5] t5]. destruct r5; try (intro E; destruct (F _ _ E)).
  intro E. inversion E; subst. cbn [q_host h_qlist with_qlist]. clear.
  generalize (h_qlist (q_host s5)) as l. induction l as [|[k0 v0] l IH]; simpl; auto.
  destruct (pid_eqb_spec k0 (PM qid)) as [Ek|Nk]; simpl; auto. destruct (pid_eqb_spec k0 (PM qid)); [contradiction|auto].
Qed.

(* the scenario of the former finding C11:epr-temporaries: the receiver (node 1, capacity 0) refuses the half after both
   temporaries were created.  Repaired code: the request still fails, the two temporaries are measured out again (trace), and
   the creator's node and host are back at what they were; the following stop finds nothing to clear *)
Definition leak_start : qst := fst (fst (exec 0 (mkQ (init_net [(4, 5); (0, 5)]) empty_host) (QInitApp 0 2))).
Definition leak_after_create : qst := fst (fst (cmd_epr_keep 0 leak_start [0; 1] 1 true 0 [true; false])).
Definition leak_after_stop : qst := fst (fst (exec 0 leak_after_create (QStopApp 0 []))).
Definition node_counts (s : qst) (j : nat) : nat * nat * nat * nat :=
  let nd := nth_node (q_net s) j in (length (virt nd), length (sims nd), length (regs nd), numRegs nd).
Example failed_pair_restored :
  snd (fst (cmd_epr_keep 0 leak_start [0; 1] 1 true 0 [true; false])) = RErr /\
  snd (cmd_epr_keep 0 leak_start [0; 1] 1 true 0 [true; false]) =
    [(ONew 0, Ok 0); (ONew 0, Ok 1); (OGate1 0 NH, OkNone); (OGate2 0 1 NCnot, OkNone); (OSend 1 1, Err KNoQubit);
     (OMeas 0 false true, Ok 1); (OMeas 1 false false, Ok 1)] /\
  q_host leak_after_create = q_host leak_start /\
  node_counts leak_after_create 0 = node_counts leak_start 0 /\ node_counts leak_after_create 0 = (0, 0, 0, 0) /\
  snd (fst (exec 0 leak_after_create (QStopApp 0 []))) = RDone None /\
  node_counts leak_after_stop 0 = (0, 0, 0, 0) /\ h_units (q_host leak_after_stop) = [] /\ h_qlist (q_host leak_after_stop) = [].
Proof. vm_compute. repeat split; reflexivity. Qed.

(* ... and what the code did before the repair on the same input: both temporaries stay in qubitList under ids no unit module
   maps; stopping the application does not remove them: the creator's node keeps 2 qubits *)
Definition old_leak_after_create : qst := fst (fst (cmd_epr_keep_unrepaired 0 leak_start [0; 1] 1 true 0)).
Definition old_leak_after_stop : qst := fst (fst (exec 0 old_leak_after_create (QStopApp 0 []))).
Example unrepaired_leak :
  snd (fst (cmd_epr_keep_unrepaired 0 leak_start [0; 1] 1 true 0)) = RErr /\
  snd (fst (exec 0 old_leak_after_create (QStopApp 0 []))) = RDone None /\
  held (q_net leak_start) 0 = 0 /\ held (q_net old_leak_after_stop) 0 = 2 /\
  h_units (q_host old_leak_after_stop) = [] /\ length (h_qlist (q_host old_leak_after_stop)) = 2.
Proof. vm_compute. repeat split; reflexivity. Qed.

(* room for one more qubit only: the second cmd_new is refused, the first temporary is removed again; the creator holds another
   qubit before and after *)
Definition tight_start : qst :=
  fst (fst (exec_list 0 (mkQ (init_net [(2, 5); (4, 5)]) empty_host) [QInitApp 0 2; QAlloc 0 1])).
Example failed_second_creation_restored :
  snd (fst (cmd_epr_keep 0 tight_start [0; 1] 1 true 1 [false])) = RErr /\
  map fst (snd (cmd_epr_keep 0 tight_start [0; 1] 1 true 1 [false])) = [ONew 0; ONew 0; OMeas 1 false false] /\
  q_host (fst (fst (cmd_epr_keep 0 tight_start [0; 1] 1 true 1 [false]))) = q_host tight_start /\
  node_counts (fst (fst (cmd_epr_keep 0 tight_start [0; 1] 1 true 1 [false]))) 0 = node_counts tight_start 0 /\
  node_counts tight_start 0 = (1, 1, 1, 1).
Proof. vm_compute. repeat split; reflexivity. Qed.

(* non-vacuity of the positive statements: a successful creation between two nodes with room *)
Definition ok_start : qst := fst (fst (exec 0 (mkQ (init_net [(4, 5); (4, 5)]) empty_host) (QInitApp 0 2))).
Example ex_create_ok :
  snd (fst (cmd_epr_keep 0 ok_start [0; 1] 1 true 0 [])) = RDone None /\
  map fst (snd (cmd_epr_keep 0 ok_start [0; 1] 1 true 0 [])) = [ONew 0; ONew 0; OGate1 0 NH; OGate2 0 1 NCnot; OSend 1 1] /\
  held (q_net (fst (fst (cmd_epr_keep 0 ok_start [0; 1] 1 true 0 [])))) 0 = 1 /\
  held (q_net (fst (fst (cmd_epr_keep 0 ok_start [0; 1] 1 true 0 [])))) 1 = 1.
Proof. vm_compute. repeat split; reflexivity. Qed.
Example ex_refused : epr_gate [0; 1] 0 0 true = false /\ epr_gate [0; 1] 0 2 true = false /\ epr_gate [0; 1] 0 1 false = false
  /\ epr_gate [0; 1] 0 1 true = true.
Proof. vm_compute. auto. Qed.

(* ---- measure-directly requests (create_request.type == RequestType.M) ------------------------------------------------------------
   cmd_epr for ONE pair of a measure-directly request: the same three checks, the same two temporaries, H, CNOT; then
   _measure_epr_qubit(qubit_id, remote=False) and _measure_epr_qubit(-(1+qubit_id), remote=True): rotate into the sampled basis
   (Z: nothing, X: H, Y: K), cmd_measure(inplace=False), remove_qubit_id; then send_epr_outcome_half (netqasm_send_epr_half with
   num = None: no native operation on a qubit; the record is appended to the peer's deque by TeardownNet.nstep_r).
   Everything stands inside the same try block as for create-and-keep: any failure goes through epr_fail.
   Inputs beyond cmd_epr_keep's: the two bases _sample_basis_choice returned (Epr.mbasis; rotations are 0, CHSH bases raise
   NotImplementedError and are not modelled) and the coins c1, c2 of the two destructive measurements; `coins` are the coins
   of the cleanup's measurements, used only when the request fails after a temporary exists. *)
Definition basis_g1 (b : mbasis) : option g1 := match b with BZ => None | BX => Some NH | BY => Some NK end.

(* _measure_epr_qubit: None = an exception (UnknownQubitError, a refused gate, outcome None) *)
Definition measure_epr_qubit (s : qst) (p : pid) (b : mbasis) (coin : bool) : qst * option nat * ntrace :=
  match virt_of (q_host s) p with
  | None => (s, None, [])
  | Some hd =>
      let '(s1, bad, t1) := match basis_g1 b with
                            | None => (s, false, [])
                            | Some g => let '(s', r, t) := native s (OGate1 hd g) in (s', is_err r, t)
                            end in
      if bad then (s1, None, t1)
      else
        let '(s2, r, t2) := native s1 (OMeas hd false coin) in
        match r with
        | Ok v => (mkQ (q_net s2) (with_qlist (q_host s2) (premove p (h_qlist (q_host s2)))), Some v, t1 ++ t2)
        | _ => (s2, None, t1 ++ t2)
        end
  end.

Definition epr_fail_m (s : qst) (qid : nat) (coins : list bool) (tr : ntrace) : qst * qres * ntrace * option (nat * nat) :=
  (epr_fail s qid coins tr, None).

(* returns the new state, the result, the native calls, and (on success) the two outcomes: local qubit, remote qubit *)
Definition cmd_epr_measure (i : nat) (s : qst) (known : list nat) (r : nat) (adj : bool) (qid : nat)
  (bl br : mbasis) (c1 c2 : bool) (coins : list bool) : qst * qres * ntrace * option (nat * nat) :=
  if negb (epr_gate known i r adj) then (s, RErr, [], None)
  else
    let '(s1, ok1, t1) := cmd_new i s (PP qid) in
    if negb ok1 then epr_fail_m s1 qid coins t1 else
    let '(s2, ok2, t2) := cmd_new i s1 (PM qid) in
    if negb ok2 then epr_fail_m s2 qid coins (t1 ++ t2) else
    match virt_of (q_host s2) (PP qid), virt_of (q_host s2) (PM qid) with
    | Some h1, Some h2 =>
        let '(s3, r3, t3) := native s2 (OGate1 h1 NH) in
        let '(s4, r4, t4) := native s3 (OGate2 h1 h2 NCnot) in
        let '(s5, o1, t5) := measure_epr_qubit s4 (PP qid) bl c1 in
        match o1 with
        | None => epr_fail_m s5 qid coins (t1 ++ t2 ++ t3 ++ t4 ++ t5)
        | Some v1 =>
            let '(s6, o2, t6) := measure_epr_qubit s5 (PM qid) br c2 in
            match o2 with
            | None => epr_fail_m s6 qid coins (t1 ++ t2 ++ t3 ++ t4 ++ t5 ++ t6)
            | Some v2 => (s6, RDone None, t1 ++ t2 ++ t3 ++ t4 ++ t5 ++ t6, Some (v1, v2))
            end
        end
    | _, _ => epr_fail_m s2 qid coins (t1 ++ t2)
    end.

(* the two entanglement-information records of a measure-directly pair (LinkLayerOKTypeM; type = OK_M, goodness = 1,
   bell_state = PHI_PLUS are constants, create_id is not modelled): cmd_epr builds the creator's, send_epr_outcome_half the peer's *)
Record mrec := mkMrec { m_outcome : nat; m_basis : mbasis; m_seq : nat; m_dir : nat; m_remote : nat; m_purpose : nat }.
Definition md_records (i r lsock rsock seq : nat) (bl br : mbasis) (o : nat * nat) : mrec * mrec :=
  (mkMrec (fst o) bl seq 0 r lsock,          (* ent_info: local outcome and basis, directionality 0, remote_node_id, purpose = epr_socket_id *)
   mkMrec (snd o) br seq 1 i rsock).         (* remote_ent_info: remote outcome and basis, directionality 1, node_id, remote_epr_socket_id *)

(* as long as nothing was measured the code path IS the create-and-keep one: refused by the checks or by a cmd_new *)
Lemma measure_refused_as_keep i s known r adj qid bl br c1 c2 coins :
  epr_gate known i r adj = false \/ snd (fst (cmd_new i s (PP qid))) = false \/
  snd (fst (cmd_new i (fst (fst (cmd_new i s (PP qid)))) (PM qid))) = false ->
  cmd_epr_measure i s known r adj qid bl br c1 c2 coins = (cmd_epr_keep i s known r adj qid coins, None).
Proof.
  unfold cmd_epr_measure, cmd_epr_keep, epr_fail_m. intros [G|[N1|N2]].
  - rewrite G. reflexivity.
  - destruct (negb (epr_gate known i r adj)); [reflexivity|].
    destruct (cmd_new i s (PP qid)) as [[s1 ok1] t1]. cbn [fst snd] in N1. subst ok1. reflexivity.
  - destruct (negb (epr_gate known i r adj)); [reflexivity|].
    destruct (cmd_new i s (PP qid)) as [[s1 ok1] t1]. cbn [fst snd] in N2. destruct ok1; [|reflexivity]. cbn [negb].
    destruct (cmd_new i s1 (PM qid)) as [[s2 ok2] t2]. cbn [fst snd] in N2. subst ok2. reflexivity.
Qed.

Lemma keep_refused_is_err i s known r adj qid coins :
  epr_gate known i r adj = false \/ snd (fst (cmd_new i s (PP qid))) = false \/
  snd (fst (cmd_new i (fst (fst (cmd_new i s (PP qid)))) (PM qid))) = false ->
  snd (fst (cmd_epr_keep i s known r adj qid coins)) = RErr.
Proof.
  unfold cmd_epr_keep. intros [G|[N1|N2]].
  - rewrite G. reflexivity.
  - destruct (negb (epr_gate known i r adj)); [reflexivity|].
    destruct (cmd_new i s (PP qid)) as [[s1 ok1] t1]. cbn [fst snd] in N1. subst ok1. apply epr_fail_res.
  - destruct (negb (epr_gate known i r adj)); [reflexivity|].
    destruct (cmd_new i s (PP qid)) as [[s1 ok1] t1]. cbn [fst snd] in N2. destruct ok1; [|apply epr_fail_res]. cbn [negb].
    destruct (cmd_new i s1 (PM qid)) as [[s2 ok2] t2]. cbn [fst snd] in N2. subst ok2. apply epr_fail_res.
Qed.

Theorem refused_measure_creates_nothing i s known r adj qid bl br c1 c2 coins :
  epr_gate known i r adj = false -> cmd_epr_measure i s known r adj qid bl br c1 c2 coins = (s, RErr, [], None).
Proof. intro H. unfold cmd_epr_measure. rewrite H. reflexivity. Qed.

(* non-vacuity: a successful measure-directly pair (sampled bases X, Y; coins 1, 0) -- the complete native trace, the outcomes,
   host and node exactly as before; and one refused at the second cmd_new (room for one more qubit only): the first temporary
   is removed again, as for create-and-keep *)
Example ex_measure_ok :
  let c := cmd_epr_measure 0 ok_start [0; 1] 1 true 0 BX BY true false [] in
  snd (fst (fst c)) = RDone None /\
  snd (fst c) = [(ONew 0, Ok 0); (ONew 0, Ok 1); (OGate1 0 NH, OkNone); (OGate2 0 1 NCnot, OkNone); (OGate1 0 NH, OkNone);
                 (OMeas 0 false true, Ok 1); (OGate1 1 NK, OkNone); (OMeas 1 false false, Ok 0)] /\
  snd c = Some (1, 0) /\ md_outcomes BX BY true false = (true, false) /\
  q_host (fst (fst (fst c))) = q_host ok_start /\ node_counts (fst (fst (fst c))) 0 = (0, 0, 0, 0) /\
  md_records 0 1 2 3 7 BX BY (1, 0) = (mkMrec 1 BX 7 0 1 2, mkMrec 0 BY 7 1 0 3).
Proof. vm_compute. repeat split; reflexivity. Qed.
Example ex_measure_refused_second_new :
  let c := cmd_epr_measure 0 tight_start [0; 1] 1 true 1 BX BY true false [false] in
  snd (fst (fst c)) = RErr /\ snd c = None /\
  snd (fst c) = [(ONew 0, Ok 1); (ONew 0, Err KNoQubit); (OMeas 1 false false, Ok 0)] /\
  q_host (fst (fst (fst c))) = q_host tight_start /\ node_counts (fst (fst (fst c))) 0 = node_counts tight_start 0.
Proof. vm_compute. repeat split; reflexivity. Qed.
