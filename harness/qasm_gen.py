"""Random NetQASM applications for the H-qasm checks: mostly well-formed subroutines over <= 4 virtual addresses
(re-allocation of freed addresses, measurement-dependent branches, bounded loops, arrays, returns) plus a malformed
share (unsupported gates, unallocated / doubly allocated / out-of-range addresses, undefined registers, bad array use)."""

GOOD_G1 = ["x", "y", "z", "h", "k", "s"]


class ProgGen:
    def __init__(self, rng, app, maxq, unit, bad=0.08, naddr=4, maxlen=30):
        self.rng, self.app, self.maxq = rng, app, maxq
        self.naddr = min(naddr, max(maxq, 1))
        self.alloc = set(a for a, p in enumerate(unit) if p is not None and a < self.naddr)
        self.bad = bad
        self.maxlen = maxlen
        self.prog = []
        self.measured = []       # M registers written
        self.rdef = set()        # R registers defined
        self.arrays = {}         # addr -> length
        # address registers: Q_k holds address perm[k]  (register index and address deliberately differ)
        perm = list(range(self.naddr))
        rng.shuffle(perm)
        self.qreg = {a: "Q%d" % k for k, a in enumerate(perm)}
        for k, a in enumerate(perm):
            self.prog.append(("set", "Q%d" % k, a))
        self.prog.append(("set", "C2", 1))

    def q(self, a):
        return self.qreg[a]

    def emit(self, *ins):
        self.prog.append(tuple(ins))

    def gate_block(self, n):
        """straight-line gates on allocated qubits (no allocation changes): safe inside branches and loops"""
        r = self.rng
        out = []
        for _ in range(n):
            al = sorted(self.alloc)
            if not al:
                out.append(("set", "R7", r.randrange(4)))
                self.rdef.add("R7")
                continue
            if len(al) >= 2 and r.random() < 0.45:
                a, b = r.sample(al, 2)
                out.append(("g2", r.choice(["cnot", "cphase"]), self.q(a), self.q(b)))
            else:
                out.append(("g1", r.choice(GOOD_G1), self.q(r.choice(al))))
        return out

    def step(self):
        r = self.rng
        al = sorted(self.alloc)
        free = [a for a in range(self.naddr) if a not in self.alloc]
        if r.random() < self.bad:
            return self.bad_step()
        kinds = []
        if free:
            kinds += ["alloc"] * (5 if len(al) < 2 else 2)
        if al:
            kinds += ["g1"] * 5 + ["meas"] * 3 + ["free"] * 2 + ["init"] + ["cond"] * 2 + ["loop"]
        if len(al) >= 2:
            kinds += ["g2"] * 5
        kinds += ["classic"] * 2 + ["array"]
        k = r.choice(kinds)
        if k == "alloc":
            a = r.choice(free)
            self.emit("qalloc", self.q(a))
            self.alloc.add(a)
            if r.random() < 0.8:
                self.emit("init", self.q(a))
        elif k == "g1":
            self.emit("g1", r.choice(GOOD_G1), self.q(r.choice(al)))
        elif k == "g2":
            a, b = r.sample(al, 2)
            self.emit("g2", r.choice(["cnot", "cphase"]), self.q(a), self.q(b))
        elif k == "meas":
            m = "M%d" % r.randrange(4)
            self.emit("meas", self.q(r.choice(al)), m)
            if m not in self.measured:
                self.measured.append(m)
            if r.random() < 0.5:
                self.emit("ret_reg", m)
        elif k == "free":
            a = r.choice(al)
            self.emit("qfree", self.q(a))
            self.alloc.discard(a)
        elif k == "init":
            self.emit("init", self.q(r.choice(al)))
        elif k == "cond":
            # measurement-dependent correction, teleportation style
            if not self.measured:
                m = "M%d" % r.randrange(4)
                self.emit("meas", self.q(r.choice(al)), m)
                self.measured.append(m)
            m = r.choice(self.measured)
            body = self.gate_block(r.randrange(1, 4))
            c = r.choice(["bez", "bnz", "beq", "bne"])
            if c in ("bez", "bnz"):
                self.emit("bz", c, m, len(body) + 1)
            else:
                self.emit("br", c, m, "C2", len(body) + 1)
            self.prog += body
        elif k == "loop":
            n = r.randrange(1, 4)
            body = self.gate_block(r.randrange(1, 3))
            self.emit("set", "C0", 0)
            self.emit("set", "C1", n)
            self.prog += body
            self.emit("add", "C0", "C0", "C2")
            self.emit("br", "blt", "C0", "C1", -(len(body) + 1))
        elif k == "classic":
            c = r.choice(["set", "set", "add", "sub", "ret"])
            if c == "set" or not self.rdef:
                reg = "R%d" % r.randrange(6)
                self.emit("set", reg, r.randrange(8))
                self.rdef.add(reg)
            elif c in ("add", "sub"):
                srcs = sorted(self.rdef) + list(self.measured)
                reg = "R%d" % r.randrange(6)
                self.emit(c, reg, r.choice(srcs), r.choice(srcs))
                self.rdef.add(reg)
            else:
                self.emit("ret_reg", r.choice(sorted(self.rdef)))
        elif k == "array":
            addr = r.randrange(3)
            if addr not in self.arrays or r.random() < 0.2:
                n = r.randrange(1, 4)
                self.emit("set", "R6", n)
                self.emit("array", "R6", addr)
                self.arrays[addr] = n
                self.rdef.add("R6")
            else:
                n = self.arrays[addr]
                idx = r.randrange(n)
                self.emit("set", "R7", idx)
                self.rdef.add("R7")
                srcs = sorted(self.rdef) + list(self.measured)
                c = r.choice(["store", "store", "load", "ret"])
                if c == "store":
                    self.emit("store", r.choice(srcs), addr, "R7")
                elif c == "load":
                    reg = "R%d" % r.randrange(6)
                    self.emit("load", reg, addr, "R7")      # may be undefined: error, as the reference says
                    self.rdef.add(reg)
                else:
                    self.emit("ret_arr", addr)

    def bad_step(self):
        r = self.rng
        al = sorted(self.alloc)
        free = [a for a in range(self.naddr) if a not in self.alloc]
        c = r.choice(["t", "rot", "unalloc", "double", "freefree", "range", "same", "undef_reg", "badidx", "noarr", "undefq"])
        if c == "t" and al:
            self.emit("g1", "t", self.q(r.choice(al)))
        elif c == "rot" and al:
            self.emit("rot", r.choice("xyz"), self.q(r.choice(al)), r.randrange(1, 4), r.randrange(1, 4))
        elif c == "unalloc" and free:
            a = r.choice(free)
            self.emit(*r.choice([("g1", "x", self.q(a)), ("meas", self.q(a), "M0"), ("init", self.q(a))]))
        elif c == "double" and al:
            self.emit("qalloc", self.q(r.choice(al)))
        elif c == "freefree" and free:
            self.emit("qfree", self.q(r.choice(free)))
        elif c == "range":
            self.emit("set", "Q7", self.maxq + r.randrange(2))
            self.emit(*r.choice([("qalloc", "Q7"), ("g1", "h", "Q7"), ("qfree", "Q7")]))
        elif c == "same" and al:
            a = r.choice(al)
            self.emit("g2", r.choice(["cnot", "cphase"]), self.q(a), self.q(a))
        elif c == "undef_reg":
            self.emit(*r.choice([("ret_reg", "R15"), ("add", "R0", "R15", "C2"), ("br", "blt", "R14", "C2", 1)]))
        elif c == "badidx":
            self.emit("set", "R6", 1)
            self.emit("array", "R6", 3)
            self.emit("set", "R7", 1 + r.randrange(3))
            self.emit(*r.choice([("store", "R6", 3, "R7"), ("load", "R5", 3, "R7")]))
        elif c == "noarr":
            self.emit("set", "R7", 0)
            self.emit(*r.choice([("ret_arr", 9), ("load", "R5", 9, "R7"), ("store", "R7", 9, "R7")]))
        elif c == "undefq":
            self.emit("g1", "x", "Q9")
        else:
            self.emit("set", "R5", r.randrange(5))
            self.rdef.add("R5")

    def finish(self):
        r = self.rng
        for m in self.measured:
            if r.random() < 0.8:
                self.emit("ret_reg", m)
        for a in self.arrays:
            if r.random() < 0.6:
                self.emit("ret_arr", a)
        return self.prog


def random_prog(rng, app, maxq, unit, nsteps=None, bad=0.08, maxlen=30):
    g = ProgGen(rng, app, maxq, unit, bad=bad, maxlen=maxlen)
    nsteps = nsteps if nsteps is not None else rng.randrange(2, 12)
    for _ in range(nsteps):
        if len(g.prog) >= maxlen - 6:
            break
        g.step()
    return g.finish()[:maxlen + 8]


def count_coins(prog):
    """upper bound of measure calls of one execution (loops run <= 3 times)"""
    return 4 * sum(1 for i in prog if i[0] in ("meas", "init", "qfree")) + 8


def random_session(run_mod, env, rng, caps=None, generations=None, pb=False, bad=0.08, overlap=0.25, tight=False):
    """several applications, one after the other (sometimes two at once), several subroutines each"""
    if caps is None:
        mq = rng.choice([1, 2, 3]) if tight else rng.choice([2, 3, 4, 5, 6, 8])
        caps = [(mq, rng.choice([mq, mq + 2, 10]) if not tight else rng.choice([1, 2, 3, 10]))]
        if rng.random() < 0.3:
            caps.append((rng.choice([2, 4]), 10))
    s = run_mod.Session(env, caps, pb=pb)
    generations = generations or rng.randrange(1, 4)
    next_app = rng.randrange(3)
    active = []
    todo = generations
    while (todo > 0 or active) and not s.dead and len(s.records) < 40:
        if todo > 0 and (not active or (len(active) < 2 and rng.random() < overlap)):
            app = next_app
            next_app += rng.randrange(1, 3)
            maxq = rng.choice([2, 3, 4, 4, 5])
            s.message(("init", app, maxq), [])
            active.append([app, maxq, rng.randrange(1, 5)])
            todo -= 1
            continue
        ent = rng.choice(active)
        app, maxq, left = ent
        if left == 0:
            n = sum(1 for p in s.ref.apps[app]["unit"] if p is not None)
            s.message(("stop", app), [rng.randrange(2) for _ in range(n + 1)])
            active.remove(ent)
            continue
        ent[2] -= 1
        prog = random_prog(rng, app, maxq, s.ref.apps[app]["unit"], bad=bad)
        s.message(("sub", app, prog), [rng.randrange(2) for _ in range(count_coins(prog))])
    return s
