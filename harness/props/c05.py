"""C05 — failed operations are atomic and typed (sequential part; the cross-node error class is checked over real PB in c05pb)."""
from props import netprop, scen


def run(ctx):
    t = ctx.tier == "thorough"
    ctx.rule = ("random programs with a refusal-heavy profile (capacity 1..5, unknown targets, T/rotation, identical operands, register limit) "
                "injected at random points of random histories, for local / remote / third-node placements; for every refused operation: exception "
                "class in the documented set, full dump before = after, no lock held; distinct = distinct (capacities, operation, dump)")
    extra = None
    try:
        from props import c05pb
        extra = c05pb.extra
    except ImportError:
        pass
    netprop.run_property(ctx, "C05", ["refuse", "capacity", "refuse", "mixed", "registers"], 1500 if t else 150, 30 if t else 24,
                         scenarios=scen.refusals() + scen.capacity() + scen.register_limit() + scen.big_merge() + scen.register_api(), own_props=["C05"], extra=extra)
