(* Tie of model L to the implementation: a recorded lock-event trace must be a run of the LTS, and the state the LTS reaches
   must show the observed set of completed operations and held node locks; when the network was quiescent (or the batch has
   no _lock_nodes operation, so that a hang is a deadlock) no event may be enabled in that state. *)
From Coq Require Import List Bool Arith.
From SQ Require Import Base.ListUtil Conc.Model.
Import ListNotations.

(* the events that could come next, read off the state *)
Definition next_of (s : st) (o : opid) (x : ost) : list ev :=
  match x with
  | SIdle => [EIssue o]
  | SRun _ (AReq n :: _) _ => [EReq n o 0]
  | SRun _ (AAcq n :: _) (Some r) => [EAcq n o r]
  | SRun _ (ARel n :: _) _ => [ERel n o (is_some (lock_of s n))]
  | SRun _ [] _ => [EDone o]
  | SRun _ _ _ => []
  | SG2Start => [ELockn o []]
  | SG2 reqs =>
      ETimeout o :: flat_map (fun q => match q with
                                       | (n, RFlight) => [EReq n o 0]
                                       | (n, RPoll r) => [EAcq n o r]
                                       | (n, RGranted) => [ERel n o (is_some (lock_of s n))]
                                       end) reqs
  | SG2Rel [] => [EDone o; ELockn o []]
  | SG2Rel rel => map (fun n => ERel n o (is_some (lock_of s n))) rel
  | SAny [] => [EDone o]
  | SAny polls => map (fun q => EAcq (fst q) o (snd q)) polls
  | SDone => []
  end.

Fixpoint next_ops (s : st) (l : list ost) (o : opid) : list ev :=
  match l with [] => [] | x :: t => next_of s o x ++ next_ops s t (S o) end.

Definition next_orph (s : st) : list ev :=
  map (fun x => match x with (n, o, None) => EReq n o 0 | (n, o, Some r) => EAcq n o r end) (orph s).

Definition enabled (cfg : list okind) (s : st) : list ev :=
  filter (fun e => is_some (step cfg s e)) (next_ops s (ops s) 0 ++ next_orph s).

(* 0 = agreement; 10 + i = event i (1-based) rejected; 1 = completed operations differ; 2 = held locks differ;
   3 = the model can still move although the implementation was quiescent / deadlocked *)
Definition check_case (c : nat * list okind * list ev * list nat * list nat * nat) : nat :=
  let '(nn, cfg, tr, dn, held, strict) := c in
  match run cfg (init nn cfg) tr with
  | None => 10 + reject_at cfg (init nn cfg) tr 0
  | Some s =>
      if negb (list_eqb Nat.eqb (done_ops s) dn) then 1
      else if negb (list_eqb Nat.eqb (held_nodes s) held) then 2
      else if Nat.eqb strict 1 && negb (match enabled cfg s with [] => true | _ => false end) then 3
      else 0
  end.
