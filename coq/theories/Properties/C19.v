(* C19 — noise is absent unless enabled and depolarizing at the documented rate.
   Only statements, each closed by `exact`, each followed by Print Assumptions.  Proofs: Noise/DecideFacts.v.
   The bound 0 <= (1 - exp(-t/T1))/4 < 1/4 needs Coq's real numbers and lives alone in Properties/C19_rate.v. *)
From Coq Require Import QArith ZArith Bool List.
From SQ Require Import Base.ListUtil Stab.Pauli Stab.Kernels Stab.Tableau Stab.Gates Noise.Decide Noise.DecideFacts.
Import ListNotations.
Local Open Scope Q_scope.

(* noise off: no Pauli is chosen, the register is returned untouched, the idle clock is not even read *)
Theorem C19_no_noise_identity : forall p x,
  decide false p x = None /\
  (forall n num t, noise_step false p x n num t = t) /\
  (forall last now1 now2, idle_update false last now1 now2 = (None, last)).
Proof. exact no_noise_identity_lemma. Qed.
Print Assumptions C19_no_noise_identity.

(* noise on, 0 <= p <= 1/4, draw x >= 0: X, Y, Z are selected exactly on [0,p), [p,2p), [2p,3p);
   these lie inside [0,1), have length p each and are pairwise disjoint; otherwise nothing is applied *)
Theorem C19_branches : forall p x, 0 <= p -> p <= 1 # 4 -> 0 <= x ->
  (decide true p x = Some PX <-> 0 <= x /\ x < p) /\
  (decide true p x = Some PY <-> p <= x /\ x < 2 * p) /\
  (decide true p x = Some PZ <-> 2 * p <= x /\ x < 3 * p) /\
  (decide true p x = None <-> 3 * p <= x) /\
  (decide true p x <> None -> 0 <= x /\ x < 1) /\
  (p - 0 == p /\ 2 * p - p == p /\ 3 * p - 2 * p == p) /\
  (~ (x < p /\ p <= x) /\ ~ (x < 2 * p /\ 2 * p <= x) /\ ~ (x < p /\ 2 * p <= x)).
Proof. exact branches_lemma. Qed.
Print Assumptions C19_branches.

Theorem C19_never_identity_pauli : forall noisy p x, decide noisy p x <> Some PI.
Proof. exact decide_never_I. Qed.
Print Assumptions C19_never_identity_pauli.

(* "with probability p each": of N equally spaced draws k/N, with p = m/N and 3m <= N, exactly m select X,
   m select Y, m select Z and N - 3m select nothing — for every N and m *)
Theorem C19_uniform_share : forall N m : nat, (0 < N)%nat -> (3 * m <= N)%nat ->
  count_sel (Some PX) (draw N m) N = m /\
  count_sel (Some PY) (draw N m) N = m /\
  count_sel (Some PZ) (draw N m) N = m /\
  count_sel None (draw N m) N = (N - 3 * m)%nat.
Proof. exact uniform_share_lemma. Qed.
Print Assumptions C19_uniform_share.

(* the float code (thresholds p, 2p exact, fl(3p)) differs from the real-number reading at most for a
   draw lying between 3p and its rounding *)
Theorem C19_float_thresholds : forall p p3 x,
  decide_thr true p (2 * p) p3 x <> decide true p x ->
  (p3 <= x /\ x < 3 * p) \/ (3 * p <= x /\ x < p3).
Proof. exact decide_thr_vs_decide. Qed.
Print Assumptions C19_float_thresholds.

(* to that qubit only: every generator keeps all its Pauli letters; its sign flips exactly when its letter
   at position num anticommutes with the applied Pauli — nothing else of the register enters *)
Theorem C19_only_that_qubit : forall o n num t, (num < n)%nat -> Forall (wf_row n) t ->
  length (apply_noise o n num t) = length t /\
  forall i, (i < length t)%nat ->
    let r := nth i t [] in let r' := nth i (apply_noise o n num t) [] in
    snd (decode n r') = snd (decode n r) /\
    fst (decode n r') = xorb (fst (decode n r))
                             (match o with Some P => anticomm1 P (nth num (snd (decode n r)) PI) | None => false end).
Proof. exact only_that_qubit_lemma. Qed.
Print Assumptions C19_only_that_qubit.
