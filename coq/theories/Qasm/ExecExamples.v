(* Non-vacuity: the hypotheses of the Model-N theorems are satisfied by non-trivial reachable states. *)
From Coq Require Import List Bool Arith Lia.
From SQ Require Import Base.ListUtil Stab.Tableau Net.Model Net.Refusal Net.Handles Qasm.Exec Qasm.ExecProps.
Import ListNotations.

(* one node (3 qubits, 5 registers); application 7 allocates addresses 2 and 0, entangles them, frees 2, re-allocates 2 *)
Definition ex_prog : list qinstr :=
  [QInitApp 7 4; QAlloc 7 2; QAlloc 7 0; QG1 7 2 VH; QG2 7 2 0 VCnot].
Definition ex_state : qst := run_q 0 (init_q [(3, 5)]) ex_prog.

Example ex_handles : handle_of (q_host ex_state) 7 2 = Some 0 /\ handle_of (q_host ex_state) 7 0 = Some 1
                     /\ handle_of (q_host ex_state) 7 1 = None.
Proof. vm_compute. auto. Qed.

Example ex_live : exists vq x rg, find_handle (q_net ex_state) 0 = Some (0, vq) /\ locate (q_net ex_state) vq = Some (x, rg).
Proof. vm_compute. eauto. Qed.

Example ex_hinv : hinv ex_state.
Proof. apply addr_inv_reachable. Qed.

(* instr_targets instance: cnot a2 a0 issues the native CNOT with control handle 0 and target handle 1 *)
Example ex_cnot_trace : snd (exec 0 ex_state (QG2 7 2 0 VCnot)) = [(OGate2 0 1 NCnot, OkNone)]
                        /\ snd (exec 0 ex_state (QG2 7 0 2 VCnot)) = [(OGate2 1 0 NCnot, OkNone)].
Proof. vm_compute. auto. Qed.

(* unsupported_refused instance *)
Example ex_t_refused : exec 0 ex_state (QG1 7 2 VT) = (ex_state, RErr, [(OGate1 0 NT, Err KUnsupported)]).
Proof. vm_compute. reflexivity. Qed.

(* re-allocation after a free: address 2 denoted handle 0, afterwards handle 2; handle 0 is stale for ever *)
Definition ex_realloc : qst := run_q 0 ex_state [QFree 7 2 true; QAlloc 7 2].
Example ex_realloc_fresh : handle_of (q_host ex_realloc) 7 2 = Some 2 /\ stale (q_net ex_realloc) 0
                           /\ position (q_host ex_realloc) 7 2 = Some 0.
Proof. vm_compute. auto. Qed.

(* a refused qalloc (node full) is rolled back: the address is not mapped afterwards, the host bookkeeping is as before *)
Definition ex_one : qst := run_q 0 (init_q [(1, 5)]) [QInitApp 0 2; QAlloc 0 0].
Example ex_full_refused : snd (fst (exec 0 ex_one (QAlloc 0 1))) = RErr
                          /\ q_host (fst (fst (exec 0 ex_one (QAlloc 0 1)))) = q_host ex_one
                          /\ position (q_host ex_one) 0 1 = None.
Proof. vm_compute. auto. Qed.
