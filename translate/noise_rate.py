#!/usr/bin/env python3
"""Gen/NoiseRateGen.v: the expression assigned to `p` in _apply_random_pauli_noise as a Coq real-number
function, with the obligation gen_rate_eq (= Noise.Rate.rate).  See translate/noise.py."""
import os
import sys

sys.path.insert(0, os.path.dirname(os.path.abspath(__file__)))
import noise  # noqa: E402

if __name__ == "__main__":
    try:
        sys.stdout.write(noise.translate_rate(sys.argv[1]))
    except noise.TranslateError as e:
        sys.stderr.write("TRANSLATE-ERROR %s\n" % e)
        sys.exit(2)
