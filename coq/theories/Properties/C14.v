(* C14 — stabilizer measurement.  Only statements, each closed by `exact`, each followed by Print Assumptions. *)
From Coq Require Import List Bool Arith.
From SQ Require Import Base.ListUtil Stab.Pauli Stab.Kernels Stab.Tableau Stab.MeasureProof.
Import ListNotations.

(* random branch: the outcome is the coin, for both coins (hence both outcomes occur) *)
Theorem C14_meas_random_outcome : forall n p ip coin t,
  random_branch n p t = true -> fst (fst (measure n p ip coin t)) = coin.
Proof. exact meas_random_outcome. Qed.
Print Assumptions C14_meas_random_outcome.
