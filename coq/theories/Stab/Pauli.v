(* Single-qubit Paulis, phases i^k, products, and the Clifford conjugation tables.
   The tables are *checked against matrices* in PauliMat.v (finite domain). *)
From Coq Require Import List Bool Arith Lia.
Import ListNotations.

Inductive pauli := PI | PX | PY | PZ.
Inductive ph := P0 | P1 | P2 | P3.          (* i^0, i^1, i^2, i^3 *)

Definition pauli_eqb (a b : pauli) : bool :=
  match a, b with PI,PI | PX,PX | PY,PY | PZ,PZ => true | _,_ => false end.
Lemma pauli_eqb_spec a b : pauli_eqb a b = true <-> a = b.
Proof. destruct a, b; simpl; split; intro H; try discriminate; auto. Qed.

Definition ph_eqb (a b : ph) : bool :=
  match a, b with P0,P0 | P1,P1 | P2,P2 | P3,P3 => true | _,_ => false end.
Lemma ph_eqb_spec a b : ph_eqb a b = true <-> a = b.
Proof. destruct a, b; simpl; split; intro H; try discriminate; auto. Qed.

Definition padd (a b : ph) : ph :=
  match a, b with
  | P0, x | x, P0 => x
  | P1,P1 => P2 | P1,P2 => P3 | P1,P3 => P0
  | P2,P1 => P3 | P2,P2 => P0 | P2,P3 => P1
  | P3,P1 => P0 | P3,P2 => P1 | P3,P3 => P2
  end.
Lemma padd_assoc a b c : padd a (padd b c) = padd (padd a b) c.
Proof. destruct a, b, c; reflexivity. Qed.
Lemma padd_comm a b : padd a b = padd b a.
Proof. destruct a, b; reflexivity. Qed.
Lemma padd_0_l a : padd P0 a = a. Proof. destruct a; reflexivity. Qed.
Lemma padd_0_r a : padd a P0 = a. Proof. destruct a; reflexivity. Qed.

Definition ph_of_sign (s : bool) : ph := if s then P2 else P0.

(* bits <-> pauli, as in StabilizerState.bool2Pauli *)
Definition pauli_of (x z : bool) : pauli :=
  match x, z with false,false => PI | true,false => PX | true,true => PY | false,true => PZ end.
Definition xbit (p : pauli) : bool := match p with PX | PY => true | _ => false end.
Definition zbit (p : pauli) : bool := match p with PY | PZ => true | _ => false end.
Lemma pauli_of_bits p : pauli_of (xbit p) (zbit p) = p. Proof. destruct p; reflexivity. Qed.
Lemma xbit_pauli_of x z : xbit (pauli_of x z) = x. Proof. destruct x, z; reflexivity. Qed.
Lemma zbit_pauli_of x z : zbit (pauli_of x z) = z. Proof. destruct x, z; reflexivity. Qed.

(* product of two single-qubit Paulis: a * b = i^k c *)
Definition pmul1 (a b : pauli) : ph * pauli :=
  match a, b with
  | PI, x | x, PI => (P0, x)
  | PX,PX | PY,PY | PZ,PZ => (P0, PI)
  | PX,PY => (P1, PZ) | PY,PZ => (P1, PX) | PZ,PX => (P1, PY)
  | PY,PX => (P3, PZ) | PZ,PY => (P3, PX) | PX,PZ => (P3, PY)
  end.

Definition anticomm1 (a b : pauli) : bool :=
  xorb (xbit a && zbit b) (zbit a && xbit b).

(* single-qubit Clifford gates supported by the stabilizer backend *)
Inductive gate1 := GX | GY | GZ | GH | GK | GS.
Inductive gate2 := GCNOT | GCZ.

(* U P U^dagger = (-1)^flip P'   — table, checked against matrices in PauliMat.v *)
Definition conj1_tbl (g : gate1) (p : pauli) : bool * pauli :=
  match g, p with
  | _, PI => (false, PI)
  | GX, PX => (false, PX) | GX, PY => (true, PY)  | GX, PZ => (true, PZ)
  | GY, PX => (true, PX)  | GY, PY => (false, PY) | GY, PZ => (true, PZ)
  | GZ, PX => (true, PX)  | GZ, PY => (true, PY)  | GZ, PZ => (false, PZ)
  | GH, PX => (false, PZ) | GH, PY => (true, PY)  | GH, PZ => (false, PX)
  | GK, PX => (true, PX)  | GK, PY => (false, PZ) | GK, PZ => (false, PY)
  | GS, PX => (false, PY) | GS, PY => (true, PX)  | GS, PZ => (false, PZ)
  end.

(* two-qubit: U (Pc (x) Pt) U^dagger = (-1)^flip (Pc' (x) Pt') *)
Definition conj2_tbl (g : gate2) (pc pt : pauli) : bool * (pauli * pauli) :=
  match g with
  | GCNOT =>
      let xc := xbit pc in let zc := zbit pc in let xt := xbit pt in let zt := zbit pt in
      (xc && zt && negb (xorb xt zc), (pauli_of xc (xorb zc zt), pauli_of (xorb xt xc) zt))
  | GCZ =>
      let xc := xbit pc in let zc := zbit pc in let xt := xbit pt in let zt := zbit pt in
      (xc && xt && xorb zc zt, (pauli_of xc (xorb zc xt), pauli_of xt (xorb zt xc)))
  end.

(* The tables are homomorphisms of the single-/two-qubit Pauli group (finite checks). *)
Lemma conj1_tbl_hom g a b :
  let '(k, c) := pmul1 a b in
  let '(fa, a') := conj1_tbl g a in
  let '(fb, b') := conj1_tbl g b in
  let '(fc, c') := conj1_tbl g c in
  let '(k', c'') := pmul1 a' b' in
  c'' = c' /\ padd k' (padd (ph_of_sign fa) (ph_of_sign fb)) = padd k (ph_of_sign fc).
Proof. destruct g, a, b; simpl; auto. Qed.

Lemma conj1_tbl_inj g a b : snd (conj1_tbl g a) = snd (conj1_tbl g b) -> a = b.
Proof. destruct g, a, b; simpl; intro H; try discriminate; auto. Qed.

Lemma conj1_tbl_anticomm g a b :
  anticomm1 (snd (conj1_tbl g a)) (snd (conj1_tbl g b)) = anticomm1 a b.
Proof. destruct g, a, b; reflexivity. Qed.

Lemma conj2_tbl_hom g a1 a2 b1 b2 :
  let '(k1, c1) := pmul1 a1 b1 in
  let '(k2, c2) := pmul1 a2 b2 in
  let '(fa, (a1', a2')) := conj2_tbl g a1 a2 in
  let '(fb, (b1', b2')) := conj2_tbl g b1 b2 in
  let '(fc, (c1', c2')) := conj2_tbl g c1 c2 in
  let '(k1', d1) := pmul1 a1' b1' in
  let '(k2', d2) := pmul1 a2' b2' in
  d1 = c1' /\ d2 = c2' /\
  padd (padd k1' k2') (padd (ph_of_sign fa) (ph_of_sign fb)) = padd (padd k1 k2) (ph_of_sign fc).
Proof. destruct g, a1, a2, b1, b2; simpl; auto. Qed.

Lemma conj2_tbl_inj g a1 a2 b1 b2 :
  snd (conj2_tbl g a1 a2) = snd (conj2_tbl g b1 b2) -> a1 = b1 /\ a2 = b2.
Proof. destruct g, a1, a2, b1, b2; simpl; intro H; try discriminate; auto. Qed.

Lemma conj2_tbl_anticomm g a1 a2 b1 b2 :
  let '(_, (a1', a2')) := conj2_tbl g a1 a2 in
  let '(_, (b1', b2')) := conj2_tbl g b1 b2 in
  xorb (anticomm1 a1' b1') (anticomm1 a2' b2') = xorb (anticomm1 a1 b1) (anticomm1 a2 b2).
Proof. destruct g, a1, a2, b1, b2; reflexivity. Qed.
