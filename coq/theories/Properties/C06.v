(* C06 — stale handles are inert: an operation of any kind through a handle that no node lists any more
   is the identity on the whole network state. *)
From Coq Require Import List Bool Arith.
From SQ Require Import Base.ListUtil Net.Model Net.Refusal Net.Handles.
Import ListNotations.

Theorem C06_stale_gate1 : forall s h g, stale s h -> step s (OGate1 h g) = (s, Ignored).
Proof. exact stale_gate1. Qed.
Print Assumptions C06_stale_gate1.
Theorem C06_stale_measure : forall s h ip c, stale s h -> step s (OMeas h ip c) = (s, Ignored).
Proof. exact stale_meas. Qed.
Print Assumptions C06_stale_measure.
Theorem C06_stale_send : forall s h t, stale s h -> step s (OSend h t) = (s, Ignored).
Proof. exact stale_send. Qed.
Print Assumptions C06_stale_send.
Theorem C06_stale_control : forall s h h2 g, stale s h -> step s (OGate2 h h2 g) = (s, Ignored).
Proof. exact stale_gate2_control. Qed.
Print Assumptions C06_stale_control.
Theorem C06_stale_target : forall s h1 h g, stale s h -> step s (OGate2 h1 h g) = (s, Ignored).
Proof. exact stale_gate2_target. Qed.
Print Assumptions C06_stale_target.

(* a handle whose qubit was sent away or measured destructively IS stale, and stays stale for ever:
   handle ids are never reused (reachable states, any later history) *)
Theorem C06_departed_is_stale_forever : forall caps ops1 o ops2 h v,
  (exists t, o = OSend h t) \/ (exists c, o = OMeas h false c) ->
  snd (step (run (init_net caps) ops1) o) = Ok v ->
  stale (run (fst (step (run (init_net caps) ops1) o)) ops2) h.
Proof. exact departed_stale_forever. Qed.
Print Assumptions C06_departed_is_stale_forever.

(* whole histories: any sequence of operations each going through a stale handle (for a two-qubit gate: either operand)
   leaves the complete network state unchanged and every one of them is answered Ignored *)
Theorem C06_stale_history_inert : forall ops s,
  Forall (through_stale s) ops -> run s ops = s /\ run_outs s ops = map (fun _ => Ignored) ops.
Proof. exact stale_history_inert. Qed.
Print Assumptions C06_stale_history_inert.
