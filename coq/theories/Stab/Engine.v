(* Executable model of stabilizerEngine (simulaqron/virtual_node/stabilizer_simulator.py:34-259) on top of
   the tableau model.  One `step` per interface call; refusals return the engine unchanged.
   The engine keeps `activeQubits` (= StabilizerState._nr_rows) next to the generator matrix, as the code does. *)
From Coq Require Import List Bool Arith Lia.
From SQ Require Import Base.ListUtil Stab.Pauli Stab.Kernels Stab.Tableau.
Import ListNotations.

Record engine := mkE { e_max : nat; e_n : nat; e_tab : tab }.

Definition new_engine (maxq : nat) : engine := mkE maxq 0 [].

(* exception classes seen through the interface *)
Inductive eerr :=
| ENoQubit        (* basics.noQubitError *)
| EQuantum        (* basics.quantumError *)
| EValue          (* ValueError (StabilizerState position / data checks) *)
| EUnsupported    (* general.SimUnsupportedError *)
| ENotImpl        (* NotImplementedError (replace_qubit) *)
| EOther.         (* anything else: never produced by the model *)

Inductive eres := RUnit | RNat (k : nat) | ROutcome (b : bool) | RErr (e : eerr).

(* the gates of the common register interface (basics.quantumEngine) and apply_S, which stabilizerEngine offers since the repair of D7 *)
Inductive egate1 := EX | EY | EZ | EH | EK | ES.
Definition gate1_of (g : egate1) : gate1 :=
  match g with EX => GX | EY => GY | EZ => GZ | EH => GH | EK => GK | ES => GS end.
Inductive egate2 := ECNOT | ECPHASE.
Definition gate2_of (g : egate2) : gate2 := match g with ECNOT => GCNOT | ECPHASE => GCZ end.

Inductive unsup := UT | URot | UOne | UTwo | UReplace.

Inductive ecall :=
| KAddFresh
| KAddQubit (data : list row)                 (* add_qubit(newQubit): boolean matrix accepted by StabilizerState *)
| KRemove (q : nat) (coin : bool)
| KGate1 (g : egate1) (q : nat)
| KGate2 (g : egate2) (q1 q2 : nat)
| KUnsupported (u : unsup)
| KMeasInplace (q : nat) (coin : bool)
| KMeasure (q : nat) (coin : bool)
| KAbsorb (other : engine)
| KAbsorbParts (R : list row) (activeQ : nat).

(* StabilizerState(data) for a list of boolean lists, check_symplectic=True (stabilizer_states.py:112-159):
   n x 2n gets a zero sign column, n x (2n+1) is taken as is, anything else (ragged included) is a ValueError,
   as is a set of generators that do not commute.  The empty list is the empty state. *)
Definition mk_state (d : list row) : option (nat * tab) :=
  let m := length d in
  if Nat.eqb m 0 then Some (0, [])
  else
    let chk (t : tab) := if all_commute m t then Some (m, t) else None in
    if forallb (fun r => Nat.eqb (length r) (2 * m)) d then chk (map (fun r => r ++ [false]) d)
    else if forallb (fun r => Nat.eqb (length r) (2 * m + 1)) d then chk d
    else None.

Definition apply_measure (e : engine) (q : nat) (inplace coin : bool) : engine * bool :=
  let '(o, n', t') := measure (e_n e) q inplace coin (e_tab e) in
  (mkE (e_max e) n' t', o).

Definition step (e : engine) (c : ecall) : engine * eres :=
  let n := e_n e in
  match c with
  | KAddFresh =>
      if Nat.leb (e_max e) n then (e, RErr ENoQubit)
      else (mkE (e_max e) (S n) (add_qubit n (e_tab e)), RNat n)
  | KAddQubit d =>
      match mk_state d with
      | None => (e, RErr EValue)
      | Some (m, t) =>
          (* size check as repaired by fixes/D18 (the unrepaired code has no check here) *)
          if Nat.ltb (e_max e) (n + m) then (e, RErr ENoQubit)
          else (mkE (e_max e) (n + m) (tensor n (e_tab e) m t), RNat n)
      end
  | KRemove q coin =>
      if Nat.ltb n (q + 1) then (e, RErr EQuantum)
      else (fst (apply_measure e q false coin), RUnit)
  | KGate1 g q =>
      if Nat.ltb q n then (mkE (e_max e) n (tab_gate1 (gate1_of g) n q (e_tab e)), RUnit)
      else (e, RErr EValue)
  | KGate2 g q1 q2 =>
      if Nat.ltb q1 n && Nat.ltb q2 n && negb (Nat.eqb q1 q2)
      then (mkE (e_max e) n (tab_gate2 (gate2_of g) n q1 q2 (e_tab e)), RUnit)
      else (e, RErr EValue)
  | KUnsupported u =>
      (e, RErr (match u with UReplace => ENotImpl | _ => EUnsupported end))
  | KMeasInplace q coin =>
      if Nat.ltb n (q + 1) then (e, RErr EQuantum)
      else let '(e', o) := apply_measure e q true coin in (e', ROutcome o)
  | KMeasure q coin =>
      if Nat.ltb q n then let '(e', o) := apply_measure e q false coin in (e', ROutcome o)
      else (e, RErr EValue)
  | KAbsorb other =>
      if Nat.ltb (e_max e) (n + e_n other) then (e, RErr EQuantum)
      else (mkE (e_max e) (n + e_n other) (tensor n (e_tab e) (e_n other) (e_tab other)), RUnit)
  | KAbsorbParts R activeQ =>
      if Nat.ltb (e_max e) (n + activeQ) then (e, RErr EQuantum)
      else match mk_state R with
           | None => (e, RErr EValue)
           | Some (m, t) => (mkE (e_max e) (n + m) (tensor n (e_tab e) m t), RUnit)
           end
  end.

(* get_register_RI() and activeQubits: what another register receives when this one is exported *)
Definition export (e : engine) : list row * nat := (e_tab e, e_n e).

Definition run (e : engine) (cs : list ecall) : engine := fold_left (fun e c => fst (step e c)) cs e.

(* ---------- programs over a pool of engines (used by the correspondence) --------------------------- *)
Inductive pcall :=
| PNew (maxq : nat)
| PCall (i : nat) (c : ecall)
| PAbsorb (i j : nat)
| PAbsorbExported (i j : nat).      (* absorb_parts of pool[i] with get_register_RI and activeQubits of pool[j] *)

Definition dummy_engine := new_engine 0.

Definition pstep (pool : list engine) (c : pcall) : list engine * eres :=
  match c with
  | PNew m => (pool ++ [new_engine m], RUnit)
  | PCall i k =>
      let '(e', r) := step (nth i pool dummy_engine) k in (upd pool i e', r)
  | PAbsorb i j =>
      let '(e', r) := step (nth i pool dummy_engine) (KAbsorb (nth j pool dummy_engine)) in (upd pool i e', r)
  | PAbsorbExported i j =>
      let '(R, a) := export (nth j pool dummy_engine) in
      let '(e', r) := step (nth i pool dummy_engine) (KAbsorbParts R a) in (upd pool i e', r)
  end.
