(* C03 / C04, refuted part 2 (D6): the timeout branch of _lock_nodes.  Two crossing two-qubit gates (operation 0 issued at
   node 0 with a register at node 1, operation 1 the other way round).  The traces below were recorded from the implementation
   by harness/conc.py (known_findings.d/C04.json, C03.json) and are replayed there on every run. *)
From Coq Require Import List Bool Arith Lia.
From SQ Require Import Base.ListUtil Conc.Model Conc.Own.
Import ListNotations.

Definition cfg_cross : list okind := [KGate2 0; KGate2 1].

(* both operations return; afterwards request 4 of operation 1, orphaned by its timeout branch, is granted: the lock of node 0
   is held for ever *)
Definition leak_trace : list ev :=
  [EIssue 0; ELockn 0 [1]; EReq 0 0 1; EAcq 0 0 1; EReq 1 0 2; EAcq 1 0 2; EIssue 1; ELockn 1 [0]; EReq 1 1 3; EReq 0 1 4;
   ERel 0 0 true; ETimeout 1; ERel 1 0 true; ERel 0 1 false; EDone 0; ERel 1 1 false; ELockn 1 [0]; EReq 1 1 5; EAcq 1 1 5;
   EReq 0 1 6; EAcq 0 1 6; ERel 0 1 true; ERel 1 1 true; EDone 1; EAcq 0 1 4].

(* once every operation has returned nobody releases anything any more *)
Definition all_done (s : st) : Prop := forall o, op_of s o = SDone.

Lemma all_done_step cfg s e s' :
  all_done s -> step cfg s e = Some s' ->
  all_done s' /\ forall n x, lock_of s n = Some x -> lock_of s' n = Some x.
Proof.
  intros AD ST. destruct e as [o|o rs|n o r|n o r|n o was|o|o]; simpl in ST; try (rewrite (AD o) in ST).
  - discriminate.
  - destruct (kind_of cfg o); discriminate.
  - destruct (replace_first (orph_flight n o) (n, o, Some r) (orph s)); try discriminate. inv ST. split; auto.
  - destruct (lock_of s n) eqn:El; try discriminate.
    destruct (Nat.ltb n (length (locks s))); try discriminate.
    destruct (remove_first (orph_poll n o r) (orph s)); try discriminate. inv ST. split.
    + intros o'. apply AD.
    + intros m x E. rewrite lock_set_neq; auto. intro; subst. simpl in *. congruence.
  - discriminate.
  - destruct (kind_of cfg o); discriminate.
  - discriminate.
Qed.

Lemma all_done_run cfg tr : forall s s',
  all_done s -> run cfg s tr = Some s' -> forall n x, lock_of s n = Some x -> lock_of s' n = Some x.
Proof.
  induction tr as [|e t IH]; simpl; intros s s' AD R n x E.
  - inv R. auto.
  - destruct (step cfg s e) as [s0|] eqn:ST; try discriminate.
    destruct (all_done_step _ _ _ _ AD ST) as [AD' K]. eapply IH; eauto.
Qed.

Lemma all_done_of_list (s : st) : forallb is_done (ops s) = true -> all_done s.
Proof.
  intros H o. unfold op_of. destruct (Nat.lt_ge_cases o (length (ops s))).
  - rewrite forallb_forall in H. specialize (H (nth o (ops s) SDone) (nth_In _ _ H0)).
    destruct (nth o (ops s) SDone); simpl in H; try discriminate. reflexivity.
  - apply nth_overflow. auto.
Qed.

Theorem orphan_lock_leak_lemma :
  exists s, run cfg_cross (init 2 cfg_cross) leak_trace = Some s /\
    done s 0 = true /\ done s 1 = true /\ lock_of s 0 = Some (1, true) /\
    forall tr' s', run cfg_cross s tr' = Some s' -> lock_of s' 0 = Some (1, true).
Proof.
  destruct (run cfg_cross (init 2 cfg_cross) leak_trace) as [s|] eqn:R; [|vm_compute in R; discriminate].
  exists s. split; auto.
  assert (E : s = mk [Some (1, true); None] [SDone; SDone] []) by (vm_compute in R; inv R; reflexivity).
  subst s. repeat split; try reflexivity.
  intros tr' s' R'. eapply all_done_run; eauto. apply all_done_of_list. reflexivity.
Qed.

(* mutual exclusion fails: operation 0 is inside its critical section over nodes 0 and 1 (all requests granted) when the
   release_global_lock sent by the timeout branch of operation 1 arrives at node 0 and frees the lock operation 0 holds there
   (in the implementation the gate body of operation 0 then fails with AssertionError "No global lock present") *)
Definition critical (s : st) (o : opid) (n : nid) : bool :=
  match op_of s o with SG2 reqs => all_granted reqs && mem n (map fst reqs) | _ => false end.

Definition steal_trace : list ev :=
  [EIssue 0; ELockn 0 [1]; EReq 0 0 1; EAcq 0 0 1; EIssue 1; ELockn 1 [0]; EReq 1 1 2; EAcq 1 1 2;
   ETimeout 1; ERel 1 1 true; EReq 1 0 3; EAcq 1 0 3; EReq 0 1 4; ERel 0 1 true].

Theorem mutual_exclusion_refuted_lemma :
  exists s, run cfg_cross (init 2 cfg_cross) steal_trace = Some s /\
    critical s 0 0 = true /\ critical s 0 1 = true /\ lock_of s 0 = None.
Proof. eexists. split; [vm_compute; reflexivity|]. repeat split. Qed.

(* the release that did it: issued on behalf of operation 1 on the lock held by operation 0 *)
Theorem foreign_release_lemma :
  exists pre s, pre ++ [ERel 0 1 true] = steal_trace /\
    run cfg_cross (init 2 cfg_cross) pre = Some s /\
    critical s 0 0 = true /\ lock_of s 0 = Some (0, false).
Proof.
  exists (firstn 13 steal_trace). eexists. split; [reflexivity|]. split; [vm_compute; reflexivity|]. split; reflexivity.
Qed.
