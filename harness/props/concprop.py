"""Shared driver of C03 (serializability) and C04 (completion, no lock outlives an operation): scenarios, schedule
exploration on the real-PB network (harness/conc.py), oracles, classification of failures by trigger class."""
import json
import os

import common
import conc
import net_sync as N
import twophase

CAPS3 = [[6, 8], [6, 8], [6, 8]]
CAPS2 = [[6, 8], [6, 8]]

KEY_D4 = "D4:send-to-issuing-node"
KEY_D5 = "D5:wait-for-cycle-of-sends"
KEY_D6 = "D6:lock_nodes-timeout-with-pending-request"
KEY_D23 = "D23:shared-handle-consumed-by-a-concurrent-operation"
KEYS = {"D4": KEY_D4, "D5": KEY_D5, "D6": KEY_D6, "D23": KEY_D23}

TRUST = ["harness/conc.py: concurrent remote_* calls on in-process virtual nodes joined by the real Perspective Broker (iosim transports); a seeded "
         "scheduler delivers single PB messages per link direction and advances a twisted task.Clock; `random.uniform` of virtual.py (lock back-off) "
         "and same-instant timer order come from seeded generators; every run is replayable from (scenario, seed, recorded choices)",
         "lock events are tapped by wrapping _get_global_lock/_release_global_lock/_lock_nodes/DeferredList.cancel/simulatedQubit.lock/unlock from outside; "
         "the issuing operation is followed through inlineCallbacks (contextvars) and across PB (request id -> operation id table)",
         "measurement coins are attached to the measured qubit (j-th random draw on a qubit = j-th scripted bit) so that concurrent and sequential runs are comparable",
         "Twisted (reactor semantics, DeferredLock, PB) is not modelled below the level of model L",
         "oracles: completion of every Deferred within 300 s of virtual time, lock flags at the end, equality of (results, bookkeeping dump by qubit identity, "
         "joint state via projector product) with one of the <= 4! sequential orders run on the direct-call network"]


# ------------------------------------------------------------------------------------------------------------------
# scenarios
# ------------------------------------------------------------------------------------------------------------------
class P:
    """prefix builder; a handle is the index of the operation that created it"""
    def __init__(self, caps=None):
        self.caps = [list(c) for c in (caps or CAPS3)]
        self.pre = []

    def new(self, n):
        self.pre.append(["new", n])
        return len(self.pre) - 1

    def send(self, h, t):
        self.pre.append(["send", h, t])
        return len(self.pre) - 1

    def g1(self, h, g):
        self.pre.append(["g1", h, g])

    def g2(self, a, b, g="cnot"):
        self.pre.append(["g2", a, b, g])

    def scn(self, name, ops, coins=None):
        return {"name": name, "caps": self.caps, "prefix": self.pre, "ops": [list(o) for o in ops], "coins": coins or {}}


def fixed_scenarios():
    out = []
    # -- single-lock fragment ------------------------------------------------------------------------------------------
    p = P(); a = p.new(0); b = p.new(1)
    out.append(p.scn("gates on disjoint registers + creation", [("g1", a, "H"), ("g1", b, "X"), ("new", 2), ("new", 0)]))
    p = P(); a = p.new(0); b = p.new(0); p.g1(a, "H"); p.g2(a, b)
    out.append(p.scn("gates and measurements on one shared register", [("g1", a, "Z"), ("g1", b, "X"), ("meas", a, 1), ("meas", b, 1)],
                     {str(a): [1, 0], str(b): [0, 1]}))
    p = P(); a = p.new(0); b = p.new(0); p.g1(a, "H"); p.g2(a, b); b1 = p.send(b, 1)
    out.append(p.scn("entangled pair, halves measured at two nodes", [("meas", a, 0), ("meas", b1, 0)], {str(a): [1], str(b): [0]}))
    out.append(p.scn("gate through a remote handle vs local gate and measurement", [("g1", b1, "H"), ("g1", a, "K"), ("meas", b1, 1), ("new", 0)],
                     {str(a): [1, 1], str(b): [1, 0]}))
    p = P([[2, 8], [6, 8], [6, 8]]); a = p.new(0)
    out.append(p.scn("three creations for one free slot", [("new", 0), ("new", 0), ("new", 0)]))
    p = P([[2, 8], [6, 8], [6, 8]]); a = p.new(0); b = p.new(1); c = p.new(2)
    out.append(p.scn("two arrivals and a creation for one free slot", [("send", b, 0), ("send", c, 0), ("new", 0)]))
    p = P([[3, 8], [6, 8], [6, 8]]); x = p.new(0); y = p.new(0); z = p.new(0); z1 = p.send(z, 1); b = p.new(1); c = p.new(2)
    out.append(p.scn("two arrivals for one free slot while the node lock is busy with a remote gate", [("g1", z1, "H"), ("send", b, 0), ("send", c, 0)]))
    out.append(p.scn("two creations and an arrival for one free slot while the node lock is busy", [("g1", z1, "H"), ("new", 0), ("new", 0), ("send", b, 0)]))
    p = P(); x = p.new(0); y = p.new(0); z = p.new(0); z1 = p.send(z, 1); b = p.new(1); c = p.new(2)
    out.append(p.scn("two arrivals with room for both while the node lock is busy with a remote gate", [("g1", z1, "H"), ("send", b, 0), ("send", c, 0)]))
    out.append(p.scn("an arrival and two creations with room for all while the node lock is busy", [("g1", z1, "K"), ("send", b, 0), ("new", 0), ("new", 0)]))
    p = P(); x = p.new(0); x1 = p.send(x, 1); y = p.new(1)
    out.append(p.scn("creations racing with a remote measurement that holds the node lock", [("meas", x1, 1), ("new", 0), ("new", 0), ("g1", y, "X")],
                     {str(x): [1, 0]}))
    p = P(); a = p.new(0); b = p.new(1); c = p.new(2)
    out.append(p.scn("sends that do not cross", [("send", a, 1), ("send", c, 1), ("g1", b, "H")]))
    p = P(); a = p.new(0); b = p.new(1)
    out.append(p.scn("send racing with gates and a measurement of other qubits at both ends", [("send", a, 1), ("g1", b, "H"), ("meas", b, 1), ("new", 1)],
                     {str(b): [1, 0]}))
    # -- merges --------------------------------------------------------------------------------------------------------
    p = P(); a = p.new(0); b = p.new(0); c = p.new(1); d = p.new(1); p.g1(a, "H"); p.g1(c, "K")
    out.append(p.scn("local merges at two different nodes", [("g2", a, b, "cnot"), ("g2", c, d, "cphase")]))
    p = P(); a = p.new(0); b = p.new(0); c = p.new(0); p.g1(a, "H"); p.g1(c, "H")
    out.append(p.scn("two merges sharing a qubit at one node", [("g2", a, b, "cnot"), ("g2", c, b, "cnot"), ("g1", b, "Z")]))
    p = P(); a = p.new(0); b = p.new(1); a1 = p.send(a, 1); b0 = p.send(b, 0); c = p.new(0); d = p.new(1); p.g1(c, "H"); p.g1(d, "H")
    out.append(p.scn("merges in crossing directions", [("g2", c, b0, "cnot"), ("g2", d, a1, "cnot")]))
    p = P(); a = p.new(0); b = p.new(1); c = p.new(2); a2 = p.send(a, 2); b2 = p.send(b, 2); p.g1(c, "H")
    out.append(p.scn("both-remote merge racing with gates at the simulating nodes", [("g2", a2, b2, "cnot"), ("new", 0), ("new", 1)]))
    p = P(); a = p.new(0); b = p.new(1); b0 = p.send(b, 0); c = p.new(1); p.g1(a, "H")
    out.append(p.scn("merge pulling a register whose node is busy with gates", [("g2", a, b0, "cnot"), ("g1", c, "H"), ("g1", c, "X")]))
    p = P(); a = p.new(0); b = p.new(1); d = p.new(1); p.g1(b, "H"); p.g2(b, d); b0 = p.send(b, 0); d2 = p.send(d, 2); p.g1(a, "H")
    out.append(p.scn("gate and measurement of a qubit whose register is being pulled to another node", [("g2", a, b0, "cnot"), ("g1", d2, "X"), ("meas", d2, 1)],
                     {str(d): [1, 0], str(b): [0]}))
    p = P(); a = p.new(0); b = p.new(1); d = p.new(1); p.g1(b, "H"); p.g2(b, d); b0 = p.send(b, 0); d2 = p.send(d, 2); c = p.new(2); p.g1(c, "H")
    out.append(p.scn("two merges pulling one register to two different nodes", [("g2", a, b0, "cnot"), ("g2", c, d2, "cnot")]))
    p = P(); a = p.new(0); b = p.new(1); b0 = p.send(b, 0); c = p.new(1); p.g1(a, "H")
    out.append(p.scn("send racing with a merge", [("g2", a, b0, "cnot"), ("send", c, 0)]))
    # four nodes: a Bell pair simulated at node 1 with its halves held at nodes 0 and 2; node 2 pulls the register while node 0
    # forwards / measures / rotates its half (numbers read before the lock, handles kept across the wait, locks released at the wrong node)
    C4 = [[6, 8], [6, 8], [6, 8], [6, 8]]
    for gate_first in (True, False):
        p = P(C4); b = p.new(1); d = p.new(1); p.g1(b, "H"); p.g2(b, d); b0 = p.send(b, 0); d2 = p.send(d, 2); c = p.new(2); p.g1(c, "H")
        pull = ("g2", c, d2, "cnot") if gate_first else ("g2", d2, c, "cnot")
        tag = "control local" if gate_first else "control remotely simulated"
        out.append(p.scn("forwarding a half to a fourth node whose register is being pulled to another node (%s)" % tag,
                         [pull, ("send", b0, 3)]))
        out.append(p.scn("measuring a half whose register is being pulled to another node (%s)" % tag,
                         [pull, ("meas", b0, 0), ("new", 1)], {str(b): [1], str(d): [0]}))
        out.append(p.scn("forwarding and gate on a half whose register is being pulled to another node (%s)" % tag,
                         [pull, ("g1", b0, "X"), ("send", b0, 3)]))
    # -- two clients, one qubit ----------------------------------------------------------------------------------------
    p = P(); a = p.new(0); b = p.new(0); p.g1(a, "H"); p.g2(a, b)
    out.append(p.scn("the same qubit sent twice", [("send", a, 1), ("send", a, 2)]))
    out.append(p.scn("send racing with a destructive measurement of the same qubit", [("send", a, 1), ("meas", a, 0)], {str(a): [1]}))
    out.append(p.scn("send racing with gates on the same qubit", [("send", a, 1), ("g1", a, "X"), ("meas", a, 1)], {str(a): [0, 1]}))
    out.append(p.scn("two destructive measurements of one qubit", [("meas", a, 0), ("meas", a, 0), ("g1", b, "X")], {str(a): [1], str(b): [0]}))
    out.append(p.scn("merge racing with a send of its target", [("g2", a, b, "cphase"), ("send", b, 1)]))
    out.append(p.scn("merge racing with a destructive measurement of its control", [("g2", a, b, "cnot"), ("meas", a, 0), ("g1", b, "H")], {str(a): [1]}))
    p = P([[2, 8], [3, 8], [3, 8]]); a = p.new(1); b = p.new(2); a2 = p.send(a, 2); p.g1(b, "K")
    out.append(p.scn("send, merge and measurement through one handle", [("send", a2, 0), ("g2", a2, b, "cphase"), ("meas", a2, 1)], {str(a): [0, 1]}))
    # -- the expected deadlocks ----------------------------------------------------------------------------------------
    p = P(); a = p.new(0); b = p.new(1)
    out.append(p.scn("crossing sends", [("send", a, 1), ("send", b, 0)]))
    p = P(); a = p.new(0); b = p.new(1); c = p.new(2)
    out.append(p.scn("cyclic sends", [("send", a, 1), ("send", b, 2), ("send", c, 0)]))
    p = P(); a = p.new(0); b = p.new(1)
    out.append(p.scn("send addressed to the issuing node", [("send", a, 0), ("new", 1)]))
    out.append(p.scn("send addressed to the issuing node, racing with a creation there", [("send", a, 0), ("new", 0), ("g1", b, "X")]))
    return out


def random_scenario(rng, idx):
    n = rng.choice([2, 3, 3])
    small = rng.random() < 0.25
    caps = [[rng.choice([2, 3]) if small else 6, 8] for _ in range(n)]
    p = P(caps)
    holder, oid = {}, {}
    for _ in range(rng.randrange(2, 6)):
        node = rng.randrange(n)
        if sum(1 for h in holder if holder[h] == node) >= caps[node][0] - (1 if small else 0):
            continue
        h = p.new(node)
        holder[h], oid[h] = node, h
    if not holder:
        h = p.new(0)
        holder[h], oid[h] = 0, h
    for _ in range(rng.randrange(0, 6)):
        live = sorted(holder)
        k = rng.choice(["send", "send", "g1", "g2", "g2"])
        h = rng.choice(live)
        if k == "send":
            t = rng.choice([x for x in range(n) if x != holder[h]])
            if sum(1 for x in holder if holder[x] == t) >= caps[t][0]:
                continue
            h2 = p.send(h, t)
            holder[h2], oid[h2] = t, oid[h]
            del holder[h]
        elif k == "g1":
            p.g1(h, rng.choice(["H", "K", "X"]))
        else:
            co = [x for x in live if x != h and holder[x] == holder[h]]
            if co:
                p.g2(h, rng.choice(co), rng.choice(["cnot", "cphase"]))
    live = sorted(holder)
    ops = []
    pop = {i: sum(1 for h in holder if holder[h] == i) for i in range(n)}
    for _ in range(rng.choice([2, 2, 3, 3, 4])):
        k = rng.choice(["g1", "g1", "g2", "g2", "g2", "meas", "meas", "send", "send", "send", "new", "new"])
        h = rng.choice(live)
        if k == "g2":
            co = [x for x in live if x != h and holder[x] == holder[h]]
            if co:
                ops.append(["g2", h, rng.choice(co), rng.choice(["cnot", "cphase"])])
                continue
            k = "g1"
        if k == "g1":
            ops.append(["g1", h, rng.choice(["H", "K", "X", "Z", "Y"])])
        elif k == "meas":
            ops.append(["meas", h, int(rng.random() < 0.5)])
        elif k == "send":
            if rng.random() < 0.04:
                ops.append(["send", h, holder[h]])
            else:
                ops.append(["send", h, rng.choice([x for x in range(n) if x != holder[h]])])
        else:
            ops.append(["new", rng.randrange(n)])
    coins = {str(o): [rng.randrange(2) for _ in range(3)] for o in set(oid.values())}
    for k in range(len(ops)):
        coins[str(1000 + k)] = [rng.randrange(2)]
    return p.scn("random %d" % idx, ops, coins)


# ------------------------------------------------------------------------------------------------------------------
# exploration
# ------------------------------------------------------------------------------------------------------------------
def footprint(scn):
    kinds = sorted(o[0] for o in scn["ops"])
    return "+".join(kinds)


def judge(res, scn, seqs):
    """verdict of one run under both properties + trigger class of a failure"""
    v4 = conc.c04_verdict(res)
    v3 = conc.c03_verdict(res, seqs)
    all_done = not v4["hung"]
    c03_fail = all_done and v3["applicable"] and not v3["ok"]
    c04_fail = not v4["ok"]
    cls, why = (None, "")
    if c03_fail or c04_fail:
        cls, why = conc.classify(res, scn)
    return {"c03_fail": c03_fail, "c04_fail": c04_fail, "v3": v3, "v4": v4, "class": cls, "why": why,
            "c03_judged": all_done and v3["applicable"]}


LP_TAGS = {"listed-class": "lockpoint_runs_in_a_listed_trigger_class", "unattributed": "lockpoint_runs_with_unattributed_lock_events",
           "not-legal": "lockpoint_runs_not_legal", "not-two-phase": "lockpoint_runs_not_two_phase",
           "lockpoint": "lockpoint_order_matches", "other": "other_order_matches"}
LP_OTHER = []          # serializable two-phase runs that are NOT explained by the sequential run in lock-point order
LP_SCHEDS = []         # (python lock schedule, python lock order) of runs with a prediction: tied to Coq's lock_order below


def listed_trigger(a):
    """the run lies in the trigger class of a listed finding whether or not it failed (same tests as conc.classify)"""
    trig = [t for t in a["timeouts"] if t["pending_nodes"]]
    if trig and (a["foreign_releases"] or a["orphan_acquired"] or a["orphans_pending"]):
        return "D6"
    if conc.shared_consumed_handles(a["ops"]):
        return "D23"
    return None


def lockpoint_check(ctx, scn, res, j, a):
    """Conc/TwoPhase.v predicts WHICH sequential order explains a two-phase run: the order of the last lock acquisitions.  Counted for
    every completed run the independent oracle found serializable; never replaces that oracle."""
    if not (j["c03_judged"] and j["v3"]["ok"]):
        return
    tag, lo = twophase.verdict(res, scn, j["v3"]["orders"], listed_trigger(a))
    ctx.count(LP_TAGS[tag])
    if tag in ("lockpoint", "other"):
        ctx.count("lockpoint_runs_two_phase_with_prediction")
        if len(lo) >= 2:
            ctx.count("lockpoint_predictions_ordering_two_or_more_operations")
        if len(j["v3"]["orders"]) < _nperm(len(scn["ops"])):
            ctx.count("lockpoint_runs_where_not_every_order_matches")
            if tag == "lockpoint":
                ctx.count("lockpoint_order_matches_where_not_every_order_matches")
        if len(LP_SCHEDS) < 400:
            LP_SCHEDS.append((twophase.lock_schedule(res.trace), lo))
    if tag == "other" and len(LP_OTHER) < 40:
        LP_OTHER.append({"scenario": scn["name"], "ops": scn["ops"], "prefix": scn["prefix"], "seed": res.seed, "lock_point_order": lo,
                         "matching_orders": j["v3"]["orders"], "results": [list(r) for r in res.results],
                         "lock_schedule": [list(e) for e in twophase.lock_schedule(res.trace)]})


def lockpoint_scenarios():
    """the footprint of a destructive measurement is NOT covered by node locks: `self.virtNode.root.virtQubits.remove(self)`
    (virtual.py:1377) runs at the node holding the handle under the lock of the SIMULATING node only.  A creation / arrival at the
    holding node (which does hold that node's lock) sees the slot free or not depending on the moment of the removal, not on the lock
    points: serializable, but not always in lock-point order."""
    out = []
    p = P([[6, 8], [2, 8]]); x = p.new(0); x1 = p.send(x, 1); p.new(1)
    out.append(p.scn("destructive measurement through a remote handle racing with a creation for the slot it frees",
                     [("meas", x1, 0), ("new", 1)], {str(x): [1]}))
    p = P([[6, 8], [2, 8], [6, 8]]); x = p.new(0); x1 = p.send(x, 1); p.new(1); z = p.new(2)
    out.append(p.scn("destructive measurement through a remote handle racing with an arrival for the slot it frees",
                     [("meas", x1, 0), ("send", z, 1)], {str(x): [1]}))
    return out


def lockpoint_report(ctx, pid):
    """(a) obligation: the predicted order is Coq's `lock_order` of the recorded lock schedule, which Coq finds legal and two-phase
    (TwoPhase.sched_report_sound); (b) NO obligation on the comparison itself: coverage of the footprint by node locks is an assumption
    about the code that does not hold everywhere (lockpoint_scenarios), so the counts are evidence, and the runs that are serializable in
    another order are written to replays/ for inspection."""
    if LP_OTHER:
        os.makedirs(os.path.join(common.VERIF, "replays"), exist_ok=True)
        with open(os.path.join(common.VERIF, "replays", "%s-not-in-lock-point-order.json" % pid), "w") as fh:
            json.dump(LP_OTHER, fh, indent=1)
        o = LP_OTHER[0]
        ctx.sample({"serializable_but_not_in_lock_point_order": o["scenario"], "ops": o["ops"], "lock_point_order": o["lock_point_order"],
                    "matching_orders": o["matching_orders"], "results": o["results"]})
    if not LP_SCHEDS:
        return
    text = (common.CASE_HEADER + "From SQ Require Import Base.ListUtil Conc.Model Conc.TwoPhase.\n"
            "Definition scheds : list (list event) := [\n" + ";\n".join(twophase.coq_sched(sc) for sc, _ in LP_SCHEDS)
            + "\n].\nEval vm_compute in (flat_map sched_report scheds).\n")
    ok, out = common.coq_eval(text, tag="lockpoint")
    lists = common.parse_nat_lists(out) if ok else []
    want = []
    for _, lo in LP_SCHEDS:
        want += [1, 1] + list(lo) + [999]
    good = ok and len(lists) == 1 and lists[0] == want
    ctx.count("lock_schedules_checked_by_coq", len(LP_SCHEDS))
    ctx.obligation("the lock-point order the harness predicts is TwoPhase.lock_order of the recorded lock schedule, and Coq finds that "
                   "schedule legal and two-phase (%d schedules)" % len(LP_SCHEDS), good,
                   "" if good else (out[-600:] if not ok else "python and Coq disagree on legal / two_phase / lock_order of a recorded schedule"))


def _nperm(n):
    r = 1
    for i in range(2, n + 1):
        r *= i
    return r


def replay_obj(scn, res, j):
    return {"scenario": scn, "seed": res.seed, "schedule": res.schedule, "results": [list(r) for r in res.results],
            "hung": j["v4"]["hung"], "locks_held_at_end": [list(x) for x in j["v4"]["locks"]], "virtual_seconds": round(res.elapsed, 3),
            "trigger": j["why"], "sequential_orders_matching": j["v3"]["orders"],
            "note": "replay: conc.run_concurrent(env, scenario, seed=seed, schedule=schedule)"}


def describe(pid, scn, res, j):
    if pid == "C04":
        return ("%s: operations %r of %r did not complete within %.0f s of virtual time; locks held at the end: %r"
                % (scn["name"], j["v4"]["hung"], scn["ops"], conc.BUDGET, j["v4"]["locks"]))
    return ("%s: results %r / final state of the concurrent run of %r equal no sequential order" % (scn["name"], res.results, scn["ops"]))


def cases_text(cases):
    return (common.CASE_HEADER + "From SQ Require Import Base.ListUtil Conc.Model Conc.Cases.\n"
            "Definition cases : list (nat * list okind * list ev * list nat * list nat * nat) := [\n"
            + ";\n".join(cases) + "\n].\nEval vm_compute in (map check_case cases).\n")


def tie_model_l(ctx, cases, shard=60):
    """cases: list of (coq text or None, description)"""
    good = [(c, d) for (c, d) in cases if c is not None]
    unattributed = len(cases) - len(good)
    ctx.count("traces_checked_against_model_L", len(good))
    if unattributed:
        ctx.count("traces_with_unattributed_lock_events", unattributed)
    shards = [good[i:i + shard] for i in range(0, len(good), shard)]
    res = common.coq_eval_many([cases_text([c for c, _ in sh]) for sh in shards])
    bad, okall = [], True
    for sh, (ok, out) in zip(shards, res):
        lists = common.parse_nat_lists(out) if ok else []
        if not ok or len(lists) != 1 or len(lists[0]) != len(sh):
            ctx.obligation("model L case file evaluates in Coq", False, out[-1500:])
            okall = False
            continue
        for (c, d), v in zip(sh, lists[0]):
            if v != 0:
                bad.append((v, d, c))
    detail = ""
    if bad:
        os.makedirs(os.path.join(common.VERIF, "replays"), exist_ok=True)
        with open(os.path.join(common.VERIF, "replays", "%s-model-L-disagreements.txt" % ctx.pid), "w") as fh:
            for v, d, c in bad:
                fh.write("%d\t%s\n%s\n" % (v, d, c))
        v, d, c = bad[0]
        why = {1: "completed operations differ", 2: "held node locks differ", 3: "model can still move in a quiescent/deadlocked state"}.get(v, "event %d rejected" % (v - 10))
        evs = c.split("], [")[1].split("; ") if "], [" in c else []
        ctxt = evs[max(0, v - 10 - 9):v - 10 + 1] if v >= 10 else evs[-8:]
        detail = "%d traces disagree; first: %s: %s; kinds %s; events around: %s" % (len(bad), d, why, c.split("], [")[0][4:], "; ".join(ctxt))
    ctx.obligation("model L (Conc/Model.v) accepts the recorded lock-event trace of every explored schedule (%d traces) and predicts the completed "
                   "operations and the held node locks" % len(good), okall and not bad and not unattributed, detail or ("%d traces with unattributed events" % unattributed if unattributed else ""))
    return bad


def explore(ctx, pid, scenarios, per_scn, env, cases=None):
    stats = ctx.coverage
    fails = {}
    runs = []
    for scn in scenarios:
        try:
            seqs = conc.sequential_runs(env, scn)
        except RuntimeError as e:
            ctx.count("scenario_prefix_failed")
            continue
        ctx.count("scenarios")
        ctx.count("sequential_reference_runs", len(seqs))
        if not any(s["complete"] for s in seqs):
            ctx.count("scenarios_without_complete_sequential_order")
        # scenarios in which a register changes its simulating node while other operations wait for it need a particular
        # interleaving (a few percent of the random schedules): they get four times as many schedules
        heavy = any(w in scn["name"] for w in ("pulled", "pulling", "crossing directions", "both-remote merge", "room for"))
        very = "gate and measurement of a qubit whose register is being pulled" in scn["name"]     # a gate slipping between lock release and register move: ~2 % of schedules
        four = "to another node (" in scn["name"]             # the four-node variants of the same race
        for _ in range(per_scn * (12 if very else 6 if four else 4 if heavy else 1)):
            seed = ctx.rng.randrange(1 << 30)
            p_tick = ctx.rng.choice([0.0, 0.03, 0.1, 0.3, 0.6])
            res = conc.run_concurrent(env, scn, seed=seed, p_tick=p_tick, p_idle=ctx.rng.choice([0.0, 0.1, 0.3]))
            j = judge(res, scn, seqs)
            if cases is not None:
                cases.append((conc.coq_case(res), "%s seed %d ops %r" % (scn["name"], seed, scn["ops"])))
            ctx.count("schedules")
            ctx.count("schedule_choices", len(res.schedule))
            ctx.count("ops_" + footprint(scn))
            a = conc.analyse(res, scn)
            if a["timeouts"]:
                ctx.count("runs_entering_lock_nodes_timeout_branch")
            if j["c03_judged"]:
                ctx.count("runs_judged_for_serializability")
                if j["v3"]["ok"]:
                    ctx.count("serializable_runs")
            if not j["c04_fail"]:
                ctx.count("runs_complete_and_lock_free")
            lockpoint_check(ctx, scn, res, j, a)
            ctx.case((json.dumps(scn["ops"]), json.dumps(scn["prefix"]), tuple(map(tuple, res.schedule[:60]))), nontrivial=len(res.schedule) > 0)
            failed = j["c03_fail"] if pid == "C03" else j["c04_fail"]
            if failed:
                key = KEYS.get(j["class"], None)
                ctx.count("failing_runs_class_%s" % (j["class"] or "unlisted"))
                if key is None:
                    key = "%s:unlisted:%s" % (pid, footprint(scn))
                if key not in fails or len(res.schedule) < len(fails[key][1].schedule):
                    fails[key] = (scn, res, j)
                else:
                    conc.dispose(res)
            else:
                runs.append((scn, res, j))
                if len(runs) > 40:
                    conc.dispose(runs.pop(0)[1])
    return fails, runs


def report_failures(ctx, pid, fails):
    for key, (scn, res, j) in sorted(fails.items()):
        ctx.report(key, describe(pid, scn, res, j), replay_obj(scn, res, j), found_input=True)


THEOREM_TRACE = {("C04", KEY_D6): ("leak_trace", "%s", "C04_orphan_lock_leak"),
                 ("C03", KEY_D6): ("steal_trace", "firstn 14 %s", "C03_serializable_refuted / C03_foreign_release")}


def theorem_trace_is_recorded(ctx, pid, key, res):
    """the concrete trace inside a `_refuted` theorem must be the lock-event trace the implementation produces on the listed witness"""
    if (pid, key) not in THEOREM_TRACE:
        return
    name, pat, thm = THEOREM_TRACE[(pid, key)]
    evs = conc.coq_events(res)
    text = (common.CASE_HEADER + "From SQ Require Import Base.ListUtil Conc.Model Conc.Orphan.\n"
            "Goal %s = %s.\nProof. reflexivity. Qed.\n" % (name, pat % ("[" + "; ".join(evs or []) + "]")))
    ok, out = common.coq_eval(text, tag="wtrace")
    ctx.obligation("the trace in theorem %s is the lock-event trace of the implementation on the listed witness" % thm, ok and evs is not None, out[-800:])


def replay_witnesses(ctx, pid, env, cases=None):
    """corpus first: the witnesses of the listed findings are replayed; one that still fails prints its KNOWN-FINDING line"""
    for k in ctx.known:
        w = k.get("witness") or {}
        if "scenario" not in w:
            continue
        scn = w["scenario"]
        seqs = conc.sequential_runs(env, scn)
        res = conc.run_concurrent(env, scn, seed=w["seed"], schedule=w.get("schedule"))
        j = judge(res, scn, seqs)
        failed = j["c03_fail"] if pid == "C03" else j["c04_fail"]
        ctx.count("witnesses_replayed")
        if cases is not None:
            cases.append((conc.coq_case(res), "witness of %s" % k["key"]))
        if failed:
            key = KEYS.get(j["class"]) or "%s:unlisted:%s" % (pid, footprint(scn))
            ctx.count("witnesses_still_failing")
            ctx.report(key, describe(pid, scn, res, j), replay_obj(scn, res, j), found_input=True)
            if key == k["key"]:
                theorem_trace_is_recorded(ctx, pid, key, res)
        conc.dispose(res)


def run_replay(ctx, pid, env):
    d = json.load(open(ctx.replay))
    w = d.get("replay", d) if isinstance(d, dict) else None
    if not isinstance(w, dict) or "scenario" not in w:
        return False          # a file that names a broken obligation only (no-failing-input-found) or an informational list: run the check itself
    scn = w["scenario"]
    seqs = conc.sequential_runs(env, scn)
    res = conc.run_concurrent(env, scn, seed=w["seed"], schedule=w.get("schedule"))
    j = judge(res, scn, seqs)
    failed = j["c03_fail"] if pid == "C03" else j["c04_fail"]
    print("replay: results %r hung %r locks %r class %r (%s)" % (res.results, j["v4"]["hung"], j["v4"]["locks"], j["class"], j["why"]))
    if failed:
        key = KEYS.get(j["class"]) or "%s:unlisted:%s" % (pid, footprint(scn))
        ctx.report(key, describe(pid, scn, res, j), replay_obj(scn, res, j), found_input=True)


def run_property(ctx, pid):
    ctx.trusted += TRUST
    if os.path.exists(os.path.join(common.COQ, "theories", "Properties", "%s.v" % pid)):
        common.check_properties_file(ctx)
    import logging
    import sys
    hook = sys.unraisablehook
    # hung operations are suspended generators with `yield` inside `finally`; collecting them prints "generator ignored GeneratorExit"
    sys.unraisablehook = lambda u: None if isinstance(u.exc_value, RuntimeError) and "GeneratorExit" in str(u.exc_value) else hook(u)
    logging.disable(logging.CRITICAL)          # the implementation logs every refused operation; they are results here
    env = N.setup()
    conc.install(env)
    if ctx.replay and run_replay(ctx, pid, env) is not False:
        return env, {}, []
    thorough = ctx.tier == "thorough"
    cases = []
    replay_witnesses(ctx, pid, env, cases)
    fixed = fixed_scenarios()
    nrand = 600 if thorough else 70
    per_fixed = 60 if thorough else 12
    per_rand = 20 if thorough else 8
    f1, r1 = explore(ctx, pid, fixed, per_fixed, env, cases)
    rnd = [random_scenario(ctx.rng, i) for i in range(nrand)]
    f2, r2 = explore(ctx, pid, rnd, per_rand, env, cases)
    # after everything else, so that the scheduler seeds of the scenarios above stay what they were
    f3, r3 = explore(ctx, pid, lockpoint_scenarios(), per_fixed, env, cases)
    for k, v in f3.items():
        f2.setdefault(k, v)
    r2 = r2 + r3
    if thorough and len(cases) > 3000:
        cases = [cases[i] for i in sorted(ctx.rng.sample(range(len(cases)), 3000))]
    bad_tie = tie_model_l(ctx, cases)
    fails = dict(f2)
    fails.update(f1)
    report_failures(ctx, pid, fails)
    unlisted = [k for k in fails if ctx.known_match(k) is None]
    ctx.obligation("oracle %s: every explored schedule outside the listed trigger classes is %s"
                   % (pid, "serializable" if pid == "C03" else "complete and leaves no lock held"), not unlisted,
                   "; ".join(unlisted))
    lockpoint_report(ctx, pid)
    for (scn, res, j) in (r1 + r2)[:2]:
        ctx.sample({"scenario": scn["name"], "ops": scn["ops"], "schedule_head": res.schedule[:12], "results": [list(r) for r in res.results],
                    "matching_orders": j["v3"]["orders"]})
    return env, fails, r1 + r2
