"""Shared machinery of every check: scratch copy of /repo, Coq build / evaluation, evidence, findings."""
import fcntl
import hashlib
import json
import os
import random
import re
import shutil
import subprocess
import sys
import tempfile
import time

VERIF = os.path.dirname(os.path.dirname(os.path.abspath(__file__)))
REPO = os.environ.get("VERIF_REPO", "/repo")
COQ = os.path.join(VERIF, "coq")
PY = "/venv/bin/python"
GUARD = "SIMULAQRON_VERIF"

TRUSTED_BASE_COMMON = [
    "Coq 8.16.1 kernel + vm_compute (no native_compute)",
    "no axioms declared by the development (grep + Print Assumptions on every property theorem)",
    "Python harness: scratch copy of /repo, drivers, canonicalisation of dumps, Coq literal printer",
]


class Broken(Exception):
    """internal error of the machinery (not a verdict)"""


# ------------------------------------------------------------------------------------------------
# scratch copy of the repository's current working tree
# ------------------------------------------------------------------------------------------------
def make_scratch():
    base = tempfile.mkdtemp(prefix="sqverif-")
    dst = os.path.join(base, "repo")
    subprocess.check_call(["rsync", "-a", "--exclude", ".git", "--exclude", "__pycache__",
                           "--exclude", "*.pyc", REPO + "/", dst + "/"])
    home = os.path.join(base, "home")
    os.makedirs(home)
    return base, dst, home


def activate_scratch(dst, home):
    """make this interpreter import simulaqron from the scratch copy"""
    os.environ["HOME"] = home
    os.environ["PYTHONPATH"] = dst
    os.environ["PYTHONHASHSEED"] = "0"
    os.environ[GUARD] = "1"
    sys.path.insert(0, dst)
    for m in list(sys.modules):
        if m == "simulaqron" or m.startswith("simulaqron."):
            del sys.modules[m]


# ------------------------------------------------------------------------------------------------
# Coq
# ------------------------------------------------------------------------------------------------
class Lock:
    def __init__(self, name):
        self.path = os.path.join(COQ, "." + name + ".lock")

    def __enter__(self):
        self.f = open(self.path, "w")
        fcntl.flock(self.f, fcntl.LOCK_EX)

    def __exit__(self, *a):
        fcntl.flock(self.f, fcntl.LOCK_UN)
        self.f.close()


def hand_files():
    out = []
    for root, _, files in os.walk(os.path.join(COQ, "theories")):
        rel = os.path.relpath(root, COQ)
        if rel.startswith("theories/Gen") or rel.startswith("theories/Properties"):
            continue
        for f in sorted(files):
            if f.endswith(".v"):
                out.append(os.path.join(rel, f))
    return sorted(out)


def coq_build(jobs=16, timeout=3000):
    """full .vo build of the hand-written theories (models, lemmas); Gen/ and Properties/ are compiled per check"""
    with Lock("build"):
        proj = "-Q theories SQ\n" + "\n".join(hand_files()) + "\n"
        pj = os.path.join(COQ, "_CoqProject")
        if not os.path.exists(pj) or open(pj).read() != proj:
            open(pj, "w").write(proj)
        if (not os.path.exists(os.path.join(COQ, "Makefile"))
                or os.path.getmtime(os.path.join(COQ, "Makefile")) < os.path.getmtime(pj)):
            subprocess.check_call(["coq_makefile", "-f", "_CoqProject", "-o", "Makefile"], cwd=COQ,
                                  stdout=subprocess.DEVNULL)
        p = subprocess.run(["timeout", str(timeout), "make", "-j%d" % jobs], cwd=COQ,
                           stdout=subprocess.PIPE, stderr=subprocess.STDOUT, text=True)
        if p.returncode != 0:
            raise Broken("coq build of hand-written theories failed:\n" + p.stdout[-4000:])
        return p.stdout


def coqc(vfile, timeout=900):
    """compile one file in place (Gen/ or Properties/), return (ok, output)"""
    with Lock("gen-" + hashlib.md5(vfile.encode()).hexdigest()[:8]):
        p = subprocess.run(["timeout", str(timeout), "coqc", "-Q", "theories", "SQ", vfile], cwd=COQ,
                           stdout=subprocess.PIPE, stderr=subprocess.STDOUT, text=True)
    return p.returncode == 0, p.stdout


def write_if_changed(path, text):
    if os.path.exists(path) and open(path).read() == text:
        return False
    os.makedirs(os.path.dirname(path), exist_ok=True)
    tmp = path + ".tmp%d" % os.getpid()
    open(tmp, "w").write(text)
    os.replace(tmp, path)
    return True


def coq_eval(text, timeout=900, tag="cases"):
    """compile a throw-away file that Requires the built library; returns (ok, stdout)"""
    d = tempfile.mkdtemp(prefix="sqcoq-")
    try:
        f = os.path.join(d, tag + ".v")
        open(f, "w").write(text)
        p = subprocess.run(["timeout", str(timeout), "coqc", "-Q", os.path.join(COQ, "theories"), "SQ", f],
                           cwd=d, stdout=subprocess.PIPE, stderr=subprocess.STDOUT, text=True)
        return p.returncode == 0, p.stdout
    finally:
        shutil.rmtree(d, ignore_errors=True)


def coq_eval_many(texts, timeout=900, jobs=12):
    """evaluate several case files in parallel"""
    from concurrent.futures import ThreadPoolExecutor
    with ThreadPoolExecutor(max_workers=jobs) as ex:
        return list(ex.map(lambda t: coq_eval(t, timeout), texts))


_NATLIST = re.compile(r"=\s*\[([^\]]*)\]\s*:\s*list nat", re.S)


def parse_nat_lists(out):
    res = []
    for m in _NATLIST.finditer(out):
        body = m.group(1).strip()
        res.append([int(x) for x in re.split(r"[;\s]+", body) if x.strip()] if body else [])
    return res


def parse_assumptions(out):
    """Print Assumptions output -> list of (status) per theorem: 'closed' or the axiom text"""
    res = []
    chunks = re.split(r"(?=Closed under the global context|Axioms:)", out)
    for c in chunks:
        if c.startswith("Closed under the global context"):
            res.append("closed")
        elif c.startswith("Axioms:"):
            res.append(c.strip())
    return res


FORBIDDEN = re.compile(r"\b(Admitted|admit|Axiom|Axioms|Parameter|Parameters|Conjecture|Hypothesis|Variable|"
                       r"Unset Guard|bypass_check|type-in-type|impredicative-set|Admit Obligations)\b")


def grep_forbidden():
    """no axioms / admits / disabled checks anywhere in the development (Hypothesis/Variable allowed inside Sections only)"""
    bad = []
    for root, _, files in os.walk(os.path.join(COQ, "theories")):
        for f in files:
            if not f.endswith(".v"):
                continue
            depth = 0
            for i, line in enumerate(open(os.path.join(root, f)), 1):
                s = re.sub(r"\(\*.*?\*\)", "", line)
                if re.match(r"\s*Section\b", s):
                    depth += 1
                if re.match(r"\s*End\b", s) and depth > 0:
                    depth -= 1
                for m in FORBIDDEN.finditer(s):
                    w = m.group(1)
                    if w in ("Hypothesis", "Variable") and depth > 0:
                        continue
                    if w == "Axioms" and s.strip().startswith("Axioms:"):
                        continue
                    bad.append("%s:%d:%s" % (os.path.join(root, f), i, w))
    return bad


# ------------------------------------------------------------------------------------------------
# Coq literal printer
# ------------------------------------------------------------------------------------------------
def cbool(b):
    return "t" if b else "f"


def cblist(bs):
    return "[" + ";".join(cbool(bool(b)) for b in bs) + "]"


def ctab(rows):
    return "[" + ";".join(cblist(r) for r in rows) + "]"


def cnat(n):
    return "%d%%nat" % n


def clist(items):
    return "[" + "; ".join(items) + "]"


def copt(x, f=str):
    return "None" if x is None else "(Some %s)" % f(x)


CASE_HEADER = """From Coq Require Import List Bool Arith ZArith String.
Import ListNotations.
Notation t := true (only parsing).
Notation f := false (only parsing).
"""


# ------------------------------------------------------------------------------------------------
# results
# ------------------------------------------------------------------------------------------------
class Ctx:
    def __init__(self, pid, tier, seed, replay=None):
        self.pid = pid
        self.tier = tier
        self.seed = seed
        self.replay = replay
        self.rng = random.Random(seed * 1000003 + int(pid[1:]))
        self.t0 = time.time()
        self.obligations = []     # (name, ok, detail)
        self.violations = []      # (desc, replay_path, found_input)
        self.known_hits = []
        self.coverage = {}
        self.assumptions = []
        self.trusted = list(TRUSTED_BASE_COMMON)
        self.samples = []
        self.evaluations = 0
        self.nontrivial = set()
        self.rule = ""
        self.scratch = None
        self.known = load_known().get(pid, [])

    # -- obligations -------------------------------------------------------------------------------
    def obligation(self, name, ok, detail=""):
        self.obligations.append((name, bool(ok), detail))
        if not ok:
            print("OBLIGATION-BROKEN %s %s: %s" % (self.pid, name, detail.strip()[-600:]))
        return ok

    def broken(self):
        return [n for (n, ok, _) in self.obligations if not ok]

    # -- findings / violations -----------------------------------------------------------------------
    def known_match(self, key):
        for k in self.known:
            if k.get("status", "open") == "open" and k["key"] == key:
                return k
        return None

    def report(self, key, desc, replay_obj, found_input=True):
        """key identifies the failing input class; listed open findings print KNOWN-FINDING, others VIOLATION"""
        k = self.known_match(key)
        if k is not None:
            if key not in self.known_hits:
                self.known_hits.append(key)
                print("KNOWN-FINDING: property=%s %s" % (self.pid, k["what"]))
            # a listed finding is reported as such (coverage.known_findings_hit), not as an undischarged proof obligation
            self.obligations = [o for o in self.obligations if o[1] or key not in o[0]]
            return False
        os.makedirs(os.path.join(VERIF, "replays"), exist_ok=True)
        h = hashlib.sha1(json.dumps([key, replay_obj], sort_keys=True, default=str).encode()).hexdigest()[:10]
        path = os.path.join(VERIF, "replays", "%s-%s.json" % (self.pid, h))
        json.dump({"property": self.pid, "key": key, "what": desc, "found_input": found_input,
                   "replay": replay_obj, "seed": self.seed, "tier": self.tier}, open(path, "w"), indent=1, default=str)
        self.violations.append((desc, path, found_input))
        print("VIOLATION property=%s replay=%s%s" % (self.pid, path, "" if found_input else " no-failing-input-found"))
        return True

    # -- coverage -------------------------------------------------------------------------------------
    def count(self, key, n=1):
        self.coverage[key] = self.coverage.get(key, 0) + n

    def case(self, sig=None, nontrivial=True):
        self.evaluations += 1
        if nontrivial and sig is not None:
            self.nontrivial.add(sig if isinstance(sig, (str, int, tuple)) else json.dumps(sig, sort_keys=True, default=str))

    def sample(self, obj, limit=4):
        if len(self.samples) < limit:
            self.samples.append(obj)

    # -- evidence ---------------------------------------------------------------------------------------
    def write_evidence(self, checker_cmd):
        cov = dict(self.coverage)
        cov.update({
            "obligations": len(self.obligations),
            "discharged": sum(1 for o in self.obligations if o[1]),
            "obligation_names": [o[0] + ("" if o[1] else " [BROKEN]") for o in self.obligations],
            "checker_cmd": checker_cmd,
            "trusted_base": self.trusted,
            "evaluations": self.evaluations,
            "distinct_nontrivial": len(self.nontrivial),
            "rule": self.rule,
            "samples": self.samples if self.samples else ["(none)"],
            "known_findings_hit": self.known_hits,
        })
        ev = {"property_id": self.pid, "tier": self.tier, "seed": self.seed, "level": "proof",
              "coverage": cov, "assumptions": self.assumptions, "wall_s": round(time.time() - self.t0, 2),
              "violations": len(self.violations)}
        # evidence under /verif/evidence describes /repo itself; experiments against another tree (VERIF_REPO) write elsewhere
        evdir = os.path.join(VERIF, "evidence") if REPO == "/repo" else os.path.join(tempfile.gettempdir(), "sqverif-evidence-other-tree")
        os.makedirs(evdir, exist_ok=True)
        p = os.path.join(evdir, "%s.json" % self.pid)
        json.dump(ev, open(p + ".tmp", "w"), indent=1, default=str)
        os.replace(p + ".tmp", p)


def load_known():
    p = os.path.join(VERIF, "known_findings.json")
    if not os.path.exists(p):
        return {}
    d = json.load(open(p))
    out = {}
    for e in d.get("findings", []):
        out.setdefault(e["property"], []).append(e)
    dd = os.path.join(VERIF, "known_findings.d")      # per-property files, merged into known_findings.json at integration
    if os.path.isdir(dd):
        for f in sorted(os.listdir(dd)):
            if f.endswith(".json"):
                for e in json.load(open(os.path.join(dd, f))).get("findings", []):
                    out.setdefault(e["property"], []).append(e)
    # VERIF_IGNORE_KNOWN=key1,key2: treat these finding keys as NOT listed (a listed defect that was repaired must be a
    # VIOLATION again on an unrepaired tree; used to test exactly that before the entry is moved to "fixed")
    ignore = set(k.strip() for k in os.environ.get("VERIF_IGNORE_KNOWN", "").split(",") if k.strip())
    if ignore:
        out = {prop: [e for e in lst if e.get("key") not in ignore] for prop, lst in out.items()}
    return out


# ------------------------------------------------------------------------------------------------
# property obligations: compile Gen files + Properties/Cxx.v, collect Print Assumptions
# ------------------------------------------------------------------------------------------------
ALLOWED_AXIOMS = [
    # Coq standard-library axioms (named in DESIGN.md section 2.4); only the Reals-based bound of C19 may use them
    "ClassicalDedekindReals.sig_forall_dec", "ClassicalDedekindReals.sig_not_dec",
    "FunctionalExtensionality.functional_extensionality_dep",
]


def check_properties_file(ctx, pid=None, allow_axioms=()):
    pid = pid or ctx.pid
    vf = "theories/Properties/%s.v" % pid
    ok, out = coqc(vf)
    ctx.obligation("Properties/%s.v compiles" % pid, ok, out)
    if not ok:
        return False
    names = re.findall(r"^\s*(?:Theorem|Lemma|Corollary)\s+(\w+)", open(os.path.join(COQ, vf)).read(), re.M)
    ass = parse_assumptions(out)
    if len(ass) != len(names):
        ctx.obligation("Print Assumptions present for every theorem of %s" % pid, False,
                       "%d theorems, %d Print Assumptions" % (len(names), len(ass)))
        return False
    allok = True
    for n, a in zip(names, ass):
        if a == "closed":
            ctx.obligation("theorem %s (closed under the global context)" % n, True)
        else:
            axs = re.findall(r"^\s*([\w.]+)\s*:", a, re.M)
            good = all(any(x.endswith(al.split(".")[-1]) for al in allow_axioms) for x in axs)
            ctx.obligation("theorem %s (axioms: %s)" % (n, ", ".join(axs)), good, a)
            if good:
                ctx.assumptions.append("%s depends on stdlib axioms: %s" % (n, ", ".join(axs)))
            allok = allok and good
    return allok


def run_translator(ctx, script, src_rel, gen_name):
    """regenerate Gen/<gen_name>.v from the scratch copy and compile it (its lemmas are obligations)"""
    src = os.path.join(ctx.scratch, src_rel)
    p = subprocess.run([sys.executable, os.path.join(VERIF, "translate", script), src],
                       stdout=subprocess.PIPE, stderr=subprocess.PIPE, text=True)
    gen = os.path.join(COQ, "theories", "Gen", gen_name + ".v")
    if p.returncode != 0:
        ctx.obligation("translator %s on %s" % (script, src_rel), False, p.stderr)
        # keep the proof development honest: a stale generated file must not be used
        for ext in (".v", ".vo", ".glob", ".vok", ".vos"):
            try:
                os.remove(gen[:-2] + ext)
            except OSError:
                pass
        return False
    text = p.stdout.replace(ctx.scratch, "<repo>")
    with Lock("genwrite-" + gen_name):
        write_if_changed(gen, text)
    ctx.obligation("translator %s on %s" % (script, src_rel), True)
    ok, out = coqc("theories/Gen/%s.v" % gen_name)
    lemmas = re.findall(r"^Lemma\s+(\w+)", text, re.M)
    if ok:
        for l in lemmas:
            ctx.obligation("generated obligation %s" % l, True)
    else:
        m = re.search(r'line (\d+)', out)
        bad = None
        if m:
            ln = int(m.group(1))
            upto = "\n".join(text.split("\n")[:ln])
            ls = re.findall(r"^Lemma\s+(\w+)", upto, re.M)
            bad = ls[-1] if ls else None
        ctx.obligation("generated obligation %s" % (bad or gen_name), False, out)
    return ok
