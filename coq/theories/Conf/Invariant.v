(* Model C: the inductive invariant of NetworksConfigConstructor over all edit sequences, and its consequences
   (endpoint uniqueness, removal, write/read round trip). *)
From Coq Require Import List Bool Arith NArith String Lia.
From SQ Require Import Conf.Model Conf.Assoc.
Import ListNotations.
Open Scope list_scope.

Definition entry := (name * name * node3)%type.
Definition eeps (e : entry) : list endpoint := eps (snd e).

Lemma In_entries c nn x nd :
  In (nn, x, nd) (entries c) <-> exists nw, In (nn, nw) c /\ In (x, nd) (nodes nw).
Proof.
  unfold entries. rewrite in_flat_map. split.
  - intros ([nn' nw] & Hc & Hm). simpl in Hm. apply in_map_iff in Hm.
    destruct Hm as ([x' nd'] & Heq & Hin). simpl in Heq. inversion Heq; subst. eauto.
  - intros (nw & Hc & Hn). exists (nn, nw). split; auto. simpl. apply in_map_iff. exists (x, nd); auto.
Qed.

Definition keys_ok (c : cfgd) : Prop :=
  NoDup (map fst c) /\ forall nn nw, In (nn, nw) c -> NoDup (map fst (nodes nw)).

Lemma keys_ok_nil : keys_ok [].
Proof. split; [constructor|intros ? ? []]. Qed.

Lemma keys_ok_aset c k v : keys_ok c -> NoDup (map fst (nodes v)) -> keys_ok (aset c k v).
Proof.
  intros [H1 H2] Hv. split.
  - apply nodup_keys_aset; auto.
  - intros nn nw Hin. apply In_aset in Hin. destruct Hin as [[-> ->]|Hin]; eauto.
Qed.

Lemma keys_ok_adel c k : keys_ok c -> keys_ok (adel c k).
Proof.
  intros [H1 H2]. split.
  - apply nodup_keys_adel; auto.
  - intros nn nw Hin. apply In_adel in Hin. destruct Hin; eauto.
Qed.

Lemma nodup_tag (nn : name) (l : list (name * node3)) :
  NoDup (map fst l) -> NoDup (map (fun xnd => (nn, fst xnd, snd xnd)) l).
Proof.
  induction l as [|a l IH]; simpl; intros H; [constructor|].
  inversion H as [|? ? Hn Hd]; subst. constructor; auto.
  intro Hin. apply in_map_iff in Hin. destruct Hin as (y & Heq & Hy). inversion Heq.
  apply Hn. rewrite <- H1. apply in_map; auto.
Qed.

Lemma entries_nodup c : keys_ok c -> NoDup (entries c).
Proof.
  induction c as [|[nn nw] c IH]; intros [H1 H2]; simpl; [constructor|].
  simpl in H1. inversion H1 as [|? ? Hn Hd]; subst.
  apply nodup_app. repeat split.
  - apply nodup_tag. apply (H2 nn nw); simpl; auto.
  - apply IH. split; auto. intros; eapply H2; simpl; eauto.
  - intros [[nn' x] nd] Hin1 Hin2. apply in_map_iff in Hin1. destruct Hin1 as (y & Heq & _).
    inversion Heq; subst. apply In_entries in Hin2. destruct Hin2 as (nw' & Hc & _).
    apply Hn. apply (in_map fst) in Hc; auto.
Qed.

(* ---------------------------------------------------------------------------------------------- *)
(* the invariant                                                                                     *)
(* ---------------------------------------------------------------------------------------------- *)
(* every node instance that is visible in memory or in the file *)
Definition E (s : state) (e : entry) : Prop :=
  In e (entries (cfg s)) \/ exists f, file s = Some f /\ In e (entries f).

Record Inv (s : state) : Prop := {
  inv_keys : keys_ok (cfg s);
  inv_fkeys : forall f, file s = Some f -> keys_ok f;
  inv_eps : forall e, E s e -> NoDup (eeps e) /\ incl (eeps e) (used s);
  inv_sep : forall e1 e2, E s e1 -> E s e2 -> e1 = e2 \/ disjoint (eeps e1) (eeps e2)
}.

Lemma Inv_init : Inv init.
Proof.
  split; simpl.
  - apply keys_ok_nil.
  - discriminate.
  - intros e [[]|(f & Hf & _)]; discriminate.
  - intros e1 e2 [[]|(f & Hf & _)]; discriminate.
Qed.

(* nothing new becomes visible, reservations only grow *)
Lemma Inv_sub s s' :
  Inv s -> keys_ok (cfg s') -> (forall f, file s' = Some f -> keys_ok f) ->
  (forall e, E s' e -> E s e) -> incl (used s) (used s') -> Inv s'.
Proof.
  intros [I1 I2 I3 I4] K1 K2 HE HU. split; [exact K1|exact K2| |].
  - intros e He. destruct (I3 e (HE e He)) as [A B]. split; auto. eapply incl_tran; eauto.
  - intros e1 e2 H1 H2. apply I4; auto.
Qed.

(* one new instance whose endpoints were not reserved before *)
Lemma Inv_new s s' e0 :
  Inv s -> keys_ok (cfg s') -> (forall f, file s' = Some f -> keys_ok f) ->
  (forall e, E s' e -> E s e \/ e = e0) -> incl (used s) (used s') ->
  NoDup (eeps e0) -> incl (eeps e0) (used s') -> (forall p, In p (eeps e0) -> ~ In p (used s)) -> Inv s'.
Proof.
  intros [I1 I2 I3 I4] K1 K2 HE HU N0 U0 F0. split; [exact K1|exact K2| |].
  - intros e He. destruct (HE e He) as [Ho| ->]; auto.
    destruct (I3 e Ho) as [A B]. split; auto. eapply incl_tran; eauto.
  - intros e1 e2 H1 H2. destruct (HE e1 H1) as [O1| ->]; destruct (HE e2 H2) as [O2| ->]; auto.
    + right. intros p Hp Hq. apply (F0 p Hq). apply (I3 e1 O1); auto.
    + right. intros p Hp Hq. apply (F0 p Hp). apply (I3 e2 O2); auto.
Qed.

Section Steps.
  Variable os : nat -> N -> bool.

  (* ---- port selection ---- *)
  Lemma first_free_spec h usd cands : forall k q k',
    first_free os h usd k cands = (Some q, k') -> ~ In (h, q) usd.
  Proof.
    induction cands as [|p t IH]; simpl; intros k q k' H; try discriminate.
    destruct (mem_ep (h, p) usd) eqn:Em; eauto.
    destruct (os k p); eauto. inversion H; subst. apply mem_ep_false; auto.
  Qed.

  Lemma resolve1_some usd k h p e u k' :
    resolve1 os usd k h p = (Some e, u, k') -> ~ In e usd /\ u = usd ++ [e].
  Proof.
    unfold resolve1. destruct p as [q|].
    - destruct (mem_ep (defhost h, q) usd) eqn:Em; try discriminate.
      destruct (os k q); intros H; inversion H; subst. split; auto. apply mem_ep_false; auto.
    - destruct (first_free os (defhost h) usd k port_range) as [[q|] k1] eqn:Ef; intros H; inversion H; subst.
      split; auto. eapply first_free_spec; eauto.
  Qed.

  Lemma resolve1_none usd k h p u k' : resolve1 os usd k h p = (None, u, k') -> u = usd.
  Proof.
    unfold resolve1. destruct p as [q|].
    - destruct (mem_ep (defhost h, q) usd); [intros H; inversion H; auto|].
      destruct (os k q); intros H; inversion H; auto.
    - destruct (first_free os (defhost h) usd k port_range) as [[q|] k1]; intros H; inversion H; auto.
  Qed.

  Lemma resolve_spec l : forall usd k r u k',
    resolve os usd k l = (r, u, k') ->
    incl usd u /\
    (forall es, r = Some es -> NoDup es /\ (forall e, In e es -> ~ In e usd) /\ incl es u).
  Proof.
    induction l as [|[h p] t IH]; simpl; intros usd k r u k' H.
    - inversion H; subst. split; [apply incl_refl|]. intros es Hes. inversion Hes; subst.
      repeat split; [constructor|intros ? []|intros ? []].
    - destruct (resolve1 os usd k h p) as [[[e|] u1] k1] eqn:E1.
      + apply resolve1_some in E1. destruct E1 as [Hn ->].
        destruct (resolve os (usd ++ [e]) k1 t) as [[[es|] u2] k2] eqn:E2; inversion H; subst;
          destruct (IH _ _ _ _ _ E2) as [Hi Hes].
        * split; [intros x Hx; apply Hi; apply in_or_app; auto|].
          intros es' Heq. inversion Heq; subst. destruct (Hes es eq_refl) as (N1 & N2 & N3).
          repeat split.
          -- constructor; auto. intro Hin. apply (N2 e Hin). apply in_or_app; simpl; auto.
          -- intros x [->|Hx]; auto. intro Hu. apply (N2 x Hx). apply in_or_app; auto.
          -- intros x [->|Hx]; auto. apply Hi. apply in_or_app; simpl; auto.
        * split; [intros x Hx; apply Hi; apply in_or_app; auto|discriminate].
      + apply resolve1_none in E1. subst u1. inversion H; subst. split; [apply incl_refl|discriminate].
  Qed.

  (* ---- add_node ---- *)
  Lemma keys_ok_cfg_add c nn x nd nb : keys_ok c -> keys_ok (cfg_add c nn x nd nb).
  Proof.
    intros K. unfold cfg_add. apply keys_ok_aset; auto. simpl. apply nodup_keys_aset.
    destruct (aget c nn) as [nw|] eqn:Ea; simpl; [|constructor].
    apply aget_In in Ea. destruct K as [_ K]; eauto.
  Qed.

  Lemma entries_cfg_add c nn x nd nb e :
    In e (entries (cfg_add c nn x nd nb)) -> In e (entries c) \/ e = (nn, x, nd).
  Proof.
    destruct e as [[nn' x'] nd']. rewrite In_entries. intros (nw' & Hc & Hn).
    unfold cfg_add in Hc. apply In_aset in Hc. destruct Hc as [[-> ->]|Hc].
    - simpl in Hn. apply In_aset in Hn. destruct Hn as [[-> ->]|Hn]; auto.
      destruct (aget c nn) as [nw|] eqn:Ea; simpl in Hn; [|contradiction].
      left. apply In_entries. exists nw; split; auto. apply aget_In; auto.
    - left. apply In_entries; eauto.
  Qed.

  Lemma add_node_inv s net x ha hq hv pa pq pv nb :
    Inv s -> Inv (fst (add_node os s net x ha hq hv pa pq pv nb)).
  Proof.
    intros I. unfold add_node.
    destruct (resolve os (used s) (calls s) [(ha, pa); (hq, pq); (hv, pv)]) as [[r u] k] eqn:ER.
    destruct (resolve_spec _ _ _ _ _ _ ER) as [Hi Hes].
    assert (Hfail : Inv (mkState (cfg s) u k (file s))).
    { apply (Inv_sub s); simpl; [exact I|apply I|apply I|intros e He; exact He|exact Hi]. }
    destruct r as [[|a [|q [|v [|w l]]]]|]; simpl; auto.
    destruct (Hes _ eq_refl) as (N1 & N2 & N3).
    eapply (Inv_new s _ (defnet net, x, mkNode a q v)); eauto; simpl.
    - apply keys_ok_cfg_add. apply I.
    - apply I.
    - intros e [He|(f & Hf & He)].
      + apply entries_cfg_add in He. destruct He as [He| ->]; auto. left; left; auto.
      + left; right; eauto.
  Qed.

  (* ---- removals ---- *)
  Lemma remove_node_inv s net x : Inv s -> Inv (remove_node s net x).
  Proof.
    intros I. unfold remove_node. destruct (aget (cfg s) (defnet net)) as [nw|] eqn:Ea; auto.
    apply aget_In in Ea.
    apply (Inv_sub s); simpl; [exact I| |apply I| |apply incl_refl].
    - apply keys_ok_aset; [apply I|]. simpl. apply nodup_keys_adel. destruct I as [[_ K] _ _ _]; eauto.
    - intros [[nn' x'] nd'] [He|He]; [|right; auto]. left. simpl in He.
      apply In_entries in He. destruct He as (nw' & Hc & Hn). apply In_entries.
      apply In_aset in Hc. destruct Hc as [[-> ->]|Hc]; eauto.
      simpl in Hn. apply In_adel in Hn. destruct Hn; eauto.
  Qed.

  Lemma remove_network_inv s net : Inv s -> Inv (remove_network s net).
  Proof.
    intros I. unfold remove_network.
    apply (Inv_sub s); simpl; [exact I| |apply I| |apply incl_refl].
    - apply keys_ok_adel, I.
    - intros [[nn' x'] nd'] [He|He]; [|right; auto]. left. simpl in He.
      apply In_entries in He. destruct He as (nw' & Hc & Hn). apply In_entries.
      apply In_adel in Hc. destruct Hc; eauto.
  Qed.

  (* ---- add_network / reset ---- *)
  Lemma add_nodes_inv xs : forall s net tp, Inv s -> Inv (fst (add_nodes os s net xs tp)).
  Proof.
    induction xs as [|x t IH]; simpl; intros s net tp I; auto.
    destruct tp as [tp0|].
    - destruct (aget tp0 x) as [l|]; simpl; auto.
      pose proof (add_node_inv s net x None None None None None None (Some l) I) as I'.
      destruct (add_node os s net x None None None None None None (Some l)) as [s' r]. simpl in I'.
      destruct r; simpl; auto.
    - pose proof (add_node_inv s net x None None None None None None None I) as I'.
      destruct (add_node os s net x None None None None None None None) as [s' r]. simpl in I'.
      destruct r; simpl; auto.
  Qed.

  Lemma add_network_inv s net xs tp : Inv s -> Inv (fst (add_network os s net xs tp)).
  Proof. intros I. unfold add_network. apply add_nodes_inv. apply remove_network_inv; auto. Qed.

  Lemma reset_inv s : Inv s -> Inv (fst (reset os s)).
  Proof.
    intros I. unfold reset. apply add_network_inv.
    apply (Inv_sub s); simpl; [exact I|apply keys_ok_nil|apply I| |apply incl_refl].
    intros e [[]|He]. right; auto.
  Qed.

  (* ---- read_from_file ---- *)
  Lemma add_used_incl u e : incl u (add_used u e) /\ In e (add_used u e).
  Proof.
    unfold add_used. destruct (mem_ep e u) eqn:Em.
    - split; [apply incl_refl|apply mem_ep_In; auto].
    - split; [intros x Hx; apply in_or_app; auto|apply in_or_app; simpl; auto].
  Qed.

  Lemma fold_left_grows {A} (g : list endpoint -> A -> list endpoint) (l : list A) :
    (forall u a, incl u (g u a)) -> forall u, incl u (fold_left g l u).
  Proof.
    intros Hg. induction l as [|a l IH]; simpl; intros u; [apply incl_refl|].
    eapply incl_tran; [apply Hg|apply IH].
  Qed.

  Definition used_node (u : list endpoint) (nd : node3) : list endpoint := fold_left add_used (eps nd) u.
  Definition used_net (u : list endpoint) (nw : network) : list endpoint :=
    fold_left (fun u' xnd => used_node u' (snd xnd)) (nodes nw) u.

  Lemma read_used_unfold u f : read_used u f = fold_left (fun u' nnw => used_net u' (snd nnw)) f u.
  Proof. reflexivity. Qed.

  Lemma used_node_grows u nd : incl u (used_node u nd).
  Proof. apply fold_left_grows. intros; apply add_used_incl. Qed.
  Lemma used_net_grows u nw : incl u (used_net u nw).
  Proof. apply fold_left_grows. intros; apply used_node_grows. Qed.
  Lemma read_used_grows u f : incl u (read_used u f).
  Proof. rewrite read_used_unfold. apply fold_left_grows. intros; apply used_net_grows. Qed.

  Lemma add_all_covers l : forall u, incl l (fold_left add_used l u).
  Proof.
    induction l as [|a l IH]; simpl; intros u x Hx; [contradiction|].
    destruct Hx as [->|Hx]; [|apply IH; auto].
    apply (fold_left_grows add_used l (fun u a => proj1 (add_used_incl u a))). apply add_used_incl.
  Qed.

  Lemma used_net_covers (l : list (name * node3)) : forall u x nd,
    In (x, nd) l -> incl (eps nd) (fold_left (fun u' xnd => used_node u' (snd xnd)) l u).
  Proof.
    induction l as [|a l IH]; simpl; intros u x nd Hin; [contradiction|].
    destruct Hin as [->|Hin]; [|eapply IH; eauto].
    simpl. eapply incl_tran; [apply add_all_covers|].
    apply (fold_left_grows (fun u' (xnd : name * node3) => used_node u' (snd xnd)) l). intros; apply used_node_grows.
  Qed.

  Lemma read_used_covers f : forall u e, In e (entries f) -> incl (eeps e) (read_used u f).
  Proof.
    induction f as [|[nn nw] f IH]; intros u [[nn' x] nd] Hin; [contradiction|].
    rewrite read_used_unfold. simpl. unfold entries in Hin. simpl in Hin. apply in_app_or in Hin.
    destruct Hin as [Hin|Hin].
    - apply in_map_iff in Hin. destruct Hin as ([x' nd'] & Heq & Hn). inversion Heq; subst.
      unfold eeps; simpl. eapply incl_tran; [eapply used_net_covers; eauto|].
      fold (used_net u nw). rewrite <- read_used_unfold. apply read_used_grows.
    - rewrite <- read_used_unfold. apply (IH _ (nn', x, nd)). exact Hin.
  Qed.

  Lemma read_cfg_keys f : forall c, keys_ok c -> keys_ok f -> keys_ok (read_cfg c f).
  Proof.
    induction f as [|[nn nw] f IH]; simpl; intros c Kc Kf; auto.
    apply IH.
    - apply keys_ok_aset; auto. destruct Kf as [_ K]; apply (K nn nw); simpl; auto.
    - destruct Kf as [K1 K2]. simpl in K1. inversion K1; subst. split; auto. intros; eapply K2; simpl; eauto.
  Qed.

  Lemma read_cfg_entries f : forall c e,
    In e (entries (read_cfg c f)) -> In e (entries c) \/ In e (entries f).
  Proof.
    induction f as [|[nn nw] f IH]; intros c e He; [left; exact He|].
    change (read_cfg c ((nn, nw) :: f)) with (read_cfg (aset c nn nw) f) in He.
    apply IH in He. destruct He as [He|He].
    - destruct e as [[nn' x] nd]. apply In_entries in He. destruct He as (nw' & Hc & Hn).
      apply In_aset in Hc. destruct Hc as [[-> ->]|Hc].
      + right. apply In_entries. exists nw; split; [left; reflexivity|exact Hn].
      + left. apply In_entries; eauto.
    - right. destruct e as [[nn' x] nd]. apply In_entries in He. destruct He as (nw' & Hc & Hn).
      apply In_entries. exists nw'; split; [right; exact Hc|exact Hn].
  Qed.

  Lemma read_inv s f : Inv s -> file s = Some f ->
    Inv (mkState (read_cfg (cfg s) f) (read_used (used s) f) (calls s) (file s)).
  Proof.
    intros I Hf. apply (Inv_sub s); simpl; [exact I| |apply I| |].
    - apply read_cfg_keys; [apply I|]. destruct I as [_ K _ _]; auto.
    - intros e [He|He]; [|right; auto]. simpl in He. apply read_cfg_entries in He.
      destruct He as [He|He]; [left; auto|right; eauto].
    - apply read_used_grows.
  Qed.

  Lemma load_inv s f : Inv s -> file s = Some f ->
    Inv (mkState (read_cfg [] f) (read_used [] f) (calls s) (file s)).
  Proof.
    intros I Hf.
    assert (HE : forall e, E (mkState (read_cfg [] f) (read_used [] f) (calls s) (file s)) e -> In e (entries f)).
    { intros e [He|(f' & Hf' & He)]; simpl in *.
      - apply read_cfg_entries in He. destruct He as [[]|He]; auto.
      - rewrite Hf in Hf'. inversion Hf'; subst; auto. }
    split; simpl.
    - apply read_cfg_keys; [apply keys_ok_nil|]. destruct I as [_ K _ _]; auto.
    - apply I.
    - intros e He. apply HE in He. split.
      + apply (inv_eps s I). right; eauto.
      + apply read_used_covers; auto.
    - intros e1 e2 H1 H2. apply HE in H1. apply HE in H2. apply (inv_sep s I); right; eauto.
  Qed.

  (* ---- every edit preserves the invariant ---- *)
  Lemma step_inv s o : Inv s -> Inv (fst (step os s o)).
  Proof.
    intros I. destruct o; simpl.
    - apply add_node_inv; auto.
    - apply remove_node_inv; auto.
    - apply add_network_inv; auto.
    - apply remove_network_inv; auto.
    - apply reset_inv; auto.
    - apply (Inv_sub s); simpl; [exact I|apply I| | |apply incl_refl].
      + intros f Hf. inversion Hf; subst. apply I.
      + intros e [He|(f & Hf & He)]; [left; auto|]. inversion Hf; subst. left; auto.
    - destruct (file s) as [f|] eqn:Hf; simpl; auto. rewrite <- Hf. apply read_inv; auto.
    - destruct (file s) as [f|] eqn:Hf; simpl.
      + rewrite <- Hf. apply load_inv; auto.
      + split; simpl; [apply keys_ok_nil|discriminate| |].
        * intros e [[]|(f & Hf' & _)]; discriminate.
        * intros e1 e2 [[]|(f & Hf' & _)]; discriminate.
  Qed.

  Lemma run_inv ops : forall s, Inv s -> Inv (run os s ops).
  Proof.
    unfold run. induction ops as [|o ops IH]; simpl; intros s I; auto.
    apply IH. apply step_inv; auto.
  Qed.

  (* ---------------------------------------------------------------------------------------------- *)
  (* consequences                                                                                      *)
  (* ---------------------------------------------------------------------------------------------- *)
  Lemma Inv_endpoints s : Inv s ->
    NoDup (endpoints (cfg s)) /\ incl (endpoints (cfg s)) (used s) /\
    (forall f, file s = Some f -> NoDup (endpoints f)).
  Proof.
    intros I. repeat split.
    - unfold endpoints. apply nodup_flat_map.
      + apply entries_nodup, I.
      + intros e He. apply (inv_eps s I). left; auto.
      + intros e1 e2 H1 H2. apply (inv_sep s I); left; auto.
    - unfold endpoints. intros p Hp. apply in_flat_map in Hp. destruct Hp as (e & He & Hp).
      apply (inv_eps s I e); [left; auto|exact Hp].
    - intros f Hf. unfold endpoints. apply nodup_flat_map.
      + apply entries_nodup. destruct I as [_ K _ _]; auto.
      + intros e He. apply (inv_eps s I). right; eauto.
      + intros e1 e2 H1 H2. apply (inv_sep s I); right; eauto.
  Qed.

  Lemma endpoints_nodup_all ops :
    let s := run os init ops in
    NoDup (endpoints (cfg s)) /\ incl (endpoints (cfg s)) (used s) /\
    (forall f, file s = Some f -> NoDup (endpoints f)).
  Proof. apply Inv_endpoints. apply run_inv. apply Inv_init. Qed.

  (* removal: the node is gone from the node list, the topology keys and every neighbour list *)
  Lemma net_remove_absent nw x : absent_net (net_remove nw x) x.
  Proof.
    split; simpl.
    - rewrite keys_adel. intros [_ H]; auto.
    - destruct (topology nw) as [t|]; simpl; auto. split.
      + rewrite map_map. simpl. fold (map (@fst name (list name)) (adel t x)). rewrite keys_adel. intros [_ H]; auto.
      + intros y l Hin. apply in_map_iff in Hin. destruct Hin as (p & Heq & _). inversion Heq; subst.
        rewrite filter_In. intros [_ H]. rewrite String.eqb_refl in H. discriminate.
  Qed.

  Lemma remove_node_absent s net x :
    keys_ok (cfg s) -> absent (cfg (remove_node s net x)) (defnet net) x.
  Proof.
    intros [K _]. unfold remove_node. destruct (aget (cfg s) (defnet net)) as [nw|] eqn:Ea; simpl.
    - intros nw' Hin. apply In_aset_same in Hin; auto. subst. apply net_remove_absent.
    - intros nw' Hin. exfalso. apply aget_None in Ea. apply Ea. apply (in_map fst) in Hin; auto.
  Qed.

  Lemma removed_gone_all ops net x :
    absent (cfg (run os init (ops ++ [RemoveNode net x]))) (defnet net) x.
  Proof.
    unfold run. rewrite fold_left_app. simpl. apply remove_node_absent.
    apply (run_inv ops init Inv_init).
  Qed.

  (* write then read reproduces the configuration exactly *)
  Lemma read_cfg_fresh f : forall acc, NoDup (map fst (acc ++ f)) -> read_cfg acc f = acc ++ f.
  Proof.
    induction f as [|[nn nw] f IH]; intros acc H; [rewrite app_nil_r; reflexivity|].
    change (read_cfg acc ((nn, nw) :: f)) with (read_cfg (aset acc nn nw) f).
    rewrite aset_notin.
    - rewrite IH; rewrite <- app_assoc; simpl; auto.
    - rewrite map_app in H. simpl in H. apply NoDup_remove_2 in H. intro Hin. apply H. apply in_or_app; auto.
  Qed.

  Lemma read_cfg_self f : forall c, NoDup (map fst c) -> incl f c -> read_cfg c f = c.
  Proof.
    induction f as [|[nn nw] f IH]; intros c H Hi; [reflexivity|].
    change (read_cfg c ((nn, nw) :: f)) with (read_cfg (aset c nn nw) f).
    rewrite aset_same; auto.
    - apply IH; auto. intros p Hp; apply Hi; simpl; auto.
    - apply Hi; simpl; auto.
  Qed.

  Lemma write_read_all ops :
    let s := run os init ops in
    file (run os s [Write]) = Some (cfg s) /\
    cfg (run os s [Write; Load]) = cfg s /\
    cfg (run os s [Write; Read]) = cfg s.
  Proof.
    intros s. assert (I : Inv s) by (apply run_inv, Inv_init).
    destruct I as [[K _] _ _ _]. unfold run; simpl. repeat split.
    - apply (read_cfg_fresh (cfg s) []). simpl; auto.
    - apply read_cfg_self; auto. apply incl_refl.
  Qed.
End Steps.
