(* Per-node (virtual number, handle) lists of Model V after one native operation.
   The NetQASM backend keeps, for a delivered pair half, the virtual NUMBER of the qubit at the receiving node and looks
   the object up again when the application polls (virtual.py remote_get_virtual_ref: first element of virtQubits with that
   number).  To show that the lookup returns the very qubit that was delivered, Net/PerNode.v (handle lists) is refined
   here to lists of (v_num, v_hid). *)
From Coq Require Import List Bool Arith Lia.
From SQ Require Import Base.ListUtil Stab.Tableau Net.Model Net.Refusal Net.Handles Net.Inv Net.InvNew Net.InvPull Net.Population
  Net.PerNode Qasm.ExecProps.
Import ListNotations.

Definition vn (nd : node) : list (nat * nat) := map (fun q => (v_num q, v_hid q)) (virt nd).
Lemma hn_vn nd : hn nd = map snd (vn nd).
Proof. unfold hn, vn. rewrite map_map. reflexivity. Qed.

(* remote_get_virtual_ref(num): the first listed virtual qubit with that number *)
Fixpoint lookup_num (num : nat) (l : list (nat * nat)) : option nat :=
  match l with [] => None | (n, h) :: t => if Nat.eqb n num then Some h else lookup_num num t end.
Definition hid_of_num (nd : node) (num : nat) : option nat := lookup_num num (vn nd).

Lemma lookup_app_l num l l' h : lookup_num num l = Some h -> lookup_num num (l ++ l') = Some h.
Proof. induction l as [|[n x] t IH]; simpl; [discriminate|]. destruct (Nat.eqb n num); auto. Qed.
Lemma lookup_app_fresh num l h : ~ In num (map fst l) -> lookup_num num (l ++ [(num, h)]) = Some h.
Proof.
  induction l as [|[n x] t IH]; simpl; intro H.
  - rewrite Nat.eqb_refl. reflexivity.
  - destruct (Nat.eqb_spec n num); [exfalso; apply H; auto|]. apply IH. intro; apply H; auto.
Qed.
Lemma lookup_filter num l h h0 : lookup_num num l = Some h -> h <> h0 ->
  lookup_num num (filter (fun p => negb (Nat.eqb (snd p) h0)) l) = Some h.
Proof.
  induction l as [|[n x] t IH]; simpl; [discriminate|]. intros H N.
  destruct (Nat.eqb_spec n num).
  - inversion H; subst. destruct (Nat.eqb_spec h h0); [contradiction|]. simpl. rewrite Nat.eqb_refl. reflexivity.
  - destruct (Nat.eqb x h0); simpl; auto. destruct (Nat.eqb_spec n num); [contradiction|auto].
Qed.
Lemma lookup_in num l h : lookup_num num l = Some h -> In h (map snd l).
Proof. induction l as [|[n x] t IH]; simpl; [discriminate|]. destruct (Nat.eqb n num); [intro H; inversion H; auto|auto]. Qed.

Lemma vn_set_same s i nd j : vn nd = vn (nth_node s i) -> vn (nth_node (set_node s i nd) j) = vn (nth_node s j).
Proof.
  intro H. rewrite nth_node_set. destruct (Nat.eqb_spec j i) as [->|N]; simpl; auto.
  destruct (Nat.ltb i (length (nodes s))); auto.
Qed.

Definition vkeeps (f : net -> net) : Prop :=
  forall s j, vn (nth_node (f s) j) = vn (nth_node s j) /\ length (nodes (f s)) = length (nodes s).

Lemma vkeeps_compose f g : vkeeps f -> vkeeps g -> vkeeps (fun s => g (f s)).
Proof. intros Hf Hg s j. destruct (Hf s j) as [A B]. destruct (Hg (f s) j) as [C D]. split; congruence. Qed.

Lemma update_reg_at_vkeeps ni r : vkeeps (fun s => update_reg_at s ni r).
Proof. intros s j; unfold update_reg_at; split; [apply vn_set_same; reflexivity|apply length_set_node]. Qed.

Lemma remove_sim_vkeeps ni x r c : vkeeps (fun s => remove_sim s ni x r c).
Proof.
  intros s j; unfold remove_sim. destruct (measure _ _ _ _ _) as [[o n'] t'].
  split; [apply vn_set_same|apply length_set_node]; destruct (Nat.eqb n' 0); reflexivity.
Qed.

Lemma local_merge_vkeeps ni k1 k2 : vkeeps (fun s => local_merge s ni k1 k2).
Proof.
  intros s j; unfold local_merge.
  destruct (find_reg k1 _) as [r1|]; [|split; auto].
  destruct (find_reg k2 _) as [r2|]; [|split; auto].
  split; [apply vn_set_same; reflexivity|apply length_set_node].
Qed.

Lemma apply_gate2_at_vkeeps ni k g c t : vkeeps (fun s => apply_gate2_at s ni k g c t).
Proof.
  intros s j; unfold apply_gate2_at. destruct (find_reg k _) as [r|]; [|split; auto].
  apply update_reg_at_vkeeps.
Qed.

Lemma merge_from_vkeeps li oi simNum lk : vkeeps (fun s => fst (merge_from s li oi simNum lk)).
Proof.
  intros s j; unfold merge_from.
  destruct (find_sq simNum _) as [x|]; [|split; auto].
  destruct (find_reg (s_reg x) _) as [orr|]; [|split; auto].
  set (on1 := mkNode _ _ _ _ _ _ _).
  set (s1 := set_node s oi on1).
  destruct (find_reg lk (regs (nth_node s1 li))) as [lr|]; [|split; auto].
  destruct (alloc_sims _ _ _ _) as [sims' ids]. cbn [fst].
  set (ln1 := mkNode _ _ _ _ _ _ _).
  assert (E1 : vn (nth_node s1 j) = vn (nth_node s j)) by (apply vn_set_same; reflexivity).
  assert (E2 : vn (nth_node (set_node s1 li ln1) j) = vn (nth_node s1 j)) by (apply vn_set_same; reflexivity).
  split.
  - rewrite <- E1, <- E2. rewrite nth_node_map_virt. unfold vn; cbn [virt with_virt]. rewrite map_map. apply map_ext.
    intros q. destruct (Nat.eqb _ _); auto. destruct (find_sq _ _); auto.
  - cbn [nodes]. rewrite map_length. unfold s1. rewrite !length_set_node. reflexivity.
Qed.

Local Arguments step : simpl never.

(* gates, in-place measurements, refusals and ignored operations leave every node's (number, handle) list unchanged *)
Lemma step_quiet_vn s o j : quiet_op o = true -> vn (nth_node (fst (step s o)) j) = vn (nth_node s j).
Proof.
  assert (HK : forall f, vkeeps f -> vn (nth_node (f s) j) = vn (nth_node s j)).
  { intros f Hf. apply Hf. }
  unfold step.
  destruct o; simpl; try discriminate; try (destruct inplace; [|discriminate]); intros _.
  - unfold op_gate1. destruct (find_handle s h) as [[vi q]|]; [|simpl; auto].
    destruct (locate s q) as [[x r]|]; [|simpl; auto].
    destruct (gate1_of g); simpl; auto. apply (HK _ (update_reg_at_vkeeps _ _)).
  - unfold op_gate2.
    destruct (find_handle s h1) as [[vi q1]|]; [|simpl; auto].
    destruct (find_handle s h2) as [[vi2 q2]|]; [|simpl; auto].
    destruct (negb _); [simpl; auto|].
    destruct (Nat.eqb (v_simNode q1) (v_simNode q2)).
    + destruct (pos_of s _ (v_simNum q1)) as [k1 p1]. destruct (pos_of s _ (v_simNum q2)) as [k2 p2].
      destruct (Nat.eqb k1 k2).
      * destruct (Nat.eqb p1 p2); simpl; auto. apply (HK _ (apply_gate2_at_vkeeps _ _ _ _ _)).
      * destruct (pos_of _ _ _) as [a b]. destruct (pos_of _ _ _) as [a' b']. cbn [fst].
        apply (HK _ (vkeeps_compose _ _ (local_merge_vkeeps (v_simNode q1) k1 k2) (apply_gate2_at_vkeeps (v_simNode q1) k1 g b b'))).
    + destruct (Nat.eqb (v_simNode q1) vi).
      * destruct (pos_of _ _ _) as [k1 x].
        pose proof (merge_from_vkeeps vi (v_simNode q2) (v_simNum q2) k1) as HM.
        destruct (merge_from _ _ _ _ _) as [s1 newT] eqn:EM.
        destruct (pos_of _ _ _) as [a b]. destruct (pos_of _ _ _) as [a' b']. cbn [fst].
        assert (HC : vkeeps (fun s0 => apply_gate2_at (fst (merge_from s0 vi (v_simNode q2) (v_simNum q2) k1)) vi k1 g b b')).
        { apply (vkeeps_compose _ _ HM (apply_gate2_at_vkeeps vi k1 g b b')). }
        specialize (HK _ HC). cbv beta in HK. rewrite EM in HK. exact HK.
      * destruct (Nat.eqb (v_simNode q2) vi).
        -- destruct (pos_of _ _ _) as [k2 x].
           pose proof (merge_from_vkeeps vi (v_simNode q1) (v_simNum q1) k2) as HM.
           destruct (merge_from _ _ _ _ _) as [s1 newC] eqn:EM.
           destruct (pos_of _ _ _) as [a b]. destruct (pos_of _ _ _) as [a' b']. cbn [fst].
           assert (HC : vkeeps (fun s0 => apply_gate2_at (fst (merge_from s0 vi (v_simNode q1) (v_simNum q1) k2)) vi k2 g b b')).
           { apply (vkeeps_compose _ _ HM (apply_gate2_at_vkeeps vi k2 g b b')). }
           specialize (HK _ HC). cbv beta in HK. rewrite EM in HK. exact HK.
        -- destruct (add_register_force (nth_node s vi)) as [nd1 r] eqn:EA.
           assert (H0 : vn (nth_node (set_node s vi nd1) j) = vn (nth_node s j)).
           { apply vn_set_same. unfold add_register_force in EA. inversion EA. reflexivity. }
           pose proof (merge_from_vkeeps vi (v_simNode q1) (v_simNum q1) (r_num r) (set_node s vi nd1) j) as [HM1 _]. cbv beta in HM1.
           destruct (merge_from (set_node s vi nd1) _ _ _ _) as [s1 newC]. cbn [fst] in HM1.
           pose proof (merge_from_vkeeps vi (v_simNode q2) (v_simNum q2) (r_num r) s1 j) as [HM2 _]. cbv beta in HM2.
           destruct (merge_from s1 _ _ _ _) as [s2 newT]. cbn [fst] in HM2.
           destruct (pos_of _ _ _) as [a b]. destruct (pos_of _ _ _) as [a' b']. cbn [fst].
           destruct (apply_gate2_at_vkeeps vi (r_num r) g b b' s2 j) as [G1 _]. congruence.
  - unfold op_meas. destruct (find_handle s h) as [[vi q]|]; [|simpl; auto].
    destruct (locate s q) as [[x r]|]; [|simpl; auto].
    destruct (measure _ _ _ _ _) as [[o n1] t1]. cbn [fst].
    apply (HK _ (update_reg_at_vkeeps _ _)).
Qed.

(* creation: (fresh number, next_hid) is appended at node i, nothing else moves *)
Lemma step_new_vn s i v j : snd (step s (ONew i)) = Ok v ->
  vn (nth_node (fst (step s (ONew i))) j) = (if Nat.eqb j i then vn (nth_node s i) ++ [(v, next_hid s)] else vn (nth_node s j))
  /\ ~ In v (map fst (vn (nth_node s i))).
Proof.
  unfold step. destruct (Nat.ltb_spec i (length (nodes s))) as [Hi|Hi]; [|discriminate].
  unfold op_new. destruct (Nat.leb _ _); [discriminate|].
  unfold add_register. destruct (Nat.leb _ _); [discriminate|]. cbn [fst snd]. intro E. inversion E; subst v. clear E.
  split.
  - unfold nth_node at 1. cbn [nodes].
    destruct (Nat.eqb_spec j i) as [E|N].
    + subst j. rewrite nth_upd_eq by auto. unfold vn; simpl. rewrite map_app. reflexivity.
    + rewrite nth_upd_neq by auto. reflexivity.
  - cbn [virt with_virt with_sims with_regs]. unfold vn. rewrite map_map. cbn [fst]. apply fresh_id_not_in.
Qed.

Lemma filter_neq_vn h l :
  filter (fun p => negb (Nat.eqb (snd p) h)) (map (fun q => (v_num q, v_hid q)) l) = map (fun q => (v_num q, v_hid q)) (remove_vq h l).
Proof.
  unfold remove_vq. induction l as [|a t IH]; simpl; auto. destruct (Nat.eqb (v_hid a) h); simpl; congruence.
Qed.

(* destructive measurement: the handle leaves its holder, nothing else moves *)
Lemma step_meas_vn s h c v vi q j : snd (step s (OMeas h false c)) = Ok v -> find_handle s h = Some (vi, q) ->
  vn (nth_node (fst (step s (OMeas h false c))) j) =
    (if Nat.eqb j vi then filter (fun p => negb (Nat.eqb (snd p) h)) (vn (nth_node s vi)) else vn (nth_node s j)).
Proof.
  unfold step, op_meas. intros Hok F. rewrite F in *.
  destruct (locate s q) as [[x r]|]; [|discriminate].
  destruct (measure _ _ _ _ _) as [[o n1] t1]. cbn [fst].
  set (r1 := reg_with_tab r n1 t1).
  pose proof (vkeeps_compose _ _ (update_reg_at_vkeeps (v_simNode q) r1) (remove_sim_vkeeps (v_simNode q) x r1 c)) as HC.
  set (s2 := remove_sim (update_reg_at s (v_simNode q) r1) (v_simNode q) x r1 c) in *.
  assert (Hvi : vi < length (nodes s)) by (apply find_handle_some in F; tauto).
  rewrite nth_node_set. destruct (HC s vi) as [A B]. cbv beta in A, B. fold s2 in A, B.
  destruct (Nat.eqb_spec j vi) as [E|N]; simpl.
  - subst j. rewrite B. destruct (Nat.ltb_spec vi (length (nodes s))); [|lia].
    rewrite <- A. unfold vn. cbn [virt with_virt]. symmetry. apply filter_neq_vn.
  - destruct (HC s j) as [A' _]. exact A'.
Qed.

(* sending: the handle leaves its holder; (fresh number = the value returned, next_hid) appears at the target *)
Lemma step_send_vn s h t v vi q j : snd (step s (OSend h t)) = Ok v -> find_handle s h = Some (vi, q) -> vi <> t ->
  vn (nth_node (fst (step s (OSend h t))) j) =
    (if Nat.eqb j vi then filter (fun p => negb (Nat.eqb (snd p) h)) (vn (nth_node s vi))
     else if Nat.eqb j t then vn (nth_node s t) ++ [(v, next_hid s)] else vn (nth_node s j))
  /\ ~ In v (map fst (vn (nth_node s t))).
Proof.
  unfold step, op_send. intros Hok F Hne. rewrite F in *.
  destruct (Nat.leb_spec (length (nodes s)) t) as [Ht|Ht]; [discriminate|].
  destruct (Nat.leb _ _); [discriminate|]. cbn [fst snd] in *. inversion Hok; subst v. clear Hok.
  apply find_handle_some in F as (Lvi & Hq & Ehq).
  set (tn1 := with_virt _ _). set (s1 := mkNet _ _).
  assert (E1 : forall k, nth_node s1 k = if Nat.eqb k t then tn1 else nth_node s k).
  { intro k. unfold s1. rewrite nth_node_mk. destruct (Nat.ltb_spec t (length (nodes s))); try lia. rewrite andb_true_r. auto. }
  assert (L1 : length (nodes s1) = length (nodes s)) by (unfold s1; simpl; apply upd_length).
  split.
  - rewrite nth_node_set. rewrite L1. destruct (Nat.ltb_spec vi (length (nodes s))); try lia. rewrite andb_true_r.
    destruct (Nat.eqb_spec j vi) as [->|Nj].
    + rewrite E1. destruct (Nat.eqb_spec vi t); [contradiction|]. unfold vn. cbn [virt with_virt]. symmetry. apply filter_neq_vn.
    + rewrite E1. destruct (Nat.eqb_spec j t) as [->|]; auto.
      unfold tn1, vn. cbn [virt with_virt]. rewrite map_app. reflexivity.
  - unfold vn. rewrite map_map. cbn [fst]. apply fresh_id_not_in.
Qed.
