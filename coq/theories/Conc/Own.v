(* Ownership invariant of lock-disciplined configurations (no _lock_nodes, i.e. no timeout branch): a held lock is held by
   exactly the operation whose program says so, and only that operation can release it. *)
From Coq Require Import List Bool Arith Lia.
From SQ Require Import Base.ListUtil Conc.Model.
Import ListNotations.

(* well-formed straight-line program relative to the set of held nodes: every request is followed by its grant, every
   release is of a held node, nothing is held at the end *)
Fixpoint wfp (held : list nid) (prog : list act) : bool :=
  match prog with
  | [] => match held with [] => true | _ => false end
  | AReq n :: AAcq m :: p => Nat.eqb n m && wfp (m :: held) p
  | ARel n :: p => mem n held && wfp (remove1 n held) p
  | _ => false
  end.

Definition wfs (held : list nid) (prog : list act) (cur : option rid) : bool :=
  match cur, prog with
  | Some _, AAcq m :: p => wfp (m :: held) p
  | Some _, _ => false
  | None, _ => wfp held prog
  end.

Lemma wfp_prog_of k : disciplined k = true -> wfp [] (prog_of k) = true.
Proof.
  destruct k; simpl; intros H; try discriminate; auto;
    repeat (rewrite ?Nat.eqb_refl, ?orb_true_r, ?andb_true_l; simpl); auto.
Qed.

Lemma mem_In n l : mem n l = true <-> In n l.
Proof.
  induction l as [|h t IH]; simpl; [split; [discriminate|tauto]|].
  rewrite orb_true_iff, IH, Nat.eqb_eq. tauto.
Qed.

Lemma In_remove1 n m l : In m (remove1 n l) -> In m l.
Proof.
  induction l as [|h t IH]; simpl; auto.
  destruct (Nat.eqb h n); simpl; tauto.
Qed.

Lemma In_remove1_neq n m l : m <> n -> In m l -> In m (remove1 n l).
Proof.
  intros Hne. induction l as [|h t IH]; simpl; auto.
  intros [->|H].
  - destruct (Nat.eqb_spec m n); [contradiction|left; auto].
  - destruct (Nat.eqb_spec h n); [auto|right; auto].
Qed.

Lemma NoDup_remove1 n l : NoDup l -> NoDup (remove1 n l) /\ ~ In n (remove1 n l).
Proof.
  induction 1 as [|h t Hh Ht IH]; simpl; [split; [constructor|tauto]|].
  destruct (Nat.eqb_spec h n).
  - subst. split; auto.
  - destruct IH as [IH1 IH2]. split.
    + constructor; auto. intro X. apply Hh. eapply In_remove1; eauto.
    + simpl. intros [X|X]; auto.
Qed.

(* ---- accessors under updates ---- *)
Lemma op_of_range s o : op_of s o <> SDone -> o < length (ops s).
Proof.
  unfold op_of. intros H. destruct (Nat.lt_ge_cases o (length (ops s))); auto.
  rewrite nth_overflow in H; auto. congruence.
Qed.

Lemma op_set_eq s o v : o < length (ops s) -> op_of (set_op s o v) o = v.
Proof. intros. unfold op_of, set_op; simpl. apply nth_upd_eq; auto. Qed.

Lemma op_set_neq s o o' v : o <> o' -> op_of (set_op s o v) o' = op_of s o'.
Proof. intros. unfold op_of, set_op; simpl. apply nth_upd_neq; auto. Qed.

Lemma lock_set_eq s n v : n < length (locks s) -> lock_of (set_lock s n v) n = v.
Proof. intros. unfold lock_of, set_lock; simpl. apply nth_upd_eq; auto. Qed.

Lemma lock_set_neq s n m v : n <> m -> lock_of (set_lock s n v) m = lock_of s m.
Proof. intros. unfold lock_of, set_lock; simpl. apply nth_upd_neq; auto. Qed.

Lemma lock_set_none s n : lock_of (set_lock s n None) n = None.
Proof.
  destruct (Nat.lt_ge_cases n (length (locks s))).
  - apply lock_set_eq; auto.
  - unfold lock_of, set_lock; simpl. apply nth_overflow. rewrite upd_length. auto.
Qed.

Lemma lock_of_range s n x : lock_of s n = Some x -> n < length (locks s).
Proof.
  unfold lock_of. intros H. destruct (Nat.lt_ge_cases n (length (locks s))); auto.
  rewrite nth_overflow in H; auto. discriminate.
Qed.

Lemma lock_set_op s o v n : lock_of (set_op s o v) n = lock_of s n.
Proof. reflexivity. Qed.

Lemma op_set_lock s n v o : op_of (set_lock s n v) o = op_of s o.
Proof. reflexivity. Qed.

(* ---- the invariant ---- *)
Definition op_ok (s : st) (o : opid) : Prop :=
  match op_of s o with
  | SIdle | SDone => True
  | SRun held prog cur =>
      wfs held prog cur = true /\ NoDup held /\ forall n, In n held -> lock_of s n = Some (o, false)
  | _ => False
  end.

Definition lock_ok (s : st) (n : nid) : Prop :=
  match lock_of s n with
  | None => True
  | Some (o, b) => b = false /\ match op_of s o with SRun held _ _ => In n held | _ => False end
  end.

Record Own (s : st) : Prop := {
  own_orph : orph s = [];
  own_ops : forall o, op_ok s o;
  own_locks : forall n, lock_ok s n
}.

Definition all_disciplined (cfg : list okind) : Prop := forallb disciplined cfg = true.

Lemma disciplined_kind cfg o : all_disciplined cfg -> disciplined (kind_of cfg o) = true.
Proof.
  unfold all_disciplined, kind_of. intros H.
  destruct (Nat.lt_ge_cases o (length cfg)).
  - rewrite forallb_forall in H. apply H. apply nth_In; auto.
  - rewrite nth_overflow; auto.
Qed.

Lemma nth_map_idle (cfg : list okind) o :
  nth o (map (fun _ => SIdle) cfg) SDone = SIdle \/ nth o (map (fun _ => SIdle) cfg) SDone = SDone.
Proof. revert o; induction cfg; intros [|o]; simpl; auto. Qed.

Lemma nth_repeat_none {A} n k : nth k (repeat (@None A) n) None = None.
Proof. revert k; induction n; intros [|k]; simpl; auto. Qed.

Lemma op_of_init_idle nn cfg o : o < length cfg -> op_of (init nn cfg) o = SIdle.
Proof.
  unfold op_of, init; simpl. revert o. induction cfg as [|k t IH]; intros [|o] H; simpl in *; try lia; auto.
  apply IH. lia.
Qed.

Lemma lock_of_init nn cfg n : lock_of (init nn cfg) n = None.
Proof. unfold lock_of, init; simpl. apply nth_repeat_none. Qed.

Lemma own_init nn cfg : Own (init nn cfg).
Proof.
  split; simpl; auto.
  - intros o. unfold op_ok, op_of, init; simpl.
    destruct (nth_map_idle cfg o) as [-> | ->]; exact I.
  - intros n. unfold lock_ok, lock_of, init; simpl. rewrite nth_repeat_none. exact I.
Qed.

(* an operation that holds nothing new: frame lemma for the other operations and the other locks *)
Lemma own_locks_run s n o b : Own s -> lock_of s n = Some (o, b) ->
  b = false /\ exists held prog cur, op_of s o = SRun held prog cur /\ In n held.
Proof.
  intros [_ _ HL] E. specialize (HL n). unfold lock_ok in HL. rewrite E in HL.
  destruct HL as [-> HL]. split; auto.
  destruct (op_of s o) eqn:Eo; try contradiction. eauto.
Qed.

Lemma own_ops_run s o held prog cur : Own s -> op_of s o = SRun held prog cur ->
  wfs held prog cur = true /\ NoDup held /\ forall n, In n held -> lock_of s n = Some (o, false).
Proof.
  intros [_ HO _] E. specialize (HO o). unfold op_ok in HO. rewrite E in HO. exact HO.
Qed.

Ltac inv H := inversion H; subst; clear H.

(* changing only the program state of operation o, keeping its held set and all locks *)
Lemma own_advance s o held prog cur prog' cur' :
  Own s -> op_of s o = SRun held prog cur -> wfs held prog' cur' = true ->
  Own (set_op s o (SRun held prog' cur')).
Proof.
  intros HS E W.
  assert (R : o < length (ops s)) by (apply op_of_range; congruence).
  destruct (own_ops_run _ _ _ _ _ HS E) as (_ & ND & HL).
  split.
  - simpl. apply HS.
  - intros o'. unfold op_ok. destruct (Nat.eq_dec o o') as [<-|Ne].
    + rewrite op_set_eq by auto. auto.
    + rewrite op_set_neq by auto. pose proof (own_ops _ HS o') as X. unfold op_ok in X.
      destruct (op_of s o'); auto.
  - intros n. unfold lock_ok. rewrite lock_set_op.
    pose proof (own_locks _ HS n) as X. unfold lock_ok in X.
    destruct (lock_of s n) as [[o' b]|]; auto. destruct X as [-> X]. split; auto.
    destruct (Nat.eq_dec o o') as [<-|Ne].
    + rewrite op_set_eq by auto. rewrite E in X. auto.
    + rewrite op_set_neq by auto. auto.
Qed.

Theorem own_step cfg s e s' :
  all_disciplined cfg -> Own s -> step cfg s e = Some s' -> Own s'.
Proof.
  intros HC HS ST. destruct e as [o|o rs|n o r|n o r|n o was|o|o]; simpl in ST.
  - (* EIssue *)
    destruct (op_of s o) eqn:Eo; try discriminate.
    assert (R : o < length (ops s)) by (apply op_of_range; congruence).
    pose proof (disciplined_kind cfg o HC) as D.
    assert (s' = set_op s o (SRun [] (prog_of (kind_of cfg o)) None)) as ->.
    { destruct (kind_of cfg o); simpl in D; try discriminate; inv ST; reflexivity. }
    split.
    + apply HS.
    + intros o'. unfold op_ok. destruct (Nat.eq_dec o o') as [<-|Ne].
      * rewrite op_set_eq by auto. simpl. split; [apply wfp_prog_of; auto|]. split; [constructor|]. simpl; tauto.
      * rewrite op_set_neq by auto. pose proof (own_ops _ HS o') as X. unfold op_ok in X. destruct (op_of s o'); auto.
    + intros n. unfold lock_ok. rewrite lock_set_op.
      pose proof (own_locks _ HS n) as X. unfold lock_ok in X.
      destruct (lock_of s n) as [[o' b]|]; auto. destruct X as [-> X]. split; auto.
      destruct (Nat.eq_dec o o') as [<-|Ne].
      * rewrite Eo in X. contradiction.
      * rewrite op_set_neq by auto. auto.
  - (* ELockn *)
    pose proof (disciplined_kind cfg o HC) as D.
    destruct (kind_of cfg o); simpl in D; try discriminate.
  - (* EReq *)
    rewrite (own_orph _ HS) in ST. simpl in ST.
    destruct (op_of s o) eqn:Eo; try discriminate.
    + destruct prog as [|[m|m|m] p]; try discriminate. destruct cur; try discriminate.
      destruct (Nat.eqb_spec m n); try discriminate. subst m. inv ST.
      destruct (own_ops_run _ _ _ _ _ HS Eo) as (W & _ & _).
      eapply own_advance; eauto.
      simpl in W. destruct p as [|[m|m|m] p]; try discriminate.
      apply andb_true_iff in W. destruct W as [_ W]. exact W.
    + (* SG2 impossible *) pose proof (own_ops _ HS o) as X. unfold op_ok in X. rewrite Eo in X. contradiction.
    + pose proof (own_ops _ HS o) as X. unfold op_ok in X. rewrite Eo in X. contradiction.
  - (* EAcq *)
    destruct (lock_of s n) eqn:El; try discriminate.
    destruct (Nat.ltb_spec n (length (locks s))) as [Rn|]; try discriminate.
    rewrite (own_orph _ HS) in ST. simpl in ST.
    destruct (op_of s o) eqn:Eo; try discriminate.
    + destruct prog as [|[m|m|m] p]; try discriminate. destruct cur as [r'|]; try discriminate.
      destruct (Nat.eqb_spec m n); simpl in ST; try discriminate. subst m.
      destruct (Nat.eqb r r'); try discriminate. inv ST.
      assert (R : o < length (ops s)) by (apply op_of_range; congruence).
      destruct (own_ops_run _ _ _ _ _ HS Eo) as (W & ND & HL).
      assert (Nin : ~ In n held). { intro X. apply HL in X. congruence. }
      split.
      * apply HS.
      * intros o'. unfold op_ok. rewrite op_set_lock. destruct (Nat.eq_dec o o') as [<-|Ne].
        -- rewrite op_set_eq by auto. split; [exact W|]. split; [constructor; auto|].
           intros m [<-|Hm].
           ++ apply lock_set_eq. auto.
           ++ rewrite lock_set_neq. apply HL; auto. intro; subst; auto.
        -- rewrite op_set_neq by auto. pose proof (own_ops _ HS o') as X. unfold op_ok in X.
           destruct (op_of s o') eqn:Eo'; auto. destruct X as (W' & ND' & HL'). split; auto. split; auto.
           intros m Hm. rewrite lock_set_neq. apply HL'; auto. intro; subst m. apply HL' in Hm. congruence.
      * intros m. unfold lock_ok. destruct (Nat.eq_dec n m) as [<-|Ne].
        -- rewrite lock_set_eq by auto. split; auto. rewrite op_set_lock, op_set_eq by auto. left; auto.
        -- rewrite lock_set_neq by auto. rewrite lock_set_op.
           pose proof (own_locks _ HS m) as X. unfold lock_ok in X.
           destruct (lock_of s m) as [[o' b]|]; auto. destruct X as [-> X]. split; auto.
           rewrite op_set_lock.
           destruct (Nat.eq_dec o o') as [<-|Ne'].
           ++ rewrite op_set_eq by auto. rewrite Eo in X. right; auto.
           ++ rewrite op_set_neq by auto. auto.
    + pose proof (own_ops _ HS o) as X. unfold op_ok in X. rewrite Eo in X. contradiction.
    + pose proof (own_ops _ HS o) as X. unfold op_ok in X. rewrite Eo in X. contradiction.
  - (* ERel *)
    destruct (op_of s o) eqn:Eo; try discriminate;
      try (pose proof (own_ops _ HS o) as X; unfold op_ok in X; rewrite Eo in X; contradiction).
    destruct prog as [|[m|m|m] p]; try discriminate. destruct cur; try discriminate.
    destruct (Nat.eqb_spec m n); try discriminate. subst m.
    unfold rel_lock in ST. destruct (Bool.eqb was _); try discriminate. inv ST.
    assert (R : o < length (ops s)) by (apply op_of_range; congruence).
    destruct (own_ops_run _ _ _ _ _ HS Eo) as (W & ND & HL).
    simpl in W. apply andb_true_iff in W. destruct W as [Hm W]. apply mem_In in Hm.
    destruct (NoDup_remove1 n held ND) as [ND' Nin].
    split.
    + apply HS.
    + intros o'. unfold op_ok. rewrite op_set_lock. destruct (Nat.eq_dec o o') as [<-|Ne].
      * rewrite op_set_eq by auto. split; [exact W|]. split; auto.
        intros m Hm'. rewrite lock_set_neq. rewrite lock_set_op. apply HL. eapply In_remove1; eauto.
        intro; subst m. auto.
      * rewrite op_set_neq by auto. pose proof (own_ops _ HS o') as X. unfold op_ok in X.
        destruct (op_of s o') eqn:Eo'; auto. destruct X as (W' & ND2 & HL'). split; auto. split; auto.
        intros m Hm'. rewrite lock_set_neq. rewrite lock_set_op. apply HL'; auto.
        intro; subst m. apply HL' in Hm'. apply HL in Hm. congruence.
    + intros m. unfold lock_ok. destruct (Nat.eq_dec n m) as [<-|Ne].
      * rewrite lock_set_none. exact I.
      * rewrite lock_set_neq by auto. rewrite lock_set_op.
        pose proof (own_locks _ HS m) as X. unfold lock_ok in X.
        destruct (lock_of s m) as [[o' b]|]; auto. destruct X as [-> X]. split; auto.
        rewrite op_set_lock.
        destruct (Nat.eq_dec o o') as [<-|Ne'].
        -- rewrite op_set_eq by auto. rewrite Eo in X. apply In_remove1_neq; auto.
        -- rewrite op_set_neq by auto. auto.
  - (* ETimeout *)
    pose proof (disciplined_kind cfg o HC) as D.
    destruct (kind_of cfg o); simpl in D; try discriminate.
  - (* EDone *)
    destruct (op_of s o) eqn:Eo; try discriminate;
      try (pose proof (own_ops _ HS o) as X; unfold op_ok in X; rewrite Eo in X; contradiction).
    destruct prog; try discriminate. destruct cur; try discriminate. inv ST.
    assert (R : o < length (ops s)) by (apply op_of_range; congruence).
    destruct (own_ops_run _ _ _ _ _ HS Eo) as (W & ND & HL).
    simpl in W. destruct held; try discriminate.
    split.
    + apply HS.
    + intros o'. unfold op_ok. destruct (Nat.eq_dec o o') as [<-|Ne].
      * rewrite op_set_eq by auto. exact I.
      * rewrite op_set_neq by auto. pose proof (own_ops _ HS o') as X. unfold op_ok in X. destruct (op_of s o'); auto.
    + intros n. unfold lock_ok. rewrite lock_set_op.
      pose proof (own_locks _ HS n) as X. unfold lock_ok in X.
      destruct (lock_of s n) as [[o' b]|]; auto. destruct X as [-> X]. split; auto.
      destruct (Nat.eq_dec o o') as [<-|Ne].
      * rewrite Eo in X. contradiction.
      * rewrite op_set_neq by auto. auto.
Qed.

Theorem own_run cfg tr : forall s s',
  all_disciplined cfg -> Own s -> run cfg s tr = Some s' -> Own s'.
Proof.
  induction tr as [|e t IH]; simpl; intros s s' HC HS R.
  - inv R. auto.
  - destruct (step cfg s e) as [s0|] eqn:E; try discriminate.
    apply (IH s0 s'); auto. eapply own_step; eauto.
Qed.

Lemma run_app cfg t1 : forall t2 s, run cfg s (t1 ++ t2) = match run cfg s t1 with Some s1 => run cfg s1 t2 | None => None end.
Proof.
  induction t1 as [|e t IH]; simpl; intros; auto.
  destruct (step cfg s e); auto.
Qed.
