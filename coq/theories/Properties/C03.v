(* C03 - concurrent operations are serializable.
   Proved, lock level (Model L, tied to the code by trace acceptance): lock discipline of all operations other than two-qubit
     gates (mutual exclusion, owner-only release), finiteness; every accepted run of such a configuration is a legal,
     two-phase lock schedule (C03_disciplined_runs_legal / _two_phase).
   Proved, data level, GENERICALLY (Conc/TwoPhase.v): two-phase locking implies serializability - for abstract node data D,
     per-operation local state L and any deterministic access function, the final store and every operation's local state
     (its outcome) after a legal, covered, two-phase schedule are those of the serial schedule in lock-point order
     (C03_two_phase_locking_serializable), that order respects real-time precedence (C03_lock_order_respects_real_time), and
     the hypotheses are needed (C03_*_needed).  C03_disciplined_runs_serializable joins the two: ANY covered placement of
     accesses inside a lock trace accepted by model L is serializable in the order computed from the trace alone.
   NOT proved, and not checked by the tie: that the operations of virtual.py ARE such access sequences - that they touch a
     node's bookkeeping only while holding that node's lock and depend on nothing else (coverage of the footprint).  This
     is an assumption about the code; it is known to fail for the `active` test (D23), and for merges it is only tested:
     harness/props/concprop.py compares every clean two-phase run with the sequential run in lock-point order
     (evidence counters lockpoint_order_matches / other_order_matches, notes/C03.md).
   Refuted: the timeout branch of _lock_nodes releases locks held by another operation (D6); mutual exclusion fails. *)
From Coq Require Import List Bool Arith.
From SQ Require Import Base.ListUtil Conc.Model Conc.Own Conc.Deadlock Conc.Serial Conc.Orphan Conc.TwoPhase.
Import ListNotations.

(* critical sections on one node never overlap *)
Theorem C03_two_phase_mutual_exclusion_partial : forall cfg nn tr s o1 o2 n,
  all_disciplined cfg -> run cfg (init nn cfg) tr = Some s ->
  holds s o1 n -> holds s o2 n -> o1 = o2.
Proof. exact disciplined_mutex. Qed.
Print Assumptions C03_two_phase_mutual_exclusion_partial.

Theorem C03_holder_is_owner : forall cfg nn tr s n o b,
  all_disciplined cfg -> run cfg (init nn cfg) tr = Some s ->
  lock_of s n = Some (o, b) -> b = false /\ holds s o n.
Proof. exact disciplined_holder_is_owner. Qed.
Print Assumptions C03_holder_is_owner.

Theorem C03_release_only_by_owner : forall cfg nn tr s n o was s',
  all_disciplined cfg -> run cfg (init nn cfg) tr = Some s ->
  step cfg s (ERel n o was) = Some s' -> was = true /\ lock_of s n = Some (o, false).
Proof. exact disciplined_release_by_owner. Qed.
Print Assumptions C03_release_only_by_owner.

(* the lock-discipline invariant itself, preserved by every event of every lock-disciplined configuration *)
Theorem C03_ownership_invariant : forall cfg s e s',
  all_disciplined cfg -> Own s -> step cfg s e = Some s' -> Own s'.
Proof. exact own_step. Qed.
Print Assumptions C03_ownership_invariant.

(* D6: operation 0 is inside its critical section over nodes 0 and 1 while the lock of node 0 is free (trace recorded from the
   implementation) *)
Theorem C03_serializable_refuted :
  exists s, run cfg_cross (init 2 cfg_cross) steal_trace = Some s /\
    critical s 0 0 = true /\ critical s 0 1 = true /\ lock_of s 0 = None.
Proof. exact mutual_exclusion_refuted_lemma. Qed.
Print Assumptions C03_serializable_refuted.

(* ... because the release_global_lock of operation 1's timeout branch freed the lock operation 0 held *)
Theorem C03_foreign_release :
  exists pre s, pre ++ [ERel 0 1 true] = steal_trace /\
    run cfg_cross (init 2 cfg_cross) pre = Some s /\
    critical s 0 0 = true /\ lock_of s 0 = Some (0, false).
Proof. exact foreign_release_lemma. Qed.
Print Assumptions C03_foreign_release.

(* ---- data level: two-phase locking implies serializability (generic; Conc/TwoPhase.v) ---- *)

(* final store and all local states (outcomes) of a legal, covered, two-phase schedule = those of the serial schedule that
   runs the operations' own event sequences one after the other in lock-point order *)
Theorem C03_two_phase_locking_serializable :
  forall (D L : Type) (acc : opid -> nid -> L -> D -> L * D) (s : list event) (st : state D L),
  legal free s -> covered free s -> two_phase s ->
  (forall n, sd (exec D L acc s st) n = sd (exec D L acc (serial s) st) n) /\
  (forall o, sl (exec D L acc s st) o = sl (exec D L acc (serial s) st) o).
Proof. exact two_phase_serializable. Qed.
Print Assumptions C03_two_phase_locking_serializable.

(* the serial schedule is the sequential execution: operation after operation in lock-point order *)
Theorem C03_serial_is_sequential :
  forall (D L : Type) (acc : opid -> nid -> L -> D -> L * D) (s : list event) (st : state D L),
  exec D L acc (serial s) st = fold_left (fun st o => exec D L acc (proj o s) st) (lock_order s) st.
Proof. exact serial_is_sequential. Qed.
Print Assumptions C03_serial_is_sequential.

(* the lock-point order respects real time: all events of o1 before all events of o2 => o1 first *)
Theorem C03_lock_order_respects_real_time : forall a b o1 o2,
  ~ occurs o2 a -> ~ occurs o1 b ->
  In o1 (lock_order (a ++ b)) -> In o2 (lock_order (a ++ b)) ->
  exists l1 l2 l3, lock_order (a ++ b) = l1 ++ o1 :: l2 ++ o2 :: l3.
Proof. exact lock_order_real_time. Qed.
Print Assumptions C03_lock_order_respects_real_time.

(* the 2PL core: the operation with the earliest lock point can be moved to the front *)
Theorem C03_lock_point_first_moves_to_front : forall s o rest,
  legal free s -> covered free s -> two_phase s -> lock_order s = o :: rest -> front_ok o s.
Proof. exact lock_point_first_front_ok. Qed.
Print Assumptions C03_lock_point_first_moves_to_front.

(* non-vacuity: an interleaved schedule of three operations satisfying the hypotheses, and its serial form *)
Theorem C03_two_phase_example :
  legal free ex_sched /\ covered free ex_sched /\ two_phase ex_sched /\
  lock_order ex_sched = [2; 0; 1] /\ serial ex_sched <> ex_sched /\
  serial ex_sched =
    [Lk 2 2; Ac 2 2; Ac 2 2; Ul 2 2] ++ [Lk 0 0; Ac 0 0; Lk 0 1; Ul 0 0; Ac 0 1; Ul 0 1] ++
    [Lk 1 0; Ac 1 0; Lk 1 1; Ac 1 1; Ul 1 0; Ul 1 1] /\
  ex_view (exec _ _ ex_acc ex_sched ex_init) = ([4; 4; 21], [[1; 1]; [2; 2]; [1; 11]]) /\
  ex_view (exec _ _ ex_acc (serial ex_sched) ex_init) = ([4; 4; 21], [[1; 1]; [2; 2]; [1; 11]]).
Proof. exact ex_sched_ok. Qed.
Print Assumptions C03_two_phase_example.

(* each hypothesis is needed: without it a schedule whose result is that of NO sequential order *)
Theorem C03_two_phase_needed :
  legal free ex_not_2pl /\ covered free ex_not_2pl /\ ~ two_phase ex_not_2pl /\
  sd (exec _ _ ex_acc ex_not_2pl ex_init) 0 = 5 /\
  sd (exec _ _ ex_acc (serial ex_not_2pl) ex_init) 0 = 4 /\
  sd (exec _ _ ex_acc (proj 0 ex_not_2pl ++ proj 1 ex_not_2pl) ex_init) 0 = 6 /\
  sd (exec _ _ ex_acc (proj 1 ex_not_2pl ++ proj 0 ex_not_2pl) ex_init) 0 = 4.
Proof. exact two_phase_needed. Qed.
Print Assumptions C03_two_phase_needed.

Theorem C03_coverage_needed :
  legal free ex_not_covered /\ two_phase ex_not_covered /\ ~ covered free ex_not_covered /\
  sd (exec _ _ ex_acc ex_not_covered ex_init) 0 = 5 /\
  sd (exec _ _ ex_acc (serial ex_not_covered) ex_init) 0 = 3 /\
  sd (exec _ _ ex_acc (proj 0 ex_not_covered ++ proj 1 ex_not_covered) ex_init) 0 = 6 /\
  sd (exec _ _ ex_acc (proj 1 ex_not_covered ++ proj 0 ex_not_covered) ex_init) 0 = 4.
Proof. exact coverage_needed. Qed.
Print Assumptions C03_coverage_needed.

Theorem C03_exclusive_locks_needed :
  ~ legal free ex_not_legal /\ two_phase ex_not_legal /\
  sd (exec _ _ ex_acc ex_not_legal ex_init) 0 = 5 /\
  sd (exec _ _ ex_acc (proj 0 ex_not_legal ++ proj 1 ex_not_legal) ex_init) 0 = 6 /\
  sd (exec _ _ ex_acc (proj 1 ex_not_legal ++ proj 0 ex_not_legal) ex_init) 0 = 4.
Proof. exact legality_needed. Qed.
Print Assumptions C03_exclusive_locks_needed.

(* ---- model L runs are legal two-phase lock schedules ---- *)
Theorem C03_disciplined_runs_legal : forall cfg nn tr s,
  all_disciplined cfg -> run cfg (init nn cfg) tr = Some s -> legal free (sched tr).
Proof. exact disciplined_legal. Qed.
Print Assumptions C03_disciplined_runs_legal.

Theorem C03_disciplined_runs_two_phase : forall cfg nn tr s,
  all_disciplined cfg -> run cfg (init nn cfg) tr = Some s -> two_phase (sched tr).
Proof. exact disciplined_two_phase. Qed.
Print Assumptions C03_disciplined_runs_two_phase.

(* the bridge.  s: any schedule with accesses whose lock events are exactly those of an accepted model-L trace.  If its
   accesses are covered (ASSUMPTION about the code, see header) it is serializable in the order read off the trace. *)
Theorem C03_disciplined_runs_serializable :
  forall (D L : Type) (acc : opid -> nid -> L -> D -> L * D) cfg nn tr s0 (s : list event) (st : state D L),
  all_disciplined cfg -> run cfg (init nn cfg) tr = Some s0 ->
  locks_of s = sched tr -> covered free s ->
  lock_order s = lock_order (sched tr) /\
  (forall n, sd (exec D L acc s st) n = sd (exec D L acc (serial s) st) n) /\
  (forall o, sl (exec D L acc s st) o = sl (exec D L acc (serial s) st) o).
Proof. exact disciplined_runs_serializable. Qed.
Print Assumptions C03_disciplined_runs_serializable.

Theorem C03_disciplined_trace_example :
  all_disciplined ex_cfg /\ (exists s, run ex_cfg (init 2 ex_cfg) ex_trace = Some s) /\
  sched ex_trace = [Lk 0 0; Lk 1 1; Ul 1 1; Lk 0 1; Ul 0 1; Ul 0 0; Lk 2 0; Ul 2 0] /\
  lock_order (sched ex_trace) = [1; 0; 2].
Proof. exact ex_trace_ok. Qed.
Print Assumptions C03_disciplined_trace_example.

(* the serial schedule is a rearrangement: every operation keeps exactly its own events in its own order *)
Theorem C03_serial_keeps_each_operation : forall s o,
  legal free s -> covered free s -> proj o (serial s) = proj o s.
Proof. exact serial_keeps_each_operation. Qed.
Print Assumptions C03_serial_keeps_each_operation.

(* what the harness asks Coq about every recorded lock schedule (harness/twophase.py): the answer it expects means that the
   schedule is legal and two-phase and that the order it compares with is lock_order *)
Theorem C03_recorded_schedule_report_sound : forall s order,
  sched_report s = 1 :: 1 :: order ++ [999] -> legal free s /\ two_phase s /\ lock_order s = order.
Proof. exact sched_report_sound. Qed.
Print Assumptions C03_recorded_schedule_report_sound.
