(* Correspondence cases for Model G: inputs of construct_topology_config together with the dictionary it returned
   (names coded as numbers), for the random generators also the tree networkx produced and the recorded choices. *)
From Coq Require Import List Bool Arith.
From SQ Require Import Base.ListUtil Graph.Model.
Import ListNotations.

Inductive gcase :=
| GComplete (nodes : list nat) (out : graph)
| GRing (nodes : list nat) (out : graph)
| GPath (nodes : list nat) (out : graph)
| GTree (nodes : list nat) (t : graph) (out : graph)
| GConn (nodes : list nat) (k : nat) (t : graph) (cs : list (nat * nat)) (out : option graph).

Definition is_tree_b (n : nat) (t : graph) : bool := good_b (seq 0 n) t (n - 1).

Definition check_case (c : gcase) : bool :=
  match c with
  | GComplete nodes out =>
      let n := length nodes in graph_eqb (complete nodes) out && good_b nodes out (n * (n - 1) / 2)
  | GRing nodes out =>
      let n := length nodes in graph_eqb (ring nodes) out && ((n <? 3) || good_b nodes out n)
  | GPath nodes out =>
      let n := length nodes in graph_eqb (path nodes) out && ((n <? 2) || good_b nodes out (n - 1))
  | GTree nodes t out =>
      let n := length nodes in is_tree_b n t && same_graph (random_tree nodes t) out && good_b nodes out (n - 1)
  | GConn nodes k t cs out =>
      let n := length nodes in
      match random_connected nodes k t cs, out with
      | None, None => true
      | Some g, Some o => is_tree_b n t && valid_choices_b t (firstn (k - (n - 1)) cs) && same_graph g o && good_b nodes o k
      | _, _ => false
      end
  end.

Definition failing_cases (l : list gcase) : list nat := failing (map check_case l).
