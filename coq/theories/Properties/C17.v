(* C17 — generated topologies are the graphs their names promise.
   Only statements, each closed by `exact`, each followed by Print Assumptions.  Proofs: Graph/*.v.
   good nodes g k  :=  g is over exactly `nodes`, symmetric, simple, connected, and has k edges (degree sum 2k). *)
From Coq Require Import List Bool Arith.
From SQ Require Import Graph.Model Graph.Props Graph.Named Graph.Decide.
Import ListNotations.

(* the three deterministic constructions, exactly as construct_topology_config builds them, for EVERY node list *)
Theorem C17_complete_ok : forall nodes, NoDup nodes ->
  good nodes (complete nodes) (length nodes * (length nodes - 1) / 2).
Proof. exact complete_ok. Qed.
Print Assumptions C17_complete_ok.

Theorem C17_ring_ok : forall nodes, NoDup nodes -> 3 <= length nodes -> good nodes (ring nodes) (length nodes).
Proof. exact ring_ok. Qed.
Print Assumptions C17_ring_ok.

Theorem C17_path_ok : forall nodes, NoDup nodes -> 2 <= length nodes -> good nodes (path nodes) (length nodes - 1).
Proof. exact path_ok. Qed.
Print Assumptions C17_path_ok.

(* relabelling a good graph on 0..n-1 by the given (distinct) names preserves all five clauses *)
Theorem C17_relabel_ok : forall nodes g k,
  NoDup nodes -> good (seq 0 (length nodes)) g k -> good nodes (relabel (naming nodes) g) k.
Proof. exact relabel_ok. Qed.
Print Assumptions C17_relabel_ok.

(* random_tree: whatever tree on 0..n-1 the library returns *)
Theorem C17_random_tree_ok : forall nodes t,
  NoDup nodes -> good (seq 0 (length nodes)) t (length nodes - 1) ->
  good nodes (random_tree nodes t) (length nodes - 1).
Proof. exact random_tree_ok. Qed.
Print Assumptions C17_random_tree_ok.

(* adding distinct non-edges, for EVERY choice sequence the loop can make: still good, one more edge each *)
Theorem C17_add_nonedges_ok : forall nodes t cs n,
  good nodes t (n - 1) -> valid_choices t cs -> good nodes (add_edges t cs) (n - 1 + length cs).
Proof. exact add_nonedges_ok. Qed.
Print Assumptions C17_add_nonedges_ok.

(* random_connected_k: for every tree, every admissible k and every admissible choice sequence: k edges *)
Theorem C17_random_connected_ok : forall nodes k t cs,
  NoDup nodes -> good (seq 0 (length nodes)) t (length nodes - 1) ->
  length nodes - 1 <= k <= length nodes * (length nodes - 1) / 2 ->
  k - (length nodes - 1) <= length cs ->
  valid_choices t (firstn (k - (length nodes - 1)) cs) ->
  exists g, random_connected nodes k t cs = Some g /\ good nodes g k.
Proof. exact random_connected_ok. Qed.
Print Assumptions C17_random_connected_ok.

(* rejected exactly outside [n-1, n(n-1)/2] *)
Theorem C17_range_check : forall nodes k t cs,
  random_connected nodes k t cs = None <-> k < length nodes - 1 \/ length nodes * (length nodes - 1) / 2 < k.
Proof. exact range_check. Qed.
Print Assumptions C17_range_check.

(* the boolean check the harness applies to a recorded choice sequence implies the hypothesis above *)
Theorem C17_valid_choices_decided : forall cs g,
  NoDup (map fst g) -> valid_choices_b g cs = true -> valid_choices g cs.
Proof. exact valid_choices_b_sound. Qed.
Print Assumptions C17_valid_choices_decided.

(* non-vacuity: the hypotheses of C17_random_connected_ok are satisfiable (5 names, 3 added edges) *)
Theorem C17_example : 
  let nodes := [17; 3; 42; 8; 11] in
  let t := idx_graph 5 (path_nb 5) in
  let cs := [(0, 2); (4, 1); (3, 0); (2, 4)] in
  exists g, random_connected nodes 7 t cs = Some g /\ good nodes g 7 /\
            g = [(17, [3; 42; 8]); (3, [17; 42; 11]); (42, [3; 8; 17]); (8, [42; 11; 17]); (11, [8; 3])].
Proof. exact random_connected_example. Qed.
Print Assumptions C17_example.
