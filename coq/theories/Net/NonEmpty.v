(* Registers are never empty at a quiescent point; hence a network in which no node holds a qubit has no simulated
   qubit and no register left anywhere (used by C11: teardown returns the register and simulated-qubit counts, too).
   This holds for histories WITHOUT the client operation remote_add_register (ONewReg): that operation creates an empty
   register on purpose (`core_op`, `reachable_core`; the counterexample is `nonempty_needs_core_refuted` below).  Every other
   operation -- remote_new_qubit_inreg included, it only ever fills a register -- keeps registers non-empty. *)
From Coq Require Import List Bool Arith Lia Permutation.
From SQ Require Import Base.ListUtil Stab.Tableau Net.Model Net.Refusal Net.Capacity Net.Handles Net.Fresh
     Net.Inv Net.InvNew Net.InvMeas Net.InvMerge Net.InvPull Net.InvStep Net.Bookkeeping Net.Placement.
Import ListNotations.

(* every register except possibly register k of node vi is non-empty *)
Definition ne_except (s : net) (ex : option (nat * nat)) : Prop :=
  forall i r, In r (regs (nth_node s i)) -> ex <> Some (i, r_num r) -> 0 < r_n r.
Definition nonempty (s : net) : Prop := ne_except s None.

Lemma ne_weaken s ex : nonempty s -> ne_except s ex.
Proof. intros H i r Hr _. apply (H i r Hr). discriminate. Qed.

Lemma ne_same_regs s s' ex :
  (forall i r, In r (regs (nth_node s' i)) -> exists r0, In r0 (regs (nth_node s i)) /\ r_num r0 = r_num r /\ r_n r0 = r_n r) ->
  ne_except s ex -> ne_except s' ex.
Proof.
  intros H N i r Hr Hex. destruct (H i r Hr) as (r0 & H0 & E1 & E2). rewrite <- E2. apply (N i r0 H0). congruence.
Qed.

Lemma ne_update_reg_at s ni r r' ex :
  In r (regs (nth_node s ni)) -> r_num r' = r_num r -> r_n r' = r_n r -> ne_except s ex -> ne_except (update_reg_at s ni r') ex.
Proof.
  intros Hr E1 E2. apply ne_same_regs. intros i x Hx. unfold update_reg_at in Hx. rewrite nth_node_set in Hx.
  destruct (_ && _)%bool eqn:C; [|eauto].
  apply andb_true_iff in C as [C _]. apply Nat.eqb_eq in C. subst i. cbn [regs with_regs] in Hx.
  apply in_set_reg in Hx as [[Hx _]| ->]; [eauto | exists r; auto].
Qed.

Lemma ne_apply_gate2_at s ni k g c t ex : ne_except s ex -> ne_except (apply_gate2_at s ni k g c t) ex.
Proof.
  intros H. unfold apply_gate2_at. destruct (find_reg k _) as [r|] eqn:E; auto.
  apply find_reg_some in E as [Hr _]. apply (ne_update_reg_at s ni r); auto.
Qed.

Lemma ne_local_merge s ni k1 k2 : k1 <> k2 -> nonempty s -> nonempty (local_merge s ni k1 k2).
Proof.
  intros Hne H. unfold local_merge.
  destruct (find_reg k1 _) as [r1|] eqn:F1; auto. destruct (find_reg k2 _) as [r2|] eqn:F2; auto.
  apply find_reg_some in F1 as [Hr1 E1]. apply find_reg_some in F2 as [Hr2 E2].
  intros i r Hr _. rewrite nth_node_set in Hr. destruct (_ && _)%bool eqn:C.
  - apply andb_true_iff in C as [C _]. apply Nat.eqb_eq in C. subst i. cbn [regs] in Hr.
    apply in_del_reg in Hr as [Hr _]. apply in_set_reg in Hr as [[Hr _]| ->].
    + apply (H ni r Hr). discriminate.
    + simpl. assert (0 < r_n r1) by (apply (H ni r1 Hr1); discriminate). lia.
  - apply (H i r Hr). discriminate.
Qed.

(* pulling a non-empty register into register lk of node li makes that register non-empty *)
Lemma ne_merge_from s li oi simNum lk :
  li <> oi -> inv s -> ne_except s (Some (li, lk)) ->
  In simNum (map s_simNum (sims (nth_node s oi))) -> In lk (map r_num (regs (nth_node s li))) ->
  nonempty (fst (merge_from s li oi simNum lk)).
Proof.
  intros Hne H N Hsim Hlk.
  apply in_map_iff in Hsim as (x & Ex & Hx). apply in_map_iff in Hlk as (lr & El & Hlr).
  pose proof (inv_nodes s H oi) as OKo. pose proof (inv_nodes s H li) as OKl.
  destruct (ok_sreg _ OKo x Hx) as [orr [Horr [Eo Lx]]].
  unfold merge_from.
  rewrite (find_sq_in simNum _ x (ok_snum _ OKo) Hx Ex).
  rewrite (find_reg_in (s_reg x) _ orr (ok_rnum _ OKo) Horr Eo).
  set (on := nth_node s oi) in *.
  set (on1 := mkNode (virt on) (filter (fun y => negb (Nat.eqb (s_reg y) (r_num orr))) (sims on))
                     (del_reg (regs on) (r_num orr)) (numRegs on - 1) (nextReg on) (maxQ on) (maxR on)).
  rewrite (nth_node_set_neq s oi on1 li Hne).
  set (ln := nth_node s li) in *.
  rewrite (find_reg_in lk _ lr (ok_rnum _ OKl) Hlr El).
  destruct (alloc_sims (r_n orr) lk (r_n lr) (sims ln)) as [sims' ids]. cbn [fst].
  pose proof (in_sims_lt s oi x Hx) as Loi. pose proof (in_regs_lt s li lr Hlr) as Lli.
  set (lr' := mkReg (r_num lr) (r_max lr + r_n orr) (r_n lr + r_n orr) (tensor (r_n lr) (r_tab lr) (r_n orr) (r_tab orr)) (r_ids lr ++ r_ids orr)).
  set (ln1 := mkNode (virt ln) sims' (set_reg (regs ln) lr') (numRegs ln) (nextReg ln) (maxQ ln) (maxR ln)).
  set (s2 := set_node (set_node s oi on1) li ln1).
  assert (E2 : forall j, nth_node s2 j = if Nat.eqb j li then ln1 else if Nat.eqb j oi then on1 else nth_node s j).
  { intro j. unfold s2. rewrite nth_node_set. rewrite set_node_length.
    destruct (Nat.ltb_spec li (length (nodes s))); try lia. rewrite andb_true_r.
    destruct (Nat.eqb j li); auto. rewrite nth_node_set.
    destruct (Nat.ltb_spec oi (length (nodes s))); try lia. rewrite andb_true_r. auto. }
  assert (POSx : 0 < r_n orr).
  { apply (N oi orr Horr). intro K. injection K as K1 K2. congruence. }
  intros i r Hr _. rewrite nth_node_map_virt in Hr. cbn [regs with_virt] in Hr. fold s2 in Hr. rewrite E2 in Hr.
  destruct (Nat.eqb_spec i li) as [->|Nl].
  - unfold ln1 in Hr; cbn [regs] in Hr. apply in_set_reg in Hr as [[Hr Nr]| ->].
    + apply (N li r Hr). intro K. injection K as K. simpl in Nr. congruence.
    + simpl. lia.
  - destruct (Nat.eqb_spec i oi) as [->|No].
    + unfold on1 in Hr; cbn [regs] in Hr. apply in_del_reg in Hr as [Hr _].
      apply (N oi r Hr). intro K. injection K as K1 K2. congruence.
    + apply (N i r Hr). intro K. injection K as K1 K2. congruence.
Qed.

Lemma ne_remove_sim s ni x r coin :
  inv s -> In x (sims (nth_node s ni)) -> In r (regs (nth_node s ni)) -> r_num r = s_reg x ->
  nonempty s -> nonempty (remove_sim s ni x r coin).
Proof.
  intros H Hx Hr Er N. rewrite remove_sim_eq.
  pose proof (in_sims_lt s ni x Hx) as Lni.
  intros i y Hy _. rewrite nth_node_set in Hy. destruct (_ && _)%bool eqn:C; [|apply (N i y Hy); discriminate].
  apply andb_true_iff in C as [C _]. apply Nat.eqb_eq in C. subst i.
  unfold rm_node in Hy. destruct (Nat.eqb_spec (r_n r - 1) 0) as [Z|NZ]; cbn [regs] in Hy.
  - apply in_del_reg in Hy as [Hy _]. apply (N ni y Hy). discriminate.
  - apply in_set_reg in Hy as [[Hy _]| ->]; [apply (N ni y Hy); discriminate|]. simpl. lia.
Qed.

Lemma ne_set_virt s i nd : regs nd = regs (nth_node s i) -> nonempty s -> nonempty (set_node s i nd).
Proof.
  intros E N j r Hr _. rewrite nth_node_set in Hr. destruct (_ && _)%bool eqn:C; [|apply (N j r Hr); discriminate].
  apply andb_true_iff in C as [C _]. apply Nat.eqb_eq in C. subst j. rewrite E in Hr. apply (N i r Hr). discriminate.
Qed.

(* the operations that never leave an empty register behind: all but the client's remote_add_register *)
Definition core_op (o : op) : Prop := match o with ONewReg _ _ => False | _ => True end.
Definition reachable_core (s : net) : Prop := exists caps ops, Forall core_op ops /\ s = run (init_net caps) ops.

Lemma reachable_core_reachable s : reachable_core s -> reachable s.
Proof. intros (caps & ops & _ & E). exists caps, ops. exact E. Qed.

Theorem step_nonempty s o : core_op o -> inv s -> nonempty s -> nonempty (fst (step s o)).
Proof.
  intros CO H N. destruct o; simpl.
  - (* new *)
    destruct (Nat.ltb_spec n (length (nodes s))); [|exact N].
    unfold op_new. destruct (Nat.leb _ _); [exact N|]. unfold add_register. destruct (Nat.leb _ _); [exact N|]. cbn [fst].
    intros i r Hr _. rewrite nth_node_mk in Hr. destruct (Nat.ltb_spec n (length (nodes s))); try lia. rewrite andb_true_r in Hr.
    destruct (Nat.eqb_spec i n) as [->|]; [|apply (N i r Hr); discriminate].
    cbn [regs with_virt with_sims with_regs] in Hr. apply in_set_reg in Hr as [[Hr Nr]| ->]; [|simpl; lia].
    apply in_app_iff in Hr as [Hr|[<-|[]]]; [apply (N n r Hr); discriminate|].
    (* the empty fresh register is replaced by set_reg: it cannot survive *)
    exfalso. apply Nr. reflexivity.
  - (* gate1 *)
    unfold op_gate1. destruct (find_handle s h) as [[vi q]|]; [|exact N].
    destruct (locate s q) as [[x r]|] eqn:EL; [|exact N]. destruct (gate1_of g); [|exact N]. cbn [fst].
    unfold locate in EL. destruct (find_sq _ _) as [x0|]; [|discriminate].
    destruct (find_reg _ _) as [r0|] eqn:ER; [|discriminate]. inversion EL; subst.
    apply find_reg_some in ER as [Hr _]. apply (ne_update_reg_at s _ r); auto.
  - (* gate2 *)
    unfold op_gate2.
    destruct (find_handle s h1) as [[vi q1]|] eqn:EF1; [|exact N].
    destruct (find_handle s h2) as [[vi2 q2]|] eqn:EF2; [|exact N].
    destruct (Nat.eqb_spec vi vi2) as [<-|]; [|exact N]. cbn [negb].
    apply find_handle_some in EF1 as (_ & Hq1 & _). apply find_handle_some in EF2 as (_ & Hq2 & _).
    destruct (Nat.eqb_spec (v_simNode q1) (v_simNode q2)) as [Es|Ns].
    + destruct (pos_of s _ (v_simNum q1)) as [k1 p1]. destruct (pos_of s _ (v_simNum q2)) as [k2 p2].
      destruct (Nat.eqb_spec k1 k2) as [Ek|Nk].
      * destruct (Nat.eqb p1 p2); [exact N|]. cbn [fst]. apply ne_apply_gate2_at; auto.
      * destruct (pos_of _ _ _) as [a b]. destruct (pos_of _ _ _) as [a' b']. cbn [fst].
        apply ne_apply_gate2_at. apply ne_local_merge; auto.
    + (* registers are pulled: the handles' backing simulated qubits exist (invariant) *)
      destruct (inv_backed s H vi q1 Hq1) as (y1 & ry1 & A1 & A2 & A3 & A4 & _).
      destruct (inv_backed s H vi q2 Hq2) as (y2 & ry2 & C1 & C2 & C3 & C4 & _).
      assert (S1 : In (v_simNum q1) (map s_simNum (sims (nth_node s (v_simNode q1))))) by (rewrite <- A2; apply in_map; auto).
      assert (S2 : In (v_simNum q2) (map s_simNum (sims (nth_node s (v_simNode q2))))) by (rewrite <- C2; apply in_map; auto).
      destruct (Nat.eqb_spec (v_simNode q1) vi) as [E1|N1].
      * rewrite E1 in A1, A3. rewrite <- A2. rewrite (pos_of_in s vi y1 H A1).
        pose proof (ne_merge_from s vi (v_simNode q2) (v_simNum q2) (s_reg y1)) as HM.
        destruct (merge_from _ _ _ _ _) as [s1 newT]. cbn [fst] in HM.
        destruct (pos_of _ _ _) as [a b]. destruct (pos_of _ _ _) as [a' b']. cbn [fst].
        apply ne_apply_gate2_at. apply HM; auto; [congruence | apply ne_weaken; auto | rewrite <- A4; apply in_map; auto].
      * destruct (Nat.eqb_spec (v_simNode q2) vi) as [E2|N2].
        -- rewrite E2 in C1, C3. rewrite <- C2. rewrite (pos_of_in s vi y2 H C1).
           pose proof (ne_merge_from s vi (v_simNode q1) (v_simNum q1) (s_reg y2)) as HM.
           destruct (merge_from _ _ _ _ _) as [s1 newC]. cbn [fst] in HM.
           destruct (pos_of _ _ _) as [a b]. destruct (pos_of _ _ _) as [a' b']. cbn [fst].
           apply ne_apply_gate2_at. apply HM; auto; [apply ne_weaken; auto | rewrite <- C4; apply in_map; auto].
        -- pose proof (inv_add_register_force s vi H) as I0.
           unfold add_register_force in *. cbn [fst] in I0.
           set (nd1 := mkNode _ _ _ _ _ _ _) in *. set (r0 := mkReg _ _ _ _ _).
           set (s0 := set_node s vi nd1) in *.
           destruct (Nat.ltb_spec vi (length (nodes s))) as [Lvi|Lvi].
           2:{ exfalso. rewrite nth_node_overflow in Hq1; auto. }
           assert (N0 : forall j, nth_node s0 j = if Nat.eqb j vi then nd1 else nth_node s j).
           { intro j. unfold s0. rewrite nth_node_set. destruct (Nat.ltb_spec vi (length (nodes s))); try lia. rewrite andb_true_r. auto. }
           assert (NE0 : ne_except s0 (Some (vi, r_num r0))).
           { intros i r Hr Hex. rewrite N0 in Hr. destruct (Nat.eqb_spec i vi) as [->|]; [|apply (N i r Hr); discriminate].
             unfold nd1 in Hr; cbn [regs] in Hr. apply in_app_iff in Hr as [Hr|[<-|[]]]; [apply (N vi r Hr); discriminate|].
             exfalso. apply Hex. reflexivity. }
           assert (S1' : In (v_simNum q1) (map s_simNum (sims (nth_node s0 (v_simNode q1))))).
           { rewrite N0. destruct (Nat.eqb_spec (v_simNode q1) vi); [contradiction|]. auto. }
           assert (R0 : In (r_num r0) (map r_num (regs (nth_node s0 vi)))).
           { rewrite N0, Nat.eqb_refl. unfold nd1; cbn [regs]. rewrite map_app. apply in_or_app; right; simpl; auto. }
           assert (Hne1 : vi <> v_simNode q1) by congruence. assert (Hne2 : vi <> v_simNode q2) by congruence.
           pose proof (ne_merge_from s0 vi (v_simNode q1) (v_simNum q1) (r_num r0) Hne1 I0 NE0 S1' R0) as HM1.
           assert (A1' : In y1 (sims (nth_node s0 (v_simNode q1)))).
           { rewrite N0. destruct (Nat.eqb_spec (v_simNode q1) vi); [contradiction|]. auto. }
           assert (R0' : In r0 (regs (nth_node s0 vi))).
           { rewrite N0, Nat.eqb_refl. unfold nd1; cbn [regs]. apply in_or_app; right; simpl; auto. }
           destruct (merge_from_spec s0 vi (v_simNode q1) (v_simNum q1) (r_num r0) y1 r0 Hne1 I0 A1' A2 R0' eq_refl)
             as (_ & _ & _ & MO1 & (lr2 & LR2 & LK2)).
           pose proof (inv_merge_from s0 vi (v_simNode q1) (v_simNum q1) (r_num r0) Hne1 I0) as IM1.
           destruct (merge_from s0 vi (v_simNode q1) (v_simNum q1) (r_num r0)) as [s1 newC]. cbn [fst snd] in *.
           assert (S2' : In (v_simNum q2) (map s_simNum (sims (nth_node s1 (v_simNode q2))))).
           { destruct (MO1 (v_simNode q2)) as [E _]; auto. rewrite E, N0.
             destruct (Nat.eqb_spec (v_simNode q2) vi); [contradiction|]. auto. }
           pose proof (ne_merge_from s1 vi (v_simNode q2) (v_simNum q2) (r_num r0) Hne2 IM1 (ne_weaken _ _ HM1) S2') as HM2.
           destruct (merge_from s1 vi (v_simNode q2) (v_simNum q2) (r_num r0)) as [s2 newT]. cbn [fst] in *.
           destruct (pos_of _ _ _) as [a b]. destruct (pos_of _ _ _) as [a' b']. cbn [fst].
           apply ne_apply_gate2_at. apply HM2. rewrite <- LK2. apply in_map; auto.
  - (* send *)
    unfold op_send. destruct (find_handle s h) as [[vi q]|]; [|exact N].
    destruct (Nat.leb_spec (length (nodes s)) target); [exact N|]. destruct (Nat.leb _ _); [exact N|]. cbn [fst].
    set (tn1 := with_virt _ _). set (s1 := mkNet _ _).
    assert (N1 : nonempty s1).
    { intros i r Hr _. unfold s1 in Hr. rewrite nth_node_mk in Hr. destruct (_ && _)%bool eqn:C; [|apply (N i r Hr); discriminate].
      apply andb_true_iff in C as [C _]. apply Nat.eqb_eq in C. subst i. apply (N target r Hr). discriminate. }
    apply ne_set_virt; auto.
  - (* meas *)
    unfold op_meas. destruct (find_handle s h) as [[vi q]|]; [|exact N].
    destruct (locate s q) as [[x r]|] eqn:EL; [|exact N].
    unfold locate in EL.
    destruct (find_sq (v_simNum q) (sims (nth_node s (v_simNode q)))) as [x0|] eqn:E1; [|discriminate].
    destruct (find_reg (s_reg x0) (regs (nth_node s (v_simNode q)))) as [r0|] eqn:E2; [|discriminate].
    inversion EL; subst x0 r0. clear EL.
    apply find_sq_some in E1 as [Hx Ex]. apply find_reg_some in E2 as [Hr Er].
    pose proof (measure_n (r_n r) (s_pos x) true coin (r_tab r)) as EN.
    destruct (measure (r_n r) (s_pos x) true coin (r_tab r)) as [[o n1] t1]. simpl in EN. subst n1.
    set (r1 := reg_with_tab r (r_n r) t1).
    assert (N1 : nonempty (update_reg_at s (v_simNode q) r1)) by (apply (ne_update_reg_at s _ r); auto).
    destruct inplace; cbn [fst]; [exact N1|].
    set (s1 := update_reg_at s (v_simNode q) r1) in *.
    assert (I1 : inv s1) by (apply inv_update_tab with (r := r); auto).
    pose proof (in_sims_lt s (v_simNode q) x Hx) as Lsn.
    assert (X1 : In x (sims (nth_node s1 (v_simNode q)))).
    { unfold s1, update_reg_at. rewrite nth_node_set_eq; auto. }
    assert (R1 : In r1 (regs (nth_node s1 (v_simNode q)))).
    { unfold s1, update_reg_at. rewrite nth_node_set_eq; auto. cbn [regs with_regs]. apply in_set_reg_new with (r := r); auto. }
    apply ne_set_virt; [reflexivity|]. apply ne_remove_sim; auto.
  - (* newreg: excluded *)
    destruct CO.
  - (* newinreg: the register grows *)
    destruct (Nat.ltb_spec n (length (nodes s))); [|exact N].
    unfold op_new_inreg. destruct (negb _); [exact N|]. destruct (Nat.leb _ _); [exact N|].
    destruct (find_reg _ _) as [r0|]; [|exact N]. destruct (Nat.leb _ _); [exact N|]. cbn [fst].
    intros i r Hr _. rewrite nth_node_mk in Hr. destruct (Nat.ltb_spec n (length (nodes s))); try lia. rewrite andb_true_r in Hr.
    destruct (Nat.eqb_spec i n) as [->|]; [|apply (N i r Hr); discriminate].
    cbn [regs with_virt with_sims with_regs] in Hr. apply in_set_reg in Hr as [[Hr Nr]| ->]; [|simpl; lia].
    apply (N n r Hr); discriminate.
Qed.

Lemma init_nonempty caps : nonempty (init_net caps).
Proof.
  intros i r Hr _. exfalso.
  assert (E : regs (nth_node (init_net caps) i) = []).
  { unfold nth_node, init_net; simpl. destruct (Nat.ltb_spec i (length caps)).
    - rewrite (nth_indep _ _ (empty_node (fst (0,0)) (snd (0,0)))) by (rewrite map_length; auto).
      rewrite (map_nth (fun c => empty_node (fst c) (snd c))). reflexivity.
    - rewrite nth_overflow by (rewrite map_length; auto). reflexivity. }
  rewrite E in Hr. contradiction.
Qed.

Lemma run_nonempty ops : forall s, Forall core_op ops -> ginv s -> nonempty s -> nonempty (run s ops).
Proof.
  induction ops as [|o ops IH]; intros s F G N; simpl; auto. inversion F; subst.
  apply IH; [auto | apply step_ginv; auto | apply step_nonempty; auto; apply G].
Qed.

Theorem reachable_nonempty s : reachable_core s -> nonempty s.
Proof.
  intros (caps & ops & F & ->). apply run_nonempty; [exact F | |apply init_nonempty].
  split; [apply init_hid_inv | apply init_inv].
Qed.

(* the hypothesis is needed: one remote_add_register leaves an (empty) register on a node that holds nothing *)
Example nonempty_needs_core_refuted :
  exists s, reachable s /\ (forall i, virt (nth_node s i) = []) /\
            exists r, In r (regs (nth_node s 0)) /\ r_n r = 0 /\ numRegs (nth_node s 0) = 1.
Proof.
  exists (run (init_net [(2, 2)]) [ONewReg 0 3]). split; [exists [(2, 2)], [ONewReg 0 3]; reflexivity|]. split.
  - intros [|[|i]]; reflexivity.
  - exists (mkReg 0 3 0 [] []). vm_compute. auto.
Qed.

(* ... and the hypothesis is satisfiable by histories that do use client-made registers' other operation *)
Example reachable_core_example :
  reachable_core (run (init_net [(3, 3)]) [ONew 0; ONewInReg 0 0 0; OGate2 0 1 NCnot; OMeas 0 false true]).
Proof. exists [(3, 3)], [ONew 0; ONewInReg 0 0 0; OGate2 0 1 NCnot; OMeas 0 false true]. split; [repeat constructor|reflexivity]. Qed.

(* when no node holds a qubit, nothing is left anywhere: no simulated qubit, no register *)
Theorem nothing_held_nothing_left s :
  reachable_core s -> (forall i, virt (nth_node s i) = []) ->
  forall i, sims (nth_node s i) = [] /\ regs (nth_node s i) = [] /\ numRegs (nth_node s i) = 0.
Proof.
  intros RC Hv i. pose proof (reachable_core_reachable s RC) as R.
  destruct (reachable_ginv s R) as [_ H]. pose proof (reachable_nonempty s RC) as N.
  assert (S0 : forall j, sims (nth_node s j) = []).
  { intro j. destruct (sims (nth_node s j)) as [|x t] eqn:E; auto. exfalso.
    destruct (inv_onto s H j x) as (k & q & Hq & _); [rewrite E; simpl; auto|]. rewrite Hv in Hq. contradiction. }
  pose proof (inv_nodes s H i) as OK.
  assert (R0 : regs (nth_node s i) = []).
  { destruct (regs (nth_node s i)) as [|r t] eqn:E; auto. exfalso.
    assert (Hr : In r (regs (nth_node s i))) by (rewrite E; simpl; auto).
    pose proof (ok_count _ OK r Hr) as C. rewrite S0 in C. simpl in C.
    assert (0 < r_n r) by (apply (N i r Hr); discriminate). lia. }
  split; auto. split; auto. rewrite (ok_nregs _ OK), R0. reflexivity.
Qed.

(* more generally: a node simulates at least one qubit per register it keeps *)
Theorem registers_le_sims s i : reachable_core s -> length (regs (nth_node s i)) <= length (sims (nth_node s i)).
Proof.
  intros RC. pose proof (reachable_core_reachable s RC) as R.
  destruct (reachable_ginv s R) as [_ H]. pose proof (reachable_nonempty s RC) as N.
  pose proof (inv_nodes s H i) as OK. set (nd := nth_node s i) in *.
  (* injection register -> one of its simulated qubits *)
  assert (G : forall l, NoDup (map r_num l) -> incl l (regs nd) ->
              length l <= length (filter (fun x => existsb (fun r => Nat.eqb (s_reg x) (r_num r)) l) (sims nd))).
  { induction l as [|r t IH]; intros Hn Hi; simpl; [lia|].
    inversion Hn; subst.
    assert (Hr : In r (regs nd)) by (apply Hi; simpl; auto).
    assert (P : 0 < r_n r) by (apply (N i r Hr); discriminate).
    pose proof (ok_count nd OK r Hr) as C.
    specialize (IH H3 (fun z Hz => Hi z (or_intror Hz))).
    (* split the filter by whether the qubit belongs to r *)
    assert (E : length (filter (fun x => Nat.eqb (s_reg x) (r_num r) || existsb (fun r0 => Nat.eqb (s_reg x) (r_num r0)) t) (sims nd)) =
                length (filter (fun x => Nat.eqb (s_reg x) (r_num r)) (sims nd)) +
                length (filter (fun x => existsb (fun r0 => Nat.eqb (s_reg x) (r_num r0)) t) (sims nd))).
    { clear - H2. induction (sims nd) as [|x l IHl]; simpl; auto.
      destruct (Nat.eqb_spec (s_reg x) (r_num r)) as [Ex|Nx]; simpl.
      - assert (Z : existsb (fun r0 => Nat.eqb (s_reg x) (r_num r0)) t = false).
        { apply not_true_is_false. intro K. apply existsb_exists in K as (r0 & H0 & E0). apply Nat.eqb_eq in E0.
          apply H2. rewrite <- Ex, E0. apply in_map; auto. }
        rewrite Z. simpl. rewrite IHl. lia.
      - destruct (existsb _ t); simpl; rewrite IHl; lia. }
    rewrite E, C. lia. }
  specialize (G (regs nd) (ok_rnum nd OK) (incl_refl _)).
  pose proof (filter_length_le (fun x => existsb (fun r => Nat.eqb (s_reg x) (r_num r)) (regs nd)) (sims nd)). lia.
Qed.

Theorem registers_nonempty s i r : reachable_core s -> In r (regs (nth_node s i)) -> 0 < r_n r.
Proof. intros R Hr. apply (reachable_nonempty s R i r Hr). discriminate. Qed.

(* what remains true for ALL histories (remote_add_register included): when no node holds a qubit no simulated qubit is left, and
   every register still listed is an empty one (made by remote_add_register and never used, or not used any more) *)
Theorem nothing_held_only_empty_registers s :
  reachable s -> (forall i, virt (nth_node s i) = []) ->
  forall i, sims (nth_node s i) = [] /\ (forall r, In r (regs (nth_node s i)) -> r_n r = 0).
Proof.
  intros R Hv i. destruct (reachable_ginv s R) as [_ H].
  assert (S0 : forall j, sims (nth_node s j) = []).
  { intro j. destruct (sims (nth_node s j)) as [|x t] eqn:E; auto. exfalso.
    destruct (inv_onto s H j x) as (k & q & Hq & _); [rewrite E; simpl; auto|]. rewrite Hv in Hq. contradiction. }
  split; auto. intros r Hr. pose proof (ok_count _ (inv_nodes s H i) r Hr) as C. rewrite S0 in C. simpl in C. auto.
Qed.
