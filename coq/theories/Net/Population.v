(* C02, population clause: creating adds exactly one held qubit, destructive measurement removes exactly one,
   sending moves exactly one from sender to receiver, nothing else changes how many qubits any node holds. *)
From Coq Require Import List Bool Arith Lia Permutation.
From SQ Require Import Base.ListUtil Stab.Tableau Net.Model Net.Refusal Net.Capacity Net.Handles Net.Fresh
     Net.Inv Net.InvNew Net.InvMeas Net.InvMerge Net.InvPull Net.InvStep Net.Bookkeeping.
Import ListNotations.

Definition held (s : net) (i : nat) : nat := length (virt (nth_node s i)).

Definition lkeeps (f : net -> net) : Prop := forall s j, held (f s) j = held s j.

Lemma held_set s i nd j : length (virt nd) = held s i -> held (set_node s i nd) j = held s j.
Proof.
  intros E. unfold held. rewrite nth_node_set. destruct (_ && _)%bool eqn:C; auto.
  apply andb_true_iff in C as [C _]. apply Nat.eqb_eq in C. subst. auto.
Qed.

Lemma virt_set s i nd j : virt nd = virt (nth_node s i) -> virt (nth_node (set_node s i nd) j) = virt (nth_node s j).
Proof.
  intros E. rewrite nth_node_set. destruct (_ && _)%bool eqn:C; auto.
  apply andb_true_iff in C as [C _]. apply Nat.eqb_eq in C. subst. auto.
Qed.

Lemma update_reg_at_lkeeps ni r : lkeeps (fun s => update_reg_at s ni r).
Proof. intros s j. unfold update_reg_at. apply held_set. reflexivity. Qed.

Lemma apply_gate2_at_lkeeps ni k g c t : lkeeps (fun s => apply_gate2_at s ni k g c t).
Proof.
  intros s j. unfold apply_gate2_at. destruct (find_reg _ _); auto. apply update_reg_at_lkeeps.
Qed.

Lemma local_merge_lkeeps ni k1 k2 : lkeeps (fun s => local_merge s ni k1 k2).
Proof.
  intros s j. unfold local_merge. destruct (find_reg k1 _); auto. destruct (find_reg k2 _); auto.
  apply held_set. reflexivity.
Qed.

Lemma remove_sim_lkeeps ni x r c : lkeeps (fun s => remove_sim s ni x r c).
Proof.
  intros s j. unfold remove_sim. destruct (measure _ _ _ _ _) as [[o n'] t'].
  apply held_set. destruct (Nat.eqb n' 0); reflexivity.
Qed.

Lemma merge_from_lkeeps li oi simNum lk : lkeeps (fun s => fst (merge_from s li oi simNum lk)).
Proof.
  intros s j. unfold merge_from.
  destruct (find_sq simNum _) as [x|]; auto.
  destruct (find_reg (s_reg x) _) as [orr|]; auto.
  set (on1 := mkNode _ _ _ _ _ _ _). set (s1 := set_node s oi on1).
  destruct (find_reg lk (regs (nth_node s1 li))) as [lr|]; auto.
  destruct (alloc_sims _ _ _ _) as [sims' ids]. cbn [fst].
  set (ln1 := mkNode _ _ _ _ _ _ _).
  assert (E1 : held s1 j = held s j) by (apply held_set; reflexivity).
  assert (E2 : held (set_node s1 li ln1) j = held s1 j) by (apply held_set; reflexivity).
  rewrite <- E1, <- E2. unfold held. rewrite nth_node_map_virt. cbn [virt with_virt]. apply map_length.
Qed.

Lemma lkeeps_compose f g : lkeeps f -> lkeeps g -> lkeeps (fun s => g (f s)).
Proof. intros Hf Hg s j. rewrite Hg, Hf. auto. Qed.

(* operations that are not a successful create / send / destructive measurement leave every node's count unchanged *)
Theorem held_gate1 s h g j : held (fst (step s (OGate1 h g))) j = held s j.
Proof.
  simpl. unfold op_gate1. destruct (find_handle s h) as [[vi q]|]; auto.
  destruct (locate s q) as [[x r]|]; auto. destruct (gate1_of g); auto. apply update_reg_at_lkeeps.
Qed.

Theorem held_gate2 s h1 h2 g j : held (fst (step s (OGate2 h1 h2 g))) j = held s j.
Proof.
  simpl. unfold op_gate2.
  destruct (find_handle s h1) as [[vi q1]|]; auto.
  destruct (find_handle s h2) as [[vi2 q2]|]; auto.
  destruct (negb _); auto.
  destruct (Nat.eqb (v_simNode q1) (v_simNode q2)).
  - destruct (pos_of s _ (v_simNum q1)) as [k1 p1]. destruct (pos_of s _ (v_simNum q2)) as [k2 p2].
    destruct (Nat.eqb k1 k2).
    + destruct (Nat.eqb p1 p2); auto. apply apply_gate2_at_lkeeps.
    + destruct (pos_of _ _ _) as [a b]. destruct (pos_of _ _ _) as [a' b']. cbn [fst].
      rewrite apply_gate2_at_lkeeps. apply local_merge_lkeeps.
  - destruct (Nat.eqb (v_simNode q1) vi).
    + destruct (pos_of _ _ _) as [k1 x].
      pose proof (merge_from_lkeeps vi (v_simNode q2) (v_simNum q2) k1 s j) as HM. cbv beta in HM.
      destruct (merge_from _ _ _ _ _) as [s1 newT]. cbn [fst] in HM.
      destruct (pos_of _ _ _) as [a b]. destruct (pos_of _ _ _) as [a' b']. cbn [fst].
      rewrite apply_gate2_at_lkeeps. exact HM.
    + destruct (Nat.eqb (v_simNode q2) vi).
      * destruct (pos_of _ _ _) as [k2 x].
        pose proof (merge_from_lkeeps vi (v_simNode q1) (v_simNum q1) k2 s j) as HM. cbv beta in HM.
        destruct (merge_from _ _ _ _ _) as [s1 newC]. cbn [fst] in HM.
        destruct (pos_of _ _ _) as [a b]. destruct (pos_of _ _ _) as [a' b']. cbn [fst].
        rewrite apply_gate2_at_lkeeps. exact HM.
      * destruct (add_register_force (nth_node s vi)) as [nd1 r] eqn:EA.
        assert (H0 : held (set_node s vi nd1) j = held s j).
        { apply held_set. unfold add_register_force in EA. inversion EA. reflexivity. }
        pose proof (merge_from_lkeeps vi (v_simNode q1) (v_simNum q1) (r_num r) (set_node s vi nd1) j) as HM1. cbv beta in HM1.
        destruct (merge_from (set_node s vi nd1) _ _ _ _) as [s1 newC]. cbn [fst] in HM1.
        pose proof (merge_from_lkeeps vi (v_simNode q2) (v_simNum q2) (r_num r) s1 j) as HM2. cbv beta in HM2.
        destruct (merge_from s1 _ _ _ _) as [s2 newT]. cbn [fst] in HM2.
        destruct (pos_of _ _ _) as [a b]. destruct (pos_of _ _ _) as [a' b']. cbn [fst].
        rewrite apply_gate2_at_lkeeps. congruence.
Qed.

Theorem held_meas_inplace s h c j : held (fst (step s (OMeas h true c))) j = held s j.
Proof.
  simpl. unfold op_meas. destruct (find_handle s h) as [[vi q]|]; auto.
  destruct (locate s q) as [[x r]|]; auto. destruct (measure _ _ _ _ _) as [[o n1] t1]. cbn [fst].
  apply update_reg_at_lkeeps.
Qed.

(* creating a register (successfully or not) creates no qubit *)
Theorem held_newreg s n mq j : held (fst (step s (ONewReg n mq))) j = held s j.
Proof.
  simpl. destruct (Nat.ltb _ _); auto. unfold op_newreg. destruct (Nat.leb _ _); auto. cbn [fst].
  apply held_set. reflexivity.
Qed.

Theorem held_unchanged_unless_ok s o j :
  (forall v, snd (step s o) <> Ok v) -> held (fst (step s o)) j = held s j.
Proof.
  intros Hno. destruct o.
  - simpl in *. destruct (Nat.ltb _ _); auto. unfold op_new in *.
    destruct (Nat.leb _ _); auto. destruct (add_register _) as [[nd1 r]|]; auto.
    exfalso. simpl in Hno. eapply Hno; reflexivity.
  - apply held_gate1.
  - apply held_gate2.
  - simpl in *. unfold op_send in *. destruct (find_handle s h) as [[vi q]|]; auto.
    destruct (Nat.leb _ _); auto. destruct (Nat.leb _ _); auto.
    exfalso. simpl in Hno. eapply Hno; reflexivity.
  - destruct inplace; [apply held_meas_inplace|].
    simpl in *. unfold op_meas in *. destruct (find_handle s h) as [[vi q]|]; auto.
    destruct (locate s q) as [[x r]|]; auto. destruct (measure _ _ _ _ _) as [[o n1] t1].
    exfalso. simpl in Hno. eapply Hno; reflexivity.
  - apply held_newreg.
  - simpl in *. destruct (Nat.ltb _ _); auto. unfold op_new_inreg in *.
    destruct (negb _); auto. destruct (Nat.leb _ _); auto. destruct (find_reg _ _) as [r|]; auto.
    destruct (Nat.leb _ _); auto.
    exfalso. simpl in Hno. eapply Hno; reflexivity.
Qed.

Lemma length_remove_vq h l q :
  NoDup (map v_hid l) -> In q l -> v_hid q = h -> length (remove_vq h l) = length l - 1.
Proof.
  unfold remove_vq. induction l as [|a t IH]; simpl; [tauto|].
  intros Hn Hq Eh. inversion Hn; subst.
  destruct Hq as [->|Hq].
  - rewrite Nat.eqb_refl. simpl. rewrite Nat.sub_0_r.
    assert (E : filter (fun q0 => negb (Nat.eqb (v_hid q0) (v_hid q))) t = t).
    { clear - H1. induction t as [|b t IH]; simpl; auto.
      destruct (Nat.eqb_spec (v_hid b) (v_hid q)); simpl.
      - exfalso. apply H1. rewrite <- e. simpl; auto.
      - f_equal. apply IH. intro Hin; apply H1; simpl; auto. }
    rewrite E. auto.
  - destruct (Nat.eqb_spec (v_hid a) (v_hid q)).
    + exfalso. apply H1. rewrite e. apply in_map; auto.
    + simpl. rewrite IH; auto. destruct t; simpl in *; [tauto|lia].
Qed.

Lemma node_hids_nodup s i : hid_inv s -> NoDup (map v_hid (virt (nth_node s i))).
Proof.
  intros [Hn _]. destruct (Nat.ltb_spec i (length (nodes s))).
  - apply (NoDup_flat_map_in hn (nodes s) (nth_node s i) Hn). apply nth_In; auto.
  - rewrite nth_node_overflow; auto. constructor.
Qed.

(* creation adds exactly one held qubit, at the creating node *)
Theorem held_new s n v j :
  snd (step s (ONew n)) = Ok v ->
  held (fst (step s (ONew n))) j = if Nat.eqb j n then S (held s j) else held s j.
Proof.
  simpl. destruct (Nat.ltb_spec n (length (nodes s))); [|discriminate].
  unfold op_new. destruct (Nat.leb _ _); [discriminate|]. unfold add_register. destruct (Nat.leb _ _); [discriminate|].
  intros _. cbn [fst]. unfold held. rewrite nth_node_mk.
  destruct (Nat.ltb_spec n (length (nodes s))); try lia. rewrite andb_true_r.
  destruct (Nat.eqb_spec j n) as [->|]; auto. cbn [virt with_virt]. rewrite app_length. simpl. lia.
Qed.

(* creation inside an existing register adds exactly one held qubit, at the creating node *)
Theorem held_new_inreg s n ow k v j :
  snd (step s (ONewInReg n ow k)) = Ok v ->
  held (fst (step s (ONewInReg n ow k))) j = if Nat.eqb j n then S (held s j) else held s j.
Proof.
  simpl. destruct (Nat.ltb_spec n (length (nodes s))); [|discriminate].
  unfold op_new_inreg. destruct (negb _); [discriminate|]. destruct (Nat.leb _ _); [discriminate|].
  destruct (find_reg _ _) as [r|]; [|discriminate]. destruct (Nat.leb _ _); [discriminate|].
  intros _. cbn [fst]. unfold held. rewrite nth_node_mk.
  destruct (Nat.ltb_spec n (length (nodes s))); try lia. rewrite andb_true_r.
  destruct (Nat.eqb_spec j n) as [->|]; auto. cbn [virt with_virt]. rewrite app_length. simpl. lia.
Qed.

(* destructive measurement removes exactly one held qubit, at the node that held it *)
Theorem held_meas_destructive s h c v vi q j :
  hid_inv s -> find_handle s h = Some (vi, q) -> snd (step s (OMeas h false c)) = Ok v ->
  held (fst (step s (OMeas h false c))) j = if Nat.eqb j vi then held s j - 1 else held s j.
Proof.
  intros HI EF. simpl. unfold op_meas. rewrite EF.
  destruct (locate s q) as [[x r]|]; [|discriminate].
  destruct (measure _ _ _ _ _) as [[o n1] t1]. intros _. cbn [fst].
  set (r1 := reg_with_tab r n1 t1).
  set (s2 := remove_sim (update_reg_at s (v_simNode q) r1) (v_simNode q) x r1 c).
  assert (E2 : forall k, held s2 k = held s k).
  { intro k. unfold s2. rewrite remove_sim_lkeeps. apply update_reg_at_lkeeps. }
  apply find_handle_some in EF as (Lvi & Hq & Ehq).
  assert (V2 : virt (nth_node s2 vi) = virt (nth_node s vi)).
  { unfold s2. rewrite remove_sim_eq. rewrite virt_set.
    - unfold update_reg_at. apply virt_set. reflexivity.
    - unfold rm_node. destruct (Nat.eqb _ 0); reflexivity. }
  unfold held. rewrite nth_node_set.
  assert (L2 : length (nodes s2) = length (nodes s)).
  { unfold s2. rewrite remove_sim_eq. rewrite set_node_length. unfold update_reg_at. apply set_node_length. }
  rewrite L2. destruct (Nat.ltb_spec vi (length (nodes s))); try lia. rewrite andb_true_r.
  destruct (Nat.eqb_spec j vi) as [->|].
  - cbn [virt with_virt]. rewrite V2. apply (length_remove_vq h _ q); auto. apply node_hids_nodup; auto.
  - apply (E2 j).
Qed.

(* sending moves exactly one held qubit from the sender to the receiver *)
Theorem held_send s h t v vi q j :
  hid_inv s -> find_handle s h = Some (vi, q) -> vi <> t -> snd (step s (OSend h t)) = Ok v ->
  held (fst (step s (OSend h t))) j =
  if Nat.eqb j vi then held s j - 1 else if Nat.eqb j t then S (held s j) else held s j.
Proof.
  intros HI EF Hne. simpl. unfold op_send. rewrite EF.
  destruct (Nat.leb_spec (length (nodes s)) t); [discriminate|].
  destruct (Nat.leb _ _); [discriminate|]. intros _. cbn [fst].
  apply find_handle_some in EF as (Lvi & Hq & Ehq).
  set (tn1 := with_virt _ _). set (s1 := mkNet _ _).
  assert (E1 : forall k, nth_node s1 k = if Nat.eqb k t then tn1 else nth_node s k).
  { intro k. unfold s1. rewrite nth_node_mk. destruct (Nat.ltb_spec t (length (nodes s))); try lia. rewrite andb_true_r. auto. }
  unfold held. rewrite nth_node_set.
  assert (L1 : length (nodes s1) = length (nodes s)) by (unfold s1; simpl; apply upd_length).
  rewrite L1. destruct (Nat.ltb_spec vi (length (nodes s))); try lia. rewrite andb_true_r.
  destruct (Nat.eqb_spec j vi) as [->|Nj].
  - cbn [virt with_virt]. rewrite E1. destruct (Nat.eqb_spec vi t); [congruence|].
    apply (length_remove_vq h _ q); auto. apply node_hids_nodup; auto.
  - rewrite E1. destruct (Nat.eqb_spec j t) as [->|]; auto.
    unfold tn1; cbn [virt with_virt]. rewrite app_length. simpl. lia.
Qed.
