#!/usr/bin/env python3
"""Run checks against a behaviour-preserving rewrite: usage tools/harmlesstest.py <patch.diff> <id> <checks comma separated>
A worktree of /repo gets the patch; every check must exit 0 with no VIOLATION line.  Writes /verif/seeded/harmless/<id>.json"""
import json, os, subprocess, sys, shutil
patch, hid, checks = sys.argv[1], sys.argv[2], sys.argv[3].split(",")
wt = "/tmp/harmwt-%s" % hid
def sh(cmd):
    return subprocess.run(cmd, shell=True, stdout=subprocess.PIPE, stderr=subprocess.STDOUT, text=True)
sh("git -C /repo worktree remove --force %s" % wt)
sh("git -C /repo worktree add --detach %s" % wt)
a = sh("git -C %s apply %s" % (wt, patch))
res = {"id": hid, "patch_applies": a.returncode == 0, "checks": {}}
try:
    for c in checks:
        r = sh("cd /verif && VERIF_REPO=%s timeout 1800 ./check %s" % (wt, c))
        lines = [l[:300] for l in r.stdout.split("\n") if l.startswith(("VIOLATION", "CHECK-ERROR", "OBLIGATION-BROKEN"))]
        res["checks"][c] = {"exit": r.returncode, "lines": lines[:5]}
finally:
    sh("git -C /repo worktree remove --force %s" % wt)
res["silent"] = all(v["exit"] == 0 for v in res["checks"].values())
os.makedirs("/verif/seeded/harmless", exist_ok=True)
shutil.copy(patch, "/verif/seeded/harmless/%s.diff" % hid)
json.dump(res, open("/verif/seeded/harmless/%s.json" % hid, "w"), indent=1)
print(hid, "silent" if res["silent"] else "ALARM", {c: v["exit"] for c, v in res["checks"].items()})
