"""Random native-operation programs on the in-process network (H-sync), recorded step by step for the Coq
correspondence (Net/Cases.v), with independent oracles:
  * ideal single-register state-vector simulator over global qubit identities (C01),
  * object-graph invariant and population deltas (C02),
  * atomicity / error class / locks of refused operations (C05), stale-handle inertness (C06), capacity rule (C07)."""
import numpy as np

import common
import net_sync as N
import oracle_np as O

G1 = ["X", "Y", "Z", "H", "K", "T", "Rot"]
G1C = {"X": "NX", "Y": "NY", "Z": "NZ", "H": "NH", "K": "NK", "T": "NT", "Rot": "NRot", "S": "NS"}
G2 = ["cnot", "cphase"]
G2C = {"cnot": "NCnot", "cphase": "NCphase"}
KIND = {"noQubitError": "KNoQubit", "quantumError": "KQuantum", "virtNetError": "KVirtNet",
        "SimUnsupportedError": "KUnsupported", "ValueError": "KValue"}


# ------------------------------------------------------------------------------------------------
# ideal reference: one register, qubits named by oid
# ------------------------------------------------------------------------------------------------
class Ideal:
    def __init__(self):
        self.order = []                          # oids, most significant first
        self.psi = np.array([1.0 + 0j])

    def new(self, oid):
        self.order.append(oid)
        self.psi = np.kron(self.psi, np.array([1.0, 0.0], dtype=complex))

    def g1(self, oid, g):
        n, p = len(self.order), self.order.index(oid)
        self.psi = O.op1(n, p, O.G1[g]) @ self.psi

    def g2(self, c, t, g):
        n = len(self.order)
        self.psi = O.op2(n, self.order.index(c), self.order.index(t), "CNOT" if g == "cnot" else "CZ") @ self.psi

    def prob(self, oid, outcome):
        n, p = len(self.order), self.order.index(oid)
        proj = O.op1(n, p, np.array([[1, 0], [0, 0]] if outcome == 0 else [[0, 0], [0, 1]], dtype=complex))
        v = proj @ self.psi
        return float(np.real(np.vdot(v, v))), v

    def measure(self, oid, outcome, inplace):
        pr, v = self.prob(oid, outcome)
        if pr < 1e-9:
            return pr
        self.psi = v / np.sqrt(pr)
        if not inplace:
            n, p = len(self.order), self.order.index(oid)
            t = self.psi.reshape([2] * n)
            t = np.take(t, outcome, axis=p)
            self.psi = t.reshape(-1)
            self.order.remove(oid)
        return pr

    def rho(self, order):
        """density matrix with qubits in the given order"""
        n = len(self.order)
        perm = [self.order.index(o) for o in order]
        t = self.psi.reshape([2] * n) if n else self.psi
        t = np.transpose(t, perm) if n else t
        v = t.reshape(-1)
        return np.outer(v, v.conj())


def impl_joint_rho(net, oid_of, order):
    """joint state represented by all registers of all nodes, qubits in `order` (list of oids)"""
    n = len(order)
    d = 2 ** n
    # which oid sits at (node, register object, position)
    where = {}
    for node in net.nodes:
        for q in node.virtQubits:
            sq = N.resolve(net, q.simQubit)
            if sq is None:
                return None
            where[(id(sq.register), sq.num)] = oid_of[net.hid[id(q)]]
    rho = np.eye(d, dtype=complex)
    for node in net.nodes:
        for r in node.registers.values():
            k = r.activeQubits
            arr = r.qubitReg.to_array()
            for row in arr:
                ps = [O.I2] * n
                for p in range(k):
                    key = (id(r), p)
                    if key not in where:
                        return None
                    ps[order.index(where[key])] = O.PAULI[(bool(row[p]), bool(row[p + k]))]
                m = O.kron_all(ps)
                if row[2 * k]:
                    m = -m
                rho = rho @ (np.eye(d) + m) / 2
    return rho


# ------------------------------------------------------------------------------------------------
# running one program
# ------------------------------------------------------------------------------------------------
class Runner:
    def __init__(self, env, rng, n_nodes, caps, max_live=7, oracle_every=1, pb=False):
        self.env, self.rng = env, rng
        self.names = ["N%d" % i for i in range(n_nodes)]
        self.caps = caps
        self.pb = pb
        if pb:
            import net_pb
            self.net = net_pb.make_pb_network(env, self.names, [c[0] for c in caps], [c[1] for c in caps])
        else:
            self.net = N.make_network(env, self.names, [c[0] for c in caps], [c[1] for c in caps])
        self.ideal = Ideal()
        self.oid_of = {}           # hid -> oid
        self.next_oid = 0
        self.all_hids = []         # every handle ever obtained (stale ones included)
        self.steps = []            # (op tuple, out string, dump)
        self.problems = []         # oracle verdicts: dicts {prop, what, step}
        self.max_live = max_live
        self.stats = {}
        self.reg_objs = []         # register handle -> engine object returned by a successful newreg (in operation order)
        self.coq_ops = {}          # step index -> Coq text of an operation whose model arguments are resolved at run time

    def live(self):
        return [self.net.hid[id(q)] for node in self.net.nodes for q in node.virtQubits]

    def holder(self, hid):
        q = self.net.objs[hid]
        for i, node in enumerate(self.net.nodes):
            if any(q is x for x in node.virtQubits):
                return i
        return None

    def stat(self, k):
        self.stats[k] = self.stats.get(k, 0) + 1

    # -- client-made registers ------------------------------------------------------------------------------
    def reg_name(self, reg):
        """(owner node index, register number): the model's name of a register object"""
        return (N.node_index(self.net, reg.simNode), reg.num)

    def reg_listed(self, reg):
        """is the register object still one of its node's registers? (a register disappears when its last qubit is measured out,
        when another register absorbs it, or when another node pulls it)"""
        owner = self.net.nodes[N.node_index(self.net, reg.simNode)]
        return owner.registers.get(reg.num) is reg

    def reg_of(self, op):
        """register object an ("newinreg", node, reg handle) / ("newinregq", node, qubit handle) operation names, or None"""
        if op[0] == "newinreg":
            return self.reg_objs[op[2]] if 0 <= op[2] < len(self.reg_objs) else None
        q = self.net.objs.get(op[2])
        if q is None or op[2] not in self.live():
            return None
        sq = N.resolve(self.net, q.simQubit)
        return None if sq is None else sq.register

    def can_do(self, op):
        """new_qubit_inreg is only driven with a register object its node still lists: with a delisted object the code has no
        defined behaviour (it silently creates a qubit in an engine outside the node's register table)"""
        if op[0] in ("newinreg", "newinregq"):
            reg = self.reg_of(op)
            return reg is not None and self.reg_listed(reg)
        return True

    def placement_case(self, h1, h2):
        q1, q2 = self.net.objs[h1], self.net.objs[h2]
        vi = N.node_index(self.net, q1.virtNode)
        s1, s2 = N.node_index(self.net, q1.simNode), N.node_index(self.net, q2.simNode)
        if s1 == s2:
            a, b = N.resolve(self.net, q1.simQubit), N.resolve(self.net, q2.simQubit)
            if a is None or b is None:
                return 0
            same = a.register is b.register
            if s1 == vi:
                return 1 if same else 2
            return 3 if same else 4
        if s1 == vi:
            return 5
        if s2 == vi:
            return 6
        return 7

    # -- execute one op on the implementation, record, judge ------------------------------------------------
    def do(self, op):
        net = self.net
        before = N.dump(net)
        live_before = set(self.live())
        pop_before = [len(n.virtQubits) for n in net.nodes]
        kind = op[0]
        stale = False
        case = None
        if kind == "new":
            d = net.nodes[op[1]].remote_new_qubit()
        elif kind == "g1":
            q = net.objs[op[1]]
            stale = op[1] not in live_before
            d = q.remote_apply_rotation((1, 0, 0), 0.3) if op[2] == "Rot" else getattr(q, "remote_apply_" + op[2])()
        elif kind == "g2":
            q1, q2 = net.objs[op[1]], net.objs[op[2]]
            stale = op[1] not in live_before or op[2] not in live_before
            if not stale:
                case = self.placement_case(op[1], op[2])
            d = getattr(q1, "remote_%s_onto" % op[3])(q2)
        elif kind == "send":
            q = net.objs[op[1]]
            stale = op[1] not in live_before
            tname = self.names[op[2]] if op[2] < len(self.names) else "Nowhere"
            d = net.nodes[N.node_index(net, q.virtNode)].remote_send_qubit(q, tname)
        elif kind == "meas":
            q = net.objs[op[1]]
            stale = op[1] not in live_before
            self.env.coins[:] = [1 if op[3] else 0]
            d = q.remote_measure(inplace=op[2])
        elif kind == "newreg":
            # synchronous method: an exception is the refusal
            from twisted.internet import defer
            d = defer.maybeDeferred(net.nodes[op[1]].remote_add_register, maxQubits=op[2])
        elif kind in ("newinreg", "newinregq"):
            reg = self.reg_of(op)
            if reg is None or not self.reg_listed(reg):
                raise ValueError("new_qubit_inreg with a register object its node no longer lists is not driven: %r" % (op,))
            owner, k = self.reg_name(reg)
            self.coq_ops[len(self.steps)] = "ONewInReg %d %d %d" % (op[1], owner, k)
            reg_before = (owner, k, reg.activeQubits, reg.maxQubits)
            from twisted.internet import defer
            d = defer.maybeDeferred(net.nodes[op[1]].remote_new_qubit_inreg, reg)
        else:
            raise ValueError(op)
        if self.pb:
            import net_pb
            box = net_pb.Box(d)
            net_pb.settle(net)
            status, val = box.status, box.value
        else:
            status, val = N.fire(d)
        self.env.coins[:] = []
        new_handles = N.tag_new_handles(net)
        self.all_hids.extend(new_handles)
        after = N.dump(net)
        # ---- out value as the model expresses it
        if status == "pending":
            out = "Err KCrash"
            self.problems.append({"prop": "C04", "what": "operation did not complete synchronously (hang)", "step": len(self.steps)})
        elif status == "err":
            out = "Err " + KIND.get(type(val).__name__, "KCrash")
        else:
            if kind in ("new", "newinreg", "newinregq"):
                out = "Ok %d" % val.num
            elif kind == "newreg":
                out = "Ok %d" % val.num
                self.reg_objs.append(val)
            elif kind == "g1":
                out = "Ignored" if stale else "OkNone"      # remote_apply_* returns None either way
            elif kind == "g2":
                out = "Ignored" if stale else "OkNone"
            elif kind == "send":
                out = "Ignored" if val is None else "Ok %d" % val
            else:
                out = "Ignored" if val is None else "Ok %d" % val
        self.steps.append((op, out, after))
        self.stat("op_" + kind)
        if case is not None:
            self.stat("case%d_%s" % (case, op[3]))
        if stale:
            self.stat("stale_op")
        if out.startswith("Err"):
            self.stat("refused_" + out.split()[1])
            if kind in ("newreg", "newinreg", "newinregq"):
                self.stat("refused_%s_%s" % (kind, out.split()[1]))
        self.reg_before = reg_before if kind in ("newinreg", "newinregq") else None
        self.judge(op, kind, status, val, out, stale, before, after, live_before, pop_before, new_handles)
        return out

    def judge(self, op, kind, status, val, out, stale, before, after, live_before, pop_before, new_handles):
        net = self.net
        step = len(self.steps) - 1
        P = self.problems
        # ---- C04/C05: no lock outlives an operation
        held = N.locks_held(net)
        if held:
            # a lock that outlives its operation is a C04 failure; after a refused operation it is a C05 failure as well
            for prop in (["C04", "C05"] if out.startswith("Err") else ["C04"]):
                P.append({"prop": prop, "what": "locks still held after the operation: %r" % (held,), "step": step})
        # ---- C02: object graph
        bad = N.object_graph_invariant(net)
        if bad:
            P.append({"prop": "C02", "what": bad[0], "step": step})
        pop_after = [len(n.virtQubits) for n in net.nodes]
        delta = sum(pop_after) - sum(pop_before)
        ok_result = status == "ok" and not out.startswith("Ignored")
        want = 0
        if ok_result and kind in ("new", "newinreg", "newinregq"):
            want = 1
        if ok_result and kind == "meas" and not op[2]:
            want = -1
        if delta != want:
            P.append({"prop": "C02", "what": "population changed by %d, expected %d" % (delta, want), "step": step})
        if ok_result and kind == "send":
            src = [i for i in range(len(pop_before)) if pop_after[i] - pop_before[i] == -1]
            dst = [i for i in range(len(pop_before)) if pop_after[i] - pop_before[i] == 1]
            if len(src) != 1 or dst != [op[2]]:
                P.append({"prop": "C02", "what": "send did not move exactly one qubit to the target", "step": step})
        # ---- C05: refusals are atomic and typed
        if status == "err":
            if type(val).__name__ not in KIND:
                # an undocumented exception class is both a wrong error type (C05) and, when the operation should have
                # succeeded, a deviation from the ideal register (C01)
                for prop in ("C01", "C05"):
                    P.append({"prop": prop, "what": "operation failed with undocumented %s: %s" % (type(val).__name__, val), "step": step,
                              "exc": type(val).__name__})
            if before != after:
                P.append({"prop": "C05", "what": "refused operation (%s) changed the bookkeeping" % type(val).__name__, "step": step})
        # ---- C06: stale handles are inert
        if stale:
            if before != after:
                P.append({"prop": "C06", "what": "operation through a stale handle changed the network state", "step": step})
            if status == "err":
                P.append({"prop": "C06", "what": "operation through a stale handle raised %s" % type(val).__name__, "step": step})
        # ---- C07: capacity rule
        for i, node in enumerate(net.nodes):
            if len(node.virtQubits) > node.maxQubits:
                P.append({"prop": "C07", "what": "node %d holds %d > max %d" % (i, len(node.virtQubits), node.maxQubits), "step": step})
        if kind == "new":
            i = op[1]
            room = pop_before[i] < net.nodes[i].maxQubits
            regroom = before[i]["numRegs"] < net.nodes[i].maxRegs
            if status == "ok" and not (room and regroom):
                P.append({"prop": "C07", "what": "creation succeeded at capacity", "step": step})
            if status == "err" and room and regroom:
                P.append({"prop": "C07", "what": "creation refused below capacity: %s" % type(val).__name__, "step": step})
            if status == "err" and not room and type(val).__name__ != "noQubitError":
                P.append({"prop": "C07", "what": "creation at qubit capacity refused with %s" % type(val).__name__, "step": step})
        if kind == "newreg":
            # `creating more registers than the configured maximum is refused` -- and nothing else is
            i = op[1]
            regroom = before[i]["numRegs"] < net.nodes[i].maxRegs
            if status == "ok":
                self.stat("newreg_ok_cap%d" % min(op[2], 4))
                if not regroom:
                    P.append({"prop": "C07", "what": "register creation succeeded at the register limit", "step": step})
                mine = [r for r in after[i]["regs"] if r[0] == val.num]
                if len(mine) != 1 or mine[0][1] != op[2] or mine[0][2] != 0 or val.num in [r[0] for r in before[i]["regs"]]:
                    P.append({"prop": "C02", "what": "register creation did not list one new empty register of the requested capacity", "step": step})
                if [r for r in after[i]["regs"] if r[0] != val.num] != before[i]["regs"] or after[i]["virt"] != before[i]["virt"] \
                        or after[i]["sims"] != before[i]["sims"] or after[:i] + after[i + 1:] != before[:i] + before[i + 1:]:
                    P.append({"prop": "C02", "what": "register creation changed something else than the register table", "step": step})
            if status == "err":
                if regroom:
                    P.append({"prop": "C07", "what": "register creation refused below the register limit: %s" % type(val).__name__, "step": step})
                elif type(val).__name__ != "quantumError":
                    P.append({"prop": "C05", "what": "register creation at the register limit refused with %s" % type(val).__name__, "step": step})
        if kind in ("newinreg", "newinregq"):
            i = op[1]
            owner, k, active, regmax = self.reg_before
            own = owner == i
            room = pop_before[i] < net.nodes[i].maxQubits
            regroom = active < regmax
            cause = "foreign" if not own else ("node_full" if not room else ("register_full" if not regroom else None))
            self.stat("newinreg_%s" % (cause or ("ok_at_pos%d" % min(active, 3))))
            if status == "ok" and cause is not None:
                P.append({"prop": "C07", "what": "creation in a register succeeded although refusal cause %s applies" % cause, "step": step})
            if status == "err" and cause is None:
                P.append({"prop": "C07", "what": "creation in a register refused below capacity: %s" % type(val).__name__, "step": step})
            if status == "err" and cause is not None:
                want_exc = "quantumError" if cause == "foreign" else "noQubitError"
                if type(val).__name__ != want_exc:
                    P.append({"prop": "C05", "what": "creation in a register (%s) refused with %s instead of %s" % (cause, type(val).__name__, want_exc),
                              "step": step})
            if status == "ok" and cause is None:
                # the new qubit sits at the end of exactly that register, nothing else moved
                mine = [r for r in after[i]["regs"] if r[0] == k]
                newsims = [x for x in after[i]["sims"] if x not in before[i]["sims"]]
                if len(mine) != 1 or mine[0][2] != active + 1 or mine[0][1] != regmax or len(newsims) != 1 or newsims[0][1:] != (k, active) \
                        or [r for r in after[i]["regs"] if r[0] != k] != [r for r in before[i]["regs"] if r[0] != k] \
                        or after[i]["numRegs"] != before[i]["numRegs"] or after[i]["nextReg"] != before[i]["nextReg"]:
                    P.append({"prop": "C02", "what": "creation in a register did not append exactly one qubit at the end of that register", "step": step})
        if kind == "send" and not stale and op[2] < len(net.nodes):
            t = op[2]
            room = pop_before[t] < net.nodes[t].maxQubits
            if status == "ok" and not room:
                P.append({"prop": "C07", "what": "receive succeeded at capacity", "step": step})
            if status == "err" and room and type(val).__name__ in KIND:
                P.append({"prop": "C07", "what": "receive refused below capacity: %s" % type(val).__name__, "step": step})
        if kind == "g2" and status == "err" and not stale and op[1] != op[2]:
            P.append({"prop": "C07", "what": "two-qubit gate (placement case %s) refused: %s %s" % (self.placement_case_safe(op), type(val).__name__, val),
                      "step": step, "exc": type(val).__name__})
        # ---- C01: ideal register
        try:
            self.judge_ideal(op, kind, status, val, stale, new_handles, step, bad)
        except KeyError:
            # the implementation misbehaved earlier (already reported); qubit identities can no longer be followed
            self.ideal_broken = True
        except (TypeError, ValueError, IndexError) as e:
            # a result of the wrong shape (e.g. a measurement on a live handle answering None): that is a misbehaviour of its own
            P.append({"prop": "C01", "what": "operation %r on a live handle returned a value of the wrong kind (%r): %s" % (op, val, e), "step": step})
            P.append({"prop": "C06", "what": "operation %r on a live handle was treated like a stale one (returned %r)" % (op, val), "step": step})
            self.ideal_broken = True

    def judge_ideal(self, op, kind, status, val, stale, new_handles, step, bad):
        net, P = self.net, self.problems
        if getattr(self, "ideal_broken", False):
            return
        if status == "ok" and not stale:
            if kind in ("new", "newinreg", "newinregq"):
                # a qubit created inside an existing register starts in |0>, uncorrelated with everything else
                h = new_handles[0] if new_handles else None
                if h is not None:
                    self.oid_of[h] = self.next_oid
                    self.ideal.new(self.next_oid)
                    self.next_oid += 1
            elif kind == "g1":
                self.ideal.g1(self.oid_of[op[1]], op[2])
            elif kind == "g2":
                self.ideal.g2(self.oid_of[op[1]], self.oid_of[op[2]], op[3])
            elif kind == "send":
                if new_handles:
                    self.oid_of[new_handles[0]] = self.oid_of[op[1]]
            elif kind == "meas":
                pr = self.ideal.measure(self.oid_of[op[1]], int(val), op[2])
                if pr < 1e-9:
                    P.append({"prop": "C01", "what": "reported outcome %d has probability 0 in the ideal register" % val, "step": step})
                    self.ideal_broken = True
            if len(self.ideal.order) <= self.max_live and not getattr(self, "ideal_broken", False) and not bad:
                order = list(self.ideal.order)
                rho = impl_joint_rho(net, self.oid_of, order)
                self.stat("joint_state_compared")
                if rho is None or not O.close(rho, self.ideal.rho(order)):
                    P.append({"prop": "C01", "what": "joint state differs from the ideal single-register state", "step": step})
                    self.ideal_broken = True
        elif status == "err" or stale and False:
            pass

    def placement_case_safe(self, op):
        try:
            return self.placement_case(op[1], op[2])
        except Exception:
            return "?"


# ------------------------------------------------------------------------------------------------
# generators
# ------------------------------------------------------------------------------------------------
def random_program(env, rng, n_ops, profile="mixed", n_nodes=None, caps=None, pb=False):
    n_nodes = n_nodes or rng.choice([1, 2, 3, 3, 4])
    if caps is None:
        if profile == "capacity":
            caps = [(rng.randrange(1, 6), rng.randrange(1, 9)) for _ in range(n_nodes)]
        elif profile == "registers":
            caps = [(rng.choice([2, 3, 4, 5, 6]), rng.choice([2, 3, 4, 6, 8])) for _ in range(n_nodes)]
        else:
            caps = [(rng.choice([3, 4, 5, 6]), rng.choice([4, 6, 8, 10])) for _ in range(n_nodes)]
    r = Runner(env, rng, n_nodes, caps, pb=pb)
    # newreg / newinreg: the two client operations on registers (remote_add_register, remote_new_qubit_inreg); a modest share everywhere,
    # and the profile "registers" with register capacities 1..3 so that the register-full refusal is frequent
    w = {"mixed": dict(new=4, g1=4, g2=6, send=4, meas=2, stale=1, bad=1, newreg=1, newinreg=2),
         "merge": dict(new=3, g1=3, g2=8, send=6, meas=1, stale=0, bad=0, newreg=1, newinreg=2),
         "capacity": dict(new=6, g1=1, g2=2, send=5, meas=3, stale=0, bad=1, newreg=2, newinreg=3),
         "stale": dict(new=3, g1=3, g2=4, send=4, meas=3, stale=6, bad=0, newreg=1, newinreg=1),
         "refuse": dict(new=4, g1=3, g2=4, send=4, meas=1, stale=1, bad=5, newreg=2, newinreg=3),
         "registers": dict(new=2, g1=2, g2=6, send=4, meas=3, stale=0, bad=0, newreg=4, newinreg=9)}[profile]
    kinds = [k for k, v in w.items() for _ in range(v)]
    for _ in range(n_ops):
        live = r.live()
        k = rng.choice(kinds)
        total_live = len(live)
        if k == "newreg":
            small = profile in ("registers", "capacity", "refuse")
            r.do(("newreg", rng.randrange(n_nodes), rng.choice([1, 1, 2, 2, 3] if small else [1, 2, 3, 10, 0])))
            continue
        if k == "newinreg":
            # a register returned by newreg, or the register of a live qubit (any register a client can get hold of);
            # mostly at the owning node, sometimes (refused) at another one; only registers their node still lists
            cands = [("newinreg", rh) for rh in range(len(r.reg_objs)) if r.reg_listed(r.reg_objs[rh])]
            # (after a misbehaviour of the implementation a live qubit may sit in a register its node does not list: not driven)
            cands = cands * 3 + [("newinregq", h) for h in live if r.can_do(("newinregq", 0, h))]
            if not cands:
                r.do(("newreg", rng.randrange(n_nodes), rng.choice([1, 2, 3])))
                continue
            if total_live >= 7 and profile not in ("capacity", "registers") and rng.random() < 0.7:
                k = "meas"
            else:
                kind, ref = rng.choice(cands)
                owner = r.reg_name(r.reg_of((kind, 0, ref)))[0]
                node = owner if (n_nodes == 1 or rng.random() < 0.88) else rng.choice([x for x in range(n_nodes) if x != owner])
                r.do((kind, node, ref))
                continue
        if k == "new" or not live:
            if total_live >= 7 and profile != "capacity" and live:
                k = "meas"
            else:
                r.do(("new", rng.randrange(n_nodes)))
                continue
        if k == "g1":
            g = rng.choice(["X", "Y", "Z", "H", "K", "H", "K"])
            r.do(("g1", rng.choice(live), g))
        elif k == "g2":
            byn = {}
            for h in live:
                byn.setdefault(r.holder(h), []).append(h)
            cands = [v for v in byn.values() if len(v) >= 2]
            if not cands:
                # bring two qubits together
                if len(live) >= 2 and n_nodes > 1:
                    h = rng.choice(live)
                    others = [x for x in range(n_nodes) if x != r.holder(h)]
                    r.do(("send", h, rng.choice(others)))
                else:
                    r.do(("new", rng.randrange(n_nodes)))
                continue
            hs = rng.choice(cands)
            a, b = rng.sample(hs, 2)
            r.do(("g2", a, b, rng.choice(G2)))
        elif k == "send":
            if n_nodes == 1:
                continue
            h = rng.choice(live)
            others = [x for x in range(n_nodes) if x != r.holder(h)]
            r.do(("send", h, rng.choice(others)))
        elif k == "meas":
            r.do(("meas", rng.choice(live), rng.random() < 0.4, rng.random() < 0.5))
        elif k == "stale":
            stale = [h for h in r.all_hids if h not in live]
            if not stale:
                continue
            h = rng.choice(stale)
            c = rng.choice(["g1", "g2a", "g2b", "send", "meas", "meas"])
            if c == "g1":
                r.do(("g1", h, rng.choice(["X", "Z", "H", "K", "Y"])))
            elif c in ("g2a", "g2b"):
                # partner: a live qubit at the node where the stale handle used to live
                q = r.net.objs[h]
                vi = N.node_index(r.net, q.virtNode)
                partners = [x for x in live if r.holder(x) == vi]
                if not partners:
                    continue
                p = rng.choice(partners)
                r.do(("g2", h, p, rng.choice(G2)) if c == "g2a" else ("g2", p, h, rng.choice(G2)))
            elif c == "send":
                q = r.net.objs[h]
                vi = N.node_index(r.net, q.virtNode)
                others = [x for x in range(n_nodes) if x != vi]
                if others:
                    r.do(("send", h, rng.choice(others)))
            else:
                r.do(("meas", h, rng.random() < 0.5, rng.random() < 0.5))
        elif k == "bad":
            c = rng.choice(["T", "Rot", "same", "unknown", "T"])
            h = rng.choice(live)
            if c in ("T", "Rot"):
                r.do(("g1", h, c))
            elif c == "same":
                r.do(("g2", h, h, rng.choice(G2)))
            else:
                r.do(("send", h, n_nodes + rng.randrange(2)))
    return r


# ------------------------------------------------------------------------------------------------
# Coq printing
# ------------------------------------------------------------------------------------------------
def cop(op):
    k = op[0]
    if k == "new":
        return "ONew %d" % op[1]
    if k == "g1":
        return "OGate1 %d %s" % (op[1], G1C[op[2]])
    if k == "g2":
        return "OGate2 %d %d %s" % (op[1], op[2], G2C[op[3]])
    if k == "send":
        return "OSend %d %d" % (op[1], op[2])
    if k == "newreg":
        return "ONewReg %d %d" % (op[1], op[2])
    if k in ("newinreg", "newinregq"):
        raise ValueError("the model arguments of %r are resolved when it runs (Runner.coq_ops)" % (op,))
    return "OMeas %d %s %s" % (op[1], common.cbool(op[2]), common.cbool(op[3]))


def cdump(d):
    nodes = []
    for nd in d:
        virt = "[" + ";".join("(%d,%d,%d,%d)" % v for v in nd["virt"]) + "]"
        sims = "[" + ";".join("(%d,%d,%d)" % s for s in nd["sims"]) + "]"
        regs = "[" + ";".join("(%d,%d,%d,%s)" % (r[0], r[1], r[2], common.ctab(r[3])) for r in nd["regs"]) + "]"
        nodes.append("(%s,%s,%s,%d,%d)" % (virt, sims, regs, nd["numRegs"], nd["nextReg"]))
    return "[" + ";".join(nodes) + "]"


def ccase(r):
    caps = "[" + ";".join("(%d,%d)" % c for c in r.caps) + "]"
    steps = "[" + ";\n   ".join("(%s, %s, %s)" % (r.coq_ops.get(i) or cop(o), out, cdump(d)) for i, (o, out, d) in enumerate(r.steps)) + "]"
    return "(%s,\n  %s)" % (caps, steps)


def cases_text(runners):
    return (common.CASE_HEADER + "From SQ Require Import Base.ListUtil Stab.Tableau Net.Model Net.Cases.\n"
            "Definition cases : list (list (nat * nat) * list (op * out * list dnode)) := [\n"
            + ";\n".join(ccase(r) for r in runners) + "\n].\n"
            "Eval vm_compute in (map check_net_case cases).\n")


def correspond(ctx, runners, name, shard=40):
    """returns list of (runner, failing step index) ; registers the obligation"""
    shards = [runners[i:i + shard] for i in range(0, len(runners), shard)]
    res = common.coq_eval_many([cases_text(sh) for sh in shards])
    bad = []
    okall = True
    for sh, (ok, out) in zip(shards, res):
        lists = common.parse_nat_lists(out) if ok else []
        if not ok or len(lists) != 1 or len(lists[0]) != len(sh):
            ctx.obligation("correspondence %s evaluates in Coq" % name, False, out[-1500:])
            okall = False
            continue
        for r, v in zip(sh, lists[0]):
            if v != 0:
                bad.append((r, v - 1))
    nsteps = sum(len(r.steps) for r in runners)
    detail = ""
    if bad:
        r, i = bad[0]
        detail = "first disagreement at step %d of program %r -> impl %r" % (i, [s[0] for s in r.steps[:i + 1]], r.steps[i][1])
    ctx.obligation("correspondence %s: model = implementation after every one of %d operations in %d programs" % (name, nsteps, len(runners)),
                   okall and not bad, detail)
    return bad


def program_of(r, upto=None):
    steps = r.steps if upto is None else r.steps[:upto + 1]
    return {"caps": r.caps, "ops": [list(s[0]) for s in steps], "impl_outs": [s[1] for s in steps],
            "model_ops": {str(i): t for i, t in r.coq_ops.items() if i < len(steps)}}


# ------------------------------------------------------------------------------------------------
# symbolic programs (handles named by the index of the operation that created them), replay and shrinking
# ------------------------------------------------------------------------------------------------
HANDLE_FIELDS = {"g1": [1], "g2": [1, 2], "send": [1], "meas": [1], "new": [], "newreg": [], "newinreg": [], "newinregq": [2]}
# register handles (index into Runner.reg_objs: one per successful newreg, in operation order) are named the same way
REG_FIELDS = {"newinreg": [2]}


def ref_fields(kind):
    """fields of a symbolic operation that name the operation which created a qubit handle / a register handle"""
    return HANDLE_FIELDS[kind] + REG_FIELDS.get(kind, [])


def symbolic(r, upto=None):
    """ops of a finished run with every handle id replaced by the index of its creating op"""
    steps = r.steps if upto is None else r.steps[:upto + 1]
    creator = {}
    rcreator = {}
    # handle ids are allocated in op order, one per successful new/send/newinreg; register handles one per successful newreg
    nxt = 0
    for i, (op, out, _) in enumerate(steps):
        if op[0] in ("new", "send", "newinreg", "newinregq") and out.startswith("Ok"):
            creator[nxt] = i
            nxt += 1
        if op[0] == "newreg" and out.startswith("Ok"):
            rcreator[len(rcreator)] = i
    sym = []
    for op, out, _ in steps:
        o = list(op)
        for f in HANDLE_FIELDS[op[0]]:
            o[f] = creator.get(op[f], -1)
        for f in REG_FIELDS.get(op[0], []):
            o[f] = rcreator.get(op[f], -1)
        sym.append(tuple(o))
    return sym


def replay(env, caps, sym, rng=None, pb=False):
    """run a symbolic program; ops whose handles do not exist (creator removed or refused) are skipped"""
    import random as _r
    r = Runner(env, rng or _r.Random(0), len(caps), caps, pb=pb)
    made = {}
    made_regs = {}
    for i, op in enumerate(sym):
        o = list(op)
        ok = True
        for f in HANDLE_FIELDS[op[0]]:
            if op[f] not in made:
                ok = False
            else:
                o[f] = made[op[f]]
        for f in REG_FIELDS.get(op[0], []):
            if op[f] not in made_regs:
                ok = False
            else:
                o[f] = made_regs[op[f]]
        if not ok:
            continue
        if o[0] in ("new", "newreg", "newinreg", "newinregq") and o[1] >= len(caps):
            continue
        if not r.can_do(tuple(o)):
            continue            # the register object is no longer listed by its node in this (shrunk) history
        before = r.net.next_hid
        nregs = len(r.reg_objs)
        out = r.do(tuple(o))
        if r.net.next_hid > before:
            made[i] = before
        if len(r.reg_objs) > nregs:
            made_regs[i] = nregs
    return r


def shrink(env, caps, sym, pred, budget=150, pb=False):
    """greedy delta debugging: drop operations while pred(replayed runner) stays true"""
    cur = list(sym)
    changed = True
    while changed and budget > 0:
        changed = False
        for i in reversed(range(len(cur))):
            if budget <= 0:
                break
            cand = cur[:i] + [tuple((x - 1 if (k in ref_fields(o[0]) and isinstance(x, int) and x > i) else x)
                                    for k, x in enumerate(o))
                              for o in cur[i + 1:]
                              if not any(o[f] == i for f in ref_fields(o[0]))]
            budget -= 1
            try:
                r = replay(env, caps, cand, pb=pb)
            except Exception:
                continue
            if pred(r):
                cur = cand
                changed = True
    return cur


def problems_of(r, prop):
    return [p for p in r.problems if p["prop"] == prop]
