(* Correspondence cases for Model V: an operation list together with, after every operation, what the
   implementation returned and its complete bookkeeping dump. *)
From Coq Require Import List Bool Arith.
From SQ Require Import Base.ListUtil Stab.Tableau Net.Model.
Import ListNotations.

Definition dvirt := (nat * nat * nat * nat)%type.      (* hid, num, simNode, simNum *)
Definition dsim := (nat * nat * nat)%type.             (* simNum, regNum, pos *)
Definition dreg := (nat * nat * nat * tab)%type.       (* regNum, maxQubits, activeQubits, generators *)
Definition dnode := (list dvirt * list dsim * list dreg * nat * nat)%type.

Definition dump_node (nd : node) : dnode :=
  (map (fun q => (v_hid q, v_num q, v_simNode q, v_simNum q)) (virt nd),
   map (fun x => (s_simNum x, s_reg x, s_pos x)) (sims nd),
   map (fun r => (r_num r, r_max r, r_n r, r_tab r)) (regs nd),
   numRegs nd, nextReg nd).
Definition dump (s : net) : list dnode := map dump_node (nodes s).

Definition dvirt_eqb (a b : dvirt) : bool :=
  let '(a1, a2, a3, a4) := a in let '(b1, b2, b3, b4) := b in
  Nat.eqb a1 b1 && Nat.eqb a2 b2 && Nat.eqb a3 b3 && Nat.eqb a4 b4.
Definition dsim_eqb (a b : dsim) : bool :=
  let '(a1, a2, a3) := a in let '(b1, b2, b3) := b in Nat.eqb a1 b1 && Nat.eqb a2 b2 && Nat.eqb a3 b3.
Definition dreg_eqb (a b : dreg) : bool :=
  let '(a1, a2, a3, a4) := a in let '(b1, b2, b3, b4) := b in
  Nat.eqb a1 b1 && Nat.eqb a2 b2 && Nat.eqb a3 b3 && tab_eqb a4 b4.
Definition dnode_eqb (a b : dnode) : bool :=
  let '(av, asi, ar, an, ax) := a in let '(bv, bsi, br, bn, bx) := b in
  list_eqb dvirt_eqb av bv && list_eqb dsim_eqb asi bsi && list_eqb dreg_eqb ar br && Nat.eqb an bn && Nat.eqb ax bx.

Definition kind_eqb (a b : kind) : bool :=
  match a, b with
  | KNoQubit, KNoQubit | KQuantum, KQuantum | KVirtNet, KVirtNet | KUnsupported, KUnsupported | KValue, KValue | KCrash, KCrash => true
  | _, _ => false
  end.
Definition out_eqb (a b : out) : bool :=
  match a, b with
  | Ok x, Ok y => Nat.eqb x y
  | OkNone, OkNone | Ignored, Ignored => true
  | Err x, Err y => kind_eqb x y
  | _, _ => false
  end.

(* returns 0 when every step agrees, otherwise 1 + index of the first disagreeing step *)
Fixpoint check_steps (i : nat) (s : net) (steps : list (op * out * list dnode)) : nat :=
  match steps with
  | [] => 0
  | (o, r, d) :: t =>
      let '(s', r') := step s o in
      if out_eqb r r' && list_eqb dnode_eqb (dump s') d then check_steps (S i) s' t else S i
  end.

Definition check_net_case (c : list (nat * nat) * list (op * out * list dnode)) : nat :=
  check_steps 0 (init_net (fst c)) (snd c).
