"""H-pb: the real Perspective Broker between in-process virtual nodes.
For every ordered pair (i, j) a PBClientFactory of node i is connected to PBServerFactory(node j) through
twisted.test.iosim fake transports; bytes move only when the scheduler pumps a link, timers fire only when the
scheduler advances the virtual clock.  This is the production jelly/unjelly path (RemoteReference translation,
CopiedFailure / RemoteError), so errors really cross a node boundary and messages really interleave."""
from twisted.internet import task
from twisted.spread import pb
from twisted.test import iosim

import net_sync as N


class PBNet:
    pass


def make_pb_network(env, names, maxQ, maxR):
    nodes, cfgs = [], []
    env.new_clock()
    for i, n in enumerate(names):
        cfg = N.FakeConfig(names)
        node = env.V.virtualNode(cfg.hostDict[n], cfg, maxQubits=maxQ[i], maxRegisters=maxR[i])
        nodes.append(node)
        cfgs.append(cfg)
    net = PBNet()
    net.env, net.names, net.nodes, net.cfgs = env, names, nodes, cfgs
    net.pumps = {}
    for i in range(len(names)):
        for j in range(len(names)):
            if i == j:
                continue
            sf = pb.PBServerFactory(nodes[j])
            cf = pb.PBClientFactory()
            sp = sf.buildProtocol(None)
            cp = cf.buildProtocol(None)
            st = iosim.FakeTransport(sp, isServer=True)
            ct = iosim.FakeTransport(cp, isServer=False)
            pump = iosim.connect(sp, st, cp, ct, greet=True, clock=None)
            net.pumps[(i, j)] = pump
            d = cf.getRootObject()
            h = cfgs[i].hostDict[names[j]]

            def got(root, i=i, j=j, h=h):
                h.root = root
                nodes[i].conn[names[j]] = h
            d.addCallback(got)
    flush(net)
    net.hid, net.objs, net.next_hid = {}, {}, 0

    def resolver(obj):
        if isinstance(obj, pb.RemoteReference):
            for p in net.pumps.values():
                if obj.broker is p.client:
                    return p.server.localObjectForID(obj.luid)
                if obj.broker is p.server:
                    return p.client.localObjectForID(obj.luid)
            return None
        return obj
    net.resolver = resolver
    return net


def pump_once(net, key):
    """move pending bytes of one link (both directions); returns True if anything moved"""
    return net.pumps[key].pump(advanceClock=False)


def flush(net, limit=10000):
    """pump every link until no bytes are in flight"""
    n = 0
    moved = True
    while moved and n < limit:
        moved = False
        for k in sorted(net.pumps):
            if net.pumps[k].pump(advanceClock=False):
                moved = True
        n += 1
    return n


def settle(net, horizon=120.0, step=0.25):
    """run to quiescence: flush links, then advance the virtual clock while timers are pending (bounded horizon)"""
    t = 0.0
    flush(net)
    while t < horizon:
        calls = net.env.clock.getDelayedCalls()
        if not calls:
            break
        nxt = min(c.getTime() for c in calls) - net.env.clock.seconds()
        dt = max(nxt, 0.0) + 1e-6
        net.env.clock.advance(dt)
        t += dt
        flush(net)
    return t


class Box:
    """collects the result of a Deferred that may fire later"""
    def __init__(self, d):
        self.done = False
        self.status = "pending"
        self.value = None
        d.addCallbacks(self._ok, self._err)

    def _ok(self, r):
        self.done, self.status, self.value = True, "ok", r

    def _err(self, f):
        self.done, self.status, self.value = True, "err", f.value
