(* Model C: node name <-> node id.  Both lookups are functions of the file content alone. *)
From Coq Require Import List Bool Arith NArith String Lia Permutation Sorted.
From SQ Require Import Conf.Model Conf.Assoc Conf.Sort Conf.Invariant.
Import ListNotations.
Open Scope list_scope.

Lemma node_names_nodup f nn ks : keys_ok f -> node_names f nn = Some ks -> NoDup ks.
Proof.
  intros [_ K]. unfold node_names. destruct (aget f nn) as [nw|] eqn:Ea; simpl; intros H; inversion H; subst.
  apply aget_In in Ea. eauto.
Qed.

(* the two lookup directions are mutually inverse *)
Lemma id_bij f nn x i : keys_ok f -> (node_id f nn x = Some i <-> name_of_id f nn i = Some x).
Proof.
  intros K. unfold node_id, name_of_id. destruct (node_names f nn) as [ks|] eqn:En.
  - split; [apply index_of_nth|apply nth_index_of]. apply isort_NoDup. eapply node_names_nodup; eauto.
  - split; discriminate.
Qed.

(* ids are exactly 0..n-1 and every node has one *)
Lemma id_total f nn ks : node_names f nn = Some ks ->
  (forall x, In x ks <-> exists i, node_id f nn x = Some i) /\
  (forall i, i < List.length ks <-> exists x, name_of_id f nn i = Some x).
Proof.
  intros En. unfold node_id, name_of_id. rewrite En. split.
  - intros x. split.
    + intros H. apply index_of_In. apply isort_In; auto.
    + intros [i H]. apply isort_In. eapply nth_error_In. apply index_of_nth; eauto.
  - intros i. pose proof (isort_length ks) as HL. unfold name in *. rewrite <- HL. rewrite <- nth_error_Some.
    destruct (nth_error (isort ks) i); split; intros H; eauto; try congruence. destruct H; discriminate.
Qed.

(* "index in the sorted list of names": isort is the sorted rearrangement, and it is the only one *)
Lemma isort_is_sorted l : Sorted sle (isort l) /\ Permutation l (isort l).
Proof. split; [apply isort_sorted|apply isort_perm]. Qed.

(* every participant agrees: the ids depend only on the set of node names in the file
   (not on the order of the json object, nor on the endpoint role that was read) *)
Lemma id_reader_independent f1 f2 n1 n2 ks1 ks2 :
  node_names f1 n1 = Some ks1 -> node_names f2 n2 = Some ks2 -> Permutation ks1 ks2 ->
  (forall x, node_id f1 n1 x = node_id f2 n2 x) /\ (forall i, name_of_id f1 n1 i = name_of_id f2 n2 i).
Proof.
  intros E1 E2 Hp. unfold node_id, name_of_id. rewrite E1, E2, (isort_perm_eq _ _ Hp). split; auto.
Qed.

Section Reach.
  Variable os : nat -> N -> bool.

  Lemma id_bijection_all ops :
    let s := run os init ops in
    forall f, (file s = Some f \/ f = cfg s) ->
    forall nn x i, node_id f nn x = Some i <-> name_of_id f nn i = Some x.
  Proof.
    intros s f Hf nn x i. apply id_bij.
    assert (I : Inv s) by (apply run_inv, Inv_init).
    destruct Hf as [Hf| ->]; [apply (inv_fkeys s I f Hf)|apply I].
  Qed.
End Reach.
