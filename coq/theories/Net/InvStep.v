(* The bookkeeping invariant holds in every reachable state: induction over arbitrary operation lists. *)
From Coq Require Import List Bool Arith Lia Permutation.
From SQ Require Import Base.ListUtil Stab.Tableau Net.Model Net.Refusal Net.Capacity Net.Handles Net.Fresh
     Net.Inv Net.InvNew Net.InvMeas Net.InvMerge Net.InvPull.
Import ListNotations.

Lemma inv_apply_gate2_at s ni k g c t : inv s -> inv (apply_gate2_at s ni k g c t).
Proof.
  intros H. unfold apply_gate2_at. destruct (find_reg k (regs (nth_node s ni))) as [r|] eqn:E; [|exact H].
  apply find_reg_some in E as [Hr _]. apply inv_update_tab with (r := r); auto.
Qed.

Lemma inv_gate1 s h g : inv s -> inv (fst (op_gate1 s h g)).
Proof.
  intros H. unfold op_gate1.
  destruct (find_handle s h) as [[vi q]|]; [|exact H].
  destruct (locate s q) as [[x r]|] eqn:EL; [|exact H].
  destruct (gate1_of g); [|exact H]. cbn [fst].
  unfold locate in EL.
  destruct (find_sq _ _) as [x0|]; [|discriminate].
  destruct (find_reg _ _) as [r0|] eqn:ER; [|discriminate]. inversion EL; subst.
  apply find_reg_some in ER as [Hr _]. apply inv_update_tab with (r := r); auto.
Qed.

Lemma inv_gate2 s h1 h2 g : inv s -> inv (fst (op_gate2 s h1 h2 g)).
Proof.
  intros H. unfold op_gate2.
  destruct (find_handle s h1) as [[vi q1]|]; [|exact H].
  destruct (find_handle s h2) as [[vi2 q2]|]; [|exact H].
  destruct (negb _); [exact H|].
  destruct (Nat.eqb_spec (v_simNode q1) (v_simNode q2)) as [Es|Ns].
  - destruct (pos_of s _ (v_simNum q1)) as [k1 p1]. destruct (pos_of s _ (v_simNum q2)) as [k2 p2].
    destruct (Nat.eqb_spec k1 k2) as [Ek|Nk].
    + destruct (Nat.eqb p1 p2); [exact H|]. cbn [fst]. apply inv_apply_gate2_at; auto.
    + destruct (pos_of _ _ _) as [a b]. destruct (pos_of _ _ _) as [a' b']. cbn [fst].
      apply inv_apply_gate2_at. apply inv_local_merge; auto.
  - destruct (Nat.eqb_spec (v_simNode q1) vi) as [E1|N1].
    + destruct (pos_of _ _ _) as [k1 x].
      pose proof (inv_merge_from s vi (v_simNode q2) (v_simNum q2) k1) as HM.
      destruct (merge_from _ _ _ _ _) as [s1 newT]. cbn [fst] in HM.
      destruct (pos_of _ _ _) as [a b]. destruct (pos_of _ _ _) as [a' b']. cbn [fst].
      apply inv_apply_gate2_at. apply HM; auto. congruence.
    + destruct (Nat.eqb_spec (v_simNode q2) vi) as [E2|N2].
      * destruct (pos_of _ _ _) as [k2 x].
        pose proof (inv_merge_from s vi (v_simNode q1) (v_simNum q1) k2) as HM.
        destruct (merge_from _ _ _ _ _) as [s1 newC]. cbn [fst] in HM.
        destruct (pos_of _ _ _) as [a b]. destruct (pos_of _ _ _) as [a' b']. cbn [fst].
        apply inv_apply_gate2_at. apply HM; auto.
      * pose proof (inv_add_register_force s vi H) as H0.
        destruct (add_register_force (nth_node s vi)) as [nd1 r] eqn:EA. cbn [fst] in H0.
        pose proof (inv_merge_from (set_node s vi nd1) vi (v_simNode q1) (v_simNum q1) (r_num r)) as HM1.
        destruct (merge_from (set_node s vi nd1) _ _ _ _) as [s1 newC]. cbn [fst] in HM1.
        pose proof (inv_merge_from s1 vi (v_simNode q2) (v_simNum q2) (r_num r)) as HM2.
        destruct (merge_from s1 _ _ _ _) as [s2 newT]. cbn [fst] in HM2.
        destruct (pos_of _ _ _) as [a b]. destruct (pos_of _ _ _) as [a' b']. cbn [fst].
        apply inv_apply_gate2_at. apply HM2; auto.
Qed.

Definition ginv (s : net) : Prop := hid_inv s /\ inv s.

Theorem step_ginv s o : ginv s -> ginv (fst (step s o)).
Proof.
  intros [HI H]. split; [apply (step_hid_inv s o HI)|].
  destruct o; simpl.
  - destruct (Nat.ltb _ _); [apply inv_new; auto | exact H].
  - apply inv_gate1; auto.
  - apply inv_gate2; auto.
  - apply inv_send; auto.
  - apply inv_meas; auto.
  - destruct (Nat.ltb _ _); [apply inv_newreg; auto | exact H].
  - destruct (Nat.ltb_spec n (length (nodes s))); [apply inv_new_inreg; auto | exact H].
Qed.

Theorem run_ginv ops : forall s, ginv s -> ginv (run s ops).
Proof.
  induction ops as [|o ops IH]; intros s H; simpl; auto. apply IH. apply step_ginv; auto.
Qed.

Theorem reachable_inv caps ops : ginv (run (init_net caps) ops).
Proof. apply run_ginv. split; [apply init_hid_inv | apply init_inv]. Qed.
