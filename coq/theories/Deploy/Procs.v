(* Model D — the process list of simulaqron.network.Network (network.py 125-201).

     self.processes   two multiprocessing.Process objects per node: [vnode(node0); qnodeos(node0); vnode(node1); ...]   (152-164)
     self._running    cached answer of the [running] property                                                           (125-147)
     start()          for p in processes: if not p.is_alive(): p.start()                                                (166-187)
     stop()           _running = False ; for p in processes: while p.is_alive(): p.terminate()                          (189-201)

   A multiprocessing.Process object is in one of three conditions: never started, alive, ended.  [Process.start] on an ended
   object raises AssertionError ("cannot start a process twice").
     * [start_orig] is start() as it is in the unrepaired tree: it fails on a process list that contains an ended process;
     * [start] is start() after fixes/D20: an ended Process object is replaced by a fresh one with the same target, then started.

   What the operating system does is NOT modelled but assumed, as Section variables:
     [spawn]      the effect of Process.start on a fresh object          assumption: the child process comes to life
     [terminate]  the effect of the SIGTERM loop of stop() on a live one  assumption: the process dies (and stays dead)
   Whether real processes die, and whether their ports are released, is observed by the correspondence run, not proved. *)
From Coq Require Import List Bool Arith Lia.
Import ListNotations.

Inductive pst := Fresh | Alive | Ended.

Definition is_alive (p : pst) : bool := match p with Alive => true | _ => false end.

Record network := mkNet { procs : list pst; running_flag : bool }.

Definition new_network (nodes : nat) : network := mkNet (repeat Fresh (2 * nodes)) false.

Inductive nop := Start | Stop.

Section OS.
  Variable spawn : pst -> pst.
  Variable terminate : pst -> pst.
  Hypothesis spawn_lives : spawn Fresh = Alive.
  Hypothesis terminate_kills : terminate Alive = Ended.

  (* repaired start(): live processes are left alone, ended ones are replaced by fresh objects, fresh ones are started *)
  Definition start1 (p : pst) : pst :=
    match p with
    | Alive => Alive
    | Fresh => spawn Fresh
    | Ended => spawn Fresh
    end.
  Definition start (nw : network) : network := mkNet (map start1 (procs nw)) (running_flag nw).

  (* start() of the unrepaired tree: stops with AssertionError at the first ended process (those before it have been started) *)
  Fixpoint start_orig_list (ps : list pst) : list pst * bool :=
    match ps with
    | [] => ([], true)
    | Alive :: t => let (t', ok) := start_orig_list t in (Alive :: t', ok)
    | Fresh :: t => let (t', ok) := start_orig_list t in (spawn Fresh :: t', ok)
    | Ended :: t => (Ended :: t, false)
    end.
  Definition start_orig (nw : network) : network * bool :=
    let (ps, ok) := start_orig_list (procs nw) in (mkNet ps (running_flag nw), ok).

  Definition stop1 (p : pst) : pst := if is_alive p then terminate p else p.
  Definition stop (nw : network) : network := mkNet (map stop1 (procs nw)) false.

  Definition apply (nw : network) (o : nop) : network := match o with Start => start nw | Stop => stop nw end.
  Definition lifecycle (nodes : nat) (ops : list nop) : network := fold_left apply ops (new_network nodes).

  Definition none_alive (nw : network) : Prop := Forall (fun p => is_alive p = false) (procs nw).
  Definition all_alive (nw : network) : Prop := Forall (fun p => p = Alive) (procs nw).

  Lemma stop_empties nw : none_alive (stop nw) /\ running_flag (stop nw) = false /\ length (procs (stop nw)) = length (procs nw).
  Proof.
    unfold none_alive, stop; simpl. split; [|split; [reflexivity | apply map_length]].
    apply Forall_forall. intros p H. apply in_map_iff in H. destruct H as [q [<- _]].
    unfold stop1. destruct q; simpl; auto. rewrite terminate_kills. reflexivity.
  Qed.

  Lemma start_all_alive nw : all_alive (start nw) /\ length (procs (start nw)) = length (procs nw).
  Proof.
    unfold all_alive, start; simpl. split; [|apply map_length].
    apply Forall_forall. intros p H. apply in_map_iff in H. destruct H as [q [<- _]].
    destruct q; simpl; auto.
  Qed.

  Lemma map_const {A B} (f : A -> B) (c : B) l : (forall x, In x l -> f x = c) -> map f l = repeat c (length l).
  Proof. induction l as [|a l IH]; simpl; intros H; auto. rewrite H, IH; auto. Qed.

  Lemma start_procs nw : procs (start nw) = repeat Alive (length (procs nw)).
  Proof. unfold start; simpl. apply map_const. intros [] _; simpl; auto. Qed.

  Lemma stop_alive_map nw : map is_alive (procs (stop nw)) = repeat false (length (procs nw)).
  Proof.
    destruct (stop_empties nw) as [H [_ L]]. rewrite <- L.
    rewrite (map_const is_alive false); [reflexivity|].
    intros x Hx. unfold none_alive in H. rewrite Forall_forall in H. auto.
  Qed.

  (* starting again after a stop gives exactly the process list of the first start *)
  Lemma restartable nw : procs (start (stop (start nw))) = procs (start nw) /\ all_alive (start (stop (start nw))).
  Proof.
    split; [|apply start_all_alive].
    rewrite !start_procs. destruct (stop_empties (start nw)) as [_ [_ L]]. rewrite L.
    rewrite start_procs, repeat_length. reflexivity.
  Qed.

  Lemma apply_length nw o : length (procs (apply nw o)) = length (procs nw).
  Proof. destruct o; simpl; apply map_length. Qed.

  (* any start/stop history: two processes per node; after a start all are alive, after a stop none is *)
  Lemma lifecycle_spec nodes ops :
    let nw := lifecycle nodes ops in
    length (procs nw) = 2 * nodes /\
    (forall ops', ops = ops' ++ [Start] -> all_alive nw) /\
    (forall ops', ops = ops' ++ [Stop] -> none_alive nw /\ running_flag nw = false).
  Proof.
    unfold lifecycle. split; [|split].
    - assert (G : forall ops nw, length (procs (fold_left apply ops nw)) = length (procs nw)).
      { induction ops0 as [|o ops0 IH]; simpl; intros; auto. rewrite IH. apply apply_length. }
      rewrite G. simpl. apply repeat_length.
    - intros ops' ->. rewrite fold_left_app. simpl. apply start_all_alive.
    - intros ops' ->. rewrite fold_left_app. simpl. destruct (stop_empties (fold_left apply ops' (new_network nodes))); tauto.
  Qed.

  (* stop brings the live/not-live picture and the flag back to those of a network that was never started *)
  Lemma stop_like_new nodes ops :
    map is_alive (procs (stop (lifecycle nodes ops))) = map is_alive (procs (new_network nodes)) /\
    running_flag (stop (lifecycle nodes ops)) = running_flag (new_network nodes).
  Proof.
    split; [|reflexivity].
    rewrite stop_alive_map. destruct (lifecycle_spec nodes ops) as [L _]. rewrite L.
    unfold new_network; simpl procs.
    rewrite (map_const is_alive false); [rewrite repeat_length; auto|].
    intros x Hx. apply repeat_spec in Hx. subst. reflexivity.
  Qed.

  (* the unrepaired start() cannot start a stopped network again (witness: one node) *)
  Lemma restart_orig_fails nodes : 0 < nodes ->
    snd (start_orig (stop (fst (start_orig (new_network nodes))))) = false.
  Proof.
    destruct nodes as [|k]; [lia|]. intros _.
    unfold start_orig, stop, new_network. simpl. rewrite spawn_lives.
    destruct (start_orig_list (repeat Fresh (k + S (k + 0)))) as [l b]. simpl.
    unfold stop1. simpl. rewrite terminate_kills. simpl. reflexivity.
  Qed.
End OS.
